"""C15 / C12 at the float level — the binary64 arithmetic of the vertical step (reflecting boundaries) and of
the level search weight, bit for bit, with EXACT invariants (no rounding delta).

Self-contained (NOT registered in the harness).  Companion of
    coq/Model/VerticalFloat.v           executable binary64 models: vstep_f, vstep2_f, searchsorted_left, z2s_f
    coq/Proofs/VerticalFloatProofs.v    0 <= r <= h, 1 <= K <= N-1, 0 <= A <= 1 EXACTLY in binary64, ...
    coq/Corr/VertF.v                    check_case / check_side / check_inv : list Z -> bool
    coq/Proofs/VertFSound.v             check_side && check_bits ==> check_inv

Three kinds of cases (the layouts of Corr/VertF.v; "bits" = int.from_bytes(struct.pack(">d", x), "big")):
    [1, zb, wb, dtb, hb, rb]               one displacement:   Z += W*dt; Z[Z<0] *= -1; Z[Z>h] = 2*h - Z
    [2, zb, w1b, w2b, dtb, hb, rb]         two displacements (vertical diffusion W1, then vertical advection W2)
    [3, N, zr_0 .. zr_{N-1}, zb, K, Ab]    ladim.ROMS.z2s_kernel on one column of N levels

What runs:
  (A) the numpy statements of Tracker.update, verbatim, on 1-element float64 arrays (the "replica"), AND the REAL
      ladim.tracker.Tracker.update on a stub grid (flat bottom h) / stub forcing (w) with one particle
      (tracker_impl.make_tracker); the vertical diffusion velocity is injected through the tracker's random generator
      (Dz = dt/2 makes the real diffuse_vert's stddev exactly 1.0; where that is not exact, diffuse_vert itself is
      replaced on the instance — reported as tracker path "stub").  Replica and real Tracker must agree bit for bit.
  (B) the REAL numba-compiled ladim.ROMS.z2s_kernel and its .py_func (numpy's own searchsorted) on a (N, 1, 1) array.
Oracle (exact rational arithmetic on the observed floats): inside the hypotheses of the theorems the invariants hold
EXACTLY: 0 <= r <= h;  1 <= K <= N-1, 0 <= A <= 1;  plus the proved error bounds
|r - reflect(z + w dt)| <= 4 u h + eta  and  |A zr[K-1] + (1-A) zr[K] - (-z)| <= (4 u + eta) (zr[K] - zr[K-1]).

Run:  PYTHONPATH=/repo /venv/bin/python /verif/harness/props/vert_float.py [--words] [n] [seed ...]
"""
from __future__ import annotations

import logging
import math
import os
import random
import re
import shutil
import struct
import subprocess
import sys
import tempfile
import time
from fractions import Fraction

import numpy as np

_HERE = os.path.dirname(os.path.abspath(__file__))
for _p in (_HERE, os.path.join(_HERE, "..", "lib")):
    if _p not in sys.path:
        sys.path.insert(0, _p)

PROP = "C15/C12"
CHECKER = "Corr.VertF"
COQ_ROOT = os.environ.get("VERIF_COQ", os.path.join(_HERE, "..", "..", "coq"))

U = Fraction(1, 2 ** 53)
ETA = Fraction(1, 2 ** 1075)
TWO1000 = math.ldexp(1.0, 1000)
TWO1022 = math.ldexp(1.0, 1022)
TINY = 5e-324


def bits(x: float) -> int:
    return int.from_bytes(struct.pack(">d", float(x)), "big")


def unbits(b: int) -> float:
    return struct.unpack(">d", int(b).to_bytes(8, "big"))[0]


def _next(x, up=True):
    return math.nextafter(x, math.inf if up else -math.inf)


def _ulp(x):
    return math.ulp(x)


def _rand_double(rng, lo_exp=-1074, hi_exp=1000, signed=True):
    e = rng.randint(lo_exp, hi_exp)
    m = 1.0 + rng.random()
    s = rng.choice([-1.0, 1.0]) if signed else 1.0
    return s * math.ldexp(m, e)


# ---------------------------------------------------------------------------------------------- generation (A)
def _gen_h(rng):
    c = rng.randrange(8)
    if c == 0:
        return float(rng.randint(1, 40)) * TINY, "h-subnormal"                 # a few units of 2^-1074
    if c == 1:
        return _rand_double(rng, -1074, -1000, signed=False), "h-tiny"
    if c == 2:
        return min(_rand_double(rng, 900, 999, signed=False), TWO1000), "h-huge"
    if c == 3:
        return rng.choice([TWO1000, 1.0, 2.0 ** rng.randint(-50, 50)]), "h-pow2"
    if c == 4:
        return unbits(bits(rng.uniform(1.0, 2.0)) | 1) * 2.0 ** rng.randint(0, 9), "h-odd"   # odd mantissa: ties
    return round(rng.uniform(0.5, 5000.0), rng.choice([0, 2, 6, 15])), "h-ordinary"


def _gen_dt(rng):
    return rng.choice([1.0, 512.0, 3600.0, 600.0, 0.1, 0.5, 1e-3, 86400.0, rng.uniform(1.0, 1000.0)])


def _w_for(d, dt):
    """a velocity whose product with dt is (close to) the displacement d"""
    return d / dt


def _gen_vstep(rng):
    """one displacement; returns z, w, dt, h, category"""
    h, ch = _gen_h(rng)
    dt = _gen_dt(rng)
    c = rng.randrange(14)
    if c == 0:      # stays inside
        z = h * rng.random(); d = (h * rng.random() - z) * rng.random(); cat = "inside"
    elif c == 1:    # up through the surface
        z = h * rng.random() * rng.choice([1.0, 0.1, 0.001]); d = -(z + (h - z) * rng.random() * 0.99); cat = "surface"
    elif c == 2:    # down through the bottom
        z = h * (1 - rng.random() * rng.choice([1.0, 0.1, 0.001])); d = (h - z) + z * rng.random() * 0.99; cat = "bottom"
    elif c == 3:    # lands a few ulps around h
        z = rng.choice([h, _next(h, False), h * 0.5]); cat = "ulp-at-bottom"
        target = h
        for _ in range(rng.randint(0, 3)):
            target = _next(target, rng.random() < 0.7)
        d = target - z
    elif c == 4:    # lands a few ulps around 0
        z = rng.choice([0.0, TINY, h * rng.random()]); cat = "ulp-at-surface"
        target = rng.choice([0.0, -0.0, TINY, -TINY, -_ulp(h), _ulp(h) / 2, -_ulp(h) * 3])
        d = target - z
    elif c == 5:    # exactly on an edge: z1 = 2h or -h or h or 0
        z = rng.choice([0.0, h, h * 0.5, h * 0.25]); cat = "edge"
        d = rng.choice([2 * h, -h, h, 0.0]) - z
        if abs(d) > h:
            d = math.copysign(h, d)
    elif c == 6:    # largest displacement allowed: +-h
        z = rng.choice([0.0, h, h * rng.random()]); d = rng.choice([h, -h]); cat = "full-h"
    elif c == 7:    # zero displacement of either sign, by w, by dt, or by underflow
        z = rng.choice([0.0, -0.0, h, h * rng.random(), TINY if h >= TINY else h]); cat = "zero-disp"
        w, dt = rng.choice([(0.0, dt), (-0.0, dt), (rng.uniform(-1, 1), 0.0), (1e-200, 1e-200), (-1e-200, 1e-200), (0.0, -1.0)])
        return z, w, dt, h, ch + "/" + cat
    elif c == 8:    # z = 0, -0.0 or h with a small kick
        z = rng.choice([0.0, -0.0, h]); d = rng.choice([-1, 1]) * h * rng.random() * rng.choice([1.0, 1e-8, 1e-16]); cat = "start-on-edge"
    elif c == 9:    # OUTSIDE the hypotheses: far displacements (bits must still agree)
        z = h * rng.random(); d = rng.choice([-1, 1]) * h * rng.uniform(1.0, 6.0); cat = "far"
    elif c == 10:   # OUTSIDE: start depth outside the column, or h <= 0
        z = rng.choice([-h * rng.random(), h * (1 + rng.random()), h * rng.random()])
        d = h * rng.uniform(-1, 1); cat = "bad-start"
        if rng.random() < 0.3:
            h = rng.choice([-h, 0.0, -0.0])
    elif c == 11:   # OUTSIDE: non-finite inputs
        z = h * rng.random(); d = h * rng.uniform(-1, 1); cat = "non-finite"
        k = rng.randrange(4)
        vals = [math.nan, math.inf, -math.inf]
        if k == 0:
            z = rng.choice(vals)
        elif k == 1:
            return z, rng.choice(vals), dt, h, ch + "/" + cat
        elif k == 2:
            h = rng.choice(vals)
        else:
            return z, 1e300, 1e300, h, ch + "/" + cat                      # the product overflows
    elif c == 12:   # product w * dt that is inexact / underflows into the subnormal range
        z = h * rng.random(); cat = "inexact-product"
        w = rng.uniform(-1, 1) * h / dt * rng.choice([1.0, 0.3, 1e-3])
        return z, w, dt, h, ch + "/" + cat
    else:           # random magnitudes
        z = h * rng.random(); d = _rand_double(rng, -1074, 1000) ; cat = "wild"
        if abs(d) > h and rng.random() < 0.7:
            d = math.copysign(h * rng.random(), d)
    z = min(max(z, -h * 2), h * 3) if math.isfinite(z) and math.isfinite(h) and h > 0 else z
    return z, _w_for(d, dt), dt, h, ch + "/" + cat


def _gen_vstep2(rng):
    """two displacements; returns z, w1, w2, dt, h, category"""
    c = rng.randrange(8)
    if c == 0:      # the tie family: |d1| + |d2| = h exactly, both sums are ties rounded up -> a NEGATIVE depth
        e = rng.randint(-20, 20)
        m = (rng.getrandbits(51) << 1) | 1                                  # odd mantissa
        h = math.ldexp(1.0 + m / 2.0 ** 52, e)                               # in [2^e, 2^(e+1)), ulp = 2^(e-52)
        ul = math.ldexp(1.0, e - 52)
        d1, d2 = h - 3 * ul, 3 * ul
        return h, d1, d2, 1.0, h, "tie-counterexample"
    z, w, dt, h, cat = _gen_vstep(rng)
    if c in (1, 2) and math.isfinite(h) and h > 0:    # both exact displacements at most h/4 (inside the corollary)
        w1 = rng.uniform(-1, 1) * (h / 4) / dt if dt else 0.0
        w2 = rng.uniform(-1, 1) * (h / 4) / dt if dt else 0.0
        z = rng.choice([0.0, h, h * rng.random()])
        return z, w1, w2, dt, h, cat.split("/")[0] + "/quarter"
    if c == 3:      # the two displacements cancel
        return z, w, -w, dt, h, cat + "+cancel"
    if c == 4:      # diffusion off in effect (w1 = 0)
        return z, rng.choice([0.0, -0.0]), w, dt, h, cat + "+w1zero"
    # split one displacement in two
    f = rng.random()
    return z, w * f, w * (1 - f), dt, h, cat + "+split"


# ---------------------------------------------------------------------------------------------- generation (B)
def _gen_levels(rng):
    """a column of levels (usually sorted) and its category"""
    c = rng.randrange(12)
    n = rng.choice([2, 2, 3, 5, 8, 16, 35, rng.randint(2, 42)])
    if c <= 2:      # ROMS-like: negative depths, non-uniform stretching
        h = rng.uniform(5.0, 4000.0)
        s = sorted(rng.random() ** rng.choice([1, 2, 3]) for _ in range(n))
        zr = sorted(-h * (1 - x * 0.999) for x in s)
        return _strict(zr), "roms"
    if c == 3:      # neighbours in the last bit
        x = -_rand_double(rng, -30, 30, signed=False)
        zr = [x]
        for _ in range(n - 1):
            x = _next(x)
            if rng.random() < 0.3:
                x = _next(x)
            zr.append(x)
        return zr, "ulp-apart"
    if c == 4:      # subnormal levels, units of 2^-1074
        ks = sorted(rng.sample(range(-60, 60), n)) if n <= 100 else []
        return [k * TINY for k in ks], "subnormal"
    if c == 5:      # huge levels of both signs, up to 2^1022
        zr = sorted(_rand_double(rng, 900, 1021) for _ in range(n))
        if rng.random() < 0.5:
            zr[0], zr[-1] = -TWO1022, TWO1022
        return _strict(sorted(zr)), "huge"
    if c == 6:      # every magnitude, both signs
        return _strict(sorted(_rand_double(rng, -1074, 1000) for _ in range(n))), "wild"
    if c == 7:      # sorted but NOT strictly: equal neighbours (inside the hypotheses: non-decreasing)
        base = sorted(-rng.uniform(0.0, 100.0) for _ in range(max(2, n // 2)))
        zr = sorted(rng.choice(base) for _ in range(n))
        return zr, "plateaus"
    if c == 8:      # evenly spaced, dyadic
        dz = 2.0 ** rng.randint(-8, 3)
        return [-(n - i) * dz for i in range(n)], "uniform"
    if c == 9:      # OUTSIDE the hypotheses: unsorted / non-finite / one level / too large
        k = rng.randrange(5)
        if k == 0:
            zr = [-rng.uniform(0.0, 100.0) for _ in range(n)]
            return zr, "unsorted"
        if k == 1:
            zr = sorted(-rng.uniform(0.0, 100.0) for _ in range(n)); zr[rng.randrange(n)] = math.nan
            return zr, "nan-level"
        if k == 2:
            zr = sorted(-rng.uniform(0.0, 100.0) for _ in range(n)); zr[0] = -math.inf
            if rng.random() < 0.5:
                zr[-1] = math.inf
            return zr, "inf-level"
        if k == 3:
            return [-rng.uniform(0.0, 100.0)], "one-level"
        return [-1.5 * math.ldexp(1.0, 1023), 1.5 * math.ldexp(1.0, 1023)], "overflowing"
    if c == 10:     # two levels only
        a = -rng.uniform(1.0, 100.0)
        return [a, a + rng.choice([1.0, 1e-9, 50.0, _ulp(a)])], "two-levels"
    h = rng.uniform(1.0, 300.0)
    return [-h + i * h / n for i in range(n)], "linear"


def _strict(zr):
    out = []
    for x in zr:
        if not out or x > out[-1]:
            out.append(x)
    while len(out) < 2:
        out.append(_next(out[-1]) if out else -1.0)
    return out


def _gen_depth(rng, zr):
    fin = [x for x in zr if math.isfinite(x)] or [-1.0]
    lo, hi = min(fin), max(fin)
    c = rng.randrange(12)
    i = rng.randrange(len(fin))
    if c == 0:
        return -fin[i], "on-level"
    if c == 1:
        return -_next(fin[i], True), "ulp-above-level"
    if c == 2:
        return -_next(fin[i], False), "ulp-below-level"
    if c == 3:
        return rng.choice([0.0, -0.0]), "surface"
    if c == 4:
        x = -hi - abs(hi) * rng.random() - rng.random() * (hi - lo) * 0.1
        return (x if math.isfinite(x) else 0.0), "beyond-last"
    if c == 5:
        x = -lo + abs(lo) * rng.random() + rng.random() * (hi - lo) * 0.1
        return (x if math.isfinite(x) else -lo), "beyond-first"
    if c == 6 and len(fin) >= 2:
        j = rng.randrange(len(fin) - 1)
        return -(fin[j] / 2 + fin[j + 1] / 2), "midpoint"
    if c == 7:
        return rng.choice([math.nan, math.inf, -math.inf]), "non-finite-z"
    if c == 8 and len(fin) >= 2:
        j = rng.randrange(len(fin) - 1)
        t = rng.choice([1e-17, 1e-9, 1 - 1e-9, 1 - 1e-16])
        return -(fin[j] + (fin[j + 1] - fin[j]) * t) if math.isfinite(fin[j + 1] - fin[j]) else -fin[j], "near-level"
    t = rng.random()
    x = -(lo * t + hi * (1 - t))
    return (x if math.isfinite(x) else 0.0), "between"


# ---------------------------------------------------------------------------------------------- fixed cases
def _fixed_cases():
    """the nasty inputs of the Coq examples, replayed on the real code"""
    h = 1.5 + 2.0 ** -52
    out = [
        {"k": "v2", "z": h, "w1": 1.5 - 2.0 ** -51, "w2": 3 * 2.0 ** -52, "dt": 1.0, "h": h, "cat": "fixed/tie-counterexample"},
        {"k": "v1", "z": 100.0, "w": 2.0 ** -46, "dt": 1.0, "h": 100.0, "cat": "fixed/ulp-above-h"},
        {"k": "v1", "z": 3 * TINY, "w": TINY, "dt": 1.0, "h": 3 * TINY, "cat": "fixed/h-subnormal"},
        {"k": "v1", "z": 0.0, "w": -1.0, "dt": 1.0, "h": 100.0, "cat": "fixed/z0-up"},
        {"k": "v1", "z": 0.0, "w": -100.0, "dt": 1.0, "h": 100.0, "cat": "fixed/z0-up-h"},
        {"k": "v1", "z": 100.0, "w": 100.0, "dt": 1.0, "h": 100.0, "cat": "fixed/zh-down-h"},
        {"k": "v1", "z": -0.0, "w": 0.0, "dt": 1.0, "h": 100.0, "cat": "fixed/negzero+0"},
        {"k": "v1", "z": -0.0, "w": -0.0, "dt": 1.0, "h": 100.0, "cat": "fixed/negzero-0"},
        {"k": "v1", "z": TWO1000, "w": TWO1000, "dt": 1.0, "h": TWO1000, "cat": "fixed/huge"},
        {"k": "v1", "z": 9.10222, "w": 2.0 ** -600, "dt": 2.0 ** -600, "h": 100.0, "cat": "fixed/underflow-product"},
        {"k": "z2s", "zr": [-(1 + 2.0 ** -51), -(1 + 2.0 ** -52), -1.0], "z": 1.0, "cat": "fixed/ulp-levels"},
        {"k": "z2s", "zr": [-(1 + 2.0 ** -51), -(1 + 2.0 ** -52), -1.0], "z": 1 + 2.0 ** -52, "cat": "fixed/ulp-levels"},
        {"k": "z2s", "zr": [-(1 + 2.0 ** -51), -(1 + 2.0 ** -52), -1.0], "z": 1 + 2.0 ** -51, "cat": "fixed/ulp-levels"},
        {"k": "z2s", "zr": [-3 * TINY, -2 * TINY, -TINY], "z": 2 * TINY, "cat": "fixed/subnormal-levels"},
        {"k": "z2s", "zr": [-3 * TINY, -2 * TINY, -TINY], "z": TINY, "cat": "fixed/subnormal-levels"},
        {"k": "z2s", "zr": [-10.0, -5.0, -1.0], "z": -0.0, "cat": "fixed/negzero"},
        {"k": "z2s", "zr": [-TWO1022, TWO1022], "z": 0.0, "cat": "fixed/huge-levels"},
        {"k": "z2s", "zr": [-1.5 * 2.0 ** 1023, 1.5 * 2.0 ** 1023], "z": 1.25 * 2.0 ** 1023, "cat": "fixed/overflow-nan"},
        {"k": "z2s", "zr": [-10.1, -5.3, -1.7], "z": 3.3, "cat": "fixed/general"},
    ]
    for d in out:
        for key in ("z", "w", "w1", "w2", "dt", "h"):
            if key in d:
                d[key] = bits(d[key])
        if "zr" in d:
            d["zr"] = [bits(x) for x in d["zr"]]
    return out


def gen_vert_cases(rng, n):
    """n JSON-serialisable case descriptions (floats as bit patterns); `rng` is a random.Random"""
    out = _fixed_cases()[:n]
    t = 0
    while len(out) < n:
        kind = ("v1", "v2", "z2s")[t % 3]
        t += 1
        if kind == "v1":
            z, w, dt, h, cat = _gen_vstep(rng)
            out.append({"k": "v1", "z": bits(z), "w": bits(w), "dt": bits(dt), "h": bits(h), "cat": cat})
        elif kind == "v2":
            z, w1, w2, dt, h, cat = _gen_vstep2(rng)
            out.append({"k": "v2", "z": bits(z), "w1": bits(w1), "w2": bits(w2), "dt": bits(dt), "h": bits(h), "cat": cat})
        else:
            zr, cl = _gen_levels(rng)
            z, cz = _gen_depth(rng, zr)
            out.append({"k": "z2s", "zr": [bits(x) for x in zr], "z": bits(z), "cat": cl + "/" + cz})
    return out


# ---------------------------------------------------------------------------------------------- evaluation (A)
class _StubRng:
    """stands in for the tracker's numpy Generator: normal() hands out the prescribed draws"""

    def __init__(self, vals):
        self.vals = vals

    def normal(self, size=None):
        return np.array(self.vals, dtype=float)


def replica_vstep(z, ws, dt, h):
    """the numpy statements of Tracker.update, verbatim, one particle; returns (result, z1 before the reflections)"""
    Z = np.array([z], dtype=np.float64)
    hh = np.array([h], dtype=np.float64)
    dtv = np.float64(dt)
    with np.errstate(all="ignore"):
        for w in ws:
            W = np.array([w], dtype=np.float64)
            Z += W * dtv
        z1 = float(Z[0])
        Z[Z < 0] *= -1
        below_seabed = Z > hh
        Z[below_seabed] = 2 * hh[below_seabed] - Z[below_seabed]
    return float(Z[0]), z1


def real_tracker_vstep(z, w1, w2, dt, h):
    """the REAL Tracker.update, one particle on a flat stub grid; w1 (diffusion) may be None; returns (Z, path)"""
    import tracker_impl as ti

    logging.getLogger("ladim.tracker").setLevel(logging.ERROR)
    grid = ti.StubGrid(0, 10, 0, 10, 1.0, 1.0, h=h)
    forcing = ti.StubForcing(U=np.zeros(1), V=np.zeros(1), w=np.array([w2], dtype=np.float64))
    tr, st, _ = ti.make_tracker(grid, forcing, 1, "", diffusion=0.0, vertdiff=(1.0 if w1 is not None else 0.0), vertical_advection=True)
    tr.dt = np.float64(dt)            # the tracker reads its time step from this attribute only
    path = "advection"
    if w1 is not None:
        with np.errstate(all="ignore"):
            dz = np.float64(dt) / 2
            std = (2 * dz / np.float64(dt)) ** 0.5
        if std == 1.0:                # the real diffuse_vert: W = 1.0 * draw
            tr.Dz = dz
            tr.rng = _StubRng([w1])
            path = "rng"
        else:                         # dt so small/odd that stddev is not exactly 1: replace the method on the instance
            tr.diffuse_vert = lambda num_particles: np.array([w1], dtype=np.float64)
            path = "stub"
    st.append(X=np.array([5.0]), Y=np.array([5.0]), Z=np.array([z], dtype=np.float64))
    with np.errstate(all="ignore"):
        tr.update()
    return float(st.Z[0]), path


def _reflect_exact(x: Fraction, h: Fraction) -> Fraction:
    return h - abs(abs(x) - h)


def eval_vstep(desc):
    two = desc["k"] == "v2"
    z, dt, h = unbits(desc["z"]), unbits(desc["dt"]), unbits(desc["h"])
    ws = [unbits(desc["w1"]), unbits(desc["w2"])] if two else [unbits(desc["w"])]
    r, z1 = replica_vstep(z, ws, dt, h)
    r_real, path = real_tracker_vstep(z, ws[0] if two else None, ws[-1], dt, h)
    ints = ([2, desc["z"], desc["w1"], desc["w2"]] if two else [1, desc["z"], desc["w"]]) + [desc["dt"], desc["h"], bits(r)]
    problems = []
    if bits(r) != bits(r_real) and not (math.isnan(r) and math.isnan(r_real)):
        problems.append(f"replica {r!r} ({bits(r):#x}) and the real Tracker.update {r_real!r} ({bits(r_real):#x}) differ")
    # ---- hypotheses, evaluated independently (exact comparisons of floats are exact)
    fin_in = all(math.isfinite(x) for x in [z, dt, h] + ws)
    depth_ok = math.isfinite(h) and 0 < h <= TWO1000
    start_ok = depth_ok and math.isfinite(z) and 0 <= z <= h
    side = bool(start_ok and math.isfinite(z1) and -h <= z1 <= 2 * h)       # = Corr.VertF.check_side
    inputs_ok = False                                                      # the sufficient conditions on the INPUTS
    if start_ok and fin_in:
        fh, fd = Fraction(h), Fraction(dt)
        if not two:
            inputs_ok = abs(Fraction(ws[0]) * fd) <= fh
        else:
            inputs_ok = h >= math.ldexp(1.0, -1020) and all(abs(Fraction(w) * fd) <= fh / 4 for w in ws)
    in_col = math.isfinite(r) and 0 <= r <= h
    if inputs_ok and not side:
        problems.append(f"inputs satisfy |w dt| <= h{'/4' if two else ''} but the rounded sum z1 = {z1!r} is outside [-h, 2h] (contradicts vdisp_f_range)")
    if (side or inputs_ok) and not in_col:
        problems.append(f"depth {r!r} outside [0, {h!r}] although the hypotheses hold (z1 = {z1!r})")
    err_rel = None
    if inputs_ok and not two and in_col:
        exact = _reflect_exact(Fraction(z) + Fraction(ws[0]) * Fraction(dt), Fraction(h))
        bound = 4 * U * Fraction(h) + ETA
        err = abs(Fraction(r) - exact)
        err_rel = float(err / bound)
        if err > bound:
            problems.append(f"|r - exact reflection| = {float(err):.3e} exceeds 4 u h + eta = {float(bound):.3e}")
    # zero displacement: unchanged bit for bit (except -0.0 + +0.0)
    if start_ok and fin_in and not two:
        with np.errstate(all="ignore"):
            d = float(np.float64(ws[0]) * np.float64(dt))
        if d == 0.0 and not (bits(z) == bits(-0.0)) and bits(r) != bits(z):
            problems.append(f"zero displacement changed the depth: {z!r} -> {r!r}")
    reflected = side and (z1 < 0 or z1 > h)
    return {"ints": ints, "oracle": problems[0] if problems else None, "side": side, "inputs_ok": inputs_ok,
            "nontrivial": (desc["z"] % 9973, desc["h"] % 9973, "top" if z1 < 0 else "bottom") if reflected else None,
            "kind": ("v2-" if two else "v1-") + desc["cat"].split("/")[-1],
            "observed": {"result": r, "result_hex": float(r).hex(), "result_bits": bits(r), "z1": z1, "real_tracker": r_real,
                         "real_tracker_same_bits": bits(r) == bits(r_real) or (math.isnan(r) and math.isnan(r_real)),
                         "tracker_path": path, "in_column": in_col, "err_over_bound": err_rel}}


# ---------------------------------------------------------------------------------------------- evaluation (B)
_kernel = None


def _get_kernel():
    global _kernel
    if _kernel is None:
        from ladim.ROMS import z2s_kernel

        _kernel = z2s_kernel
    return _kernel


def eval_z2s(desc):
    kern = _get_kernel()
    zr = [unbits(b) for b in desc["zr"]]
    z = unbits(desc["z"])
    n = len(zr)
    z_rho = np.array(zr, dtype=np.float64).reshape(n, 1, 1)
    I, J, Z = np.array([0]), np.array([0]), np.array([z], dtype=np.float64)
    Kc, Ac = kern(I, J, Z, z_rho)
    with np.errstate(all="ignore"):
        Kp, Ap = kern.py_func(I, J, Z, z_rho)
    K, A = int(Kc[0]), float(Ac[0])
    ints = [3, n] + list(desc["zr"]) + [desc["z"], K, bits(A)]
    problems = []
    same_py = int(Kp[0]) == K and (bits(float(Ap[0])) == bits(A) or (math.isnan(A) and math.isnan(float(Ap[0]))))
    fin = all(math.isfinite(x) for x in zr)
    sorted_ok = fin and all(zr[i] <= zr[i + 1] for i in range(n - 1))
    side = bool(n >= 2 and fin and all(abs(x) <= TWO1022 for x in zr) and sorted_ok and math.isfinite(z))   # = check_side
    if not same_py and (sorted_ok or n <= 1):
        problems.append(f"compiled kernel (K, A) = ({K}, {A!r}) and py_func ({int(Kp[0])}, {float(Ap[0])!r}) differ")
    inv = 1 <= K <= n - 1 and math.isfinite(A) and 0 <= A <= 1
    middle = False
    err_rel = None
    if side:
        if not inv:
            problems.append(f"(K, A) = ({K}, {A!r}) violates 1 <= K <= N-1 = {n - 1}, 0 <= A <= 1 although the hypotheses hold")
        else:
            # the property text in exact arithmetic: K brackets the clamped depth, the weighted depth is the clamped depth
            fz = [Fraction(x) for x in zr]
            target = min(max(-Fraction(z), fz[0]), fz[-1])
            got = Fraction(A) * fz[K - 1] + (1 - Fraction(A)) * fz[K]
            D = fz[K] - fz[K - 1]
            bound = (4 * U + ETA) * D
            err = abs(got - target)
            middle = fz[0] < -Fraction(z) <= fz[-1]
            if not (fz[K - 1] <= target <= fz[K]):
                problems.append(f"K = {K}: the clamped depth {float(target)!r} is not between zr[K-1] and zr[K]")
            elif err > bound:
                problems.append(f"|A zr[K-1] + (1-A) zr[K] - clamped depth| = {float(err):.3e} exceeds (4u + eta)(zr[K] - zr[K-1]) = {float(bound):.3e}")
            if not middle and err != 0:
                problems.append(f"outside the column of levels the weighted depth must be the end level exactly, off by {float(err):.3e}")
            err_rel = float(err / bound) if bound else 0.0
    return {"ints": ints, "oracle": problems[0] if problems else None, "side": side, "inputs_ok": side,
            "nontrivial": (desc["z"] % 9973, n, K) if (side and middle and 0 < A < 1) else None,
            "kind": "z2s-" + desc["cat"].split("/")[0],
            "observed": {"K": K, "A": A, "A_hex": float(A).hex(), "A_bits": bits(A), "py_func_same": same_py, "N": n,
                         "invariant": inv, "err_over_bound": err_rel}}


def eval_vert_case(desc):
    """dict(ints, oracle, nontrivial, kind, observed) (+ side, inputs_ok) for one case description"""
    return eval_z2s(desc) if desc["k"] == "z2s" else eval_vstep(desc)


# ---------------------------------------------------------------------------------------------- Coq bridge
def to_words(case):
    out = []
    for z in case:
        out += [z >> 32, z & 0xFFFFFFFF]
    return out


def write_cases_v(path, cases, mode="z"):
    with open(path, "w") as f:
        f.write("From Coq Require Import ZArith List Uint63.\nRequire Import Ladim.Corr.VertF.\nImport ListNotations.\n")
        if mode == "z":
            f.write("Open Scope Z_scope.\nDefinition cases : list (list Z) := [\n")
            f.write(";\n".join("  [" + "; ".join(hex(z) for z in c) + "]" for c in cases))
            f.write("\n].\nEval vm_compute in (report cases).\n")
        else:
            f.write("Open Scope uint63_scope.\nDefinition cases : list (list int) := [\n")
            f.write(";\n".join("  [" + "; ".join(str(z) for z in to_words(c)) + "]" for c in cases))
            f.write("\n].\nEval vm_compute in (report_w cases).\n")


def _parse_report(out):
    flat = " ".join(out.split())
    m = re.search(r"= \(\s*(\[[^\]]*\])\s*,\s*(\[[^\]]*\])\s*,\s*(\[[^\]]*\])\s*\)", flat)
    if not m:
        return None
    res = []
    for g in m.groups():
        body = g.strip()[1:-1].replace("%Z", "").replace(";", " ")
        res.append([int(t) for t in body.split()])
    return res


def run_coq(cases, timeout=900, keep=None, mode="z"):
    """returns ((failing, outside, violating) or None on error, seconds, raw output)"""
    d = tempfile.mkdtemp(prefix="vertf_")
    try:
        vf = os.path.join(d, "Scratch_vert_cases.v")
        write_cases_v(vf, cases, mode)
        t0 = time.time()
        pr = subprocess.run(["coqc", "-Q", os.path.abspath(COQ_ROOT), "Ladim", vf], cwd=d, capture_output=True, text=True, timeout=timeout)
        dt = time.time() - t0
        out = pr.stdout + pr.stderr
        if keep:
            shutil.copy(vf, keep)
        if pr.returncode != 0:
            return None, dt, out
        return _parse_report(out), dt, out
    finally:
        shutil.rmtree(d, ignore_errors=True)


def _tamper(c):
    """flip the last bit of the observed float (the sign, if it is a zero; 1.0 instead of a NaN); every third kind-3 case: K off by one"""
    c = list(c)
    if c[0] == 3 and c[-1] % 3 == 0:
        c[-2] += 1
    elif (c[-1] >> 52) & 0x7FF == 0x7FF and c[-1] & ((1 << 52) - 1):   # a NaN: every NaN pattern is the same float
        c[-1] = 0x3FF0000000000000
    else:
        c[-1] ^= (1 << 63) if (c[-1] & ((1 << 63) - 1)) == 0 else 1
    return c


def selftest(n=300, seed=1, verbose=True, mode="z"):
    rng = random.Random(seed)
    t0 = time.time()
    descs = gen_vert_cases(rng, n)
    res = [eval_vert_case(d) for d in descs]
    t_py = time.time() - t0
    cases = [r["ints"] for r in res]
    oracle_bad = [(k, r["oracle"]) for k, r in enumerate(res) if r["oracle"]]
    expect_outside = [k for k, r in enumerate(res) if not r["side"]]
    n_inputs = sum(1 for r in res if r["inputs_ok"])
    nontriv = len({r["nontrivial"] for r in res if r["nontrivial"] is not None})
    real_bad = [k for k, r in enumerate(res) if r["observed"].get("real_tracker_same_bits") is False or r["observed"].get("py_func_same") is False and r["side"]]
    neg_depth = [k for k, r in enumerate(res) if r["kind"].startswith("v") and not r["side"] and r["kind"].endswith("tie-counterexample") and r["observed"]["result"] < 0]
    worst = max([(r["observed"].get("err_over_bound") or 0.0) for r in res] + [0.0])
    rep, t_coq, out = run_coq(cases, mode=mode)
    tampered, expect = [], []
    for k, c in enumerate(cases):
        if k % 7 == 3:
            tampered.append(_tamper(c)); expect.append(k)
        else:
            tampered.append(list(c))
    rep_t, t_coq2, out2 = run_coq(tampered, mode=mode)
    ok = (rep is not None and rep[0] == [] and rep[1] == expect_outside and rep[2] == [] and not oracle_bad and not real_bad
          and rep_t is not None and rep_t[0] == expect)
    if verbose:
        kinds = {}
        for r in res:
            kk = r["kind"].split("-")[0]
            kinds[kk] = kinds.get(kk, 0) + 1
        paths = {}
        for r in res:
            p = r["observed"].get("tracker_path")
            if p:
                paths[p] = paths.get(p, 0) + 1
        print(f"seed {seed}: {n} cases {dict(sorted(kinds.items()))}; inside the hypotheses: {n - len(expect_outside)} "
              f"(of which the sufficient conditions on the inputs hold: {n_inputs}); distinct non-trivial (a reflection happened / "
              f"0 < A < 1): {nontriv}")
        print(f"  real code in Python: {t_py:.2f} s; real Tracker.update vs replica / compiled vs py_func disagreements: {len(real_bad)}; "
              f"tracker paths {paths}; oracle failures: {len(oracle_bad)}; largest observed error / proved bound: {worst:.3f}; "
              f"tie counterexamples with a NEGATIVE depth from the real code: {len(neg_depth)}")
        for k, m in oracle_bad[:5]:
            print(f"    oracle case {k}: {m}\n      {descs[k]}")
        for k in real_bad[:5]:
            print(f"    real-code disagreement case {k}: {descs[k]} observed {res[k]['observed']}")
        if rep is None:
            print("  coqc FAILED:\n" + out[-2000:])
        else:
            print(f"  Coq ({CHECKER}.{'report' if mode == 'z' else 'report_w'}, vm_compute) in {t_coq:.2f} s incl. coqc start-up: "
                  f"{n - len(rep[0])}/{n} cases agree BIT FOR BIT (failing: {rep[0][:20]}); "
                  f"outside the hypotheses: {len(rep[1])} (same set as computed in Python: {rep[1] == expect_outside}); "
                  f"inside with a violated invariant: {rep[2][:20]}")
            for k in rep[0][:5]:
                print(f"    failing case {k}: {descs[k]} observed {res[k]['observed']}")
            if rep[1] != expect_outside:
                diff = sorted(set(rep[1]) ^ set(expect_outside))
                for k in diff[:5]:
                    print(f"    side conditions differ, case {k}: {descs[k]} python side = {res[k]['side']}")
        if rep_t is None:
            print("  negative control: coqc FAILED:\n" + out2[-2000:])
        else:
            print(f"  negative control (observed value off by one ulp / sign of zero / K off by one in {len(expect)} cases): "
                  f"rejected exactly those: {rep_t[0] == expect}")
        print("  RESULT:", "OK" if ok else "PROBLEM")
    return ok


if __name__ == "__main__":
    words = "--words" in sys.argv
    args = [int(a) for a in sys.argv[1:] if a != "--words"]
    n = args[0] if args else 300
    seeds = args[1:] or [1, 2, 3]
    good = all([selftest(n, s, mode="words" if words else "z") for s in seeds])
    print("ALL OK" if good else "SOME PROBLEM")
    sys.exit(0 if good else 1)
