"""C17 at scale: the deterministic family of large / long simulations of the quick and the thorough tier.

The scenario space of c17.write_scenario (fast flow towards an open boundary, RK2/RK4/EF, sub-rectangles with
i0 != j0, variable bathymetry, particles at the surface, at and below the bottom) at realistic sizes:
  * particles in the state: 1000 ... 130000, straddling powers of two and round decimal numbers;
  * a state that grows and shrinks during the run (a release of 1500 every step, deaths at the boundary), so that
    the number of particles is different in every step;
  * a large grid (700 columns / 700 rows, 35 levels) with the sub-rectangle at its far end, float32 state positions;
  * a long run: 1300 steps, 14 forcing files of two frames each, a release every tenth step.
The descriptions are fixed (not drawn from the run's random generator): the same cases in every run.

Only files are written here; the simulations are run and judged by c17.eval_sim (the kernels' Python bodies on
index-recording arrays, one evaluation per DISTINCT argument row, every particle accounted for through the inverse
index) and by c17.eval_boundscheck (the compiled kernels on all particles under NUMBA_BOUNDSCHECK=1).
"""
from __future__ import annotations

import math

import numpy as np

import romsfiles as rf

DIRS = [(1, 0), (-1, 0), (0, 1), (0, -1), (1, 1), (-1, -1), (1, -1), (-1, 1)]
P = 16          # distinct release positions of a scale case (the particles are copies of these, in random order)


def scale_descs():
    """(descriptions run in-process and under bounds checking, descriptions run under bounds checking only)"""
    both, bconly = [], []

    def add(lst, n, adv, dr, speed, **kw):
        sc = {"n": n}
        sc.update({k: kw.pop(k) for k in list(kw) if k in ("steps", "files", "grid", "every", "per_release")})
        desc = {"k": "sim", "seed": 170000 + len(both) + len(bconly), "adv": adv, "dir": dr, "speed": speed, "diffusion": False, "scale": sc}
        desc.update(kw)
        lst.append(desc)

    add(both, 1025, "RK4", 0, 1.8)
    add(both, 4097, "RK2", 1, 2.6)
    add(both, 5000, "RK4", 2, 1.8)
    add(both, 10000, "RK2", 3, 2.6)
    add(both, 20000, "RK4", 4, 1.3)
    add(both, 40000, "RK2", 5, 2.6)
    add(both, 70000, "RK2", 6, 1.8)
    add(both, 130000, "RK4", 7, 1.8)
    # the number of particles changes in every step: 1500 released per step, the ones that reach the boundary die
    add(both, 1500, "RK4", 0, 1.3, steps=10, every=1, per_release=1500, grid="mid")
    # large grid, sub-rectangle at its far end, float32 state positions
    add(both, 6000, "RK4", 0, 1.8, grid="wide", f32=True)
    add(both, 6000, "RK2", 2, 2.6, grid="tall", f32=True)
    # compiled kernels only
    add(bconly, 1000, "RK2", 0, 2.6)
    add(bconly, 1024, "RK4", 2, 1.8)
    add(bconly, 4096, "RK4", 1, 2.6)
    add(bconly, 8193, "RK2", 4, 2.6)
    add(bconly, 65537, "RK4", 3, 1.8, f32=True)
    add(bconly, 20000, "RK4", 0, 1.8, diffusion=True)
    add(bconly, 50000, "EF", 5, 2.6)
    add(bconly, 100000, "RK2", 0, 1.8)
    # late in the life of a simulation: 1300 steps, 14 forcing files, 6 particles released every tenth step
    add(bconly, 6, "RK4", 0, 1.8, steps=1300, files=14, every=10, per_release=6)
    add(bconly, 6, "RK2", 3, 2.6, steps=1100, files=13, every=7, per_release=6)
    for dsc in bconly:
        dsc["bc_only"] = True
    return both, bconly


def describe(desc):
    sc = desc["scale"]
    s = f" SCALE case: {sc['n']} particles"
    if sc.get("every"):
        s = f" SCALE case: {sc.get('per_release', sc['n'])} particles released every {sc['every']} step(s)"
    s += f", {sc.get('steps', 3)} steps"
    if sc.get("files", 1) > 1:
        s += f", {sc['files']} forcing files"
    if sc.get("grid", "small") != "small":
        s += f", {sc['grid']} grid"
    return s + f" (seed {desc['seed']})"


def write_scale_scenario(d, desc):
    """files + configuration of one scale simulation, all derived from the description"""
    sc = desc["scale"]
    rng = np.random.default_rng(desc["seed"])
    n, nsteps, nfiles, grid = int(sc["n"]), int(sc.get("steps", 3)), int(sc.get("files", 1)), sc.get("grid", "small")
    dt, dx = 600, 1000.0
    if grid == "wide":
        imax0, jmax0, N = 700, 20, 35
    elif grid == "tall":
        imax0, jmax0, N = 18, 700, 35
    elif grid == "mid":
        imax0, jmax0, N = 64, 40, 5
    else:
        imax0, jmax0, N = int(rng.integers(14, 21)), int(rng.integers(12, 17)), int(rng.integers(2, 5))
    h = rng.uniform(30, 200, size=(jmax0, imax0))
    while True:
        i0 = int(rng.integers(1, min(imax0 - 6, 12))); i1 = int(rng.integers(max(i0 + 5, imax0 - 6), imax0))
        j0 = int(rng.integers(1, min(jmax0 - 6, 12))); j1 = int(rng.integers(max(j0 + 5, jmax0 - 6), jmax0))
        if grid == "wide":
            i0 = int(rng.integers(600, 650))
        if grid == "tall":
            j0 = int(rng.integers(600, 650))
        if i0 != j0:
            break
    sub = g = (i0, i1, j0, j1)
    dxs, dys = DIRS[desc["dir"]]
    speed = desc["speed"] * dx / dt       # cells per step -> m/s
    lev = 1.0 + 0.15 * (np.arange(N) % 4)[:, None, None]

    # forcing: one file with two frames, or nfiles files with two frames each (flow strength varies between frames)
    if nfiles == 1:
        frames = [0, dt * (nsteps + 1)]
    else:
        gap = math.ceil((nsteps + 1) / (2 * nfiles - 1))
        frames = [k * gap * dt for k in range(2 * nfiles)]
    fac = [[1.0, 1.25, 0.75][k % 3] if nfiles > 1 else 1.0 for k in range(len(frames))]
    u1 = dxs * speed * lev * np.ones((N, jmax0, imax0 - 1))
    v1 = dys * speed * lev * np.ones((N, jmax0 - 1, imax0))
    temp = rng.uniform(0, 10, size=(N, jmax0, imax0))
    names = []
    for f in range(max(nfiles, 1)):
        ks = [2 * f, 2 * f + 1]
        name = d / ("f.nc" if nfiles == 1 else f"f_{f:03d}.nc")
        rf.write_roms(name, imax=imax0, jmax=jmax0, N=N, times=[frames[k] for k in ks], u=np.stack([fac[k] * u1 for k in ks]),
                      v=np.stack([fac[k] * v1 for k in ks]), h=h, dx=dx, extra={"temp": np.stack([temp, temp])})
        names.append(name)

    # P distinct positions inside the valid region; the first 12 within reach of the boundary the flow points to, the
    # first 4 so close that a Runge-Kutta stage position of theirs lies beyond the velocity domain
    xlo, xhi, ylo, yhi = g[0] + 0.5, g[1] - 1.5, g[2] + 0.5, g[3] - 1.5
    pats = []
    for p in range(P):
        def coord(lo, hi, sgn):
            reach = [0.001, 0.05, 0.1, 0.02][p] if p < 4 else float(rng.choice([0.001, 0.05, 0.3, 0.7, 1.2, 2.0]))
            if desc.get("f32"):      # still inside after the first (float64) steps, within reach afterwards
                reach += desc["speed"] * (p % 3)
            u = float(rng.uniform(lo + 0.001, hi - 0.001))
            if sgn > 0 and p < 12:
                return max(hi - reach, lo + 0.001)
            if sgn < 0 and p < 12:
                return min(lo + reach, hi - 0.001)
            return u
        X, Y = coord(xlo, xhi, dxs), coord(ylo, yhi, dys)
        hh = float(h[round(Y), round(X)])
        Z = float([0.0, hh, hh + 3.0, float(rng.uniform(0, hh))][int(rng.integers(0, 4))])
        pats.append((X, Y, Z))
    every, per = int(sc.get("every", 0)), int(sc.get("per_release", n))
    times = [0] if not every else [k * every * dt for k in range(0, (nsteps - 1) // every + 1)]
    lines = []
    for t in times:
        m = n if not every else per
        idx = rng.integers(0, P, size=m)
        idx[:min(4, m)] = np.arange(min(4, m))
        if m >= 8:
            idx[-4:] = [3, 2, 1, 0]
        pl = [f"{rf.iso(int(t))} {X!r} {Y!r} {Z!r}" for X, Y, Z in pats]
        lines.extend([pl[i] for i in idx])
    (d / "r.rls").write_text("\n".join(lines) + "\n")
    outper = dt if nsteps <= 20 else dt * 100
    conf = rf.base_config(start=0, stop=dt * nsteps, dt=dt, forcing_file=(names[0] if nfiles == 1 else d / "f_*.nc"),
                          grid_file=names[0], release_file=d / "r.rls", out_file=d / "out.nc", advection=desc["adv"], subgrid=sub,
                          output_period=outper, instance_variables=("pid", "X", "Y", "Z", "temp"))
    conf["state"] = {"instance_variables": {"temp": "float"}, "default_values": {"temp": 0.0}}
    conf["forcing"]["extra_forcing"] = ["temp"]
    if desc.get("diffusion"):
        conf["tracker"]["diffusion"] = 50.0
    return conf, {"sub": sub, "g": g, "shape": (imax0, jmax0, N), "rows": [[0, *p] for p in pats], "n": n}


def row_groups(*cols):
    """distinct rows of the equally long 1D arrays `cols`: (index of a representative particle of every distinct row,
    inverse index particle -> distinct row, number of particles per distinct row).  Exact (no hashing of values)."""
    n = len(cols[0])
    code = np.zeros(n, dtype=np.int64)
    for c in cols:
        c = np.ascontiguousarray(c)
        if c.dtype.kind == "f":
            c = c.astype(np.float64).view(np.int64)      # bit patterns (-0.0 and 0.0 stay distinct: harmless)
        uc, inv = _factor(c)
        _, code = _factor(code * len(uc) + inv)           # < n * n: no overflow
    ngroups = int(code.max()) + 1 if n else 0
    first = np.full(ngroups, n, dtype=np.int64)
    np.minimum.at(first, code, np.arange(n))
    return first, code, np.bincount(code, minlength=ngroups)


def _factor(a):
    try:
        import pandas as pd
        inv, uc = pd.factorize(a)
        return np.asarray(uc), np.asarray(inv, dtype=np.int64)
    except Exception:  # noqa: BLE001
        uc, inv = np.unique(a, return_inverse=True)
        return uc, inv.astype(np.int64)
