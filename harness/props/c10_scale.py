"""C10 at scale: deterministic large / long paired runs (a time-reversed run and the forward run over the mirrored
time axis with sign-flipped frames and mirrored release table), both through ladim.main.main, decided by an exact
oracle on whole numpy arrays (oracle only: far too large for a Coq literal).

Dimensions of scale of C10 that the family covers:
  rows      release tables of 1000 ... 130000 rows at several release times (sizes straddling powers of two and
            round decimal numbers), part of the table outside the simulated window on either side
  mult      few rows with multiplicities in the thousands
  times     600 release times (the last at the last step) in a run of > 1000 steps, forcing frames > 1000 steps apart, > 12 forcing files
  cont      continuous release of thousands of rows at every step

What is decided, for EVERY record and EVERY particle of both runs:
  * the time coordinate of record r reads S - r*p*dt (S + r*p*dt in the mirrored run);
  * each release happens at its stated time: record r holds exactly the particles of the table rows (times
    multiplicity) whose release step is <= r*p, identifiers 0, 1, 2, ... in table order, each with the Y and Z of its
    row (the flow has no v and no w, so Y and Z never change: they identify the row), with the X of its row in the
    record of its release step, and the particle variable release_time holds the stated time of every row released;
  * record for record the reversed run = the mirrored forward run (counts, pids, Y, Z exactly; X within the 1e-12 of
    the small cases).
Layout: the 20 x 8 synthetic grid of sim_impl (three unstretched levels, class c feels level c), dyadic values, flow
so slow that no particle can leave the grid (so the particle count of a record is decided by the table alone).
"""
from __future__ import annotations

import numpy as np
from netCDF4 import Dataset

import romsfiles as rf
import run_ladim as rl
import sim_impl as si

DT = si.DT
S0 = 90000 + 64 * 37  # start of the reversed run = mirror point (seconds after the epoch)
EPOCH = np.datetime64("2000-01-01T00:00:00", "s")

# (name, description); all deterministic.  groups: [release step, rows, multiplicity of every row]; the last release
# step of every case is a step that gets a record (a multiple of p), so that every row of the table is seen
CASES = {
    # tables of growing size at three to five release times, EF / RK2 / RK4, 1 - 3 forcing files
    "rows-1000": dict(N=6, p=2, adv="EF", groups=[[0, 400, 1], [3, 300, 1], [4, 300, 1]], nfiles=1),
    "rows-1025": dict(N=6, p=1, adv="RK4", groups=[[0, 512, 1], [1, 1, 1], [4, 512, 1]], nfiles=2),
    "rows-4097": dict(N=5, p=2, adv="RK2", groups=[[0, 2048, 1], [3, 2048, 1], [4, 1, 1]], nfiles=2, outside=600),
    "rows-5000": dict(N=8, p=3, adv="EF", groups=[[0, 1000, 1], [1, 1000, 1], [3, 1000, 1], [5, 1000, 1], [6, 1000, 1]], nfiles=3),
    "rows-12000": dict(N=6, p=2, adv="RK4", groups=[[0, 4000, 1], [1, 4000, 1], [4, 4000, 1]], nfiles=3),
    "rows-20000": dict(N=4, p=1, adv="EF", groups=[[0, 9999, 1], [1, 2, 1], [2, 9999, 1]], nfiles=2, outside=5000),
    "rows-40000": dict(N=4, p=2, adv="RK2", groups=[[0, 16384, 1], [1, 16385, 1], [2, 7231, 1]], nfiles=1),
    "rows-70000": dict(N=4, p=2, adv="EF", groups=[[0, 30000, 1], [1, 5000, 1], [2, 35000, 1]], nfiles=2, outside=33000),
    "rows-130000": dict(N=3, p=1, adv="EF", groups=[[0, 65536, 1], [1, 1, 1], [2, 64463, 1]], nfiles=2, outside=30000),
    # few rows, large multiplicities (and some rows with multiplicity 0)
    "mult-66000": dict(N=5, p=2, adv="EF", groups=[[0, 3, 5000], [1, 2, 0], [2, 4, 10000], [4, 11, 1000]], nfiles=2),
    # a long run: 1153 steps, a release at 600 of them, forcing frames up to 1024 steps apart in 14 files
    "times-600": dict(N=1153, p=64, adv="EF", long=True, nfiles=14),
    # continuous release: 2 file times of 1500 / 2500 rows, released again at every (second) step
    "cont-34500": dict(N=17, p=4, adv="EF", groups=[[0, 1500, 1], [8, 2500, 1]], nfiles=2, cont=1),
    "cont-17000": dict(N=13, p=3, adv="RK4", groups=[[0, 1000, 1], [4, 3000, 1]], nfiles=1, cont=2),
}
QUICK = ["rows-1025", "rows-4097", "rows-12000", "rows-20000", "rows-130000", "mult-66000", "times-600", "cont-34500"]


def gen_scale_cases(quick=True):
    names = QUICK if quick else list(CASES)
    return [{"k": "scale", "name": n} for n in names]


# ---- the set-up of a case --------------------------------------------------------------------------
def _groups(c):
    if not c.get("long"):
        return [list(g) for g in c["groups"]]
    # 600 release steps out of 1153: every step of [0, 520), every eighth step of [520, 1152) and step 1151; 3 - 7 rows each
    steps = list(range(520)) + list(range(520, 1152, 8)) + [1151]
    return [[s, 3 + (s * 7) % 5, 1] for s in steps]


def _frames(c):
    """frame steps and per-level velocities (m/s), chosen so that the per-step increment between two frames is dyadic"""
    N = c["N"]
    if c.get("long"):
        # irregular: gaps of 1024, 1, 31, 32, 32, 16, ... steps; the first frame before the start, the last after the stop
        fs = [-64, 0, 1024, 1025, 1056, 1088, 1120, 1136, 1144, 1148, 1150, 1151, 1152, 1216]
        amp = 1.0 / 4096
    else:
        fs = sorted({-2, 0, N, N + 1} | {s for s in (1, 3, 4, 7, 11) if s < N})
        amp = 1.0 / 16
    pat = [1, -1, 2, 0, -2, 1, 3, -3]
    # the gaps are powers of two or the velocity is the same at both ends of the gap: dU = (u_new - u) / gap is exact
    u, prev = [], None
    for i, s in enumerate(fs):
        if prev is not None:
            gap = s - fs[i - 1]
            if gap & (gap - 1):  # not a power of two: constant flow over this gap
                u.append(prev)
                continue
        prev = [amp * pat[(i + lev) % len(pat)] * (lev + 1) / 2 for lev in range(si.NLEV)]
        u.append(prev)
    return fs, u


def table(c):
    """rows of the release table in simulation order: step, mult, x, y, class — including rows outside the window"""
    gs = _groups(c)
    out = int(c.get("outside", 0))
    if out:
        # before the start (never released in discrete mode) and at / after the stop
        gs = [[-3, out // 3, 1], [-1, out - out // 3 - out // 4, 1]] + gs + [[c["N"], out // 4 - 1, 1], [c["N"] + 2, 1, 2]]
    step = np.repeat([g[0] for g in gs], [g[1] for g in gs]).astype(np.int64)
    mult = np.repeat([g[2] for g in gs], [g[1] for g in gs]).astype(np.int64)
    j = np.arange(len(step), dtype=np.int64)
    x = 4.0 + ((j * 37) % 513) / 64.0            # 4 .. 12 on the 1/64 lattice
    y = 2.0 + ((j * 101) % 3001) / 1024.0        # 2 .. 4.93 on the 1/1024 lattice
    cls = (j * 5 + j // 7) % 3
    return step, mult, x, y, cls


def expected(c):
    """the particles the run must release, in order of identifier: (release step, x, y, z)"""
    step, mult, x, y, cls = table(c)
    N = c["N"]
    z = np.asarray(si.ZCLS)[cls]
    k = int(c.get("cont", 0))
    if k:
        # continuous: at every k-th step from the first file time on, the rows of the latest file time reached
        ftimes = np.unique(step[step < N])
        parts = []
        for s in range(int(ftimes[0]), N, k):
            if s < 0:
                continue
            cur = ftimes[ftimes <= s].max()
            sel = np.flatnonzero(step == cur)
            parts.append((np.full(len(sel), s), sel))
        rs = np.concatenate([a for a, _ in parts]); sel = np.concatenate([b for _, b in parts])
    else:
        sel = np.flatnonzero((step >= 0) & (step < N))
        rs = step[sel]
    rep = mult[sel]
    return np.repeat(rs, rep), np.repeat(x[sel], rep), np.repeat(y[sel], rep), np.repeat(z[sel], rep)


def _write_release(path, times, mult, x, y, z):
    import pandas as pd

    ts = (EPOCH + times.astype("timedelta64[s]")).astype("datetime64[s]").astype(str)
    pd.DataFrame({"t": ts, "m": mult, "x": x, "y": y, "z": z}).to_csv(path, sep=" ", header=False, index=False)


def _run(d, name, c, rev):
    sg = -1 if rev else 1
    fs, u = _frames(c)
    for f in d.glob(f"sf_{name}_*.nc"):
        f.unlink()
    order = list(range(len(fs)))
    if rev:
        order.reverse()  # chronological
    nf = min(int(c["nfiles"]), len(fs))
    cuts = [round(i * len(fs) / nf) for i in range(nf + 1)]
    if rev:
        cuts = [len(fs) - q for q in reversed(cuts)]  # the mirrored split
    for k in range(nf):
        idx = order[cuts[k]:cuts[k + 1]]
        si.write_forcing(d, f"sf_{name}_{k:03d}.nc", [S0 + sg * fs[i] * DT for i in idx],
                         [[(-v if rev else v) for v in u[i]] for i in idx],
                         [[1.0] * si.NLEV for _ in idx])
    step, mult, x, y, cls = table(c)
    _write_release(d / f"sr_{name}.rls", S0 + sg * step * DT, mult, x, y, np.asarray(si.ZCLS)[cls])
    conf = rf.base_config(start=S0, stop=S0 + sg * c["N"] * DT, dt=DT, forcing_file=d / f"sf_{name}_*.nc",
                          release_file=d / f"sr_{name}.rls", out_file=d / f"so_{name}.nc",
                          names=("release_time", "mult", "X", "Y", "Z"), advection=c["adv"],
                          output_period=c["p"] * DT, time_reversal=rev, reference=0)
    conf["grid"]["filename"] = str(d / f"sf_{name}_000.nc")
    conf["state"] = {"particle_variables": {"release_time": "time"}}
    conf["output"]["particle_variables"] = {"release_time": {"encoding": {"datatype": "f8"}, "attributes": {"units": "seconds since reference_time"}}}
    if c.get("cont"):
        conf["release"]["continuous"] = True
        conf["release"]["release_frequency"] = int(c["cont"]) * DT
    rl.run_main(conf, d)
    with Dataset(d / f"so_{name}.nc") as nc:
        nc.set_auto_mask(False)
        o = {v: np.asarray(nc.variables[v][:]) for v in ("time", "particle_count", "pid", "X", "Y", "Z", "release_time")}
    return o


# ---- the oracle ------------------------------------------------------------------------------------
def _check_run(o, c, rev, what, tag):
    """the clauses of one run against the release table; returns a list of messages"""
    sg = -1 if rev else 1
    N, p = c["N"], c["p"]
    rs, x, y, z = expected(c)
    nrec = -(-N // p)
    steps = np.arange(nrec) * p
    bad = []
    want_t = (S0 + sg * steps * DT).astype(float)
    if len(o["time"]) != nrec or not np.array_equal(o["time"], want_t):
        k = next((i for i in range(min(nrec, len(o["time"]))) if o["time"][i] != want_t[i]), min(nrec, len(o["time"])))
        bad.append(f"{tag} {what}: {len(o['time'])} records, time coordinate of record {k} is "
                   f"{o['time'][k] if k < len(o['time']) else None}, expected {nrec} records reading S {'-' if rev else '+'} r*p*dt ({want_t[min(k, nrec - 1)]})")
        return bad
    want_c = np.searchsorted(rs, steps, side="right")  # rs is non-decreasing: identifiers in order of release
    got_c = o["particle_count"].astype(np.int64)
    if not np.array_equal(got_c, want_c):
        k = int(np.flatnonzero(got_c != want_c)[0])
        bad.append(f"{tag} {what}: each release at its stated time: record {k} (step {int(steps[k])}) holds {int(got_c[k])} particles, "
                   f"the release table puts {int(want_c[k])} there ({len(rs)} particles from {len(table(c)[0])} table rows in all)")
        return bad
    if len(o["pid"]) != int(want_c.sum()):
        bad.append(f"{tag} {what}: {len(o['pid'])} stored instances for particle counts summing to {int(want_c.sum())}")
        return bad
    want_pid = np.concatenate([np.arange(n) for n in want_c])
    first = np.concatenate([rs[:n] == s for n, s in zip(want_c, steps)])  # instance written at its release step
    if not np.array_equal(o["pid"], want_pid):
        i = int(np.flatnonzero(o["pid"] != want_pid)[0])
        bad.append(f"{tag} {what}: stored instance {i}: pid {int(o['pid'][i])}, expected {int(want_pid[i])} (identifiers in table order)")
        return bad
    for v, tab in (("Y", y), ("Z", z)):
        w = tab[want_pid]
        if not np.array_equal(o[v], w):
            i = int(np.flatnonzero(o[v] != w)[0])
            bad.append(f"{tag} {what}: pid {int(want_pid[i])} has {v} = {o[v][i]!r} in stored instance {i}, its release row says {w[i]!r}")
    wx = x[want_pid]
    if not np.array_equal(o["X"][first], wx[first]):
        i = int(np.flatnonzero(first)[np.flatnonzero(o["X"][first] != wx[first])[0]])
        bad.append(f"{tag} {what}: pid {int(want_pid[i])} written at its release step with X = {o['X'][i]!r}, its release row says {wx[i]!r}")
    # particle variables: at least the particles of the last record, at most all the particles released by the
    # last step (records are written at multiples of p only), each with the stated time of its row
    want_rt = (S0 + sg * rs * DT).astype(float)
    m = len(o["release_time"])
    if not (int(want_c[-1]) <= m <= len(rs)) or not np.array_equal(o["release_time"], want_rt[:m]):
        k = np.flatnonzero(o["release_time"][:len(rs)] != want_rt[:m][:len(rs)]) if m <= len(rs) else []
        bad.append(f"{tag} {what}: release_time stored for {m} particles, the last record holds {int(want_c[-1])} and the table releases {len(rs)}"
                   + (f"; particle {int(k[0])}: {o['release_time'][k[0]]} instead of the stated {want_rt[k[0]]}" if len(k) else ""))
    return bad


def eval_scale(desc, d):
    name = desc["name"]
    c = CASES[name]
    tag = f"scale case {name} ({len(table(c)[0])} table rows, {len(expected(c)[0])} particles, {c['N']} steps, {c['adv']}, {c['nfiles']} forcing file(s))"
    problems = []
    runs = {}
    for rev, nm, what in ((True, "rev", "reversed run"), (False, "fwd", "mirrored forward run")):
        try:
            runs[nm] = _run(d, nm, c, rev)
        except BaseException as e:  # noqa: BLE001
            if isinstance(e, KeyboardInterrupt):
                raise
            problems.append(f"{tag} {what}: did not run to its end through ladim.main.main: {type(e).__name__}: {e}")
            continue
        problems += _check_run(runs[nm], c, rev, what, tag)
    if len(runs) == 2:
        r, f = runs["rev"], runs["fwd"]
        if len(r["time"]) != len(f["time"]) or not np.array_equal(r["time"] - S0, S0 - f["time"]):
            problems.append(f"{tag}: the time axes of the two runs are not mirror images ({len(r['time'])} / {len(f['time'])} records)")
        if not np.array_equal(r["particle_count"], f["particle_count"]):
            m = min(len(r["particle_count"]), len(f["particle_count"]))
            k = np.flatnonzero(r["particle_count"][:m] != f["particle_count"][:m])
            k = int(k[0]) if len(k) else m
            problems.append(f"{tag}: record {k}: reversed run holds {int(r['particle_count'][k]) if k < len(r['particle_count']) else None} particles, "
                            f"mirrored forward run {int(f['particle_count'][k]) if k < len(f['particle_count']) else None}")
        else:
            for v in ("pid", "Y", "Z"):
                if not np.array_equal(r[v], f[v]):
                    i = int(np.flatnonzero(r[v] != f[v])[0])
                    problems.append(f"{tag}: stored instance {i}: {v} = {r[v][i]!r} in the reversed run, {f[v][i]!r} in the mirrored forward run")
            dx = np.abs(r["X"] - f["X"])
            if dx.size and not (dx <= 1e-12).all():
                i = int(np.argmax(~(dx <= 1e-12)))
                problems.append(f"{tag}: stored instance {i} (pid {int(r['pid'][i])}): X = {r['X'][i]!r} in the reversed run, {f['X'][i]!r} in the mirrored forward run")
            if len(r["release_time"]) != len(f["release_time"]) or not np.array_equal(r["release_time"] - S0, S0 - f["release_time"]):
                problems.append(f"{tag}: release_time of the two runs are not mirror images ({len(r['release_time'])} / {len(f['release_time'])} particles)")
    moved = len(runs) == 2 and runs["rev"]["X"].size and len(np.unique(runs["rev"]["time"])) > 1
    obs = {"records": int(len(runs["rev"]["time"])) if "rev" in runs else None,
           "instances": int(len(runs["rev"]["pid"])) if "rev" in runs else None,
           "particles": int(len(runs["rev"]["release_time"])) if "rev" in runs else None}
    return {"ints": None, "oracle": "; ".join(problems[:3]) or None, "nontrivial": ("scale", name) if moved else None,
            "kind": "scale-" + name.split("-")[0], "observed": obs}
