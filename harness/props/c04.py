"""C04 — release accounting: generated release files (text) -> real ParticleReleaser + TimeKeeper + State.

Per case the harness writes a release file, builds the three real objects, steps
`timer.update(); release.update()` for all steps and records what was appended at each step.
The Coq model (Corr.C04.check_case) replays the same table; the oracle recomputes the property
text (which rows must enter at which step, how many copies, with which values, in which order)
directly from the table.
"""
from __future__ import annotations

import numpy as np

import romsfiles as rf

import c04_scale

PROP = "C04"
THEOREM_FILE = "Props/C04.v"
CHECKER = "Corr.C04"
SHARD = 60
RULE = ("Release tables written as text (header in the file or `names` argument, `T` or quoted-space timestamps, "
        "random column order, mult column present or absent, X/Y or lon/lat through a linear stub ll2xy, int/float/"
        "time extra columns declared as instance/particle variables, some with configured defaults, release_time "
        "particle variable) with several rows per time, mult in {0,1,2,5}, rows before start / at start / at stop / "
        "after stop, forward and reversed, cold and warm start, histories in which some or all particles die and are "
        "removed (Model.update's order: clock, compactify, release) between releases, discrete and continuous (frequency dt, 2dt, 3dt, "
        "first file time before/at/after start); per step the appended particles (count, pid, release time, "
        "position, extra values, order) are compared with the Coq model and with the oracle, and after every step "
        "every pid released so far must still carry its row's values (particle variables by pid, instance variables "
        "of the survivors); a small stream of "
        "unsorted / off-grid tables (outside the property's quantifier) ties the blind cursor of the model to the "
        "code; thorough tier adds end-to-end runs (first appearance of every pid in the output file); a fixed family "
        "of SCALE cases (c04_scale.py, oracle only: one continuous release of 1040 ticks / 2080 steps stepped in full with "
        "deaths, windows placed 960 ... 130000 release ticks after the first file time, 1500 and 4097 file times, 3000 "
        "and 70000 rows per time, mult up to 130000, one whole model run starting 5000 ticks into a release; every step's "
        "count and every particle's pid, row of origin, position, extra values and release time decided with numpy; "
        "thorough tier steps releases of up to 10000 ticks in full). "
        "Non-trivial = distinct case with >= 2 distinct release times in the window, or some mult != 1, or rows "
        "outside the window.")
TRUSTED = ["Coq 8.16.1 kernel + vm_compute", "hand-written model coq/Model/Release.v tied by this correspondence",
           "pandas read_csv / groupby / join / ffill / explode, numpy repeat as run (glue covered by this tie only)",
           "values are integer-coded (floats dyadic * 1024, times in seconds): the release logic only moves values",
           "stub grid with a linear ll2xy"]
ASSUMPTIONS = ["release times on the model time grid and in simulation order; continuous: frequency a multiple of dt and "
               "file times on the frequency grid anchored at the first file time (the property's quantifier)",
               "mult >= 0 (negative mult makes numpy.repeat raise)",
               "extra columns are declared state variables (an undeclared column makes State.append raise)",
               "a time-typed extra column other than release_time is carried as its text (compared after np.datetime64)",
               "the harness steps the clock 2 steps beyond Nsteps to observe that nothing enters at or after the stop time "
               "(a scheduled row whose step equals Nsteps exists only when dt does not divide the duration)"]
SCALE = 1024
EXTRA_STEPS = 2
BAD = -987654321
EPOCH = rf.EPOCH


# ------------------------------------------------------------------------------------------------
class StubGrid:
    def __init__(self, ax, bx, ay, by):
        self.c = (ax, bx, ay, by)

    def ll2xy(self, lon, lat):
        ax, bx, ay, by = self.c
        return ax * lon + bx, ay * lat + by


def tstr(t, style):
    s = rf.iso(int(t))
    return s if style == "T" else '"' + s.replace("T", " ") + '"'


def num(v):
    return repr(float(v)) if isinstance(v, float) else str(int(v))


def columns(desc):
    """canonical value columns (model order): position, Z, extras"""
    pos = ["lon", "lat"] if desc["pos"] == "lonlat" else ["X", "Y"]
    return pos + ["Z"] + [e[0] for e in desc["extras"]]


def write_file(desc, path):
    cols = columns(desc)
    types = {"X": "float", "Y": "float", "Z": "float", "lon": "float", "lat": "float"}
    types.update({e[0]: e[1] for e in desc["extras"]})
    order = desc["order"]  # permutation of ["release_time", "mult"(opt)] + cols
    lines = []
    if desc["header"] == "file":
        lines.append(" ".join(order))
    for r in desc["rows"]:
        vals = dict(zip(cols, r[2:]))
        out = []
        for c in order:
            if c == "release_time":
                out.append(tstr(r[0], desc["tsep"]))
            elif c == "mult":
                out.append(str(int(r[1])))
            elif types[c] == "time":
                out.append(tstr(vals[c], desc["tsep"]))
            elif types[c] == "int":
                out.append(str(int(vals[c])))
            else:
                out.append(repr(float(vals[c])))
        lines.append(" ".join(out))
    path.write_text("\n".join(lines) + "\n")


_WARM = {}


def warm_file(ctx):
    d = ctx.subdir("c04")
    p = d / "warm.nc"
    if str(p) not in _WARM:
        from netCDF4 import Dataset

        with Dataset(p, "w") as nc:
            nc.createDimension("particle", 3)
            nc.createDimension("particle_instance", None)
            v = nc.createVariable("pid", "i4", ("particle_instance",))
            v[:] = [0, 1, 2]
        _WARM[str(p)] = True
    return str(p)


def secs(v):
    """seconds after EPOCH of a datetime-like / text value"""
    if isinstance(v, str):
        v = v.strip('"')
    return int((np.datetime64(v, "s") - EPOCH) / np.timedelta64(1, "s"))


def code(v, typ):
    if typ == "time":
        return int(v) if isinstance(v, (int, np.integer)) else secs(v)
    if typ == "int":
        if int(v) != v:
            raise ValueError(f"integer column holds {v!r}")
        return int(v)
    x = float(v) * SCALE
    if x != int(x):
        raise ValueError(f"value {v!r} is not on the 1/{SCALE} lattice")
    return int(x)


def run_real(desc, ctx):
    """-> dict(exit=bool, steps=[list of appended rows], index=int, problems=[...])"""
    from ladim.release import ParticleReleaser
    from ladim.state import State
    from ladim.timekeeper import TimeKeeper

    d = ctx.subdir("c04")
    path = d / "release.rls"
    write_file(desc, path)
    ivars, pvars = {}, {}
    pytype = {"int": int, "float": float, "time": "time"}
    for name, typ, where in desc["extras"]:
        (pvars if where == "p" else ivars)[name] = pytype[typ]
    if desc["has_rt"]:
        pvars["release_time"] = "time"
    state = State(instance_variables=ivars, particle_variables=pvars, default_values=dict(desc["defaults"]))
    timer = TimeKeeper(start=rf.iso(desc["start"]), stop=rf.iso(desc["stop"]), dt=desc["dt"],
                       time_reversal=desc["rev"])
    grid = StubGrid(*desc["ll"]) if desc["pos"] == "lonlat" or desc.get("grid_always") else None
    mods = {"time": timer, "state": state, "grid": grid}
    kw = {}
    if desc["header"] == "names":
        kw["names"] = list(desc["order"])
    if desc["cont"]:
        kw["continuous"] = True
        kw["release_frequency"] = desc["freq"]
    if desc["warm"]:
        kw["warm_start_file"] = warm_file(ctx)
    if grid is not None:
        # the same release file was read a moment ago for another simulation on ANOTHER grid (other lon/lat
        # conversion) in this process
        ax, bx, ay, by = desc["ll"]
        other = {"time": TimeKeeper(start=rf.iso(desc["start"]), stop=rf.iso(desc["stop"]), dt=desc["dt"], time_reversal=desc["rev"]),
                 "state": State(instance_variables=ivars, particle_variables=pvars, default_values=dict(desc["defaults"])),
                 "grid": StubGrid(2 * ax, bx + 3, ay + 1, by - 2)}
        try:
            ParticleReleaser(other, str(path), **kw)
        except SystemExit:
            pass
    try:
        rel = ParticleReleaser(mods, str(path), **kw)
    except SystemExit:
        return {"exit": True, "steps": [], "index": 0, "problems": [], "nsteps": int(timer.Nsteps)}
    mods["release"] = rel
    types = {"X": "float", "Y": "float", "Z": "float"}
    types.update({e[0]: e[1] for e in desc["extras"]})
    names = ["X", "Y", "Z"] + [e[0] for e in desc["extras"]]
    steps, problems = [], []
    nrun = int(timer.Nsteps) + EXTRA_STEPS  # a little beyond the stop time: nothing may enter there
    kills = desc.get("kills") or {}
    pset = set(state.particle_variables)

    def cell(c, inst_j, pid):
        """value of variable c for one particle: instance variables by row, particle variables by pid"""
        try:
            return code(state[c][pid] if c in pset else state[c][inst_j], types[c])
        except (IndexError, ValueError, TypeError) as e:
            problems.append(f"variable {c} unreadable for pid {pid}: {type(e).__name__} {e}")
            return BAD

    def rt_of(pid):
        if not desc["has_rt"]:
            return 0
        try:
            return secs(state["release_time"][pid])
        except (IndexError, ValueError, TypeError) as e:
            problems.append(f"release_time unreadable for pid {pid}: {type(e).__name__} {e}")
            return BAD

    snaps = []
    for n in range(nrun):
        # the order of Model.update: clock, removal of the dead, release
        timer.update()
        if int(timer.step) != n:
            problems.append(f"timer.step {timer.step} at loop step {n}")
        state.compactify()
        n0, npid0 = len(state), int(state.npid)
        try:
            rel.update()
        except StopIteration:
            problems.append(f"StopIteration escaped from update() at step {n}")
            steps.append(None)
            continue
        k = len(state) - n0
        rows = []
        for j in range(n0, n0 + k):
            pid = int(state.pid[j])
            rows.append({"rt": rt_of(pid), "vals": [cell(c, j, pid) for c in names]})
        if k:
            if [int(p) for p in state.pid[n0:]] != list(range(npid0, npid0 + k)):
                problems.append(f"step {n}: new pids {state.pid[n0:].tolist()} not {npid0}..{npid0 + k - 1}")
            if not (bool(np.all(state.alive[n0:])) and bool(np.all(state.active[n0:]))):
                problems.append(f"step {n}: new particles not alive/active")
        for c in state.variables:
            if len(state[c]) != (int(state.npid) if c in pset else len(state)):
                problems.append(f"step {n}: variable {c} has length {len(state[c])}, "
                                f"{'npid' if c in pset else 'number of instances'} is "
                                f"{int(state.npid) if c in pset else len(state)}")
        steps.append(rows)
        # every particle released so far / still present, with the values it carries now
        npid = int(state.npid)
        snaps.append({"present": [int(q) for q in state.pid],
                      "inst": [[cell(c, j, int(state.pid[j])) for c in names if c not in pset] for j in range(len(state))],
                      "pvar": [[rt_of(q)] + [cell(c, 0, q) for c in names if c in pset] for q in range(npid)]})
        rule = kills.get(str(n))
        if rule is not None and len(state):
            pids = np.asarray(state.pid)
            mask = np.ones(len(pids), bool) if rule == "all" else (pids % rule[0] == rule[1])
            state.alive[mask] = False
    return {"exit": False, "steps": steps, "index": int(rel._index), "problems": problems, "nsteps": nrun,
            "snaps": snaps, "inames": [c for c in names if c not in pset], "pnames": [c for c in names if c in pset]}


# ---- the property text, computed from the table -----------------------------------------------
def expected(desc):
    """-> (exit_expected, {step: [ {rt, vals} ... ]}) from the property statement"""
    start, stop, dt, rev, warm = desc["start"], desc["stop"], desc["dt"], desc["rev"], desc["warm"]
    sg = -1 if rev else 1
    types = [t for t in (["float"] * 3 + [e[1] for e in desc["extras"]])]

    def vals(r):
        v = list(r[2:])
        if desc["pos"] == "lonlat":
            ax, bx, ay, by = desc["ll"]
            v[0], v[1] = ax * v[0] + bx, ay * v[1] + by
        return [code(x, t) for x, t in zip(v, types)]

    def before_stop(t):
        return sg * t < sg * stop

    def from_start(t):
        return sg * t > sg * start if warm else sg * t >= sg * start

    sched = {}
    if not desc["cont"]:
        inwin = [r for r in desc["rows"] if before_stop(r[0]) and from_start(r[0])]
        for r in inwin:
            n = (sg * (r[0] - start)) // dt
            sched.setdefault(n, []).extend([{"rt": r[0], "vals": vals(r)}] * r[1])
        if warm:
            ex = not any(before_stop(r[0]) for r in desc["rows"])
        else:
            ex = not inwin
        return ex, sched
    freq = desc["freq"]
    W = [r for r in desc["rows"] if before_stop(r[0])]
    if not W:
        return True, {}
    first = W[0][0]
    any_tick = False
    k = 0
    while before_stop(first + sg * k * freq):
        x = first + sg * k * freq
        k += 1
        if not from_start(x):
            continue
        any_tick = True
        cands = [r[0] for r in W if sg * r[0] <= sg * x]
        last = max(cands, key=lambda t: sg * t)
        n = (sg * (x - start)) // dt
        lst = sched.setdefault(n, [])
        for r in W:
            if r[0] == last:
                lst.extend([{"rt": x, "vals": vals(r)}] * r[1])
    return (not any_tick and not warm), sched


def oracle(desc, obs):
    if obs["problems"]:
        return obs["problems"][0]
    ex, sched = expected(desc)
    if ex != obs["exit"]:
        return (f"start-up {'refused' if obs['exit'] else 'accepted'} but the table has "
                f"{'no' if ex else 'some'} release in the simulated window")
    if obs["exit"]:
        return None
    hasrt = desc["has_rt"]
    for n, got in enumerate(obs["steps"]):
        want = sched.get(n, [])
        if len(got) != len(want):
            return (f"step {n}: {len(got)} particles released, the scheduled rows of this step ask for {len(want)} "
                    f"(got {got[:6]}, want {want[:6]})")
        for j, (g, w) in enumerate(zip(got, want)):
            if g["vals"] != w["vals"]:
                return f"step {n}: particle {j} carries {g['vals']} but its release row says {w['vals']} (codes *{SCALE})"
            if hasrt and g["rt"] != w["rt"]:
                return f"step {n}: particle {j} has release_time {g['rt']} instead of {w['rt']}"
    msg = check_history(desc, obs, sched)
    if msg:
        return msg
    total = sum(len(s) for s in obs["steps"])
    want_total = sum(len(v) for n, v in sched.items() if 0 <= n < obs["nsteps"])
    if total != want_total:
        return f"{total} particles released in all, {want_total} scheduled inside the window"
    return None


def check_history(desc, obs, sched):
    """every released pid keeps its row's values: particle variables by pid for all pids ever released,
    instance variables for the particles still present; exactly the killed ones are gone"""
    names = ["X", "Y", "Z"] + [e[0] for e in desc["extras"]]
    ipos = [names.index(c) for c in obs["inames"]]
    ppos = [names.index(c) for c in obs["pnames"]]
    kills = desc.get("kills") or {}
    book, alive = [], []  # book[pid] = scheduled row of that pid
    for n, snap in enumerate(obs["snaps"]):  # aligned with the steps (a StopIteration is reported before)
        for w in sched.get(n, []):
            alive.append(len(book))
            book.append(w)
        if snap["present"] != alive:
            return f"after step {n}: particles present {snap['present'][:12]} but released-and-not-removed are {alive[:12]}"
        for j, pid in enumerate(alive):
            want = [book[pid]["vals"][q] for q in ipos]
            if snap["inst"][j] != want:
                return (f"after step {n}: particle pid {pid} carries {dict(zip(obs['inames'], snap['inst'][j]))} "
                        f"but its release row says {dict(zip(obs['inames'], want))} (codes *{SCALE})")
        if len(snap["pvar"]) != len(book):
            return f"after step {n}: particle variables hold {len(snap['pvar'])} particles, {len(book)} were released"
        for pid, got in enumerate(snap["pvar"]):
            want = [book[pid]["rt"] if desc["has_rt"] else 0] + [book[pid]["vals"][q] for q in ppos]
            if got != want:
                return (f"after step {n}: particle variables of pid {pid} are {dict(zip(['release_time'] + obs['pnames'], got))} "
                        f"but its release row says {dict(zip(['release_time'] + obs['pnames'], want))}")
        rule = kills.get(str(n))
        if rule is not None:
            alive = [] if rule == "all" else [q for q in alive if q % rule[0] != rule[1]]
    return None


# ---- encoding for Coq ------------------------------------------------------------------------------
def encode(desc, obs):
    cols = columns(desc)
    types = ["float"] * 3 + [e[1] for e in desc["extras"]]
    ll = desc["ll"] if desc["pos"] == "lonlat" else (0, 0, 0, 0)
    out = [desc["start"], desc["stop"], desc["dt"], int(desc["rev"]), int(desc["cont"]), int(desc["freq"]),
           int(desc["warm"]), int(desc["has_rt"]), int(desc["pos"] == "lonlat"),
           int(ll[0]), code(ll[1], "float"), int(ll[2]), code(ll[3], "float"), len(cols), len(desc["rows"])]
    for r in desc["rows"]:
        out += [int(r[0]), int(r[1])] + [code(x, t) for x, t in zip(r[2:], types)]
    if obs["exit"]:
        return out + [1, 0, 0]
    out += [0, len(obs["steps"]), obs["index"]]
    for s in obs["steps"]:
        if s is None:
            out += [-1]
            continue
        out += [len(s)]
        for row in s:
            out += [row["rt"]] + row["vals"]
    return out


def eval_case(desc, ctx):
    if desc.get("k") == "scale":
        return c04_scale.eval_scale(desc, ctx)
    if desc.get("k") == "e2e":
        return eval_e2e(desc, ctx)
    obs = run_real(desc, ctx)
    msg = None if desc.get("outside") else oracle(desc, obs)
    # non-triviality
    sg = -1 if desc["rev"] else 1
    inw = [r for r in desc["rows"] if sg * desc["start"] <= sg * r[0] < sg * desc["stop"]]
    nt = len({r[0] for r in inw}) >= 2 or any(r[1] != 1 for r in desc["rows"]) or len(inw) < len(desc["rows"])
    key = None
    if nt and not desc.get("outside"):
        key = repr((desc["start"], desc["stop"], desc["dt"], desc["rev"], desc["cont"], desc["freq"], desc["warm"],
                    [(r[0], r[1]) for r in desc["rows"]], desc["pos"], desc["order"]))
    kind = "%s-%s-%s%s" % ("continuous" if desc["cont"] else "discrete", "reversed" if desc["rev"] else "forward",
                           "warm" if desc["warm"] else "cold", ("-" + desc["outside"]) if desc.get("outside") else "")
    if obs["exit"]:
        kind += "-refused"
    summary = {"exit": obs["exit"], "index": obs["index"],
               "released_per_step": [None if s is None else len(s) for s in obs["steps"]]}
    return {"ints": encode(desc, obs), "oracle": msg, "nontrivial": key, "kind": kind, "observed": summary}


# ---- generator ---------------------------------------------------------------------------------------
EXTRA_POOL = [("age", "float"), ("stage", "int"), ("weight", "float"), ("origin", "int"), ("born", "time")]


def dyadic(rng, lo, hi, bits=6):
    return rng.randint(lo * (1 << bits), hi * (1 << bits)) / float(1 << bits)


def gen_one(rng, mode=None):
    dt = rng.choice([1, 7, 60, 600, 3600])
    nst = rng.randint(1, 9)
    rem = rng.choice([0, 0, 0, rng.randint(0, dt - 1)])
    rev = rng.random() < 0.45
    sg = -1 if rev else 1
    start = rng.randint(10, 4000) * dt + rng.choice([0, 0, rng.randint(0, dt - 1)]) + 40 * 3600
    stop = start + sg * (nst * dt + rem)
    cont = (rng.random() < 0.4) if mode is None else (mode == "cont")
    warm = rng.random() < 0.2
    nextra = rng.choice([0, 1, 2, 3])
    extras = [[n, t, rng.choice(["i", "p"])] for n, t in rng.sample(EXTRA_POOL, nextra)]
    for e in extras:
        if e[1] == "time":
            e[2] = "p"
    defaults = {}
    for n, t, _ in extras:
        if t != "time" and rng.random() < 0.6:
            defaults[n] = dyadic(rng, 0, 9) if t == "float" else rng.randint(0, 9)
    pos = rng.choice(["xy", "xy", "lonlat"])
    has_mult = rng.random() < 0.8
    freq = 0
    times = []
    if cont:
        freq = rng.choice([1, 1, 2, 3]) * dt
        k0 = rng.randint(-4, 3)
        first = start + sg * k0 * dt
        nf = rng.randint(1, 4)
        js = sorted(rng.sample(range(1, 8), nf - 1)) if nf > 1 else []
        times = [first] + [first + sg * j * freq for j in js]
    else:
        pool = list(range(-3, nst + 4))
        pts = sorted(rng.sample(pool, rng.randint(1, min(6, len(pool)))))
        if not any(0 <= p < nst for p in pts) and rng.random() < 0.8:
            pts = sorted(pts + [rng.randrange(0, nst)])
        r = rng.random()
        if r < 0.3 and 0 not in pts:
            pts = sorted(pts + [0])
        if r > 0.6 and nst not in pts:
            pts = sorted(pts + [nst])
        if rng.random() < 0.06:
            pts = [p for p in pts if p < 0] or [-1]  # everything before start
        elif rng.random() < 0.06:
            pts = [p for p in pts if p > nst] or [nst + 1]  # everything after stop
        elif rng.random() < 0.05:
            pts = [nst]  # only the stop time itself
        times = [start + sg * p * dt for p in pts]
    rows = []
    for t in times:
        for _ in range(rng.choice([1, 1, 2, 3])):
            mult = rng.choice([0, 1, 1, 2, 5]) if has_mult else 1
            v = [dyadic(rng, 1, 40), dyadic(rng, 1, 40), dyadic(rng, 0, 20, 3)]
            for n, ty, _ in extras:
                if ty == "float":
                    v.append(dyadic(rng, 0, 30))
                elif ty == "int":
                    v.append(rng.randint(-5, 50))
                else:
                    v.append(start - rng.randint(0, 10**5))
            rows.append([t, mult] + v)
    cols = (["lon", "lat"] if pos == "lonlat" else ["X", "Y"]) + ["Z"] + [e[0] for e in extras]
    order = ["release_time"] + (["mult"] if has_mult else []) + cols
    if rng.random() < 0.5:
        rng.shuffle(order)
    d = {"k": "rel", "start": start, "stop": stop, "dt": dt, "rev": rev, "cont": cont, "freq": freq, "warm": warm,
            "header": rng.choice(["file", "names"]), "tsep": rng.choice(["T", "T", "quoted"]), "pos": pos,
            "ll": [rng.choice([1, 2, 3]), dyadic(rng, -4, 4, 2), rng.choice([1, 2, 4]), dyadic(rng, -4, 4, 2)],
            "grid_always": rng.random() < 0.5, "extras": extras, "defaults": defaults,
            "has_rt": rng.random() < 0.6, "order": order, "rows": rows, "outside": None, "kills": {}}
    # histories with deaths: particles marked dead after some steps are removed (compactify) before the next
    # release; preferably everything dies between two release steps
    if rng.random() < 0.6:
        rsteps = sorted(n for n, v in expected(d)[1].items() if v and 0 <= n <= nst + 1)
        for a, b in zip(rsteps, rsteps[1:]):
            if rng.random() < 0.6:
                d["kills"][str(rng.randint(a, b - 1))] = "all"
        for n in range(nst + 2):
            if str(n) not in d["kills"] and rng.random() < 0.15:
                m = rng.choice([2, 3])
                d["kills"][str(n)] = [m, rng.randrange(m)]
    return d


def gen_outside(rng):
    """outside the property's quantifier: unsorted or off-grid tables (model vs code only)"""
    d = gen_one(rng, mode="disc")
    if len(d["rows"]) < 2:
        d["rows"].append(list(d["rows"][0]))
        d["rows"][-1][0] += (-1 if d["rev"] else 1) * d["dt"]
    if rng.random() < 0.6:
        rng.shuffle(d["rows"])
        d["outside"] = "unsorted"
    else:
        for r in d["rows"]:
            if rng.random() < 0.5:
                r[0] += rng.randint(0, max(0, d["dt"] - 1))
        d["rows"].sort(key=lambda r: (-1 if d["rev"] else 1) * r[0])
        d["outside"] = "offgrid"
    return d


def gen_cases(ctx):
    rng = ctx.rng
    n = 260 if ctx.quick else 3000
    # the fixed scale family first (deterministic, does not draw from rng)
    out = c04_scale.scale_cases(ctx.quick) + [c04_scale.e2e_case()]
    out += [gen_one(rng) for _ in range(n)]
    out += [gen_outside(rng) for _ in range(n // 8)]
    out += [gen_e2e(rng, i) for i in range(6 if ctx.quick else 24)]
    return out


# ---- end to end: first appearance of every pid in the output file ------------------------------------
def gen_e2e(rng, i):
    d = gen_one(rng)
    tries = 0
    while (d["warm"] or d["pos"] != "xy" or d["dt"] < 60 or d["extras"] or expected(d)[0]) and tries < 200:
        d = gen_one(rng)
        tries += 1
    d["k"] = "e2e"
    d["has_rt"] = False
    d["defaults"] = {}
    d["tsep"] = "T"
    # positions well inside a 50 x 50 grid
    for r in d["rows"]:
        r[2], r[3], r[4] = 5 + r[2] % 38, 5 + r[3] % 38, r[4] % 16
    d["idx"] = i
    return d


def eval_e2e(desc, ctx):
    import run_ladim

    d = ctx.subdir("c04_e2e_%d" % desc["idx"])
    start, stop, dt, rev = desc["start"], desc["stop"], desc["dt"], desc["rev"]
    lo, hi = min(start, stop), max(start, stop)
    forcing = rf.write_roms(d / "forcing.nc", imax=50, jmax=50, N=4, times=[lo - 3600, hi + 3600], u=0.0, v=0.0, h=100.0)
    rfile = d / "release.rls"
    write_file(desc, rfile)
    out = d / "out.nc"
    conf = rf.base_config(start=start, stop=stop, dt=dt, forcing_file=forcing, release_file=rfile, out_file=out,
                          names=desc["order"], time_reversal=rev, instance_variables=("pid", "X", "Y", "Z"))
    if desc["header"] == "file":
        del conf["release"]["names"]
    if desc["cont"]:
        conf["release"]["continuous"] = True
        conf["release"]["release_frequency"] = desc["freq"]
    else:
        # a DISCRETE release whose section still carries a release frequency (no `continuous` key, or, every fourth
        # case, an explicit false): the frequency is dormant, every row is released once at its own time
        conf["release"]["release_frequency"] = [dt, 2 * dt, [dt // 60, "m"]][desc["idx"] % 3]
        if desc["idx"] % 4 == 1:
            conf["release"]["continuous"] = False
    model = run_ladim.run_conf(conf)
    data = run_ladim.read_sparse(out)
    seen, steps = set(), []
    for rec in data["records"]:
        rows = []
        v = rec["vars"]
        for j, p in enumerate(v["pid"]):
            if int(p) not in seen:
                seen.add(int(p))
                rows.append({"rt": 0, "pid": int(p), "vals": [code(v[c][j], "float") for c in ("X", "Y", "Z")]})
        rows.sort(key=lambda r: r["pid"])
        steps.append(rows)
    nst = abs(stop - start) // dt
    obs = {"exit": False, "steps": steps[:nst], "index": int(model.release._index), "problems": [], "nsteps": nst,
           "snaps": [], "inames": [], "pnames": []}
    if len(steps) != nst:
        obs["problems"].append(f"{len(steps)} output records for {nst} steps")
    allp = [r["pid"] for s in steps for r in s]
    if allp != list(range(len(allp))):
        obs["problems"].append(f"pids do not appear in order of release: {allp[:20]}")
    msg = oracle(desc, obs)
    if desc.get("scale"):  # oracle only: the window starts thousands of release ticks after the first file time
        return {"ints": None, "oracle": (f"scale case {desc['scale']}: {msg}" if msg else None),
                "nontrivial": repr(("e2e-scale", desc["scale"], len(allp))), "kind": "scale-end-to-end-continuous",
                "observed": {"first_appearance_per_record": [len(s) for s in steps]}}
    return {"ints": encode(desc, obs), "oracle": msg, "nontrivial": repr(("e2e", desc["idx"], desc["start"], len(allp))),
            "kind": "end-to-end-%s" % ("continuous" if desc["cont"] else "discrete"),
            "observed": {"first_appearance_per_record": [len(s) for s in steps]}}
