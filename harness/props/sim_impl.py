"""End-to-end scenarios through ladim.main.main for the system-level properties (C08, C10, C14),
encoded for the executable Sim instance in coq/Corr/SimInst.v.

env = {N, p, life (steps or -1), utab[n][c], ttab_levels[n][lev], rows: [step, x, cls]}  (tag = row index)
Depth classes: Z = 100 / 60 / 10 m over h = 120 m with three unstretched levels (-100, -60, -20):
  class c feels the velocity of level c exactly, and the scalar field of level max(c, 1).
"""
from __future__ import annotations

from pathlib import Path

import numpy as np

import romsfiles as rf
import run_ladim as rl
from coqbridge import fl

PLUG = str(Path(__file__).resolve().parents[1] / "plugins" / "kill_ibm.py")
DT, DX = 512, 1024.0
IMAX, JMAX, NLEV = 20, 8, 3
# class 2 sits ABOVE the top rho level (-19.999999999999996 m in floats): the level weight is then clamped to
# exactly 0; at 20.0 m it was 8.9e-17, which makes the sampled velocity 1 ulp short and the positions inexact below x = 4
ZCLS = [100.0, 60.0, 10.0]
LO, HI = 1.5, IMAX - 2.5  # valid region of the full grid in x: i0 + 0.5 < x < i1 - 1.5


def make_env(rng, N=None, p=None):
    N = N or rng.randint(3, 9)
    p = p or rng.choice([1, 1, 2, 3])
    utab = [[rng.choice([0.0, 0.25, 0.5, 1.0, 1.5, 2.5, -0.5]) for _ in range(NLEV)] for _ in range(N)]
    ttab = [[float(rng.randint(1, 30)) for _ in range(NLEV)] for _ in range(N)]
    rows = []
    for n in range(N):
        if n == 0 or rng.random() < 0.5:
            for _ in range(rng.randint(1, 3)):
                rows.append([n, rng.randint(2 * 64, 15 * 64) / 64, rng.randrange(3)])
    life = rng.choice([-1, -1, 2, 3, 5])
    return {"N": N, "p": p, "life": life, "utab": utab, "ttab": ttab, "rows": rows}


def land_mask(land):
    """rho mask of the synthetic grid with the WHOLE columns `land` (x-cells) on land, None when there is none"""
    if not land:
        return None
    mask = np.ones((JMAX, IMAX))
    for i in land:
        mask[:, int(i)] = 0.0
    return mask


def write_forcing(d, name, times, ulev, tlev, time_unit="s", land=None):
    """ulev/tlev: per frame, per level values (uniform horizontally); land: x-cells whose whole column is land
    (the file holds the unmasked uniform flow: the real code masks the u-faces next to land itself)"""
    T = len(times)
    u = np.zeros((T, NLEV, JMAX, IMAX - 1)); t = np.zeros((T, NLEV, JMAX, IMAX))
    for k in range(T):
        for lev in range(NLEV):
            u[k, lev] = ulev[k][lev]; t[k, lev] = tlev[k][lev]
    return rf.write_roms(d / name, imax=IMAX, jmax=JMAX, N=NLEV, times=times, u=u, extra={"temp": t}, h=120.0, dx=DX, time_unit=time_unit,
                         mask=land_mask(land))


def config(d, env, start, stop, out, rel, forcing, numrec=0, rev=False, adv="EF"):
    conf = rf.base_config(start=start, stop=stop, dt=DT, forcing_file=d / forcing, release_file=d / rel, out_file=d / out,
                          advection=adv, output_period=env["p"] * DT, numrec=numrec, time_reversal=rev,
                          instance_variables=("pid", "X", "Y", "Z", "age", "temp"), reference=0)
    conf["state"] = {"instance_variables": {"age": "float", "temp": "float"}, "default_values": {"age": 0.0, "temp": 0.0},
                     "particle_variables": {"release_time": "time"}}
    conf["output"]["particle_variables"] = {"release_time": {"encoding": {"datatype": "f8"}, "attributes": {"units": "seconds since reference_time"}}}
    conf["forcing"]["extra_forcing"] = ["temp"]
    conf["ibm"] = {"module": PLUG, "age": True}
    if env["life"] >= 0:
        conf["ibm"]["lifetime"] = env["life"] * DT
    return conf


def records(paths, tstart, rev=False):
    out = []
    for p in paths:
        o = rl.read_sparse(p)
        for r in o["records"]:
            t = r["time"]
            step = round(((tstart - t) if rev else (t - tstart)) / DT)
            rows = [[int(q), float(x), round(float(a) / DT), float(tt)] for q, x, a, tt in
                    zip(r["vars"]["pid"], r["vars"]["X"], r["vars"]["age"], r["vars"]["temp"])]
            out.append({"step": step, "time": t, "rows": rows, "file": p.name, "Z": r["vars"]["Z"], "Y": r["vars"]["Y"]})
    return out


def run_forward(d, env, name, keep=None, shift=0, numrec=0, adv="EF", order=None, time_unit="s"):
    N = env["N"]
    t0 = 50000 + shift
    times = [t0 + k * DT for k in range(N + 1)]
    write_forcing(d, f"f_{name}.nc", times, env["utab"] + [[0.0] * NLEV], env["ttab"] + [[0.0] * NLEV], time_unit=time_unit)
    idx = [i for i in range(len(env["rows"])) if keep is None or i in keep]
    if order:
        idx = order
    rows = [[t0 + env["rows"][i][0] * DT, env["rows"][i][1], 4.0, ZCLS[env["rows"][i][2]]] for i in idx]
    rf.write_release(d / f"r_{name}.rls", rows)
    conf = config(d, env, t0, t0 + N * DT, f"o_{name}.nc", f"r_{name}.rls", f"f_{name}.nc", numrec=numrec, adv=adv)
    rl.run_main(conf, d)
    files = sorted(d.glob(f"o_{name}_*.nc"), key=lambda p: int(p.stem.split("_")[-1])) if numrec else [d / f"o_{name}.nc"]
    return records(files, t0), files, conf


def run_warm(d, env, name, cold_conf, restart_file, out_number):
    conf = {k: (dict(v) if isinstance(v, dict) else v) for k, v in cold_conf.items()}
    conf["time"] = dict(conf["time"]); del conf["time"]["start"]
    conf["output"] = dict(conf["output"]); conf["output"]["filename"] = str(d / f"w_{name}_{out_number:03d}.nc")
    conf["warm_start"] = {"filename": str(restart_file), "variables": ["age", "temp", "release_time"]}
    rl.run_main(conf, d)
    files = sorted(d.glob(f"w_{name}_*.nc"), key=lambda p: int(p.stem.split("_")[-1]))
    return records(files, 50000), files


def run_reversed(d, env, name, adv="EF"):
    """the reversed set-up that compiles to the same step-indexed environment: start S, frames at S - k dt
    holding -u of step k, release rows at S - step*dt (file sorted descending)"""
    N = env["N"]
    S = 90000
    times = [S - k * DT for k in range(N, -1, -1)]
    ul = [[-x for x in env["utab"][k]] if k < N else [0.0] * NLEV for k in range(N, -1, -1)]
    tl = [env["ttab"][k] if k < N else [0.0] * NLEV for k in range(N, -1, -1)]
    write_forcing(d, f"f_{name}.nc", times, ul, tl)
    rows = [[S - r[0] * DT, r[1], 4.0, ZCLS[r[2]]] for r in env["rows"]]
    rf.write_release(d / f"r_{name}.rls", rows)
    conf = config(d, env, S, S - N * DT, f"o_{name}.nc", f"r_{name}.rls", f"f_{name}.nc", rev=True, adv=adv)
    rl.run_main(conf, d)
    return records([d / f"o_{name}.nc"], S, rev=True), S


def enc_env(env):
    N = env["N"]
    ints = [N, env["p"]] + fl(DT / DX) + [env["life"]] + fl(LO) + fl(HI) + [NLEV]
    for n in range(N):
        for c in range(NLEV):
            ints += fl(env["utab"][n][c])
    for n in range(N):
        for c in range(NLEV):
            ints += fl(env["ttab"][n][max(c, 1)])
    ints += [len(env["rows"])]
    for i, r in enumerate(env["rows"]):
        ints += [r[0], i] + fl(r[1]) + [r[2]]
    return ints


def enc_run(kind, param, recs, tags=None):
    out = [kind, param]
    if kind == 1:
        out += list(tags)
    out += [len(recs)]
    for r in recs:
        out += [r["step"], len(r["rows"])]
        for q, x, a, t in r["rows"]:
            out += [q] + fl(x) + [a] + fl(t)
    return out


def traj_by_row(recs, env_rows_in_order):
    """trajectory per release row (identified by its position in the release file = pid order of first
    appearance): {row index: [(step, X, age, temp), ...]}"""
    out = {}
    for r in recs:
        for q, x, a, t in r["rows"]:
            out.setdefault(q, []).append((r["step"], x, a, t))
    return out
