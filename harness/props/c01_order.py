"""C01 ARRANGEMENT cases: orders / names / spellings of the inputs that must not matter.

One small scenario is run through the real Model (configure_v2 + Model.update loop, the real ROMS Grid/Forcing, the real
ParticleReleaser and Tracker) twice: with the inputs arranged the USUAL way (three forcing files that all count
ocean_time in "seconds since 2000-01-01 00:00:00", release columns release_time X Y Z named in the configuration,
f8 variables in the order write_roms creates them) and in ANOTHER, equally legal way:

  forcing files   per-file time units / reference times (seconds, hours, days since other instants; also the FIRST file),
                  another spelling of the same units string, all frames in one file, other file names, variables
                  created in the reverse order, f4 / packed i2 storage (the values are dyadic: exact in every storage)
  release file    columns in another order, header line instead of `names`, rows of equal release time permuted,
                  a `mult` column instead of repeated rows, lon/lat instead of X/Y, times spelled with a fraction of a second
  configuration   keys and lists in the reverse order, start/stop spelled otherwise

The velocity is uniform in space and linear in time (u = A*t, v = V0 - B*t, stored at frames two steps apart, dyadic
values), so linear time interpolation is exact and the scheme's step is known in closed form:
EF moves by u(t_k)*dt/dx, RK2 and RK4 by u(t_k + dt/2)*dt/dx.  ORACLE (the property, for either arrangement): every
particle ends at its release position plus the sum of the scheme's steps since its release (1e-6, the module's
end-to-end tolerance); METAMORPHIC: the two arrangements end at the same positions (1e-9; particles matched by their
release position, since pids legitimately depend on the order of the rows).
The frame times are multiples of 1350 s = 0.375 h = 1/64 d, so they are exact in every unit used.
"""
from __future__ import annotations

import copy

import numpy as np
from netCDF4 import Dataset

import romsfiles as rf
import run_ladim as rl

IMAX, JMAX, N = 16, 10, 2
DX, DY, DT = 1000.0, 1000.0, 675  # (the ROMS grid samples one metric for both directions: dy = dx)
FSTEP = 2  # steps between frames
NFRAMES = 6  # frames at 0, 1350, ..., 6750 s
START, NSTEPS = 2 * DT, 7  # the run starts at the second frame and ends half way between the last two
AU, V0, BV = 0.125, 0.5, 0.0625  # u(frame k) = AU*k, v(frame k) = V0 - BV*k  [m/s]
SPLIT = [(0, 2), (2, 4), (4, 6)]  # frames per file

# release: (step after START, X, Y, Z)
ROWS = [(0, 4.0, 3.0, 5.0), (0, 6.5, 4.25, 5.0), (0, 9.0, 2.5, 5.0), (1, 5.0, 5.0, 5.0), (1, 7.75, 3.5, 5.0),
        (3, 3.5, 4.5, 5.0), (3, 3.5, 4.5, 5.0), (3, 10.0, 6.0, 5.0)]

# arrangement -> per-file keyword arguments of write_roms (time spelling), or another change
TIME_ARR = {
    "ref-shift-last": [dict(), dict(), dict(time_ref_shift=-86400)],
    "ref-shift": [dict(), dict(time_ref_shift=-86400), dict(time_ref_shift=3600)],
    "ref-shift-first": [dict(time_ref_shift=-86400), dict(), dict()],
    "hours": [dict(), dict(time_unit="h"), dict(time_unit="h", time_ref_shift=-7200)],
    "days": [dict(), dict(time_unit="d", time_ref_shift=-86400), dict()],
    "mixed": [dict(time_unit="d"), dict(time_ref_shift=86400), dict(time_unit="h", time_ref_shift=3600)],
    "units-spelling": [dict(), dict(time_units="seconds since 2000-01-01"), dict(time_units="seconds since 2000-01-01T00:00:00")],
}
OTHER_ARR = ["one-file", "file-names", "var-order", "f4", "packed", "rel-columns", "rel-header", "rel-rows", "rel-mult",
             "rel-lonlat", "rel-time-spelling", "conf-order", "conf-time-spelling"]


def cases():
    out = []
    for i, a in enumerate(TIME_ARR):
        # the time arrangements with every scheme for the seed's kind, the others rotate
        for adv in (("EF", "RK2", "RK4") if a in ("ref-shift-last", "ref-shift", "mixed") else (("EF", "RK2", "RK4")[i % 3],)):
            out.append({"k": "arr", "adv": adv, "arr": a})
    for i, a in enumerate(OTHER_ARR):
        out.append({"k": "arr", "adv": ("RK4", "RK2", "EF")[i % 3], "arr": a})
    return out


def frame_fields():
    k = np.arange(NFRAMES, dtype=float)
    u = np.broadcast_to((AU * k)[:, None, None, None], (NFRAMES, N, JMAX, IMAX - 1))
    v = np.broadcast_to((V0 - BV * k)[:, None, None, None], (NFRAMES, N, JMAX - 1, IMAX))
    return u, v


def expected(adv, rows):
    """release position + sum of the scheme's steps since the release"""
    off = 0.0 if adv == "EF" else 0.5
    per = DT * FSTEP  # seconds between frames
    X, Y = [], []
    for r, x, y, _ in rows:
        t = START + (np.arange(r, NSTEPS) + off) * DT  # the scheme's velocity time of every step taken
        X.append(x + float(np.sum(AU * t / per)) * DT / DX)
        Y.append(y + float(np.sum(V0 - BV * t / per)) * DT / DY)
    return np.array(X), np.array(Y)


def reorder_copy(src, dst):
    """the same NetCDF file with the variables created in the reverse order"""
    with Dataset(src) as a, Dataset(dst, "w", format="NETCDF4") as b:
        for name, dim in a.dimensions.items():
            b.createDimension(name, None if dim.isunlimited() else len(dim))
        for name in reversed(list(a.variables)):
            va = a.variables[name]
            va.set_auto_maskandscale(False)
            vb = b.createVariable(name, va.dtype, va.dimensions)
            vb.set_auto_maskandscale(False)
            vb.setncatts({k: va.getncattr(k) for k in va.ncattrs()})
            vb[...] = va[...]


def reverse_keys(x):
    if isinstance(x, dict):
        return {k: reverse_keys(x[k]) for k in reversed(list(x))}
    return x


def run(d, adv, arr):
    """write the inputs in arrangement `arr` (None: the usual one) into d, run the real Model, return (rows, X, Y) with
    X, Y in the order of `rows`"""
    d.mkdir(parents=True, exist_ok=True)
    for f in d.glob("*.nc"):
        f.unlink()
    u, v = frame_fields()
    times = [k * FSTEP * DT for k in range(NFRAMES)]
    kw = dict(imax=IMAX, jmax=JMAX, N=N, dx=DX)
    if arr == "f4":
        kw["dtype"] = "f4"
    if arr == "packed":
        kw["packed"] = {"u": 1 / 64, "v": 1 / 64}
    rf.write_roms(d / "grid.nc", times=[], grid_only=True, **kw)
    names = ["f_001.nc", "f_002.nc", "f_003.nc"]
    if arr == "file-names":  # text order = time order (what the forcing documents), numbers and lengths differ
        names = ["f_10.nc", "f_9.nc", "f_91.nc"]
    if arr == "one-file":
        rf.write_roms(d / names[0], times=times, u=u, v=v, **kw)
    else:
        for i, (a, b) in enumerate(SPLIT):
            rf.write_roms(d / names[i], times=times[a:b], u=u[a:b], v=v[a:b], **kw, **(TIME_ARR.get(arr, [{}] * 3)[i]))
    if arr == "var-order":
        for nm in names:
            reorder_copy(d / nm, d / ("g" + nm[1:]))
            (d / nm).unlink()
        pattern = d / "g_*.nc"
    else:
        pattern = d / "f_*.nc"

    rows = list(ROWS)
    cols = ["release_time", "X", "Y", "Z"]
    if arr == "rel-rows":  # rows of equal release time in another order
        rows = [ROWS[i] for i in (2, 0, 1, 4, 3, 7, 5, 6)]
    tsp = (lambda t: rf.iso(t) + ".000") if arr == "rel-time-spelling" else rf.iso  # same instants, with a fraction
    table = [{"release_time": tsp(START + r * DT), "X": x, "Y": y, "Z": z, "lon": 0.01 * x, "lat": 60 + 0.01 * y, "mult": 1}
             for r, x, y, z in rows]
    if arr == "rel-mult":  # the two identical rows as one row with mult = 2
        table = [t for i, t in enumerate(table) if i != 6]
        table[5]["mult"] = 2
        cols = ["mult", "release_time", "X", "Y", "Z"]
    if arr == "rel-columns":
        cols = ["Z", "Y", "release_time", "X"]
    if arr == "rel-lonlat":
        cols = ["lat", "release_time", "Z", "lon"]
    header = arr == "rel-header"
    with (d / "r.rls").open("w") as f:
        if header:
            f.write("   ".join(cols) + "\n")
        for t in table:
            f.write(" ".join(repr(t[c]) if isinstance(t[c], float) else str(t[c]) for c in cols) + "\n")

    stop = START + NSTEPS * DT
    conf = rf.base_config(start=START, stop=stop, dt=DT, forcing_file=pattern, grid_file=d / "grid.nc", release_file=d / "r.rls",
                          out_file=d / "o.nc", advection=adv, names=cols)
    if header:
        del conf["release"]["names"]
    if arr == "conf-time-spelling":
        conf["time"]["start"] = rf.iso(START).replace("T", " ")
        conf["time"]["stop"] = rf.iso(stop) + ".000"
    if arr == "conf-order":
        conf = reverse_keys(conf)
    m = rl.run_conf(copy.deepcopy(conf))
    st = m.state
    pid = np.asarray(st.pid)
    X = np.asarray(st.X, dtype=float)[np.argsort(pid)]
    Y = np.asarray(st.Y, dtype=float)[np.argsort(pid)]
    if arr == "rel-mult":
        rows = list(ROWS)  # mult = 2 releases the two identical particles with consecutive pids
    return rows, X, Y


_BASE = {}


def eval_arr(desc, ctx):
    adv, arr = desc["adv"], desc["arr"]
    tag = f"{adv} with the inputs arranged as '{arr}'"
    nontrivial = ("arr", adv, arr)
    oracle, observed = None, None
    try:
        if adv not in _BASE:
            _BASE[adv] = run(ctx.subdir("c01arr_" + adv + "_usual"), adv, None)
        rows0, X0, Y0 = _BASE[adv]
        rows1, X1, Y1 = run(ctx.subdir("c01arr_" + adv + "_" + arr), adv, arr)
    except (Exception, SystemExit) as e:  # the inputs are legal: the real code must run
        return {"ints": None, "oracle": f"{tag}: the run failed with {type(e).__name__}: {str(e)[:160]}", "nontrivial": nontrivial,
                "kind": "arr-" + arr, "observed": None}
    for what, rows, X, Y in (("usual arrangement", rows0, X0, Y0), ("arrangement " + arr, rows1, X1, Y1)):
        if len(X) != len(rows):
            oracle = oracle or f"{tag} ({what}): {len(X)} particles alive at the end, {len(rows)} released in open water"
            continue
        ex, ey = expected(adv, rows)
        err = np.maximum(np.abs(X - ex), np.abs(Y - ey))
        if not np.all(err < 1e-6):
            i = int(np.argmax(~(err < 1e-6)))
            oracle = oracle or (f"{tag} ({what}): particle {i} released at step {rows[i][0]} in ({rows[i][1]}, {rows[i][2]}) ends in "
                                f"({X[i]}, {Y[i]}), the scheme prescribes ({ex[i]}, {ey[i]})")
    if oracle is None:
        # metamorphic: same end points (matched by release row)
        k0 = np.lexsort((Y0, X0, [r[2] for r in rows0], [r[1] for r in rows0], [r[0] for r in rows0]))
        k1 = np.lexsort((Y1, X1, [r[2] for r in rows1], [r[1] for r in rows1], [r[0] for r in rows1]))
        dd = np.maximum(np.abs(X0[k0] - X1[k1]), np.abs(Y0[k0] - Y1[k1]))
        if not np.all(dd < 1e-9):
            i = int(np.argmax(dd))
            oracle = f"{tag}: end point ({X1[k1][i]}, {Y1[k1][i]}) differs from ({X0[k0][i]}, {Y0[k0][i]}) of the usual arrangement of the same inputs"
        observed = [float(X1[0]), float(Y1[0])]
    return {"ints": None, "oracle": oracle, "nontrivial": nontrivial, "kind": "arr-" + arr, "observed": observed}
