"""C08 under OPTION COMBINATIONS: restart transparency of set-ups that use rarely used options — real code end to end.

The generated cases of c08.py and the scale cases of c08_scale.py all use one configuration style: f8/i4 output
variables without packing, a YAML file, forward time, the whole grid, a release file without header.  The cases here
are a fixed, deterministic table (no random numbers) that covers PAIRWISE the options that lie on the path of a warm
start (the restart file is an OUTPUT file, so every output option is an input option of the restarted run):

  adv     EF / RK2 / RK4
  enc     how the instance variables are stored in the output = restart file:
            f8      X Y Z age temp (weight) f8, pid i4
            f4      X Y Z age temp (weight) f4, pid i8
            packZ   Z as i2 with scale_factor 0.1 (decimetres), the rest f8
            packall X Y as i4 with scale_factor 2**-12 and add_offset 8, Z as i2 with scale_factor 0.5 and add_offset 64,
                    age as i4 with scale_factor 256, temp as i2 with scale_factor 0.25 and add_offset 4, weight as i2 with
                    scale_factor 0.25, pid as i2
            ints    integer-typed: age i4, pid i8, temp i2 (all of them whole numbers here), the rest f8
  rev     forward / time_reversal
  sub     whole grid / subgrid with offsets
  cont    discrete / continuous release
  lonlat  lon, lat among the output instance variables or not
  pv      particle variables: none / release_time / release_time + an integer one read from the release file
  extra   an extra instance variable (weight) read from the release file, written and warm-started, or not
  fstore  forcing stored as f8 / f4 / packed i2 (scale_factor)
  fsplit  forcing in one file / in three files
  fmt     configuration file YAML / TOML
  hdr     release file columns named in the configuration / by a header line
  gridf   grid file: the (first) forcing file named explicitly / left out of the configuration / a file of its own
  split   (N, p, numrec): (12, 1, 4) / (13, 2, 3) the duration not a multiple of the period / (11, 3, 1)
  ref     output reference time: default (each run's own earliest time) / explicit

Not options of this property: dense layout (a dense file holds no particle_count: no warm start from it), version 1
configuration files (configure_v1 has no warm start), diffusion (excluded by the property).

EXACTNESS.  A packed or f4 variable is lossy in general, and the property holds "up to output precision".  So that
it has to hold to the tolerance the module uses everywhere (1e-9), every value written is exactly representable in
every encoding of the table, by construction: dt = 512 s, dx = 1024 m, depth 128 m with rho levels at 96 and 32 m,
particle depths 16/48/64/80/112 m (vertical weights 0, 1/4, 1/2, 3/4, 1), a current that is uniform in the
horizontal, a multiple of 1/16 m/s at the frames (0, 4, 8, 16 steps apart: linear interpolation in time stays
dyadic, also at half steps), so that positions are multiples of 2**-12 (they start at an odd multiple of 2**-12: never
on a cell boundary, where a last-bit difference could change the cell), ages multiples of 512 s, temp (nearest
cell, piecewise constant in time) a multiple of 0.25, weights multiples of 0.25.  RK4 is not combined with the two
encodings that are lossy in X and Y (its /6 is exact for the real code here but need not be for a harmless rewrite).

The oracle is the property itself: for every restart point the files of the restarted run hold the same record
times, particle counts, identifiers (exactly), every instance variable of the file (as a reader of the file sees
them: unpacked; to 1e-9) and every particle variable as the files of the uninterrupted run after the restart file,
with the same file numbering.  Nothing here looks at private attributes of ladim; runs go through ladim.main.main.
Without particle variables the number of particles released so far can only be recovered from the identifiers in
the restart file (the KNOWN FINDING of this property): such cases restart only from files that hold the highest
identifier handed out so far.
"""
from __future__ import annotations

import itertools
import json
import logging
import os

import numpy as np
from netCDF4 import Dataset

import c08_impl
import romsfiles as rf
import run_ladim as rl

PLUG = c08_impl.PLUG  # the plug-in IBM of the harness (ages particles, kills above a lifetime)
TOL = 1e-9  # as c08_impl.compare

IMAX, JMAX, KMAX = 20, 10, 2
DT, DX, DEPTH = 512, 1024.0, 128.0
SUBGRID = [3, 17, 2, 9]
EPS = 2.0 ** -12
FRAMES = [0, 4, 8, 16]  # steps
UF = [1 / 16, 2 / 16, 1 / 16, 3 / 16]  # m/s in the lower layer at the frames, twice that in the upper one
VF = [1 / 32, -1 / 32, 1 / 16, 0.0]
LIFE = 5  # steps
WEIGHTS = [0.5, 1.25, 2.0, 0.75, 3.5, 1.0, 2.25, 0.25]

FACTORS = {
    "adv": ["EF", "RK2", "RK4"],
    "enc": ["f8", "f4", "packZ", "packall", "ints"],
    "rev": [False, True],
    "sub": [False, True],
    "cont": [False, True],
    "lonlat": [False, True],
    "pv": ["none", "rt", "rt+id"],
    "extra": [False, True],
    "fstore": ["f8", "f4", "packed"],
    "fsplit": [1, 3],
    "fmt": ["yaml", "toml"],
    "hdr": [False, True],
    "gridf": ["forcing", "omitted", "own"],
    "split": ["12/1/4", "13/2/3", "11/3/1"],
    "ref": ["default", "explicit"],
}


def excluded(a, va, b, vb):
    """pairs of option values that are not combined (see the module text)"""
    d = {a: va, b: vb}
    if d.get("adv") == "RK4" and d.get("enc") in ("f4", "packall"):
        return True
    # without particle variables every particle must appear in a record: a record every step
    if d.get("pv") == "none" and d.get("split") in ("13/2/3", "11/3/1"):
        return True
    return False


def _c(adv, enc, rev, sub, cont, lonlat, pv, extra, fstore, fsplit, fmt, hdr, gridf, split, ref):
    return {"adv": adv, "enc": enc, "rev": bool(rev), "sub": bool(sub), "cont": bool(cont), "lonlat": bool(lonlat), "pv": pv,
            "extra": bool(extra), "fstore": fstore, "fsplit": fsplit, "fmt": fmt, "hdr": bool(hdr), "gridf": gridf, "split": split,
            "ref": ref}


# the covering table (made once by a greedy search, kept literally: the cases never change)
TABLE = [
    _c('RK2', 'packZ', False, False, True, False, 'rt', False, 'f8', 1, 'yaml', False, 'forcing', '12/1/4', 'default'),
    _c('EF', 'f4', True, False, False, True, 'rt+id', False, 'packed', 3, 'toml', True, 'own', '13/2/3', 'explicit'),
    _c('RK4', 'f8', True, True, True, False, 'none', True, 'f4', 3, 'toml', True, 'omitted', '12/1/4', 'default'),
    _c('RK2', 'ints', False, True, False, False, 'rt+id', True, 'f8', 3, 'yaml', False, 'omitted', '11/3/1', 'explicit'),
    _c('RK4', 'ints', True, True, False, True, 'rt', True, 'packed', 1, 'yaml', True, 'forcing', '11/3/1', 'explicit'),
    _c('EF', 'packall', False, True, True, False, 'rt', False, 'packed', 1, 'toml', False, 'omitted', '13/2/3', 'explicit'),
    _c('RK4', 'ints', False, False, True, True, 'none', False, 'f4', 1, 'yaml', False, 'own', '12/1/4', 'explicit'),
    _c('EF', 'packall', True, False, True, True, 'rt+id', True, 'f4', 1, 'yaml', True, 'own', '11/3/1', 'default'),
    _c('RK2', 'f8', True, True, False, True, 'rt', False, 'f8', 1, 'toml', True, 'own', '13/2/3', 'explicit'),
    _c('EF', 'packZ', True, True, False, False, 'none', False, 'f4', 3, 'toml', False, 'forcing', '12/1/4', 'default'),
    _c('RK4', 'packZ', False, False, False, True, 'rt+id', True, 'packed', 1, 'yaml', True, 'omitted', '13/2/3', 'default'),
    _c('RK2', 'f4', False, False, True, False, 'none', True, 'packed', 3, 'yaml', True, 'omitted', '12/1/4', 'default'),
    _c('EF', 'f8', True, False, True, False, 'rt+id', False, 'packed', 1, 'yaml', False, 'forcing', '11/3/1', 'default'),
    _c('RK2', 'f4', False, True, True, True, 'rt', False, 'f4', 1, 'yaml', True, 'forcing', '13/2/3', 'explicit'),
    _c('RK2', 'packall', False, True, False, False, 'none', False, 'f8', 3, 'toml', False, 'own', '12/1/4', 'explicit'),
    _c('EF', 'ints', True, False, False, True, 'rt', True, 'f8', 1, 'toml', False, 'own', '13/2/3', 'default'),
    _c('RK4', 'packZ', False, True, False, False, 'rt+id', False, 'f8', 3, 'toml', True, 'own', '11/3/1', 'explicit'),
    _c('RK2', 'f4', True, False, True, False, 'rt', True, 'f8', 3, 'toml', False, 'omitted', '11/3/1', 'default'),
    _c('EF', 'packall', False, True, False, True, 'rt+id', True, 'f8', 3, 'yaml', False, 'forcing', '12/1/4', 'default'),
    _c('RK2', 'f8', False, True, True, True, 'rt+id', False, 'f8', 3, 'toml', False, 'omitted', '11/3/1', 'default'),
]


def name_of(c):
    return "-".join([c["adv"], c["enc"], "rev" if c["rev"] else "fwd", "sub" if c["sub"] else "whole", "cont" if c["cont"] else "disc",
                     "lonlat" if c["lonlat"] else "xy", "pv:" + c["pv"], "extra" if c["extra"] else "noextra",
                     f"forcing:{c['fstore']}x{c['fsplit']}", c["fmt"], "hdr" if c["hdr"] else "names", "grid:" + c["gridf"],
                     "split:" + c["split"], "ref:" + c["ref"]])


def uncovered(table=None):
    """allowed pairs of option values that no case of the table has (empty for the table above)"""
    table = TABLE if table is None else table
    out = []
    for a, b in itertools.combinations(FACTORS, 2):
        for va in FACTORS[a]:
            for vb in FACTORS[b]:
                if not excluded(a, va, b, vb) and not any(c[a] == va and c[b] == vb for c in table):
                    out.append((a, va, b, vb))
    return out


# ---------------------------------------------------------------------------------------------------------------
# inputs


def geometry(c):
    N, p, numrec = (int(x) for x in c["split"].split("/"))
    sg = -1 if c["rev"] else 1
    t0 = N * DT if c["rev"] else 0
    if c["sub"]:
        i0, i1, j0, j1 = SUBGRID
    else:
        i0, i1, j0, j1 = 1, IMAX - 1, 1, JMAX - 1
    lo, hi = i0 + 0.5, i1 - 1 - 0.5  # the particles are inside for lo < X < hi
    return {"N": N, "p": p, "numrec": numrec, "sg": sg, "t0": t0, "lo": lo, "hi": hi, "ylo": j0 + 0.5, "yhi": j1 - 1 - 0.5}


def write_forcing(d, c):
    ii = np.arange(IMAX)[None, :]
    jj = np.arange(JMAX)[:, None]
    lon = 4.0 + ii / 32.0 + jj / 128.0
    lat = 60.0 + jj / 64.0 - ii / 256.0
    cell = 0.25 * ((ii + 2 * jj) % 8)

    def fields(fr):
        u = np.zeros((len(fr), KMAX, JMAX, IMAX - 1))
        v = np.zeros((len(fr), KMAX, JMAX - 1, IMAX))
        t = np.zeros((len(fr), KMAX, JMAX, IMAX))
        for n, f in enumerate(fr):
            for k in range(KMAX):
                u[n, k] = UF[f] * (1 + k)
                v[n, k] = VF[f]
                t[n, k] = 4.0 + cell + 2.0 * k + 8.0 * f
        return u, v, t

    groups = [[0, 1, 2, 3]] if c["fsplit"] == 1 else [[0], [1, 2], [3]]
    kw = {"imax": IMAX, "jmax": JMAX, "N": KMAX, "h": DEPTH, "dx": DX, "lon": lon, "lat": lat}
    for fi, g in enumerate(groups):
        u, v, t = fields(g)
        more = {}
        if c["fstore"] == "f4":
            more["dtype"] = "f4"
        elif c["fstore"] == "packed":
            more["packed"] = {"u": 1 / 64, "v": 1 / 128, "temp": 0.25}
        rf.write_roms(d / f"f_{fi:03d}.nc", times=[FRAMES[f] * DT for f in g], u=u, v=v, extra={"temp": t}, **kw, **more)
    if c["gridf"] == "own":
        rf.write_roms(d / "grid.nc", times=[], grid_only=True, **kw)


def release_rows(c):
    """rows (step, mult, X, Y, Z, weight, farmid); a step is counted from the start in the direction of the run"""
    g = geometry(c)
    # the downstream boundary: the current flows towards +x, a reversed run follows it backwards
    edge = (g["lo"] + 0.1875) if c["rev"] else (g["hi"] - 0.1875)
    mid = 0.5 * (g["lo"] + g["hi"])
    base = [
        (0, 1, mid - 2.0, 4.0, 16.0), (0, 2, mid - 0.5, 5.25, 48.0), (0, 1, edge, 4.5, 64.0),
        (2, 1, mid + 0.25, 3.5, 80.0),
        (5, 1, mid - 1.25, 6.0, 112.0), (5, 1, edge, 5.5, 48.0),
        (7, 3, mid + 1.0, 4.5, 64.0),
        (10, 1, mid, 5.0, 16.0),
    ]
    if c["cont"]:  # two entries; held and released again every 3 steps
        base = [r for r in base if r[0] in (0, 5)]
    rows = [(s, m, x + EPS, y + EPS, z, WEIGHTS[k % len(WEIGHTS)], 100 + 7 * k) for k, (s, m, x, y, z) in enumerate(base)]
    return [r for r in rows if r[0] < g["N"]]


def write_release(d, c):
    g = geometry(c)
    cols = ["release_time", "mult", "X", "Y", "Z"] + (["weight"] if c["extra"] else []) + (["farmid"] if c["pv"] == "rt+id" else [])
    lines = [" ".join(cols)] if c["hdr"] else []
    for s, m, x, y, z, w, fid in release_rows(c):
        vals = [rf.iso(g["t0"] + g["sg"] * s * DT), str(m), repr(x), repr(y), repr(z)]
        if c["extra"]:
            vals.append(repr(w))
        if c["pv"] == "rt+id":
            vals.append(str(fid))
        lines.append(" ".join(vals))
    (d / "r.rls").write_text("\n".join(lines) + "\n")
    return cols


def ivar(datatype, **attributes):
    return {"encoding": {"datatype": datatype}, "attributes": attributes}


def output_variables(c):
    e = c["enc"]
    if e == "f4":
        v = {"pid": ivar("i8", long_name="particle identifier"), "X": ivar("f4", long_name="X"), "Y": ivar("f4", long_name="Y"),
             "Z": ivar("f4", long_name="depth", units="m"), "age": ivar("f4", units="s"), "temp": ivar("f4", units="degC"),
             "weight": ivar("f4", long_name="weight")}
    elif e == "packZ":
        v = {"pid": ivar("i4", long_name="particle identifier"), "X": ivar("f8", long_name="X"), "Y": ivar("f8", long_name="Y"),
             "Z": ivar("i2", long_name="depth", units="m", scale_factor=0.1), "age": ivar("f8", units="s"),
             "temp": ivar("f8", units="degC"), "weight": ivar("f8", long_name="weight")}
    elif e == "packall":
        v = {"pid": ivar("i2", long_name="particle identifier"),
             "X": ivar("i4", long_name="X", scale_factor=EPS, add_offset=8.0), "Y": ivar("i4", long_name="Y", scale_factor=EPS, add_offset=8.0),
             "Z": ivar("i2", long_name="depth", units="m", scale_factor=0.5, add_offset=64.0),
             "age": ivar("i4", units="s", scale_factor=256.0), "temp": ivar("i2", units="degC", scale_factor=0.25, add_offset=4.0),
             "weight": ivar("i2", long_name="weight", scale_factor=0.25)}
    elif e == "ints":
        v = {"pid": ivar("i8", long_name="particle identifier"), "X": ivar("f8", long_name="X"), "Y": ivar("f8", long_name="Y"),
             "Z": ivar("f8", long_name="depth", units="m"), "age": ivar("i4", units="s"), "temp": ivar("i2", units="degC"),
             "weight": ivar("f8", long_name="weight")}
    else:
        v = {"pid": ivar("i4", long_name="particle identifier"), "X": ivar("f8", long_name="X"), "Y": ivar("f8", long_name="Y"),
             "Z": ivar("f8", long_name="depth", units="m"), "age": ivar("f8", units="s"), "temp": ivar("f8", units="degC"),
             "weight": ivar("f8", long_name="weight")}
    if not c["extra"]:
        del v["weight"]
    if c["lonlat"]:
        v["lon"] = ivar("f8", long_name="longitude", units="degrees_east")
        v["lat"] = ivar("f8", long_name="latitude", units="degrees_north")
    return v


def make_conf(d, c, cols, out_name, warm=None):
    g = geometry(c)
    start, stop = g["t0"], g["t0"] + g["sg"] * g["N"] * DT
    conf = {
        "version": 2,
        "time": {"start": rf.iso(start), "stop": rf.iso(stop), "dt": DT},
        "state": {"instance_variables": {"age": "float", "temp": "float"}, "default_values": {"age": 0.0, "temp": 0.0}},
        "grid": {"module": "ladim.ROMS"},
        "forcing": {"module": "ladim.ROMS", "filename": str(d / ("f_*.nc" if c["fsplit"] > 1 else "f_000.nc")), "extra_forcing": ["temp"]},
        "release": {"release_file": str(d / "r.rls")},
        "tracker": {"advection": c["adv"]},
        "ibm": {"module": PLUG, "age": True, "lifetime": LIFE * DT},
        "output": {"filename": str(d / out_name), "output_period": g["p"] * DT, "numrec": g["numrec"], "layout": "sparse",
                   "instance_variables": output_variables(c), "particle_variables": {}},
    }
    if c["rev"]:
        conf["time"]["time_reversal"] = True
    if c["ref"] == "explicit":
        conf["time"]["reference"] = rf.iso(-86400 * 366)
    if c["gridf"] == "forcing":
        conf["grid"]["filename"] = str(d / "f_000.nc")
    elif c["gridf"] == "own":
        conf["grid"]["filename"] = str(d / "grid.nc")
    if c["sub"]:
        conf["grid"]["subgrid"] = list(SUBGRID)
    if not c["hdr"]:
        conf["release"]["names"] = list(cols)
    if c["cont"]:
        conf["release"]["continuous"] = True
        conf["release"]["release_frequency"] = 3 * DT
    wvars = ["age", "temp"]
    if c["extra"]:
        conf["state"]["instance_variables"]["weight"] = "float"
        wvars.append("weight")
    if c["pv"] != "none":
        conf["state"]["particle_variables"] = {"release_time": "time"}
        conf["output"]["particle_variables"]["release_time"] = ivar("f8", long_name="release time", units="seconds since reference_time")
        wvars.append("release_time")
    if c["pv"] == "rt+id":
        conf["state"]["particle_variables"]["farmid"] = "int"
        conf["output"]["particle_variables"]["farmid"] = ivar("i4", long_name="farm identifier")
        wvars.append("farmid")
    if c["fmt"] == "toml":
        conf["output"]["global_attributes"] = {"title": "option case", "institution": "verification harness"}
    if warm is not None:
        del conf["time"]["start"]
        conf["warm_start"] = {"filename": str(warm), "variables": wvars}
    return conf


# ---------------------------------------------------------------------------------------------------------------
# running


def toml_text(conf):
    """a TOML document of a nested dictionary of strings, numbers, booleans and lists of those"""
    def val(x):
        if isinstance(x, bool):
            return "true" if x else "false"
        if isinstance(x, (int, float)):
            return repr(x)
        if isinstance(x, str):
            return json.dumps(x)
        if isinstance(x, (list, tuple)):
            return "[" + ", ".join(val(y) for y in x) + "]"
        raise TypeError(type(x))

    lines = []

    def table(path, t):
        if path:
            lines.append("[" + ".".join(path) + "]")
        for k, v in t.items():
            if not isinstance(v, dict):
                lines.append(f"{k} = {val(v)}")
        for k, v in t.items():
            if isinstance(v, dict):
                table([*path, k], v)

    table([], conf)
    return "\n".join(lines) + "\n"


def run(conf, d, c, name):
    """through ladim.main.main, with a YAML or a TOML configuration file"""
    if c["fmt"] != "toml":
        rl.run_main(conf, d, name=name + ".yaml")
        return
    from ladim.main import main

    f = d / (name + ".toml")
    f.write_text(toml_text(conf))
    cwd = os.getcwd()
    os.chdir(d)
    try:
        main(str(f), loglevel=logging.CRITICAL + 10)
    finally:
        os.chdir(cwd)
        logging.disable(logging.CRITICAL)


def files_of(d, stem):
    return sorted(d.glob(stem + "_*.nc"), key=lambda f: int(f.stem.split("_")[-1]))


def ref_offset(units):
    ref = np.datetime64(units.split("since")[1].strip().replace(" ", "T"), "s")
    return float((ref - rf.EPOCH) / np.timedelta64(1, "s"))


def read_files(paths):
    """All records of a sequence of output files, as a reader of the files sees them (packed variables unpacked):
    absolute times, counts, every instance variable concatenated, the particle variables of every file"""
    times, counts, nrec, pvars = [], [], [], []
    inst = {}
    for path in paths:
        with Dataset(path) as nc:
            nc.set_auto_mask(False)
            tv = nc.variables["time"]
            times.append(np.asarray(tv[:], dtype=float) + ref_offset(tv.units))
            counts.append(np.asarray(nc.variables["particle_count"][:], dtype=np.int64))
            nrec.append(len(times[-1]))
            pv = {}
            for v, var in nc.variables.items():
                if var.dimensions == ("particle_instance",):
                    inst.setdefault(v, []).append(np.asarray(var[:]))
                elif var.dimensions == ("particle",):
                    a = np.asarray(var[:], dtype=float)
                    un = getattr(var, "units", "")
                    pv[v] = a + ref_offset(un) if "since" in un else a
            pvars.append(pv)
    cat = lambda xs: np.concatenate(xs) if xs else np.zeros(0)  # noqa: E731
    return {"time": cat(times), "count": cat(counts).astype(np.int64), "nrec": nrec,
            "inst": {v: (np.concatenate(a) if v == "pid" else np.concatenate(a).astype(float)) for v, a in inst.items()}, "pvars": pvars}


def differences(want, got, first_file):
    """The property for every record after the restart: `got` (files of the restarted run) against `want` (the files
    of the uninterrupted run after the restart file).  Returns a list of one-line differences."""
    out = []
    if got["nrec"] != want["nrec"]:
        out.append(f"records per file after the restart {got['nrec']} != uninterrupted {want['nrec']} (files {first_file}...)")
    n = min(len(want["time"]), len(got["time"]))
    if n == 0:
        return out
    bad = np.flatnonzero(want["time"][:n] != got["time"][:n])
    if bad.size:
        k = int(bad[0])
        out.append(f"record {k} after the restart: time {got['time'][k]} != {want['time'][k]}")
    bad = np.flatnonzero(want["count"][:n] != got["count"][:n])
    if bad.size:
        k = int(bad[0])
        out.append(f"record {k} after the restart (t={want['time'][k]:.0f} s): {int(got['count'][k])} particles, uninterrupted run has "
                   f"{int(want['count'][k])}")
        n = k
    m = int(want["count"][:n].sum())
    ends = np.cumsum(want["count"][:n])
    names = ["pid"] + sorted(v for v in want["inst"] if v != "pid")
    for v in names:
        if v not in got["inst"]:
            out.append(f"instance variable {v} is missing in the files of the restarted run")
            continue
        a, b = want["inst"][v][:m], got["inst"][v][:m]
        if v == "pid":
            neq = a != b
        else:
            neq = ~((np.abs(a - b) <= TOL) | (np.isnan(a) & np.isnan(b)))
        if neq.any():
            j = int(np.flatnonzero(neq)[0])
            k = int(np.searchsorted(ends, j, side="right"))
            start = int(ends[k] - want["count"][k])
            out.append(f"record {k} after the restart (t={want['time'][k]:.0f} s), particle {j - start} of {int(want['count'][k])} "
                       f"(pid {int(want['inst']['pid'][j])} in the uninterrupted run): {v} {b[j].item()!r} != {a[j].item()!r}; "
                       f"{int(neq.sum())} values of {v} differ")
            if v == "pid":
                break  # the other variables are compared particle by particle
    for fi, (pw, pg) in enumerate(zip(want["pvars"], got["pvars"])):
        for v, a in pw.items():
            b = pg.get(v)
            if b is None or b.shape != a.shape:
                out.append(f"file {first_file + fi}: particle variable {v}: {None if b is None else b.shape[0]} values, uninterrupted run "
                           f"has {a.shape[0]}")
            else:
                neq = ~((np.abs(a - b) <= TOL) | (np.isnan(a) & np.isnan(b)))
                if neq.any():
                    j = int(np.flatnonzero(neq)[0])
                    out.append(f"file {first_file + fi}: particle variable {v} of pid {j}: {b[j].item()!r} != {a[j].item()!r} ({int(neq.sum())} differ)")
    return out


def run_case(d, c):
    """Uninterrupted split run and restarts -> (problems, observed)"""
    write_forcing(d, c)
    cols = write_release(d, c)
    run(make_conf(d, c, cols, "cold.nc"), d, c, "cold")
    cold_files = files_of(d, "cold")
    nfiles = len(cold_files)
    observed = {"files": nfiles}
    if nfiles < 2:
        return [f"the uninterrupted run wrote {nfiles} file(s): no file boundary to restart from"], observed
    restarts = sorted({0, nfiles - 2})
    if c["pv"] == "none":
        # the restart file must hold the highest identifier handed out so far (see the module text)
        top, ok = -1, []
        for r, f in enumerate(cold_files[:-1]):
            with Dataset(f) as nc:
                p = np.asarray(nc.variables["pid"][:])
            here = int(p.max()) if p.size else -1
            if here >= top:
                ok.append(r)
            top = max(top, here)
        restarts = [r for r in restarts if r in ok] or ok[:1]
    observed["restarts"] = restarts
    problems = []
    seen = {"released": 0, "died": False, "born": False}
    for r in restarts:
        stem = f"warm{r}"
        conf = make_conf(d, c, cols, f"{stem}_{r + 1:03d}.nc", warm=cold_files[r])
        try:
            run(conf, d, c, stem)
        except BaseException as e:  # noqa: BLE001
            problems.append(f"restart after file {r}: crash {type(e).__name__}: {e}")
            continue
        warm_files = files_of(d, stem)
        want = read_files(cold_files[r + 1:])
        names_w = [f.name.split("_")[-1] for f in warm_files]
        names_c = [f.name.split("_")[-1] for f in cold_files[r + 1:]]
        if names_w != names_c:
            problems.append(f"restart after file {r}: files {names_w}, the uninterrupted run writes {names_c} after that file")
        got = read_files(warm_files)
        problems += [f"restart after file {r}: {m}" for m in differences(want, got, r + 1)]
        with Dataset(cold_files[r]) as nc:
            cnt = np.asarray(nc.variables["particle_count"][:])
            last = set(np.asarray(nc.variables["pid"][:])[int(cnt[:-1].sum()):].tolist())
        # non-trivial: a particle of the restart record is gone at the end, another one appears after the restart
        after = set(want["inst"]["pid"].tolist()) if "pid" in want["inst"] else set()
        if want["count"].size:
            final = set(want["inst"]["pid"][int(want["count"][:-1].sum()):].tolist())
            seen["died"] |= bool(last - final)
        seen["born"] |= bool(after - last)
        seen["released"] = max(seen["released"], max(after | last, default=-1) + 1)
    observed.update(seen)
    return problems, observed


def eval_opts(desc, d):
    c = desc["c"]
    name = name_of(c)
    problems, observed = run_case(d, c)
    head = f"option case {name}: "
    nt = ("opts", name) if observed.get("died") and observed.get("born") else None
    return {"ints": None, "oracle": (head + "; ".join(problems[:3])) if problems else None, "nontrivial": nt,
            "kind": "opts-" + c["enc"] + ("-rev" if c["rev"] else ""), "observed": observed}


assert not uncovered(), uncovered()[:5]


def gen_opts_cases():
    return [{"k": "opts", "c": dict(c)} for c in TABLE]
