"""C12 — vertical grid: generator, driver of the real ladim/ROMS.py, property oracle.

Streams
  sdepth   : generated interleaved stretching arrays (dyadic = exact stream / general floats), bathymetry H
             (1-D / 2-D, variable), hc, both staggers, Vtransform 1 and 2 -> real `sdepth` vs Coq model.
  stretch  : real `s_stretch` on sampled (N, theta_s, theta_b, Vstretching): property text checked by the oracle
             (R-valued model cannot be evaluated by vm_compute), its arrays are then fed to `sdepth` (real vs model).
  z2s      : real `z2s` (jitted kernel) on a small 3-D level array with variable bathymetry, particles in both
             halves of a cell and on .5 ties, depths above / inside / below / exactly on a level.
  kernel   : `z2s_kernel.py_func` on one column, N up to 60 (N = 1 = known edge, model comparison only).
  grid     : real `ladim.ROMS.Grid` from a synthetic file and from Vinfo; Grid.z_r / Grid.z_w vs model sdepth.
  sweep    : EVERY N in 1..60 in every run (oracle only): output lengths N / N+1 of s_stretch (three curves, both
             staggers) and sdepth (both Vtransforms), range, strict increase, interleaving; Grid from Vinfo has N levels.
  interval : Coq goals  Rabs (Cs vs ts tb (S N k) - <python value>) <= 1e-10  closed by the `interval` tactic.
  scale    : fixed cases at realistic size, first in every run (c12_scale.py, oracle only): z2s on 1000..262145
             scattered particles, Forcing.update on growing / shrinking states of up to 10^5 particles, > 1000
             consecutive updates between forcing frames, level clauses on bathymetries of 10^5 cells.
"""
from __future__ import annotations

import math
import subprocess
from concurrent.futures import ThreadPoolExecutor
from pathlib import Path

import numpy as np

import c12_scale
import romsfiles as rf
from coqbridge import COQ, fl

PROP = "C12"
THEOREM_FILE = "Props/C12.v"
CHECKER = "Corr.C12All"
SHARD = 25
RULE = ("sdepth: interleaved stretching arrays (dyadic exact stream, N in {1,2,4,8,16}; general floats, N in 1..60), "
        "H 1 m..5000 m as 1-D/2-D variable bathymetry, hc in [0, min H] (Vtransform 1) or >= 0 (Vtransform 2), both "
        "staggers; stretch: N in 1..60, theta_s in [1e-3, 10], theta_b in [0,1] (Vstretching 1) / [1e-3, 4] (2, 4), "
        "arrays then pushed through sdepth; z2s: 3x2 columns of different depth, particle cells by round-half-even "
        "incl. upper half of a cell and .5 ties, depths above/inside/below/on a level; kernel: one column N in 2..60 "
        "(plus N = 1, model comparison only); grid: Grid from file and from Vinfo (Vstretching 1/2/4, Vtransform "
        "1/2, default keys omitted); sweep: every N in 1..60 each run, structural facts (lengths N / N+1, range, strict "
        "increase, interleaving) of s_stretch x3 curves, sdepth x2 transforms and a Grid from Vinfo, oracle only; interval: sampled s_stretch values against the R model; "
        "scale (fixed, every run, oracle only): z2s on 1000..262145 particles in random / reversed-cell / clustered order over "
        "40x30..131x67 columns of 20 m..5000 m (N 2..60), Forcing.update on 1025..130000 particles with shuffles, a release and "
        "a removal between updates, 1250 consecutive updates at a tenth of the frame interval, level clauses in every cell of "
        "bathymetries up to 513x257. Non-trivial = distinct "
        "parameter tuple of a stream (for z2s/kernel: distinct (column, depth class) combination).")
TRUSTED = ["Coq 8.16.1 kernel + vm_compute", "coq-interval tactic (proof terms re-checked by the kernel at Qed)",
           "hand-written models coq/Model/VGrid.v (Q) and coq/Model/VStretch.v (R) tied by this correspondence",
           "numpy/netCDF4 as run (glue), numba jit of z2s_kernel (py_func also exercised)"]
ASSUMPTIONS = ["float rounding is not modelled: theorems are about exact arithmetic; general-float comparisons use 1e-9, "
               "the oracle allows 1e-12 relative slack on the end points -h, 0, -1",
               "theta_s, theta_b below 1e-3 are not sampled: for theta_s <= 1e-6 cosh(theta_s)-1 cancels in float64 "
               "(s_stretch returns nan or non-monotone arrays for Vstretching 2/4); float artefact outside the model",
               "z2s theorems need N >= 2 levels; N = 1 returns K = 1 / K = 0 (known edge, cf. C17): compared with the "
               "model, reported by the oracle only if KNOWN_FINDINGS lists key=z2s_single_level",
               "z2s: on exact .5 ties the oracle accepts either neighbouring column (the model fixes round-half-even)",
               "stretching arrays given to sdepth are strictly increasing with gaps >= 1e-7"]

GOAL_TOL = "1 / 10000000000"
UNFOLD = "unfold Cs, Cs1, Cs2, Cs4, Csur, Cbot, mu, Sr_rho, Sr_w, sinh, cosh, tanh; cbn [Z.eqb Pos.eqb]"


# ------------------------------------------------------------------------------------------------
# generators
# ------------------------------------------------------------------------------------------------
def _loguniform(rng, lo, hi):
    return math.exp(rng.uniform(math.log(lo), math.log(hi)))


def _interleaved_general(rng, N):
    """2N+1 strictly increasing floats from -1 to 0 (w values at even, rho values at odd positions)"""
    inc = [rng.random() ** rng.choice([1, 1, 3]) + 0.02 for _ in range(2 * N)]
    tot = sum(inc)
    vals, acc = [-1.0], 0.0
    for d in inc[:-1]:
        acc += d
        vals.append(-1.0 + acc / tot)
    vals.append(0.0)
    return vals


def _interleaved_dyadic(rng, N):
    inner = sorted(rng.sample(range(1, 256), 2 * N - 1))
    return [-1.0] + [-1.0 + k / 256.0 for k in inner] + [0.0]


def _shape(rng, small=False):
    return rng.choice([[1], [2], [3], [1, 2], [2, 2]] if small else [[1], [2], [4], [1, 3], [2, 2], [2, 3]])


def gen_sdepth(rng, exact):
    vt = rng.choice([1, 2])
    if exact:
        N = rng.choice([1, 2, 4, 8, 16])
        vals = _interleaved_dyadic(rng, N)
        shape = _shape(rng)
        M = int(np.prod(shape))
        if vt == 1:
            H = [rng.randint(4, 20000) / 4.0 for _ in range(M)]
            mh = min(H)
            hc = rng.choice([0.0, mh, mh / 2, math.floor(rng.uniform(0, mh) * 4) / 4.0])
        else:
            if rng.random() < 0.5:  # variable bathymetry, hc = 0 (B = 1 exactly)
                H = [float(2 ** rng.randint(0, 12)) for _ in range(M)]
                hc = 0.0
            else:  # 1 + hc/H a power of two
                h0 = float(2 ** rng.randint(0, 12))
                H = [h0] * M
                hc = (2 ** rng.randint(0, 3) - 1) * h0
    else:
        N = rng.choice([1, 2, 3, 5, 10, 30, 60, rng.randint(1, 60)])
        vals = _interleaved_general(rng, N)
        shape = _shape(rng, small=N > 30)
        M = int(np.prod(shape))
        H = [rng.choice([1.0, 5000.0, _loguniform(rng, 1, 5000)]) for _ in range(M)]
        mh = min(H)
        if vt == 1:
            hc = rng.choice([0.0, mh, rng.uniform(0, mh)])
        else:
            hc = rng.choice([0.0, mh, _loguniform(rng, 0.1, 1000)])
    return {"k": "sdepth", "exact": exact, "vt": vt, "N": N, "vals": vals, "shape": shape, "H": H, "hc": hc}


def gen_stretch(rng, i):
    vs = [1, 2, 4][i % 3]
    N = rng.choice([1, 2, 5, 30, 60, rng.randint(1, 60), rng.randint(1, 60)])
    ts = rng.choice([10.0, _loguniform(rng, 1e-3, 10), rng.uniform(0.1, 10), rng.uniform(3, 10)])
    if vs == 1:
        tb = rng.choice([0.0, 1.0, rng.random(), rng.random()])
    else:
        tb = rng.choice([4.0, _loguniform(rng, 1e-3, 4), rng.uniform(0.1, 4), rng.uniform(0.1, 4)])
    vt = rng.choice([1, 2])
    H = [rng.choice([1.0, 5000.0, _loguniform(rng, 1, 5000)]) for _ in range(2)]
    hc = rng.choice([0.0, min(H), rng.uniform(0, min(H))]) if vt == 1 else rng.choice([0.0, _loguniform(rng, 0.1, 1000)])
    return {"k": "stretch", "vs": vs, "N": N, "theta_s": ts, "theta_b": tb, "vt": vt, "H": H, "hc": hc}


def _column(rng, N, exact):
    if exact:
        sp = [2.0 ** rng.randint(-2, 4) for _ in range(N - 1)]
        top = -rng.randint(0, 40) / 4.0
        z = [top]
        for d in sp:
            z.append(z[-1] - d)
        return z[::-1]
    h = _loguniform(rng, 1, 5000)
    inc = [rng.random() ** rng.choice([1, 3]) + 0.01 for _ in range(N + 1)]
    tot = sum(inc)
    z, acc = [], 0.0
    for d in inc[:-1]:
        acc += d
        z.append(-h + h * acc / tot)
    return z


def _depth(rng, col, exact, cls):
    N = len(col)
    bot, top = col[0], col[-1]
    q = (lambda x: round(x * 8) / 8.0) if exact else (lambda x: x)
    if cls == "above":
        return q(rng.choice([-top - rng.uniform(0.01, 3) - 0.125, -3.0, -top - 0.125]))
    if cls == "below":
        return q(-bot + rng.choice([0.125, rng.uniform(0.2, 50), 1000.0]))
    if cls == "on":
        return -col[rng.randrange(N)]
    if cls == "near":
        k = rng.randrange(N)
        return -float(np.nextafter(col[k], rng.choice([-np.inf, np.inf])))
    # inside
    if N == 1:
        return -col[0]
    k = rng.randrange(1, N)
    if exact:
        d = col[k] - col[k - 1]
        return -(col[k - 1] + d * rng.randint(0, 8) / 8.0)
    return -rng.uniform(col[k - 1], col[k])


DEPTH_CLASSES = ["above", "inside", "inside", "inside", "below", "on", "near"]


def gen_z2s(rng, exact):
    imax, jmax = 3, 2
    N = rng.choice([2, 2, 3, 5, 8, 12, rng.randint(2, 20)])
    cols = [_column(rng, N, exact) for _ in range(imax * jmax)]
    parts = []
    for p in range(8):
        fx = rng.choice([0.0, 0.25, 0.5, 0.625, 0.75, 0.99, rng.random(), 0.5 + 0.5 * rng.random()])
        fy = rng.choice([0.0, 0.25, 0.5, 0.625, 0.75, rng.random(), 0.5 + 0.5 * rng.random()])
        if exact:
            fx, fy = round(fx * 16) / 16.0, round(fy * 16) / 16.0
        X = min(rng.randrange(imax - 1) + fx, imax - 1.0)
        Y = min(rng.randrange(jmax - 1) + fy, jmax - 1.0)
        col = cols[round(Y) * imax + round(X)]
        cls = rng.choice(DEPTH_CLASSES if not exact else DEPTH_CLASSES[:-1])
        parts.append([X, Y, _depth(rng, col, exact, cls), cls])
    return {"k": "z2s", "exact": exact, "imax": imax, "jmax": jmax, "N": N, "cols": cols, "parts": parts}


def gen_kernel(rng, exact, single=False):
    N = 1 if single else rng.choice([2, 3, 10, 30, 60, rng.randint(2, 60)])
    col = _column(rng, N, exact)
    depths = []
    for cls in ["above", "below", "on", "inside", "inside", "inside"] + ([] if exact else ["near", "near"]):
        depths.append([_depth(rng, col, exact, cls), cls])
    return {"k": "kernel", "exact": exact, "N": N, "col": col, "depths": depths}


def gen_grid(rng, i):
    src = ["file", "vinfo", "vinfo"][i % 3]
    imax, jmax = 5, 4
    N = rng.choice([1, 2, 5, 10, 20, rng.randint(1, 30)])
    h = [[rng.choice([_loguniform(rng, 1, 5000), rng.uniform(20, 400)]) for _ in range(imax)] for _ in range(jmax)]
    mh = min(min(r) for r in h)
    # (Vtransform, key written?) cycles per group of three so that the defaults are exercised in every run
    vt, vt_given = [(1, False), (1, True), (2, True)][(i // 3) % 3]
    hc = rng.choice([0.0, mh, rng.uniform(0, mh)]) if vt == 1 else rng.choice([0.0, _loguniform(rng, 0.1, 1000)])
    d = {"k": "grid", "src": src, "imax": imax, "jmax": jmax, "N": N, "h": h, "hc": hc, "vt": vt, "vt_given": vt_given}
    if src == "file":
        d["vals"] = _interleaved_general(rng, N)
    else:
        vs = [1, 2, 4, 4, 2][(i // 3) % 5]
        d["vs"] = vs
        d["vs_given"] = vs != 1 or i % 2 == 0
        d["theta_s"] = rng.choice([rng.uniform(0.1, 10), rng.uniform(4, 10)])
        d["theta_b"] = rng.random() if vs == 1 else rng.uniform(0.1, 4)
        d["N_file"] = rng.choice([1, 3, N])
    return d


def gen_sweep(rng, N):
    """structural facts for EVERY N of the quantifier (oracle only, no Coq comparison)"""
    ts = rng.choice([rng.uniform(0.1, 10), rng.uniform(3, 10), 10.0])
    tb1 = rng.choice([0.0, 1.0, rng.random()])
    tb = rng.choice([4.0, rng.uniform(0.1, 4)])
    h = rng.choice([1.0, 5000.0, _loguniform(rng, 1, 5000)])
    return {"k": "sweep", "N": N, "theta_s": ts, "theta_b1": tb1, "theta_b": tb, "h": h,
            "hc1": rng.choice([0.0, h, rng.uniform(0, h)]), "hc2": rng.choice([0.0, _loguniform(rng, 0.1, 1000)]),
            "vals": _interleaved_general(rng, N), "grid_vs": [1, 2, 4][N % 3], "grid_vt": 1 + (N // 3) % 2}


def gen_interval(rng, n):
    samples = []
    for i in range(n):
        vs = [1, 2, 4][i % 3]
        N = rng.choice([1, 2, 5, 30, 60, rng.randint(1, 60)])
        st = rng.choice(["rho", "w"])
        k = rng.choice([0, N - 1 if st == "rho" else N, rng.randrange(N + (st == "w"))])
        ts = rng.choice([10.0, rng.uniform(0.1, 10), round(rng.uniform(0.1, 10), 1)])
        tb = (rng.choice([0.0, 1.0, rng.random()]) if vs == 1 else rng.choice([4.0, rng.uniform(0.1, 4), round(rng.uniform(0.1, 4), 1)]))
        samples.append([vs, ts, tb, N, k, st])
    return {"k": "interval", "samples": samples}


def gen_cases(ctx):
    rng = ctx.rng
    f = 1 if ctx.quick else 10
    out = list(c12_scale.gen_scale_cases(ctx))  # fixed cases of realistic size, always first
    for i in range(40 * f):
        out.append(dict(gen_sdepth(rng, exact=(i % 2 == 0)), layout=["C", "F", "T", "F"][i % 4]))
    # fixed: a 2 x 3 bathymetry with six different depths in Fortran order and as a transposed view
    for lay in ("F", "T"):
        for vt in (1, 2):
            out.append({"k": "sdepth", "exact": True, "vt": vt, "N": 2, "vals": [-1.0, -0.75, -0.5, -0.25, 0.0], "shape": [2, 3],
                        "H": [16.0, 32.0, 64.0, 128.0, 256.0, 512.0], "hc": 0.0, "layout": lay})
    for i in range(60 * f):
        out.append(gen_stretch(rng, i))
    for i in range(40 * f):
        out.append(gen_z2s(rng, exact=(i % 2 == 0)))
    for i in range(30 * f):
        out.append(gen_kernel(rng, exact=(i % 2 == 0)))
    for i in range(3):
        out.append(gen_kernel(rng, exact=(i % 2 == 0), single=True))
    for i in range(18 * f):
        out.append(gen_grid(rng, i))
    for N in range(1, 61):  # every N of the property's quantifier, every run
        out.append(gen_sweep(rng, N))
    out.append(gen_interval(rng, 24 if ctx.quick else 160))
    for i in range(8 * f):  # the lookup as the forcing module performs it, step after step, over uneven bathymetry
        out.append({"k": "forcing", "seed": rng.randrange(10**9), "N": rng.choice([2, 3, 5, 8, 16]), "vt": rng.choice([1, 2]),
                    "P": rng.randint(3, 8), "steps": rng.randint(2, 4)})
    import vert_float

    for fdesc in vert_float.gen_vert_cases(rng, 120 if ctx.quick else 3000):
        if fdesc["k"] == "z2s":
            out.append({"k": "fz2s", "f": fdesc})
    return out


# ------------------------------------------------------------------------------------------------
# oracle = the property text, applied to what the real code returned
# ------------------------------------------------------------------------------------------------
SLACK = 1e-12


def oracle_stretch(Cr, Cw, what, N=None):
    """curves rise monotonically from -1 to 0; w ends at -1 and 0; rho and w values interleave"""
    pb = []
    if N is not None and (len(Cr) != N or len(Cw) != N + 1):
        return [f"{what}: {len(Cr)} rho-values and {len(Cw)} w-values for N={N} levels"]
    N = len(Cr)
    if len(Cw) != N + 1:
        return [f"{what}: {len(Cw)} w-values for {N} rho-values"]
    a = np.empty(2 * N + 1)
    a[0::2], a[1::2] = Cw, Cr
    if not np.all(np.isfinite(a)):
        return [f"{what}: non-finite stretching values"]
    if not np.all(np.diff(Cr) > 0):
        pb.append(f"{what}: Cs_r not strictly increasing")
    if not np.all(np.diff(Cw) > 0):
        pb.append(f"{what}: Cs_w not strictly increasing")
    if a.min() < -1 - SLACK or a.max() > SLACK:
        pb.append(f"{what}: stretching values leave [-1, 0]: min {float(a.min())!r} max {float(a.max())!r}")
    if abs(Cw[0] + 1) > SLACK or abs(Cw[-1]) > SLACK:
        pb.append(f"{what}: Cs_w runs from {float(Cw[0])!r} to {float(Cw[-1])!r}, not from -1 to 0")
    if not np.all(np.diff(a) > 0):
        k = int(np.argmax(np.diff(a) <= 0)) // 2
        pb.append(f"{what}: rho and w stretching values do not interleave at level {k}")
    return pb


def oracle_levels(zr, zw, h, what, N=None):
    """level depths increase strictly bottom to surface within [-h,0]; w starts at -h, ends at 0, interleaves with rho"""
    pb = []
    zr, zw = np.asarray(zr, dtype=float), np.asarray(zw, dtype=float)
    if N is not None and (len(zr) != N or len(zw) != N + 1):
        return [f"{what}: {len(zr)} rho-levels and {len(zw)} w-levels for N={N}"]
    N = len(zr)
    if len(zw) != N + 1:
        return [f"{what}: {len(zw)} w-levels for {N} rho-levels"]
    if not (np.all(np.isfinite(zr)) and np.all(np.isfinite(zw))):
        return [f"{what}: non-finite level depths"]
    tol = SLACK * h
    if not np.all(np.diff(zr) > 0):
        pb.append(f"{what}: z_r not strictly increasing (h={h!r})")
    if not np.all(np.diff(zw) > 0):
        pb.append(f"{what}: z_w not strictly increasing (h={h!r})")
    lo, hi = min(zr.min(), zw.min()), max(zr.max(), zw.max())
    if lo < -h - tol or hi > tol:
        pb.append(f"{what}: levels leave [-h, 0]: min {float(lo)!r} max {float(hi)!r} h={h!r}")
    if abs(zw[0] + h) > tol or abs(zw[-1]) > tol:
        pb.append(f"{what}: z_w runs from {float(zw[0])!r} to {float(zw[-1])!r}, not from -h={-h!r} to 0")
    if not (np.all(zw[:-1] < zr) and np.all(zr < zw[1:])):
        pb.append(f"{what}: w-levels do not interleave with rho-levels (h={h!r})")
    return pb


def _nearest(x):
    """indices of the nearest rho-point(s): two candidates on an exact .5 tie"""
    f = math.floor(x)
    r = x - f
    if r < 0.5:
        return [f]
    if r > 0.5:
        return [f + 1]
    return [f, f + 1]


def oracle_lookup(col, Zp, K, A, what):
    """index pair + weight in [0,1] whose weighted level depth equals the depth clamped to the level range"""
    N = len(col)
    if not (1 <= K <= N - 1):
        return f"{what}: K={K} outside 1..{N - 1}"
    if not (0.0 <= A <= 1.0):
        return f"{what}: weight A={A!r} outside [0, 1]"
    got = A * col[K - 1] + (1 - A) * col[K]
    want = min(max(-Zp, col[0]), col[-1])
    if not abs(got - want) <= 1e-9 * (1 + abs(want)):
        return f"{what}: A*z[K-1]+(1-A)*z[K]={got!r} but depth clamped to the levels is {want!r} (Z={Zp!r}, K={K}, A={A!r})"
    return None


# ------------------------------------------------------------------------------------------------
# drivers
# ------------------------------------------------------------------------------------------------
def _fls(xs):
    out = []
    for x in xs:
        out += fl(float(x))
    return out


def multi(cases):
    """bundle several Coq cases of one set-up into one (layout 0 :: len :: case ...; see Corr/C12.v)"""
    out = [0]
    for c in cases:
        out += [len(c)] + list(c)
    return out


def sdepth_case(vt, st, exact, hc, C, Hflat, Z2d):
    """Z2d: array (N, M) of observed level depths, column m belongs to Hflat[m]"""
    N, M = len(C), len(Hflat)
    ints = [1, vt, 0 if st == "rho" else 1, 1 if exact else 0] + fl(float(hc)) + [N, M] + _fls(C)
    for m in range(M):
        ints += fl(float(Hflat[m])) + _fls(Z2d[:, m])
    return ints


def finite(*arrs):
    return all(np.all(np.isfinite(np.asarray(a, dtype=float))) for a in arrs)


def eval_sdepth(desc):
    from ladim.ROMS import sdepth

    vals, vt, hc, exact = desc["vals"], desc["vt"], desc["hc"], desc["exact"]
    Cw, Cr = np.array(vals[0::2]), np.array(vals[1::2])
    H = np.array(desc["H"], dtype=float).reshape(desc["shape"])
    # memory layout of the bathymetry: C order, Fortran order, or a transposed view (same values, same shape)
    lay = desc.get("layout", "C") if H.ndim == 2 else "C"
    if lay == "F":
        H = np.asfortranarray(H)
    elif lay == "T":
        H = np.ascontiguousarray(H.T).T
    zr = sdepth(H, hc, Cr, stagger="rho", Vtransform=vt)
    zw = sdepth(H, hc, Cw, stagger="w", Vtransform=vt)
    pb = []
    if zr.shape != (len(Cr), *H.shape) or zw.shape != (len(Cw), *H.shape):
        pb.append(f"sdepth shapes {zr.shape} {zw.shape} for C of {len(Cr)}/{len(Cw)} and H of {H.shape}")
        return {"ints": [4, 0], "oracle": "; ".join(pb), "nontrivial": None, "kind": "sdepth", "observed": None}
    Hf = H.ravel()
    zr2, zw2 = zr.reshape(len(Cr), -1), zw.reshape(len(Cw), -1)
    for m, idx in enumerate(np.ndindex(*H.shape)):
        # the column of cell idx, read from the un-flattened output
        pb += oracle_levels(zr[(slice(None), *idx)], zw[(slice(None), *idx)], float(H[idx]), f"sdepth Vtransform={vt} cell {idx}")
    ints = None
    if finite(zr, zw):
        ints = multi([sdepth_case(vt, "rho", exact, hc, Cr, Hf, zr2), sdepth_case(vt, "w", exact, hc, Cw, Hf, zw2)])
    return {"ints": ints, "oracle": "; ".join(pb[:3]) or None,
            "nontrivial": ("sdepth", exact, vt, desc["N"], tuple(desc["shape"]), hc == 0, hc == min(desc["H"]), desc["H"][0]),
            "kind": f"sdepth-{'exact' if exact else 'float'}-vt{vt}",
            "observed": {"z_r[:,0]": zr2[:, 0].tolist()[:6], "z_w[:,0]": zw2[:, 0].tolist()[:6]}}


def eval_stretch(desc):
    from ladim.ROMS import s_stretch, sdepth

    N, ts, tb, vs, vt, hc = desc["N"], desc["theta_s"], desc["theta_b"], desc["vs"], desc["vt"], desc["hc"]
    Cr = s_stretch(N, ts, tb, stagger="rho", Vstretching=vs)
    Cw = s_stretch(N, ts, tb, stagger="w", Vstretching=vs)
    what = f"s_stretch(N={N}, theta_s={ts!r}, theta_b={tb!r}, Vstretching={vs})"
    pb = oracle_stretch(Cr, Cw, what, N)
    if vs == 1:  # default Vstretching is 1 and stagger defaults to rho
        if not np.array_equal(s_stretch(N, ts, tb), Cr):
            pb.append(f"{what}: defaults (stagger='rho', Vstretching=1) give a different array")
    ints = None
    if finite(Cr, Cw) and len(Cw) == N + 1 and len(Cr) == N:
        H = np.array(desc["H"], dtype=float)
        zr = sdepth(H, hc, Cr, stagger="rho", Vtransform=vt)
        zw = sdepth(H, hc, Cw, stagger="w", Vtransform=vt)
        for m in range(len(H)):
            pb += oracle_levels(zr[:, m], zw[:, m], float(H[m]), f"{what} -> sdepth Vtransform={vt} hc={hc!r}")
        if finite(zr, zw):
            ints = multi([sdepth_case(vt, "rho", False, hc, Cr, H, zr), sdepth_case(vt, "w", False, hc, Cw, H, zw)])
    return {"ints": ints, "oracle": "; ".join(pb[:3]) or None, "nontrivial": ("stretch", vs, N, ts, tb, vt),
            "kind": f"stretch-vs{vs}", "observed": {"Cs_r": np.asarray(Cr).tolist()[:4], "Cs_w": np.asarray(Cw).tolist()[:4]}}


def eval_z2s(desc):
    from ladim.ROMS import z2s

    imax, jmax, N, exact = desc["imax"], desc["jmax"], desc["N"], desc["exact"]
    cols = desc["cols"]
    z_rho = np.ascontiguousarray(np.array(cols, dtype=float).reshape(jmax, imax, N).transpose(2, 0, 1))
    parts = desc["parts"]
    X = np.array([p[0] for p in parts], dtype=float)
    Y = np.array([p[1] for p in parts], dtype=float)
    Z = np.array([p[2] for p in parts], dtype=float)
    K, A = z2s(z_rho, X, Y, Z)
    pb, keys = [], []
    ints = [2, 1 if exact else 0, imax, imax * jmax, N, len(parts)]
    for c in cols:
        ints += _fls(c)
    ok_ints = True
    for n, p in enumerate(parts):
        k, a = int(K[n]), float(A[n])
        msgs = []
        for j in _nearest(p[1]):
            for i in _nearest(p[0]):
                msgs.append(oracle_lookup(z_rho[:, j, i].tolist(), p[2], k, a,
                                          f"z2s particle X={p[0]!r} Y={p[1]!r} (nearest rho-point i={i}, j={j})"))
        if all(m is not None for m in msgs):
            pb.append(msgs[0])
        if not math.isfinite(a):
            ok_ints = False
        else:
            ints += fl(p[0]) + fl(p[1]) + fl(p[2]) + [k] + fl(a)
        keys.append((p[3], p[0] - math.floor(p[0]) > 0.5, p[1] - math.floor(p[1]) > 0.5))
    return {"ints": ints if ok_ints else [4, 0], "oracle": "; ".join(pb[:3]) or None,
            "nontrivial": ("z2s", exact, N, cols[0][0], tuple(sorted(set(keys)))),
            "kind": f"z2s-{'exact' if exact else 'float'}", "observed": {"K": K.tolist(), "A": A.tolist()}}


def eval_kernel(desc):
    from ladim.ROMS import z2s_kernel

    N, exact, col = desc["N"], desc["exact"], desc["col"]
    z_rho = np.array(col, dtype=float).reshape(N, 1, 1)
    Z = np.array([d[0] for d in desc["depths"]], dtype=float)
    zero = np.zeros(len(Z), dtype=np.int64)
    fn = getattr(z2s_kernel, "py_func", z2s_kernel)
    K, A = fn(zero, zero, Z, z_rho)
    ints = [3, 1 if exact else 0, N, len(Z)] + _fls(col)
    pb = []
    for n, d in enumerate(desc["depths"]):
        k, a = int(K[n]), float(A[n])
        ints += fl(d[0]) + [k] + fl(a)
        m = oracle_lookup(col, d[0], k, a, f"z2s_kernel N={N} depth class {d[1]}")
        if m:
            pb.append(m)
    res = {"ints": ints, "oracle": "; ".join(pb[:3]) or None,
           "nontrivial": ("kernel", exact, N, col[0], tuple(d[1] for d in desc["depths"])),
           "kind": f"kernel-{'exact' if exact else 'float'}", "observed": {"K": K.tolist(), "A": A.tolist()}}
    if N == 1:
        # known edge: with one level no index pair exists; model comparison stays, the oracle message is only
        # emitted when the finding is registered (otherwise it would be re-reported on every run)
        res["kind"] = "kernel-single-level"
        if pb:
            res["finding_key"] = "z2s_single_level"
    return res


def eval_grid(desc, ctx):
    from ladim.ROMS import Grid, s_stretch

    imax, jmax, N, hc, vt = desc["imax"], desc["jmax"], desc["N"], desc["hc"], desc["vt"]
    h = np.array(desc["h"], dtype=float)
    d = ctx.subdir("grid")
    path = d / f"grid_{abs(hash(str(desc))) % 10**9}.nc"
    if desc["src"] == "file":
        vals = desc["vals"]
        Cw, Cr = np.array(vals[0::2]), np.array(vals[1::2])
        rf.write_roms(path, imax=imax, jmax=jmax, N=N, times=[0], h=h, hc=hc, Cs_r=Cr, Cs_w=Cw,
                      Vtransform=(vt if desc["vt_given"] else None), grid_only=True)
        g = Grid(filename=str(path))
        what = f"Grid from file (Vtransform={vt}{'' if desc['vt_given'] else ' by default'})"
    else:
        vs, ts, tb = desc["vs"], desc["theta_s"], desc["theta_b"]
        rf.write_roms(path, imax=imax, jmax=jmax, N=desc["N_file"], times=[0], h=h, hc=hc + 1.0, Vtransform=1,
                      grid_only=True)
        Vinfo = {"N": N, "hc": hc, "theta_s": ts, "theta_b": tb}
        if desc["vs_given"]:
            Vinfo["Vstretching"] = vs
        if desc["vt_given"]:
            Vinfo["Vtransform"] = vt
        g = Grid(filename=str(path), Vinfo=Vinfo)
        # the stretching arrays the set-up denotes (direct call of the real s_stretch)
        Cr = s_stretch(N, ts, tb, stagger="rho", Vstretching=vs)
        Cw = s_stretch(N, ts, tb, stagger="w", Vstretching=vs)
        what = f"Grid from Vinfo (N={N}, theta_s={ts!r}, theta_b={tb!r}, Vstretching={vs}, Vtransform={vt})"
    path.unlink(missing_ok=True)
    Hin = h[1:-1, 1:-1]  # default subgrid: interior cells
    zr, zw = np.asarray(g.z_r, dtype=float), np.asarray(g.z_w, dtype=float)
    pb = []
    if zr.shape != (N, *Hin.shape) or zw.shape != (N + 1, *Hin.shape):
        pb.append(f"{what}: z_r {zr.shape}, z_w {zw.shape} for N={N} and {Hin.shape} cells")
        return {"ints": [4, 0], "oracle": pb[0], "nontrivial": None, "kind": f"grid-{desc['src']}", "observed": None}
    for idx in np.ndindex(*Hin.shape):
        pb += oracle_levels(zr[(slice(None), *idx)], zw[(slice(None), *idx)], float(Hin[idx]), f"{what} cell {idx}")
    ints = None
    if finite(zr, zw):
        ints = multi([sdepth_case(vt, "rho", False, hc, Cr, Hin.ravel(), zr.reshape(N, -1)),
                      sdepth_case(vt, "w", False, hc, Cw, Hin.ravel(), zw.reshape(N + 1, -1))])
    return {"ints": ints, "oracle": "; ".join(pb[:3]) or None,
            "nontrivial": ("grid", desc["src"], N, vt, desc.get("vs"), desc["vt_given"], desc.get("vs_given"), hc),
            "kind": f"grid-{desc['src']}" + (f"-vs{desc['vs']}" if desc["src"] == "vinfo" else ""),
            "observed": {"z_r[:,0,0]": zr[:, 0, 0].tolist()[:5], "z_w[:,0,0]": zw[:, 0, 0].tolist()[:5]}}


def eval_sweep(desc, ctx):
    from ladim.ROMS import Grid, s_stretch, sdepth

    N, ts, h = desc["N"], desc["theta_s"], desc["h"]
    pb = []

    def levels(Cr, Cw, what):
        for vt, hc in ((1, desc["hc1"]), (2, desc["hc2"])):
            w2 = f"{what} -> sdepth(h={h!r}, hc={hc!r}, Vtransform={vt})"
            try:
                zr = sdepth(np.array([h]), hc, Cr, stagger="rho", Vtransform=vt)
                zw = sdepth(np.array([h]), hc, Cw, stagger="w", Vtransform=vt)
            except Exception as e:  # noqa: BLE001
                pb.append(f"{w2}: raises {type(e).__name__}: {e}")
                continue
            if zr.shape != (N, 1) or zw.shape != (N + 1, 1):
                pb.append(f"{w2}: shapes {zr.shape} / {zw.shape} for N={N} levels")
                continue
            pb.extend(oracle_levels(zr[:, 0], zw[:, 0], h, w2, N))

    # generated stretching arrays of exactly N / N+1 values
    vals = desc["vals"]
    levels(np.array(vals[1::2]), np.array(vals[0::2]), f"N={N} generated stretching arrays")
    # the three curves
    for vs in (1, 2, 4):
        tb = desc["theta_b1"] if vs == 1 else desc["theta_b"]
        what = f"s_stretch(N={N}, theta_s={ts!r}, theta_b={tb!r}, Vstretching={vs})"
        try:
            Cr = np.asarray(s_stretch(N, ts, tb, stagger="rho", Vstretching=vs))
            Cw = np.asarray(s_stretch(N, ts, tb, stagger="w", Vstretching=vs))
        except Exception as e:  # noqa: BLE001
            pb.append(f"{what}: raises {type(e).__name__}: {e}")
            continue
        p = oracle_stretch(Cr, Cw, what, N)
        pb.extend(p)
        if not p:
            levels(Cr, Cw, what)
    # Grid from Vinfo has N rho-levels and N+1 w-levels in every cell
    vs, vt = desc["grid_vs"], desc["grid_vt"]
    tb = desc["theta_b1"] if vs == 1 else desc["theta_b"]
    hc = desc["hc1"] if vt == 1 else desc["hc2"]
    path = ctx.subdir("grid") / f"sweep_{N}.nc"
    rf.write_roms(path, imax=4, jmax=3, N=2, times=[0], h=h, hc=0.0, grid_only=True)
    what = f"Grid from Vinfo (N={N}, theta_s={ts!r}, theta_b={tb!r}, Vstretching={vs}, Vtransform={vt}, h={h!r}, hc={hc!r})"
    try:
        g = Grid(filename=str(path), Vinfo={"N": N, "hc": hc, "theta_s": ts, "theta_b": tb, "Vstretching": vs, "Vtransform": vt})
        zr, zw = np.asarray(g.z_r, dtype=float), np.asarray(g.z_w, dtype=float)
        if zr.shape != (N, 1, 2) or zw.shape != (N + 1, 1, 2):
            pb.append(f"{what}: z_r {zr.shape}, z_w {zw.shape} for N={N} and (1, 2) cells")
        else:
            pb.extend(oracle_levels(zr[:, 0, 1], zw[:, 0, 1], h, what, N))
    except Exception as e:  # noqa: BLE001
        pb.append(f"{what}: raises {type(e).__name__}: {e}")
    path.unlink(missing_ok=True)
    return {"ints": None, "oracle": "; ".join(pb[:3]) or None, "nontrivial": ("sweep", N), "kind": "sweep-every-N",
            "observed": {"N": N}}


def _lit(x):
    n, d = float(x).as_integer_ratio()
    return f"({n} / {d})" if n >= 0 else f"(- {-n} / {d})"


def _goal_file(path, goals):
    txt = ("From Coq Require Import Reals ZArith.\nFrom Interval Require Import Tactic.\n"
           "From Ladim Require Import Model.VStretch.\nOpen Scope R_scope.\n")
    for name, (vs, ts, tb, N, k, st, v) in goals:
        S = "Sr_rho" if st == "rho" else "Sr_w"
        txt += (f"Lemma {name} : Rabs (Cs {vs} {_lit(ts)} {_lit(tb)} ({S} {N} {k}) - {_lit(v)}) <= {GOAL_TOL}.\n"
                f"Proof. {UNFOLD}; interval with (i_prec 80). Qed.\n")
    path.write_text(txt)


def _coqc(path):
    try:
        p = subprocess.run(["coqc", "-Q", str(COQ), "Ladim", str(path)], capture_output=True, text=True, timeout=600,
                           cwd=path.parent)
        return p.returncode == 0
    except Exception:  # noqa: BLE001
        return False


def eval_interval(desc, ctx):
    from ladim.ROMS import s_stretch

    d = ctx.subdir("interval")
    goals, bad_value = [], []
    for n, (vs, ts, tb, N, k, st) in enumerate(desc["samples"]):
        v = float(s_stretch(N, ts, tb, stagger=st, Vstretching=vs)[k])
        if not math.isfinite(v):
            bad_value.append(n)
            v = 0.0
        goals.append((f"g{n}", (vs, ts, tb, N, k, st, v)))
    shards = [goals[i:i + 6] for i in range(0, len(goals), 6)]
    files = []
    for i, sh in enumerate(shards):
        f = d / f"iv_{i:04d}.v"
        _goal_file(f, sh)
        files.append(f)
    with ThreadPoolExecutor(max_workers=12) as ex:
        ok_shard = list(ex.map(_coqc, files))
    ok = {}
    retry = []
    for sh, good in zip(shards, ok_shard):
        for name, g in sh:
            ok[name] = good
            if not good:
                retry.append((name, g))
    if retry:  # find the goals that do not check
        fs = []
        for name, g in retry:
            f = d / f"one_{name}.v"
            _goal_file(f, [(name, g)])
            fs.append(f)
        with ThreadPoolExecutor(max_workers=12) as ex:
            for (name, _), good in zip(retry, ex.map(_coqc, fs)):
                ok[name] = good
    failed = [desc["samples"][n] for n in range(len(goals)) if not ok[f"g{n}"]]
    return {"ints": multi([[4, 1 if ok[f"g{n}"] and n not in bad_value else 0] for n in range(len(goals))]),
            "oracle": None, "nontrivial": ("interval", len(goals)), "kind": "stretch-interval",
            "observed": {"goals": len(goals), "not_proved": failed[:5]}}


def eval_forcing(desc, ctx):
    """Forcing.update's level lookup on a real grid with uneven bathymetry: particles change column between
    the updates while keeping their depth (and their number); after every update the cached (K, A) must give
    the particle's depth clamped to the levels of the column it is in NOW"""
    from ladim.ROMS import Forcing, Grid
    from ladim.state import State
    from ladim.timekeeper import TimeKeeper

    rng = np.random.default_rng(desc["seed"])
    imax, jmax, N, P = 9, 8, desc["N"], desc["P"]
    h = np.round(rng.uniform(20.0, 400.0, size=(jmax, imax)))
    hc = 10.0 if desc["vt"] == 1 else float(rng.choice([10.0, 60.0]))
    d = ctx.subdir("c12forcing")
    path = d / f"f_{desc['seed']}.nc"
    rf.write_roms(path, imax=imax, jmax=jmax, N=N, times=[0, 600, 1200, 1800, 2400], h=h, hc=hc, Vtransform=desc["vt"], u=0.0, v=0.0)
    pb, moved = [], 0
    try:
        tk = TimeKeeper(start=rf.iso(0), stop=rf.iso(2400), dt=600)
        st = State()
        g = Grid(filename=str(path))
        mods = {"time": tk, "state": st, "grid": g}
        X = rng.uniform(1.6, imax - 2.6, P); Y = rng.uniform(1.6, jmax - 2.6, P)
        Z = rng.uniform(-5.0, 450.0, P)  # from above the surface to below the deepest bottom
        # a third of the particles sits exactly on a cell boundary in x, another third in y (half-integer coordinates:
        # the cell is the one numpy's round-half-to-even gives for the GLOBAL coordinate, as Grid.depth / atsea use it)
        X[: P // 3] = np.floor(X[: P // 3]) + 0.5
        Y[P // 3: 2 * (P // 3)] = np.floor(Y[P // 3: 2 * (P // 3)]) + 0.5
        st.append(X=X, Y=Y, Z=Z)
        fo = Forcing(mods, filename=str(path))
        mods["forcing"] = fo
        zr = np.asarray(g.z_r, dtype=float)
        for s_ in range(desc["steps"]):
            if s_ > 0:  # every particle moves to another column, depth and count unchanged
                st["X"], st["Y"] = np.roll(st.X, 1), np.roll(st.Y, 1)
            tk.update()
            fo.update()
            hd = np.asarray(g.depth(st.X, st.Y), dtype=float)  # the bottom depth the GRID gives for the particle's cell
            for n in range(P):
                # the particle's own cell is the one the grid module itself uses (Grid.depth / atsea / metric): on a
                # cell boundary it is found by its bottom depth among the neighbouring cells (all depths differ)
                xs, ys = float(st.X[n]), float(st.Y[n])
                cand = {(jj, ii) for jj in (math.floor(ys), math.ceil(ys)) for ii in (math.floor(xs), math.ceil(xs))
                        if abs(jj - ys) <= 0.5 and abs(ii - xs) <= 0.5}
                own = [c for c in cand if float(h[c[0], c[1]]) == float(hd[n])]
                if len(own) == 0:  # (several candidates of equal depth have the same levels: any of them will do)
                    pb.append(f"Forcing.update step {s_}: cannot tell the cell of particle {n} at ({xs}, {ys}) from Grid.depth = {hd[n]}")
                    continue
                col = zr[:, own[0][0] - g.j0, own[0][1] - g.i0]
                if N >= 2:
                    m = oracle_lookup(col.tolist(), float(st.Z[n]), int(fo.K[n]), float(fo.A[n]),
                                      f"Forcing.update step {s_}, particle {n} at ({float(st.X[n]):.3f}, {float(st.Y[n]):.3f})")
                    if m:
                        pb.append(m)
            moved += P if s_ > 0 else 0
        fo.close()
    finally:
        path.unlink(missing_ok=True)
    return {"ints": None, "oracle": "; ".join(pb[:3]) or None, "nontrivial": ("forcing", desc["seed"]) if moved else None,
            "kind": f"forcing-lookup-vt{desc['vt']}", "observed": {"N": N, "particles": P, "steps": desc["steps"]}}


def eval_case(desc, ctx):
    k = desc["k"]
    if k == "scale":
        return c12_scale.eval_scale(desc, ctx)
    if k == "fz2s":
        # the floating-point model of the level search (Model/VerticalFloat.v): the compiled z2s_kernel, K and the
        # weight bit for bit (leading -9: Corr/C12All -> Corr/VertF), 1 <= K <= N-1 and 0 <= A <= 1 EXACTLY
        import vert_float

        r = vert_float.eval_vert_case(desc["f"])
        r["ints"] = None if r.get("ints") is None else [-9] + [int(x) for x in r["ints"]]
        return {k_: r[k_] for k_ in ("ints", "oracle", "nontrivial", "kind", "observed")}
    if k == "sdepth":
        return eval_sdepth(desc)
    if k == "stretch":
        return eval_stretch(desc)
    if k == "z2s":
        return eval_z2s(desc)
    if k == "kernel":
        return eval_kernel(desc)
    if k == "grid":
        return eval_grid(desc, ctx)
    if k == "sweep":
        return eval_sweep(desc, ctx)
    if k == "interval":
        return eval_interval(desc, ctx)
    if k == "forcing":
        return eval_forcing(desc, ctx)
    raise ValueError(f"unknown case kind {k}")


def extra_coverage(ctx, results):
    iv = [r for r in results if r.get("kind") == "stretch-interval"]
    return {"interval_goals": sum((r.get("observed") or {}).get("goals", 0) for r in iv)}
