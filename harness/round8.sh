#!/bin/bash
# usage: round3.sh Cnn ...  -- confirm round-8 seeds (a->j) and run the property's quick check on each
for ID in "$@"; do
  /verif/harness/confirm_seed.sh $ID a /tmp/mut9 j
  [ -d /verif/seeded/${ID}j ] || continue
  r=$(/verif/harness/try_mutant.sh /verif/seeded/${ID}j/patch.diff $ID 2>&1)
  if echo "$r" | grep -q "^VIOLATION property=$ID"; then echo "${ID}j CAUGHT $(echo "$r" | grep -m1 -E 'oracle:|differ on|broken:' | cut -c1-220)";
  else echo "${ID}j MISSED $(echo "$r" | tail -1 | cut -c1-160)"; fi
done
