"""Verification of the land / masked-face set-up model (coq/Model/Setup.v) against the real code, outside `check`:
NSET generated set-ups (half with land, both release modes, both directions): setup_impl.eval_setup (mirror and
shift) and eval_restart; the integer cases are evaluated with Corr.SysRun.check_case in generated .v files, and
the base cases of the land set-ups are re-evaluated with the land removed from the description (they must be
rejected whenever the land mattered in the real run).

  PYTHONPATH=/repo:$W/harness:$W/harness/lib:$W/harness/props PYTHONHASHSEED=0 /venv/bin/python -W ignore
      $W/harness/verify_setup_land.py $W [NSET=64] [SEED] [OUTDIR]      ($W = root of the checkout, with coq/ built)
"""
import sys, random, tempfile, json, subprocess
from pathlib import Path
import setup_impl as su, sim_impl as si

W = sys.argv[1]
NSET = int(sys.argv[2]) if len(sys.argv) > 2 else 64
SEED = int(sys.argv[3]) if len(sys.argv) > 3 else 20261001
out = Path(sys.argv[4]) if len(sys.argv) > 4 else Path(tempfile.mkdtemp()) / "gen"
out.mkdir(parents=True, exist_ok=True)
rng = random.Random(SEED)
cases, labels, problems = [], [], []
stats = {"land": 0, "cont": 0, "rev": 0, "restarts": 0, "nontrivial": 0, "landcells": 0}
for q in range(NSET):
    desc = su.gen_setup(rng, rev=(q % 2 == 0), cont_mode=(q % 4 >= 2), land_mode=(q % 8 >= 4))
    stats["land"] += bool(desc["land"]); stats["cont"] += bool(desc["cont"]); stats["rev"] += desc["rev"]
    stats["landcells"] += len(desc["land"])
    d = Path(tempfile.mkdtemp())
    shift = rng.choice([si.DT, 3 * si.DT, 7 * si.DT, 1000, -777, 86400])
    cs, pr, nt = su.eval_setup(desc, d, [(1, 0), (2, shift)])
    stats["nontrivial"] += bool(nt)
    for i, c in enumerate(cs):
        cases.append(c); labels.append((q, "setup", i, desc["land"], desc["cont"], desc["rev"]))
    problems += [(q, p) for p in pr]
    d2 = Path(tempfile.mkdtemp())
    cs, pr, nt = su.eval_restart(desc, d2, rng.choice([1, 2, 2, 3]))
    stats["restarts"] += len(cs) - 1
    for i, c in enumerate(cs):
        cases.append(c); labels.append((q, "restart", i, desc["land"], desc["cont"], desc["rev"]))
    problems += [(q, p) for p in pr]
    import shutil
    shutil.rmtree(d); shutil.rmtree(d2)

print("set-ups", NSET, stats, "cases", len(cases), "oracle problems", len(problems))
for p in problems[:10]:
    print("PROBLEM", p)
# shards of at most 40 cases
fails = []
SH = 40
for k in range(0, len(cases), SH):
    f = out / f"land_{k:05d}.v"
    body = ";\n ".join("[" + "; ".join(str(x) if x >= 0 else f"({x})" for x in c) + "]" for c in cases[k:k + SH])
    f.write_text("From Coq Require Import ZArith List.\nImport ListNotations.\nOpen Scope Z_scope.\n"
                 "From Ladim Require Import Corr.Run Corr.SysRun.\n"
                 f"Definition cases : list (list Z) := [\n {body}\n].\n"
                 "Eval vm_compute in (failing check_case cases).\n")
    p = subprocess.run(["bash", "-c", 'ulimit -s unlimited 2>/dev/null; exec coqc -Q "$0" Ladim "$1"', W + "/coq", str(f)],
                       capture_output=True, text=True, cwd=str(out))
    txt = (p.stdout + p.stderr).strip()
    ok = p.returncode == 0 and "= []" in txt
    print(f.name, "OK" if ok else "FAIL", txt[:300].replace("\n", " "))
    if not ok:
        fails.append((k, txt))
# sensitivity: the base cases of the land set-ups with the land removed from the description must be rejected
# whenever the land mattered in the real run
mut = []
for c, l in zip(cases, labels):
    if l[1] == "setup" and l[2] == 0 and l[3]:
        # tag S stop dt rev period cont adv dtdx(2) lo(2) hi(2) life ncls cfac(2)*3 nland cells
        assert c[0] == 1 and c[22] == len(l[3]) and c[23:23 + c[22]] == l[3]
        mut.append(c[:22] + [0] + c[23 + c[22]:])
if mut:
    f = out / "mut.v"
    body = ";\n ".join("[" + "; ".join(str(x) if x >= 0 else f"({x})" for x in c) + "]" for c in mut)
    f.write_text("From Coq Require Import ZArith List.\nImport ListNotations.\nOpen Scope Z_scope.\n"
                 "From Ladim Require Import Corr.Run Corr.SysRun.\n"
                 f"Definition cases : list (list Z) := [\n {body}\n].\n"
                 "Eval vm_compute in (length cases, length (failing check_case cases)).\n")
    p = subprocess.run(["bash", "-c", 'ulimit -s unlimited 2>/dev/null; exec coqc -Q "$0" Ladim "$1"', W + "/coq", str(f)],
                       capture_output=True, text=True, cwd=str(out))
    print("land removed from the description (cases, rejected):", (p.stdout + p.stderr).strip().replace("\n", " "))
print("RESULT", "all true" if not fails and not problems else "FAILURES", len(fails), len(problems))
json.dump({"labels": labels}, open(out / "labels.json", "w"))
