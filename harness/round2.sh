#!/bin/bash
# usage: round2.sh Cnn ...  -- confirm round-2 seeds (a->c, b->d) and run the property's quick check on each
for ID in "$@"; do
  /verif/harness/confirm_seed.sh $ID a /tmp/mut2 c
  /verif/harness/confirm_seed.sh $ID b /tmp/mut2 d
  for x in c d; do
    [ -d /verif/seeded/$ID$x ] || continue
    r=$(/verif/harness/try_mutant.sh /verif/seeded/$ID$x/patch.diff $ID 2>&1)
    if echo "$r" | grep -q "^VIOLATION property=$ID"; then echo "$ID$x CAUGHT $(echo "$r" | grep -m1 -E 'oracle:|differ on|broken:' | cut -c1-220)";
    else echo "$ID$x MISSED $(echo "$r" | tail -1 | cut -c1-160)"; fi
  done
done
