"""Driver: ./check Cnn [--tier quick|thorough] [--replay F]

Protocol (DESIGN.md section 3): proof step, correspondence step, oracle step, verdict, evidence.
Exit 0 = property held on everything explored; exit 1 + "VIOLATION property=<id> replay=<path>".
"""
from __future__ import annotations

import argparse
import importlib
import json
import os
import random
import shutil
import sys
import time
import traceback
from pathlib import Path

HERE = Path(__file__).resolve().parent
VERIF = HERE.parent
sys.path.insert(0, str(HERE / "lib"))
sys.path.insert(0, str(HERE / "props"))

import coqbridge  # noqa: E402
import evidence  # noqa: E402
import findings  # noqa: E402


class Ctx:
    def __init__(self, prop, tier, seed, work):
        self.prop, self.tier, self.seed, self.work = prop, tier, seed, work
        self.rng = random.Random(f"{prop}-{seed}")
        self.quick = tier == "quick"

    def subdir(self, name):
        d = self.work / name
        d.mkdir(parents=True, exist_ok=True)
        return d


def write_replay(prop, payload):
    d = VERIF / "replays"
    d.mkdir(exist_ok=True)
    p = d / f"{prop}_{int(time.time())}_{os.getpid()}.json"
    p.write_text(json.dumps(evidence._clean(json.loads(json.dumps(payload, default=str))), indent=1) + "\n")
    return p


def main():
    ap = argparse.ArgumentParser()
    ap.add_argument("prop")
    ap.add_argument("--tier", default=os.environ.get("VERIF_TIER", "quick"), choices=["quick", "thorough"])
    ap.add_argument("--replay")
    a = ap.parse_args()
    prop = a.prop.upper()
    seed = int(os.environ.get("VERIF_SEED", "20261001"))
    t0 = time.time()
    work = VERIF / ".work" / f"{prop}_{os.getpid()}"
    work.mkdir(parents=True, exist_ok=True)
    for old in (VERIF / ".work").glob("C*_*"):  # scratch directories of runs that were killed
        pid = old.name.split("_")[-1]
        if pid.isdigit() and not Path(f"/proc/{pid}").exists():
            shutil.rmtree(old, ignore_errors=True)
    os.environ.setdefault("VERIF_WORK", str(work))
    rc = 1
    try:
        rc = run(prop, a.tier, seed, work, a.replay, t0)
    finally:
        shutil.rmtree(work, ignore_errors=True)
    sys.exit(rc)


def run(prop, tier, seed, work, replay, t0):
    mod = importlib.import_module(prop.lower())
    ctx = Ctx(prop, tier, seed, work)
    known, _fixed = findings.load()

    import run_ladim

    origin = run_ladim.ladim_origin()
    print(f"[{prop}] tier={tier} seed={seed} ladim from {origin}")

    # ---- replay mode ---------------------------------------------------------------------
    if replay:
        payload = json.loads(Path(replay).read_text())
        descs = payload.get("cases") or [payload.get("case")]
        for desc in descs:
            if desc is None:
                continue
            res = mod.eval_case(desc, ctx)
            print("case:", json.dumps(desc, default=str)[:2000])
            print("implementation observation / oracle:", res.get("oracle") or "property holds on this case")
            if res.get("observed") is not None:
                print("observed:", json.dumps(res["observed"], default=str)[:2000])
            if res.get("ints") is not None:
                ok, _ = coqbridge.build()
                fails = coqbridge.run_cases(prop, mod.CHECKER, [res["ints"]], work)
                print("model vs implementation:", "DIFFER" if fails else "agree")
        return 0

    problems = []  # broken proof obligations / correspondences (strings)

    # ---- 1. proof step ---------------------------------------------------------------------
    ok, log = coqbridge.build()
    if not ok:
        problems.append("coq build failed: " + log[-1500:])
    clean_dir = None
    if tier == "thorough" and ok and os.environ.get("VERIF_NO_CLEAN") != "1":
        cok, clog, clean_dir = coqbridge.clean_build(work)
        if not cok:
            problems.append("clean rebuild of the whole development failed: " + clog[-1500:])
            clean_dir = None
    bad = coqbridge.hygiene()
    if bad:
        problems.append("forbidden declarations: " + "; ".join(bad[:10]))
    proof = {"ok": False, "obligations": 0, "discharged": 0, "axioms": [], "theorems": [], "cmd": ""}
    if ok:
        proof = coqbridge.prove(mod.THEOREM_FILE)
        if not proof["ok"]:
            problems.append(
                f"proof step on {mod.THEOREM_FILE} failed: compiled={proof['compiled']} "
                f"foreign_axioms={proof['foreign_axioms']} missing_print={proof['missing_print']} {proof['log'][-800:]}"
            )
    coqchk = None
    if tier == "thorough" and ok and os.environ.get("VERIF_NO_COQCHK") != "1":
        coqchk = coqbridge_coqchk(mod.THEOREM_FILE, clean_dir)
        if not coqchk["ok"]:
            problems.append("coqchk failed: " + coqchk["log"][-800:])

    # ---- 2./3. correspondence + oracle ------------------------------------------------------
    descs = []
    corpus_dir = VERIF / "corpus" / prop
    if corpus_dir.exists():
        for f in sorted(corpus_dir.glob("*.json")):
            d = json.loads(f.read_text())
            for c in d if isinstance(d, list) else [d]:
                c.setdefault("origin", f"corpus/{prop}/{f.name}")
                descs.append(c)
    ncorpus = len(descs)
    descs.extend(mod.gen_cases(ctx))
    results = []
    crashed = []
    for i, desc in enumerate(descs):
        try:
            res = mod.eval_case(desc, ctx)
        except (Exception, SystemExit) as e:  # harness/implementation crash outside what the case expects
            res = {"ints": None, "oracle": f"unexpected exception {type(e).__name__}: {e}", "nontrivial": None,
                   "trace": traceback.format_exc()[-1500:]}
            crashed.append(i)
        results.append(res)

    # several cases may expand to several Coq cases
    coq_cases, owner = [], []
    for i, res in enumerate(results):
        ints = res.get("ints")
        if ints is None:
            continue
        many = ints if ints and isinstance(ints[0], (list, tuple)) else [ints]
        for c in many:
            coq_cases.append(c)
            owner.append(i)
    corr_fail_cases = set()
    if ok and coq_cases:
        try:
            fails = coqbridge.run_cases(prop, mod.CHECKER, coq_cases, work, shard=getattr(mod, "SHARD", 200))
            corr_fail_cases = {owner[k] for k in fails}
        except Exception as e:  # noqa: BLE001
            problems.append(f"correspondence evaluation broke: {e}")
    elif coq_cases and not ok:
        pass  # build failure already recorded

    # ---- 4. verdict -------------------------------------------------------------------------
    violations, known_hits = [], []
    for i, res in enumerate(results):
        if res.get("oracle"):
            key = res.get("finding_key")
            if key and (prop, key) in known:
                known_hits.append((key, known[(prop, key)], res["oracle"]))
            else:
                violations.append((i, res["oracle"]))
    for key, text, what in sorted({(k, t, w) for k, t, w in known_hits}):
        print(f"KNOWN-FINDING: property={prop} {key}: {what[:300]}")

    exit_code = 0
    replay_path = None
    if violations:
        i, msg = violations[0]
        replay_path = write_replay(prop, {
            "property": prop, "kind": "failing-input", "message": msg, "case": descs[i],
            "observed": results[i].get("observed"), "model_disagrees": i in corr_fail_cases,
            "other_failing_cases": [descs[j] for j, _ in violations[1:6]],
            "broken_obligations": problems,
            "how_to_rerun": f"./check {prop} --replay <this file>",
        })
        print(f"[{prop}] oracle: {msg[:500]}")
        print(f"VIOLATION property={prop} replay={replay_path}")
        exit_code = 1
    elif corr_fail_cases or problems:
        which = sorted(corr_fail_cases)
        replay_path = write_replay(prop, {
            "property": prop, "kind": "no-failing-input-found",
            "broken": problems + ([f"correspondence {mod.CHECKER}.check_case no longer holds on {len(which)} case(s)"] if which else []),
            "theorem_file": mod.THEOREM_FILE, "theorems": proof.get("theorems"),
            "cases": [descs[j] for j in which[:5]],
            "observed": [results[j].get("observed") for j in which[:5]],
            "how_to_rerun": f"./check {prop} --replay <this file>",
        })
        for pb in problems:
            print(f"[{prop}] broken: {pb[:600]}")
        if which:
            print(f"[{prop}] model and implementation differ on {len(which)} case(s), e.g. {json.dumps(descs[which[0]], default=str)[:400]}")
        print(f"VIOLATION property={prop} replay={replay_path} no-failing-input-found")
        exit_code = 1

    # ---- 5. evidence ------------------------------------------------------------------------
    nontriv = {json.dumps(r.get("nontrivial"), sort_keys=True, default=str) for r in results if r.get("nontrivial") is not None}
    dist = {}
    for r in results:
        k = r.get("kind", "case")
        dist[k] = dist.get(k, 0) + 1
    samples = [{"case": descs[i], "observed": results[i].get("observed")} for i in list(range(min(2, len(descs)))) + ([len(descs) - 1] if len(descs) > 2 else [])]
    cov = {
        "obligations": proof["obligations"],
        "discharged": proof["discharged"] if not [p for p in problems if "proof step" in p or "build" in p] else 0,
        "checker_cmd": proof.get("cmd") or "coqc (build failed)",
        "trusted_base": getattr(mod, "TRUSTED", []) + [f"axioms reported by Print Assumptions: {proof['axioms'] or 'none (closed under the global context)'}"],
        "theorems": proof.get("theorems"),
        "evaluations": len(descs),
        "coq_correspondence_cases": len(coq_cases),
        "corpus_cases": ncorpus,
        "distinct_nontrivial": len(nontriv),
        "rule": getattr(mod, "RULE", ""),
        "distribution": dist,
        "samples": json.loads(json.dumps(samples, default=str)),
        "correspondence_failures": len(corr_fail_cases),
        "oracle_failures": len(violations),
        "known_findings_seen": sorted({k for k, _, _ in known_hits}),
        "exhaustive": bool(getattr(mod, "EXHAUSTIVE", {}).get(tier, False)),
        "ladim_origin": origin,
        "anchor_sources_sha256": anchor_hashes(prop, origin),
    }
    if coqchk is not None:
        cov["coqchk"] = coqchk.get("summary")
    if tier == "thorough":
        cov["clean_rebuild"] = "full .vo build of every file of _CoqProject from clean in a private copy: " + ("ok" if clean_dir else "skipped or failed")
    extra = getattr(mod, "extra_coverage", None)
    if extra:
        cov.update(extra(ctx, results))
    evidence.write(prop, tier, seed, cov, getattr(mod, "ASSUMPTIONS", []), time.time() - t0, len(violations))
    print(f"[{prop}] proof: {proof['discharged']}/{proof['obligations']} obligations; cases: {len(descs)} ({len(coq_cases)} evaluated in Coq, "
          f"{len(nontriv)} distinct non-trivial); corr failures {len(corr_fail_cases)}; oracle failures {len(violations)}; "
          f"{time.time() - t0:.1f}s; exit {exit_code}")
    return exit_code


def anchor_hashes(prop, origin):
    """sha256 of the source files the property is anchored in, as imported by this run (informational)"""
    import hashlib

    out = {}
    try:
        root = Path(origin).parent.parent
        for line in (VERIF / "properties.jsonl").read_text().splitlines():
            d = json.loads(line)
            if d["id"] == prop:
                for f in d["anchors"]["files"]:
                    q = root / f
                    out[f] = hashlib.sha256(q.read_bytes()).hexdigest()[:16] if q.exists() else "missing"
    except Exception as e:  # noqa: BLE001
        out["error"] = str(e)
    return out


def coqbridge_coqchk(prop_file, root=None):
    """independent re-check of the property's compiled file (from the clean private build when there is one)"""
    import subprocess

    root = root or coqbridge.COQ
    mod = "Ladim." + prop_file[:-2].replace("/", ".")
    try:
        p = subprocess.run(["coqchk", "-silent", "-o", "-Q", str(root), "Ladim", mod], capture_output=True,
                           text=True, timeout=1800, cwd=root)
        out = p.stdout + p.stderr
        return {"ok": p.returncode == 0, "log": out[-2000:], "summary": out[-1200:]}
    except Exception as e:  # noqa: BLE001
        return {"ok": False, "log": str(e), "summary": str(e)}


if __name__ == "__main__":
    main()
