#!/bin/bash
# usage: round3.sh Cnn ...  -- confirm round-14 seeds (a->p) and run the property's quick check on each
for ID in "$@"; do
  /verif/harness/confirm_seed.sh $ID a /tmp/mut17 p
  [ -d /verif/seeded/${ID}p ] || continue
  r=$(/verif/harness/try_mutant.sh /verif/seeded/${ID}p/patch.diff $ID 2>&1)
  if echo "$r" | grep -q "^VIOLATION property=$ID"; then echo "${ID}p CAUGHT $(echo "$r" | grep -m1 -E 'oracle:|differ on|broken:' | cut -c1-220)";
  else echo "${ID}p MISSED $(echo "$r" | tail -1 | cut -c1-160)"; fi
done
