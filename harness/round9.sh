#!/bin/bash
# usage: round3.sh Cnn ...  -- confirm round-9 seeds (a->k) and run the property's quick check on each
for ID in "$@"; do
  /verif/harness/confirm_seed.sh $ID a /tmp/mut10 k
  [ -d /verif/seeded/${ID}k ] || continue
  r=$(/verif/harness/try_mutant.sh /verif/seeded/${ID}k/patch.diff $ID 2>&1)
  if echo "$r" | grep -q "^VIOLATION property=$ID"; then echo "${ID}k CAUGHT $(echo "$r" | grep -m1 -E 'oracle:|differ on|broken:' | cut -c1-220)";
  else echo "${ID}k MISSED $(echo "$r" | tail -1 | cut -c1-160)"; fi
done
