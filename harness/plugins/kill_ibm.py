"""Plug-in IBM used by the verification harness: kills listed pids at listed steps, deactivates ("settles":
active = False, the tracker no longer moves them horizontally) listed pids at listed steps,
optionally ages particles (instance variable 'age' += dt) and kills above 'lifetime' seconds.
Loaded by path through ladim.model.load_module."""
import numpy as np


class IBM:
    def __init__(self, modules, kill=None, lifetime=None, age=False, settle=None, **kwargs):
        self.modules = modules
        self.kill = {int(k): list(v) for k, v in (kill or {}).items()}
        self.settle = {int(k): list(v) for k, v in (settle or {}).items()}
        self.lifetime = lifetime
        self.age = age or lifetime is not None
        self.dt = modules["time"].dtsec

    def update(self):
        state = self.modules["state"]
        step = self.modules["time"].step
        if self.age:
            state["age"] = state["age"] + self.dt
        if step in self.settle:
            state["active"] = state.active & ~np.isin(state.pid, self.settle[step])
        if step in self.kill:
            state["alive"] = state.alive & ~np.isin(state.pid, self.kill[step])
        if self.lifetime is not None:
            state["alive"] = state.alive & (state.age < self.lifetime)

    def close(self):
        pass
