#!/bin/bash
# usage: try_mutant.sh <patch.diff> <prop> [tier]
# Applies the patch to a scratch copy of /repo's working tree (so that concurrently running checks are not
# disturbed) and runs the check against that copy.
P=$1; PROP=$2; TIER=${3:-quick}
S=/tmp/mutrun_$$; mkdir -p $S; cp -r /repo/ladim $S/ladim
( cd $S && (git apply --include='ladim/*' "$P" 2>/dev/null || patch -p1 -s < "$P") ) || { echo "patch does not apply"; rm -rf $S; exit 2; }
cd /verif && LADIM_REPO=$S ./check "$PROP" --tier "$TIER" 2>&1 | grep -E "ladim from|VIOLATION|KNOWN|oracle:|broken:|differ|exit" | cut -c1-400
rm -rf $S
