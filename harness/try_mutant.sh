#!/bin/bash
# usage: try_mutant.sh <patch.diff> <prop> [tier]  -- applies the patch to /repo, runs the check, undoes it
P=$1; PROP=$2; TIER=${3:-quick}
cd /repo || exit 2
if [ -n "$(git status --porcelain --untracked-files=no)" ]; then echo "/repo not clean"; exit 2; fi
git apply "$P" 2>/dev/null || patch -p1 -s < "$P" || { echo "patch does not apply"; git checkout -- .; exit 2; }
cd /verif && ./check "$PROP" --tier "$TIER" 2>&1 | grep -E "VIOLATION|KNOWN|oracle:|broken:|differ|exit" | cut -c1-400
git -C /repo checkout -- .
find /repo -name '*.orig' -o -name '*.rej' | xargs -r rm -f
