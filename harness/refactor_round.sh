#!/bin/bash
# usage: refactor_round.sh Cnn [other props...]  -- behaviour-preserving refactorings r1..r3 from /tmp/mut3/Cnn_out:
# confirm (applies, 84 tests pass) and run the quick checks of Cnn (and the other listed properties) on a scratch
# copy: any VIOLATION here is an alarm on code where the property holds.
ID=$1; shift; PROPS="$ID $@"
for r in r1 r2 r3; do
  SRC=/tmp/mut3/${ID}_out/$r; [ -f $SRC/patch.diff ] || continue
  S=/tmp/refrun_$$; rm -rf $S; mkdir -p $S; cp -r /repo/ladim /repo/test /repo/pytest.ini $S/ 2>/dev/null
  ( cd $S && git apply --include='ladim/*' $SRC/patch.diff 2>/dev/null || patch -p1 -s < $SRC/patch.diff ) || { echo "$ID$r patch does not apply"; continue; }
  T=$(cd $S && /venv/bin/python -m pytest -q -p no:cacheprovider --timeout=900 2>&1 | tail -1)
  DST=/verif/seeded_harmless/$ID$r; mkdir -p $DST; cp $SRC/patch.diff $SRC/notes.md $DST/ 2>/dev/null; cp $SRC/check.py $DST/ 2>/dev/null
  res=""
  for P in $PROPS; do
    out=$(cd /verif && LADIM_REPO=$S ./check $P 2>&1)
    if echo "$out" | grep -q "^VIOLATION"; then res="$res $P:ALARM($(echo "$out" | grep -m1 -E 'oracle:|differ on|broken:' | cut -c1-160))"; else res="$res $P:quiet"; fi
  done
  echo "$ID$r tests[$T] ->$res"
  echo "{\"property\": \"$ID\", \"variant\": \"$r\", \"kind\": \"behaviour-preserving refactoring (negative control)\", \"tests\": \"$T\", \"checks\": \"$res\"}" > $DST/meta.json
  rm -rf $S
done
