#!/bin/bash
# usage: confirm_seed.sh Cnn a|b [srcbase] [dest-suffix]  -- confirms a seeded change in a scratch worktree and stores it under /verif/seeded/
ID=$1; V=$2; BASE=${3:-/tmp/mut}; DV=${4:-$V}; SRC=$BASE/${ID}_out/$V; WT=/tmp/confirm_wt_$$; DST=/verif/seeded/${ID}$DV
[ -f $SRC/patch.diff ] || { echo "no patch"; exit 2; }
git -C /repo worktree add -q $WT HEAD || exit 2
cd $WT
run_tests() { /venv/bin/python -m pytest -q -p no:cacheprovider --timeout=900 --continue-on-collection-errors --junitxml=$WT/junit.xml >/dev/null 2>&1;
  /venv/bin/python - <<PY
import json,xml.etree.ElementTree as ET
base=json.load(open('/root/.vp/BASELINE.json'))['stable_pass']
ok={tc.get('classname')+'::'+tc.get('name') for tc in ET.parse('$WT/junit.xml').getroot().iter('testcase') if not any(c.tag in('failure','error','skipped') for c in tc)}
print(len([b for b in base if b in ok]), len(ok))
PY
}
PYTHONPATH=$WT /venv/bin/python $SRC/demo.py >/dev/null 2>&1; CLEAN_RC=$?
if git apply $SRC/patch.diff 2>/dev/null; then APPLY=git-apply; elif patch -p1 -s < $SRC/patch.diff; then APPLY=patch-fuzz; else APPLY=FAILED; fi
PYTHONPATH=$WT /venv/bin/python $SRC/demo.py > $WT/demo.out 2>&1; MUT_RC=$?
T=$(run_tests)
git diff > $WT/current.diff
echo "$ID$DV apply=$APPLY demo_clean_rc=$CLEAN_RC demo_mutant_rc=$MUT_RC baseline_pass/total_pass=$T files=$(git diff --name-only | tr '\n' ' ')"
if [ "$APPLY" != FAILED ] && [ $CLEAN_RC -eq 0 ] && [ $MUT_RC -ne 0 ] && [ "${T%% *}" = 59 ]; then
  mkdir -p $DST; cp $WT/current.diff $DST/patch.diff; cp $SRC/demo.py $DST/demo.py; cp $SRC/notes.md $DST/notes.md
  tail -3 $WT/demo.out > $DST/demo_output_with_change.txt
  /venv/bin/python - <<PY
import json
json.dump({"property":"$ID","variant":"$DV","origin":"independent sub-agent given only the property text and a scratch worktree",
 "needs_to_manifest": open("$SRC/notes.md").read()[:1500],
 "confirmed":{"applies":"$APPLY","demo_exit_on_clean_tree":$CLEAN_RC,"demo_exit_with_change":$MUT_RC,"baseline_tests_passing_with_change":"${T%% *}/59","all_tests_passing_with_change":"${T##* }"},
 "commands":["git apply patch.diff (in a scratch worktree of /repo HEAD)","/venv/bin/python demo.py","pytest (BASELINE cmd)"]}, open("$DST/meta.json","w"), indent=1)
PY
  echo "  -> stored $DST"
else echo "  -> NOT confirmed"; fi
cd /; git -C /repo worktree remove --force $WT
