"""Regenerate MANIFEST.json from the table below (run after adding a property check)."""
import json
import subprocess
from pathlib import Path

VERIF = Path(__file__).resolve().parents[1]
ALL = [f"C{i:02d}" for i in range(1, 21)]

# id -> (technique, level text, level note, design ref)
CLAIMED = {}


def claim(pid, technique, text, note, ref):
    CLAIMED[pid] = (technique, text, note, ref)


import importlib.util  # noqa: E402

spec = importlib.util.spec_from_file_location("claims", VERIF / "harness" / "claims.py")
claims = importlib.util.module_from_spec(spec)
spec.loader.exec_module(claims)
claims.register(claim)

fix_commits = subprocess.run(["git", "-C", "/repo", "log", "--format=%h %s", "f121242..HEAD"], capture_output=True, text=True).stdout.strip().splitlines()
hook_commits = [c.split()[0] for c in fix_commits if not c.split(" ", 1)[1].startswith("fix:")]

checks = []
for pid in ALL:
    if pid not in CLAIMED:
        continue
    technique, text, note, ref = CLAIMED[pid]
    checks.append({
        "property_id": pid,
        "quick_cmd": f"./check {pid} --tier quick",
        "thorough_cmd": f"./check {pid} --tier thorough",
        "evidence_file": f"/verif/evidence/{pid}.json",
        "replay_cmd_template": f"./check {pid} --replay {{path}}",
        "engine": "coq-proof+correspondence",
        "level_claimed": {"category": "proof", "text": text, "design_ref": ref},
        "level_note": note,
        "technique": technique,
    })
man = {
    "version": 1,
    "setup_cmd": "cd /verif/coq && coq_makefile -f _CoqProject -o Makefile && timeout 3000 make -j12",
    "hooks": {
        "guard": "LADIM2_VERIF",
        "enable": "no source hooks are needed: checks run /repo's working tree with PYTHONPATH=/repo (the ./check wrapper exports LADIM2_VERIF=1, which the source never reads)",
        "baseline_off_cmd": "/verif/harness/baseline.sh",
        "source_commits": hook_commits,
        "add_only": True,
    },
    "engines": [{
        "name": "coq-proof+correspondence",
        "path": "/verif/check",
        "serves_properties": sorted(CLAIMED),
        "kind_free_text": "Coq 8.16 theorems about hand-written Gallina models (coq/Model, coq/Props) + per-run correspondence: real Python from /repo and the model evaluated by vm_compute on the same generated cases, property oracle for the failing-input search",
    }],
    "checks": checks,
    "notes": "See DESIGN.md. fix: commits in /repo are listed in KNOWN_FINDINGS.txt (fixed: lines).",
    "not_applicable": [{"property_id": p, "reason": claims.NOT_YET.get(p, "check not built yet in this round; see DESIGN.md section 6 for the plan")} for p in ALL if p not in CLAIMED],
}
(VERIF / "MANIFEST.json").write_text(json.dumps(man, indent=1) + "\n")
print("claimed:", sorted(CLAIMED), "not claimed:", [p for p in ALL if p not in CLAIMED])
