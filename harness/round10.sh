#!/bin/bash
# usage: round3.sh Cnn ...  -- confirm round-10 seeds (a->l) and run the property's quick check on each
for ID in "$@"; do
  /verif/harness/confirm_seed.sh $ID a /tmp/mut12 l
  [ -d /verif/seeded/${ID}l ] || continue
  r=$(/verif/harness/try_mutant.sh /verif/seeded/${ID}l/patch.diff $ID 2>&1)
  if echo "$r" | grep -q "^VIOLATION property=$ID"; then echo "${ID}l CAUGHT $(echo "$r" | grep -m1 -E 'oracle:|differ on|broken:' | cut -c1-220)";
  else echo "${ID}l MISSED $(echo "$r" | tail -1 | cut -c1-160)"; fi
done
