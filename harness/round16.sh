#!/bin/bash
# usage: round3.sh Cnn ...  -- confirm round-16 seeds (a->r) and run the property's quick check on each
for ID in "$@"; do
  /verif/harness/confirm_seed.sh $ID a /tmp/mut19 r
  [ -d /verif/seeded/${ID}r ] || continue
  r=$(/verif/harness/try_mutant.sh /verif/seeded/${ID}r/patch.diff $ID 2>&1)
  if echo "$r" | grep -q "^VIOLATION property=$ID"; then echo "${ID}r CAUGHT $(echo "$r" | grep -m1 -E 'oracle:|differ on|broken:' | cut -c1-220)";
  else echo "${ID}r MISSED $(echo "$r" | tail -1 | cut -c1-160)"; fi
done
