#!/bin/bash
# Runs every behaviour-preserving refactoring (negative control) of seeded_harmless/ against the quick checks it was
# originally run against (the property's own check and its neighbours, read from meta.json) on a scratch copy of
# /repo: any VIOLATION is an alarm on code where the property holds.  -> seeded_harmless/MATRIX.txt
cd /verif
OUT=/verif/seeded_harmless/MATRIX.txt
one() {
  id=$1; D=/verif/seeded_harmless/$id
  props=$(grep -o 'C[0-9][0-9]:' $D/meta.json | tr -d ':' | sort -u | tr '\n' ' ')
  [ -n "$props" ] || props=${id:0:3}
  S=/tmp/harmless_$$_$id; rm -rf $S; mkdir -p $S; cp -r /repo/ladim $S/ladim
  ( cd $S && (git apply --include='ladim/*' $D/patch.diff 2>/dev/null || patch -p1 -s < $D/patch.diff) ) || { echo "$id patch-does-not-apply"; rm -rf $S; return; }
  res=""
  for P in $props; do
    out=$(cd /verif && LADIM_REPO=$S ./check $P 2>&1)
    if echo "$out" | grep -q "^VIOLATION"; then res="$res $P:ALARM($(echo "$out" | grep -m1 -E 'oracle:|differ on|broken:' | cut -c1-140))"; else res="$res $P:quiet"; fi
  done
  echo "$id$res"
  rm -rf $S
}
export -f one
ls seeded_harmless | grep -E '^C[0-9]+[rst][0-9]$' | xargs -P7 -I{} bash -c 'one {}' | tee $OUT.partial | sort > $OUT.tmp
mv $OUT.tmp $OUT; cat $OUT
