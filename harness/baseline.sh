#!/bin/bash
# Run the repository's pinned baseline (guard off) and compare with BASELINE.json's stable_pass list.
cd /repo || exit 2
unset LADIM2_VERIF
J=$(mktemp /tmp/junit.XXXXXX.xml)
/venv/bin/python -m pytest -ra -q -p no:cacheprovider --timeout=900 --continue-on-collection-errors --junitxml="$J" >/dev/null 2>&1
/venv/bin/python - "$J" <<'PY'
import json,sys,xml.etree.ElementTree as ET
base=json.load(open('/root/.vp/BASELINE.json'))['stable_pass']
ok=set()
for tc in ET.parse(sys.argv[1]).getroot().iter('testcase'):
    if not any(c.tag in('failure','error','skipped') for c in tc):
        ok.add(tc.get('classname')+'::'+tc.get('name'))
missing=[b for b in base if b not in ok]
print(f"baseline: {len(base)-len(missing)}/{len(base)} stable tests pass; total passing {len(ok)}")
for m in missing: print("  MISSING", m)
sys.exit(1 if missing else 0)
PY
rc=$?
rm -f "$J" /repo/test/file_0*.nc 2>/dev/null
exit $rc
