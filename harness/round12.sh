#!/bin/bash
# usage: round3.sh Cnn ...  -- confirm round-12 seeds (a->n) and run the property's quick check on each
for ID in "$@"; do
  /verif/harness/confirm_seed.sh $ID a /tmp/mut15 n
  [ -d /verif/seeded/${ID}n ] || continue
  r=$(/verif/harness/try_mutant.sh /verif/seeded/${ID}n/patch.diff $ID 2>&1)
  if echo "$r" | grep -q "^VIOLATION property=$ID"; then echo "${ID}n CAUGHT $(echo "$r" | grep -m1 -E 'oracle:|differ on|broken:' | cut -c1-220)";
  else echo "${ID}n MISSED $(echo "$r" | tail -1 | cut -c1-160)"; fi
done
