#!/bin/bash
# usage: round3.sh Cnn ...  -- confirm round-15 seeds (a->q) and run the property's quick check on each
for ID in "$@"; do
  /verif/harness/confirm_seed.sh $ID a /tmp/mut18 q
  [ -d /verif/seeded/${ID}q ] || continue
  r=$(/verif/harness/try_mutant.sh /verif/seeded/${ID}q/patch.diff $ID 2>&1)
  if echo "$r" | grep -q "^VIOLATION property=$ID"; then echo "${ID}q CAUGHT $(echo "$r" | grep -m1 -E 'oracle:|differ on|broken:' | cut -c1-220)";
  else echo "${ID}q MISSED $(echo "$r" | tail -1 | cut -c1-160)"; fi
done
