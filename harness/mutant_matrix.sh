#!/bin/bash
# Runs every seeded change against the check of its own property (quick tier) on a scratch copy of /repo.
# usage: mutant_matrix.sh [ids...]   -> writes /verif/seeded/MATRIX.txt lines "<seed> <prop> CAUGHT|MISSED <first line>"
cd /verif
OUT=${MATRIX_OUT:-/verif/seeded/MATRIX.txt}
IDS=${@:-$(ls seeded | grep -E '^C[0-9]+[a-s]$')}
one() {
  id=$1; prop=${id:0:3}
  [ -f /verif/harness/props/$(echo $prop | tr A-Z a-z).py ] || { echo "$id $prop NOCHECK"; return; }
  r=$(/verif/harness/try_mutant.sh /verif/seeded/$id/patch.diff $prop 2>&1)
  if echo "$r" | grep -q "^VIOLATION property=$prop"; then
     echo "$id $prop CAUGHT $(echo "$r" | grep -m1 -E 'oracle:|differ on|broken:' | cut -c1-160)"
  else echo "$id $prop MISSED $(echo "$r" | tail -1 | cut -c1-120)"; fi
}
export -f one
printf '%s\n' $IDS | xargs -P7 -I{} bash -c 'one {}' | tee $OUT.partial | sort > $OUT.tmp
mv $OUT.tmp $OUT; cat $OUT
