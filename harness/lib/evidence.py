"""Evidence files (schema: /root/.vp/EVIDENCE.schema.json)."""
from __future__ import annotations

import json
from pathlib import Path

VERIF = Path(__file__).resolve().parents[2]


def _clean(x):
    """strict JSON: non-finite floats become strings"""
    import math

    if isinstance(x, float) and not math.isfinite(x):
        return str(x)
    if isinstance(x, dict):
        return {str(k): _clean(v) for k, v in x.items()}
    if isinstance(x, (list, tuple)):
        return [_clean(v) for v in x]
    return x


def write(prop, tier, seed, coverage, assumptions, wall_s, violations, level="proof"):
    d = {
        "property_id": prop,
        "tier": tier,
        "seed": int(seed),
        "level": level,
        "coverage": coverage,
        "assumptions": assumptions,
        "wall_s": round(float(wall_s), 2),
        "violations": int(violations),
    }
    import os

    # a run against a patched scratch copy of the repository (LADIM_REPO) must not overwrite the evidence
    p = (VERIF / ".work" / "scratch_evidence" if os.environ.get("LADIM_REPO") else VERIF / "evidence") / f"{prop}.json"
    p.parent.mkdir(parents=True, exist_ok=True)
    p.write_text(json.dumps(_clean(json.loads(json.dumps(d, default=str))), indent=1, allow_nan=False) + "\n")
    return p
