"""Evidence files (schema: /root/.vp/EVIDENCE.schema.json)."""
from __future__ import annotations

import json
from pathlib import Path

VERIF = Path(__file__).resolve().parents[2]


def write(prop, tier, seed, coverage, assumptions, wall_s, violations, level="proof"):
    d = {
        "property_id": prop,
        "tier": tier,
        "seed": int(seed),
        "level": level,
        "coverage": coverage,
        "assumptions": assumptions,
        "wall_s": round(float(wall_s), 2),
        "violations": int(violations),
    }
    p = VERIF / "evidence" / f"{prop}.json"
    p.parent.mkdir(exist_ok=True)
    p.write_text(json.dumps(d, indent=1, default=str) + "\n")
    return p
