"""Bridge to Coq: build, per-property proof step, evaluation of correspondence cases."""
from __future__ import annotations

import fcntl
import os
import re
import subprocess
import time
from concurrent.futures import ThreadPoolExecutor
from pathlib import Path

VERIF = Path(__file__).resolve().parents[2]
COQ = VERIF / "coq"
FORBIDDEN = r"\b(Admitted|admit|Axiom|Axioms|Parameter|Parameters|Conjecture|Hypothesis|Variable|Variables|Unset Guard|bypass_check|type-in-type|impredicative-set|Admit Obligations|native_compute)\b"

# standard-library axioms a property file may depend on (named in DESIGN.md section 7)
STDLIB_AXIOMS = {
    "ClassicalDedekindReals.sig_forall_dec",
    "ClassicalDedekindReals.sig_not_dec",
    "FunctionalExtensionality.functional_extensionality_dep",
    "Classical_Prop.classic",
}


# Coq's primitive machine integers / binary64 floats and the standard library's axiomatic specification of them
# (Coq.Floats.FloatAxioms, Coq.Numbers.Cyclic.Int63.Uint63): kernel primitives and stdlib axioms, used by the
# floating-point model of the interpolation kernel (Model/TrilinearFloat.v); named in DESIGN.md sections 7 and 15
STDLIB_PRIMITIVE_MODULES = {"PrimFloat", "PrimInt63", "FloatAxioms", "Uint63", "FloatOps"}


class CoqError(Exception):
    pass


def _lock():
    f = open(COQ / ".buildlock", "w")
    fcntl.flock(f, fcntl.LOCK_EX)
    return f


def build(clean: bool = False, jobs: int = 8, timeout: int = 1500) -> tuple[bool, str]:
    """Full .vo build (never -vos).  Returns (ok, log tail)."""
    lock = _lock()
    try:
        if clean or not (COQ / "Makefile").exists():
            subprocess.run(["coq_makefile", "-f", "_CoqProject", "-o", "Makefile"], cwd=COQ, check=True,
                           capture_output=True, timeout=120)
        if clean:
            subprocess.run(["make", "clean"], cwd=COQ, capture_output=True, timeout=300)
        p = subprocess.run(["make", f"-j{jobs}"], cwd=COQ, capture_output=True, text=True, timeout=timeout)
        return p.returncode == 0, (p.stdout + p.stderr)[-4000:]
    except subprocess.TimeoutExpired:
        return False, "make timed out"
    finally:
        lock.close()


def clean_build(work: Path, jobs: int = 12, timeout: int = 3000) -> tuple[bool, str, Path]:
    """Full .vo build from clean in a private copy of the project (thorough tier).  It does not disturb the
    shared build directory, so several checks can run at the same time; the copy is keyed by the hash of all
    source files of _CoqProject, so thorough checks of the same tree share one clean build."""
    import hashlib
    import shutil

    listed = [l.strip() for l in (COQ / "_CoqProject").read_text().splitlines() if l.strip().endswith(".v")]
    h = hashlib.sha256((COQ / "_CoqProject").read_bytes())
    for rel in listed:
        h.update(rel.encode())
        h.update((COQ / rel).read_bytes())
    root = VERIF / ".work"
    root.mkdir(exist_ok=True)
    dst = root / f"cleanbuild_{h.hexdigest()[:16]}"
    lock = open(root / ".cleanbuild.lock", "w")
    fcntl.flock(lock, fcntl.LOCK_EX)
    try:
        if (dst / "BUILD_OK").exists():
            return True, "reused clean build of the same sources", dst
        for old in root.glob("cleanbuild_*"):
            shutil.rmtree(old, ignore_errors=True)
        dst.mkdir(parents=True)
        for rel in listed:
            (dst / rel).parent.mkdir(parents=True, exist_ok=True)
            shutil.copy2(COQ / rel, dst / rel)
        shutil.copy2(COQ / "_CoqProject", dst / "_CoqProject")
        subprocess.run(["coq_makefile", "-f", "_CoqProject", "-o", "Makefile"], cwd=dst, check=True, capture_output=True, timeout=120)
        p = subprocess.run(["make", f"-j{jobs}"], cwd=dst, capture_output=True, text=True, timeout=timeout)
        if p.returncode == 0:
            (dst / "BUILD_OK").write_text("ok\n")
        return p.returncode == 0, (p.stdout + p.stderr)[-3000:], dst
    except Exception as e:  # noqa: BLE001
        return False, str(e), dst
    finally:
        lock.close()


def hygiene() -> list[str]:
    """Forbidden declarations anywhere in the development (comments stripped)."""
    bad = []
    listed = [COQ / l.strip() for l in (COQ / "_CoqProject").read_text().splitlines() if l.strip().endswith(".v")]
    for f in sorted(listed):  # the development = the files of _CoqProject (everything the build and the proofs use)
        txt = f.read_text()
        txt = strip_comments(txt)
        in_section = 0
        for ln, line in enumerate(txt.splitlines(), 1):
            if re.match(r"\s*Section\b", line):
                in_section += 1
            if re.match(r"\s*End\b", line) and in_section:
                in_section -= 1
            for m in re.finditer(FORBIDDEN, line):
                w = m.group(1)
                if w in ("Variable", "Variables", "Hypothesis") and in_section:
                    continue
                bad.append(f"{f.relative_to(COQ)}:{ln}: {w}")
    return bad


def strip_comments(txt: str) -> str:
    out, depth, i = [], 0, 0
    while i < len(txt):
        if txt.startswith("(*", i):
            depth += 1
            i += 2
        elif txt.startswith("*)", i) and depth:
            depth -= 1
            i += 2
        else:
            if depth == 0:
                out.append(txt[i])
            elif txt[i] == "\n":
                out.append("\n")
            i += 1
    return "".join(out)


def prove(prop_file: str, timeout: int = 600) -> dict:
    """Re-run coqc on Props/Cnn.v; count theorems, accepted proofs and collect assumptions."""
    src = COQ / prop_file
    txt = strip_comments(src.read_text())
    theorems = re.findall(r"^\s*(?:Theorem|Corollary)\s+(\w+)", txt, flags=re.M)
    prints = re.findall(r"^\s*Print Assumptions\s+(\w+)", txt, flags=re.M)
    t0 = time.time()
    p = subprocess.run(["coqc", "-Q", str(COQ), "Ladim", str(src)], capture_output=True, text=True, timeout=timeout, cwd=COQ)
    out = p.stdout + p.stderr
    ok = p.returncode == 0
    # assumption blocks, in order of the Print Assumptions commands
    blocks = []
    cur = None
    for line in p.stdout.splitlines():
        if line.startswith("Closed under the global context"):
            blocks.append([])
            cur = None
        elif line.startswith("Axioms:"):
            cur = []
            blocks.append(cur)
        elif cur is not None and line and not line.startswith(" ") and not line.startswith("\t"):
            cur.append(line.split(":")[0].strip())
    axioms = sorted({a for b in blocks for a in b})
    foreign = [a for a in axioms if a not in STDLIB_AXIOMS and a.split(".")[0] not in STDLIB_PRIMITIVE_MODULES]
    missing_print = [t for t in theorems if t not in prints]
    return {
        "ok": ok and not foreign and not missing_print and len(blocks) == len(prints),
        "compiled": ok,
        "theorems": theorems,
        "obligations": len(theorems),
        "discharged": len(theorems) if ok else 0,
        "axioms": axioms,
        "foreign_axioms": foreign,
        "missing_print": missing_print,
        "log": out[-3000:] if not ok else "",
        "wall_s": round(time.time() - t0, 2),
        "cmd": f"coqc -Q {COQ} Ladim {src}",
    }


def _fmt_case(c) -> str:
    return "[" + ";".join(str(int(x)) for x in c) + "]"


def run_cases(tag: str, checker: str, cases: list[list[int]], workdir: Path, shard: int = 200,
              jobs: int = 14, timeout: int = 900, fn: str = "check_case", max_ints: int = 40000) -> list[int]:
    """Evaluate [failing fn cases] in Coq; returns global indices of failing cases.
    Raises CoqError if a shard does not evaluate (counts as a broken correspondence)."""
    if not cases:
        return []
    gen = Path(workdir) / "coqgen"
    gen.mkdir(parents=True, exist_ok=True)
    # shards are bounded both in number of cases and in size of the literal (coqc's parser overflows its
    # stack on multi-megabyte list literals)
    shards, cur, cur0, size = [], [], 0, 0
    for k, c in enumerate(cases):
        if cur and (len(cur) >= shard or size + len(c) > max_ints):
            shards.append((cur0, cur))
            cur, cur0, size = [], k, 0
        cur.append(c)
        size += len(c)
    if cur:
        shards.append((cur0, cur))

    def one(item):
        k, cs = item
        f = gen / f"{tag}_{k:06d}.v"
        body = ";\n ".join(_fmt_case(c) for c in cs)
        f.write_text(
            "From Coq Require Import ZArith List.\nImport ListNotations.\nOpen Scope Z_scope.\n"
            f"From Ladim Require Import Corr.Run {checker}.\n"
            f"Definition cases : list (list Z) := [\n {body}\n].\n"
            f"Eval vm_compute in (failing {fn} cases).\n"
        )
        p = subprocess.run(["bash", "-c", 'ulimit -s unlimited 2>/dev/null; exec coqc -Q "$0" Ladim -Q "$1" Gen "$2"', str(COQ), str(gen), str(f)],
                           capture_output=True, text=True, timeout=timeout, cwd=gen)
        if p.returncode != 0:
            raise CoqError(f"shard {f.name} failed: {(p.stdout + p.stderr)[-1500:]}")
        flat = " ".join(p.stdout.split())
        m = re.search(r"= \[(.*?)\]\s*: list Z", flat)
        if not m:
            raise CoqError(f"cannot parse output of {f.name}: {flat[:500]}")
        idx = [int(x.replace("%Z", "").strip()) for x in m.group(1).split(";") if x.strip()]
        return [k + i for i in idx]

    with ThreadPoolExecutor(max_workers=jobs) as ex:
        res = list(ex.map(one, shards))
    return sorted(i for r in res for i in r)


def fl(x: float) -> list[int]:
    """A finite float as [numerator, denominator] (exact)."""
    n, d = float(x).as_integer_ratio()
    return [n, d]
