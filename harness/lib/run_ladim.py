"""Run the real ladim code from /repo's working tree (in-process).

The harness process is started with PYTHONPATH=/repo (see check), so `import ladim`
resolves to the current working tree.
"""

from __future__ import annotations

import copy
import logging
import os
import sys
from pathlib import Path

REPO = os.environ.get("LADIM_REPO", "/repo")
if REPO not in sys.path:
    sys.path.insert(0, REPO)

logging.disable(logging.CRITICAL)

import numpy as np  # noqa: E402
import yaml  # noqa: E402
from netCDF4 import Dataset  # noqa: E402


def ladim_origin() -> str:
    import ladim

    return str(Path(ladim.__file__).resolve())


def build_model(conf):
    from ladim.model import Model

    return Model(copy.deepcopy(conf))


def run_conf(conf, per_step=None, nsteps=None, translate=True):
    """In-process run on a v2 dictionary with the loop of ladim.main.main
    (`for _ in range(Nsteps): model.update()`; `model.finish()`).
    Checks whose property depends on main's own loop use run_main instead.

    per_step(model, k) is called after each update.  Returns the model.
    """
    from ladim.configure import configure_v2
    from ladim.model import Model

    conf = copy.deepcopy(conf)
    if translate:
        configure_v2(conf)
    model = Model(conf)
    n = model.timer.Nsteps if nsteps is None else nsteps
    try:
        for k in range(n):
            model.update()
            if per_step:
                per_step(model, k)
    finally:
        try:
            model.finish()
        except Exception:
            pass
    return model


def run_main(conf, workdir, name="ladim.yaml"):
    """Run through ladim.main.main with a YAML file written into workdir."""
    from ladim.main import main

    workdir = Path(workdir)
    f = workdir / name
    with f.open("w") as fid:
        yaml.safe_dump(conf, fid)
    cwd = os.getcwd()
    os.chdir(workdir)
    try:
        main(str(f), loglevel=logging.CRITICAL + 10)
    finally:
        os.chdir(cwd)
        logging.disable(logging.CRITICAL)


def _ref_offset(units):
    """seconds from 2000-01-01 to the reference time of a 'seconds since ...' units string"""
    import numpy as np

    ref = np.datetime64(units.split("since")[1].strip().replace(" ", "T"), "s")
    return float((ref - np.datetime64("2000-01-01T00:00:00", "s")) / np.timedelta64(1, "s"))


def read_sparse(path, absolute=False):
    """Read a sparse output file -> list of records {time, count, vars{name: list}}; plus pvars.
    absolute=True: time and time-typed particle variables are decoded with their units attribute to seconds
    after 2000-01-01 (files of runs with different reference times are then comparable)"""
    out = []
    with Dataset(path) as nc:
        nc.set_auto_mask(False)
        t = nc.variables["time"][:]
        if absolute:
            t = t + _ref_offset(nc.variables["time"].units)
        pc = nc.variables["particle_count"][:]
        ivars = [v for v in nc.variables if nc.variables[v].dimensions == ("particle_instance",)]
        pvars = {}
        for v in nc.variables:
            if nc.variables[v].dimensions == ("particle",):
                a = nc.variables[v][:]
                u = getattr(nc.variables[v], "units", "")
                if absolute and "since" in u:
                    a = a + _ref_offset(u)
                pvars[v] = a.tolist()
        start = 0
        for k in range(len(t)):
            c = int(pc[k])
            rec = {"time": float(t[k]), "count": c, "vars": {}}
            for v in ivars:
                rec["vars"][v] = nc.variables[v][start : start + c].tolist()
            start += c
            out.append(rec)
        dims = {d: len(nc.dimensions[d]) for d in nc.dimensions}
        units = nc.variables["time"].units
    return {"records": out, "pvars": pvars, "dims": dims, "time_units": units}
