"""KNOWN_FINDINGS.txt:   known: property=Cnn key=<key> <text>   |   fixed: property=Cnn <commit> <text>"""
from __future__ import annotations

import re
from pathlib import Path

VERIF = Path(__file__).resolve().parents[2]


def load():
    known, fixed = {}, []
    f = VERIF / "KNOWN_FINDINGS.txt"
    if not f.exists():
        return known, fixed
    for line in f.read_text().splitlines():
        line = line.strip()
        m = re.match(r"known:\s+property=(\w+)\s+key=(\S+)\s+(.*)", line)
        if m:
            known[(m.group(1), m.group(2))] = m.group(3)
            continue
        m = re.match(r"fixed:\s+property=(\w+)\s+(\w+)\s+(.*)", line)
        if m:
            fixed.append((m.group(1), m.group(2), m.group(3)))
    return known, fixed
