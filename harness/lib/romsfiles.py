"""Writers for synthetic ROMS grid+forcing files, release files and configurations.

Everything is written with netCDF4 / plain text; nothing here imports ladim.
"""

from __future__ import annotations

from pathlib import Path

import numpy as np
from netCDF4 import Dataset

EPOCH = np.datetime64("2000-01-01T00:00:00", "s")


def iso(t) -> str:
    """ISO string (seconds resolution) of seconds-after-EPOCH or datetime64"""
    if isinstance(t, (int, np.integer)):
        t = EPOCH + np.timedelta64(int(t), "s")
    return str(np.datetime64(t, "s"))


def default_vertical(N: int):
    """Unstretched Cs_r, Cs_w (C = S)"""
    Cs_r = -1.0 + (0.5 + np.arange(N)) / N
    Cs_w = np.linspace(-1.0, 0.0, N + 1)
    return Cs_r, Cs_w


def write_roms(
    path,
    *,
    imax: int,
    jmax: int,
    N: int,
    times,  # list of int seconds after EPOCH
    u=None,  # array (T, N, jmax, imax-1) or scalar
    v=None,  # array (T, N, jmax-1, imax) or scalar
    h=None,  # (jmax, imax) or scalar
    mask=None,  # (jmax, imax)
    dx=None,  # (jmax, imax) or scalar: grid spacing [m]
    dy=None,  # (jmax, imax) or scalar: spacing in the eta direction when it differs from dx (pn = 1/dy), default dx
    hc: float = 0.0,
    Cs_r=None,
    Cs_w=None,
    Vtransform=None,
    lon=None,
    lat=None,
    extra=None,  # dict name -> array (T, N, jmax, imax) or scalar
    dtype="f8",
    packed=None,  # dict name -> scale_factor (stored as i2)
    time_units: str = "seconds since 2000-01-01 00:00:00",
    time_ref_shift: int = 0,  # the file's own time reference is EPOCH + this many seconds (values shift the other way)
    time_unit: str = "s",  # unit of the file's ocean_time: "s" seconds, "h" hours, "d" days (float values)
    grid_only: bool = False,
) -> Path:
    path = Path(path)
    T = len(times)
    with Dataset(path, "w", format="NETCDF4") as nc:
        nc.createDimension("xi_rho", imax)
        nc.createDimension("eta_rho", jmax)
        nc.createDimension("xi_u", imax - 1)
        nc.createDimension("eta_u", jmax)
        nc.createDimension("xi_v", imax)
        nc.createDimension("eta_v", jmax - 1)
        nc.createDimension("s_rho", N)
        nc.createDimension("s_w", N + 1)
        nc.createDimension("ocean_time", None)

        def var2(name, val, dt="f8"):
            x = nc.createVariable(name, dt, ("eta_rho", "xi_rho"))
            x[:, :] = np.broadcast_to(np.asarray(val, dtype=float), (jmax, imax))

        var2("h", 100.0 if h is None else h)
        var2("mask_rho", 1.0 if mask is None else mask)
        d = 1000.0 if dx is None else dx
        var2("pm", 1.0 / np.asarray(d, dtype=float))
        var2("pn", 1.0 / np.asarray(d if dy is None else dy, dtype=float))
        var2("angle", 0.0)
        jj, ii = np.meshgrid(np.arange(jmax), np.arange(imax), indexing="ij")
        var2("lon_rho", (0.01 * ii) if lon is None else lon)
        var2("lat_rho", (60 + 0.01 * jj) if lat is None else lat)
        x = nc.createVariable("hc", "f8", ())
        x[...] = hc
        if Cs_r is None:
            Cs_r, Cs_w = default_vertical(N)
        x = nc.createVariable("Cs_r", "f8", ("s_rho",))
        x[:] = Cs_r
        x = nc.createVariable("Cs_w", "f8", ("s_w",))
        x[:] = Cs_w
        if Vtransform is not None:
            x = nc.createVariable("Vtransform", "i4", ())
            x[...] = Vtransform
        if grid_only:
            return path

        x = nc.createVariable("ocean_time", "f8", ("ocean_time",))
        if time_ref_shift or time_unit != "s":
            ref = str(EPOCH + np.timedelta64(int(time_ref_shift), "s")).replace("T", " ")
            word, secs = {"s": ("seconds", 1.0), "h": ("hours", 3600.0), "d": ("days", 86400.0)}[time_unit]
            x.units = f"{word} since {ref}"
            x[:] = (np.asarray(times, dtype=float) - float(time_ref_shift)) / secs
        else:
            x.units = time_units
            x[:] = np.asarray(times, dtype=float)

        packed = packed or {}

        def var4(name, val, dims, shape):
            arr = np.broadcast_to(np.asarray(0.0 if val is None else val, dtype=float), (T, *shape))
            if name in packed:
                sf = packed[name]
                y = nc.createVariable(name, "i2", ("ocean_time", *dims))
                y.set_auto_maskandscale(False)
                y.scale_factor = np.float32(sf)
                y.add_offset = np.float32(0.0)
                y[:] = np.round(arr / sf).astype("i2")
            else:
                y = nc.createVariable(name, dtype, ("ocean_time", *dims))
                y[:] = arr

        var4("u", u, ("s_rho", "eta_u", "xi_u"), (N, jmax, imax - 1))
        var4("v", v, ("s_rho", "eta_v", "xi_v"), (N, jmax - 1, imax))
        for name, val in (extra or {}).items():
            var4(name, val, ("s_rho", "eta_rho", "xi_rho"), (N, jmax, imax))
    return path


def write_release(path, rows, header=None) -> Path:
    """rows: list of lists (first element time as int seconds or str)"""
    path = Path(path)
    with path.open("w") as f:
        if header:
            f.write(" ".join(header) + "\n")
        for r in rows:
            t = r[0]
            ts = iso(t) if not isinstance(t, str) else t
            f.write(" ".join([ts] + [repr(x) if isinstance(x, float) else str(x) for x in r[1:]]) + "\n")
    return path


def base_config(
    *,
    start,
    stop,
    dt,
    forcing_file,
    release_file,
    out_file,
    names=("release_time", "X", "Y", "Z"),
    advection="EF",
    output_period=None,
    time_reversal=False,
    reference=None,
    instance_variables=("pid", "X", "Y", "Z"),
    numrec=0,
    layout="sparse",
    grid_file=None,
    subgrid=None,
):
    conf = {
        "version": 2,
        "time": {"start": iso(start), "stop": iso(stop), "dt": int(dt)},
        "state": {},
        "grid": {"module": "ladim.ROMS", "filename": str(grid_file or forcing_file)},
        "forcing": {"module": "ladim.ROMS", "filename": str(forcing_file)},
        "release": {"release_file": str(release_file), "names": list(names)},
        "tracker": {"advection": advection},
        "ibm": {},
        "warm_start": {},
        "output": {
            "filename": str(out_file),
            "output_period": int(output_period if output_period else dt),
            "layout": layout,
            "numrec": numrec,
            "instance_variables": {},
            "particle_variables": {},
        },
    }
    if time_reversal:
        conf["time"]["time_reversal"] = True
    if reference is not None:
        conf["time"]["reference"] = iso(reference)
    if subgrid is not None:
        conf["grid"]["subgrid"] = list(subgrid)
    for v in instance_variables:
        dtp = "i4" if v == "pid" else "f8"
        conf["output"]["instance_variables"][v] = {
            "encoding": {"datatype": dtp},
            "attributes": {"long_name": v},
        }
    return conf
