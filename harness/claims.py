"""Table of claimed properties for MANIFEST.json."""
NOT_YET = {}
BASE = ("Trusted: Coq kernel + vm_compute; hand-written Gallina model tied to /repo only by the per-run correspondence "
        "on generated cases; exact rational arithmetic instead of float rounding; netCDF4/numpy/pandas/numba as run. ")


def register(claim):
    claim("C13", "Coq proof (Z arithmetic, string recogniser) + vm_compute correspondence",
          "Clock laws, inverse laws, CF offsets, constructor refusals and the exact characterisation of the ISO-period recogniser are Coq theorems over all integers/strings; the model is tied to timekeeper.py by differential evaluation of every API call on generated clocks and spellings.",
          BASE + "dt > 0; Unicode digits / trailing newline in ISO strings outside model and generator.", "DESIGN.md section 6 C13")
    claim("C05", "Coq proof (invariant by induction over operation lists, lookup lemmas) + vm_compute correspondence",
          "Invariant (pids strictly increasing, pid[k]>=k, <npid, aligned columns), exact-removal, value-preservation and never-reused theorems hold for every operation sequence (induction, no bound); the model is tied to state.py by replaying random and exhaustive short operation sequences and comparing the full state after every operation.",
          BASE + "item assignment length-preserving (hypothesis op_wf); values integer-coded.", "DESIGN.md section 6 C05")
