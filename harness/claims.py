"""Table of claimed properties for MANIFEST.json."""
NOT_YET = {}
BASE = ("Trusted: Coq kernel + vm_compute; hand-written Gallina model tied to /repo only by the per-run correspondence "
        "on generated cases; exact rational arithmetic instead of float rounding; netCDF4/numpy/pandas/numba as run. ")


def register(claim):
    claim("C13", "Coq proof (Z arithmetic, string recogniser) + vm_compute correspondence",
          "Clock laws, inverse laws, CF offsets, constructor refusals and the exact characterisation of the ISO-period recogniser are Coq theorems over all integers/strings; the model is tied to timekeeper.py by differential evaluation of every API call on generated clocks and spellings.",
          BASE + "dt > 0; Unicode digits / trailing newline in ISO strings outside model and generator.", "DESIGN.md section 6 C13")
    claim("C05", "Coq proof (invariant by induction over operation lists, lookup lemmas) + vm_compute correspondence",
          "Invariant (pids strictly increasing, pid[k]>=k, <npid, aligned columns), exact-removal, value-preservation and never-reused theorems hold for every operation sequence (induction, no bound); the model is tied to state.py by replaying random and exhaustive short operation sequences and comparing the full state after every operation.",
          BASE + "item assignment length-preserving (hypothesis op_wf); values integer-coded.", "DESIGN.md section 6 C05")
    claim("C09", "Coq proof (one-step preservation for arbitrary candidates, induction over steps) + vm_compute correspondence",
          "The valid-region/sea-cell invariant, kill-iff-outside, land-cancel, inactive-unmoved and dead-stay-dead theorems hold for ANY candidate position (any field, draw, scheme, NaN) and any number of steps; the move logic is tied to tracker.py/ROMS.Grid by exact differential evaluation on generated coastlines and prescribed velocities, plus invariant checks on multi-step histories with diffusion.",
          BASE + "released particles start in sea cells of the valid region.", "DESIGN.md section 6 C09")
    claim("C15", "Coq proof (reflection lemma over Q for arbitrary displacement) + vm_compute correspondence",
          "For all h>0, 0<=Z<=h and any displacement |d|<h the surface-then-bottom reflection stays in [0,h]; off = identity; tied to tracker.py by differential evaluation with injected generator, stub vertical velocity and variable bathymetry (model looks up the start cell itself).",
          BASE + "tolerance 1e-9 on the depth comparison.", "DESIGN.md section 6 C15")
    claim("C01", "Coq proof (refinement to Butcher-tableau step, order conditions, exactness laws) + vm_compute correspondence; convergence clause partial",
          "EF/RK2/RK4 as coded equal the explicit Runge-Kutta step of their tableau (stage positions and fractional times) for every velocity oracle; tableaux satisfy the order conditions through 1/2/4; exact to order p on linear fields and as quadrature; same for ladim.analytical. Convergence for arbitrary smooth fields is not proved (stated partial). Tied to tracker.py/analytical.py by differential evaluation on polynomial fields incl. clipped stages, and end to end through the ROMS forcing.",
          BASE + "tolerance 1e-11; Butcher's theorem not formalised.", "DESIGN.md section 6 C01")
    claim("C04", "Coq proof (refinement of the cursor machine to the schedule spec, induction over steps) + vm_compute correspondence",
          "For every table in simulation order on the time grid, every window, mult>=0, both directions, cold and warm: the cursor machine appends at each step exactly the scheduled rows (mult copies, file order), nothing else; continuous mode per tick; start-up refusal iff no row in the window. Tied to release.py by text release files driven through the real ParticleReleaser/TimeKeeper/State.",
          BASE + "pandas CSV/date parsing is glue covered by the correspondence only; table sorted in simulation order (hypothesis forced by the blind cursor).", "DESIGN.md section 6 C04")
    claim("C06", "Coq proof (layout invariants by induction over records; lookup lemmas) + vm_compute correspondence",
          "Retrieval by cumulative particle_count returns exactly the k-th snapshot for any record sequence (zero-particle records included), counts sum to the instance arrays, particle variables hold every released pid's value at index pid, dense rows hold value iff alive. Tied to out_netcdf.py by generated histories through the real State/Output with files read back.",
          BASE + "NetCDF library trusted to store what it is given; lossless datatypes.", "DESIGN.md section 6 C06")
    claim("C07", "Coq proof (invariant of the cursor machine for all N, p, numrec; ceiling-division lemmas) + vm_compute correspondence",
          "For all N>=0, p>=1, numrec>=0 the machine never writes to a closed file, writes exactly the records of steps k*p<N in order, files hold numrec records (last fewer), all closed, numbered consecutively; split = unsplit. Tied to out_netcdf.py/main.py by complete enumeration of an (N,p,numrec) box on the real Output plus end-to-end runs.",
          BASE + "period a multiple of dt.", "DESIGN.md section 6 C07")
    claim("C12", "Coq proof (order lemmas over Q, monotone stretching curves over R, clamp identity) + vm_compute / interval correspondence",
          "sdepth ordered/interleaved within [-h,0] for any increasing stretching array; all three stretching curves strictly increasing from -1 to 0 (real analysis); z2s index in 1..N-1, weight in [0,1], weighted depth = clamped depth, for N>=2 and any depth. Tied to ROMS.py by differential evaluation (exact and 1e-9 streams), interval-checked s_stretch samples, real Grid from file and Vinfo.",
          BASE + "theorems over R depend on the standard real-number axioms (listed in evidence); N=1 is a known finding.", "DESIGN.md section 6 C12")
    claim("C02", "Coq proof (algebraic laws of the kernels, index-shift/subgrid independence) + vm_compute correspondence",
          "Trilinear result is a convex combination of the eight nodes, exact on fields linear in x,y on the levels through the C-grid stagger for every legal subgrid, independent of the subgrid, zero through land faces, scalar = own cell, packed scaling. Tied to ROMS.py by the public kernels on generated arrays and a real Grid+Forcing on generated files (bathymetry, masks, subgrids, f8/f4/int16).",
          BASE + "K/A from the level search are inputs (C12 proves their range); float rounding not modelled.", "DESIGN.md section 6 C02")
    claim("C17", "Coq proof (index arithmetic in bounds for all shapes/positions in the clip box) + vm_compute correspondence; memory effect partial",
          "Every index read by trilinear (through sample3DUV) and by the nearest sampler is inside the arrays for every position of the clip box (valid region and clipped RK stages), any depth level 1<=K<=N-1. Tied by index-recording runs of the kernels' Python bodies, in-process simulations and NUMBA_BOUNDSCHECK=1 subprocess runs.",
          BASE + "the effect of an out-of-range read in compiled code cannot be exhibited by the model (partial).", "DESIGN.md section 6 C17")
    claim("C11", "Coq proof (coefficient algebra over R and Q, draw-index injectivity, L2 orthogonality) + vm_compute correspondence; distribution trusted",
          "Displacement = c*xi with c^2 = 2D dt/dx^2 (2 Dz dt vertical); every (step, particle, direction) uses its own draw; squared norms add (variance 2Dt) and different particles/directions/steps are orthogonal in the constructed L2 model; no draws when off. Tied to tracker.py with an injected generator whose draws the harness reproduces; cloud statistics at 6 sigma as a sanity test.",
          BASE + "that numpy's normals are i.i.d. N(0,1) is numpy's contract (not proved); real-number axioms for the sqrt identities.", "DESIGN.md section 6 C11")
    claim("C16", "Coq proof (sampler laws, Newton post-condition, affine exactness, in-bounds iteration) + vm_compute correspondence; Newton convergence on curved grids partial",
          "sample2D exact on bilinear fields, convex, mask renormalisation, outside_value (0 included); bilin_inv's return through its test bounds the residual; one Newton pass is exact on affine grids so ll2xy(xy2ll p) = p there; xy2ll equals sampling the full arrays for every subgrid; every read of the iteration is in bounds. Tied by sample2D/bilin_inv streams, real Grid on generated conformal grids, end-to-end lon/lat release and output.",
          BASE + "convergence of the 7-pass Newton iteration on arbitrary conformal grids is covered by the correspondence only.", "DESIGN.md section 6 C16")
