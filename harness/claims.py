"""Table of claimed properties for MANIFEST.json."""
NOT_YET = {}
BASE = ("Trusted: Coq kernel + vm_compute; hand-written Gallina model tied to /repo only by the per-run correspondence "
        "on generated cases; exact rational arithmetic instead of float rounding; netCDF4/numpy/pandas/numba as run. ")


def register(claim):
    claim("C13", "Coq proof (Z arithmetic, string recogniser) + vm_compute correspondence",
          "Clock laws, inverse laws, CF offsets, constructor refusals and the exact characterisation of the ISO-period recogniser are Coq theorems over all integers/strings; the model is tied to timekeeper.py by differential evaluation of every API call on generated clocks and spellings.",
          BASE + "dt > 0; Unicode digits / trailing newline in ISO strings outside model and generator.", "DESIGN.md section 6 C13")
    claim("C05", "Coq proof (invariant by induction over operation lists, lookup lemmas) + vm_compute correspondence",
          "Invariant (pids strictly increasing, pid[k]>=k, <npid, aligned columns), exact-removal, value-preservation and never-reused theorems hold for every operation sequence (induction, no bound); the model is tied to state.py by replaying random and exhaustive short operation sequences and comparing the full state after every operation.",
          BASE + "item assignment length-preserving (hypothesis op_wf); values integer-coded.", "DESIGN.md section 6 C05")
    claim("C09", "Coq proof (one-step preservation for arbitrary candidates, induction over steps) + vm_compute correspondence",
          "The valid-region/sea-cell invariant, kill-iff-outside, land-cancel, inactive-unmoved and dead-stay-dead theorems hold for ANY candidate position (any field, draw, scheme, NaN) and any number of steps; the move logic is tied to tracker.py/ROMS.Grid by exact differential evaluation on generated coastlines and prescribed velocities, plus invariant checks on multi-step histories with diffusion.",
          BASE + "released particles start in sea cells of the valid region.", "DESIGN.md section 6 C09")
    claim("C15", "Coq proof (reflection lemma over Q for arbitrary displacement) + vm_compute correspondence",
          "For all h>0, 0<=Z<=h and any displacement |d|<h the surface-then-bottom reflection stays in [0,h]; off = identity; tied to tracker.py by differential evaluation with injected generator, stub vertical velocity and variable bathymetry (model looks up the start cell itself).",
          BASE + "tolerance 1e-9 on the depth comparison.", "DESIGN.md section 6 C15")
    claim("C01", "Coq proof (refinement to Butcher-tableau step, order conditions, exactness laws) + vm_compute correspondence; convergence clause partial",
          "EF/RK2/RK4 as coded equal the explicit Runge-Kutta step of their tableau (stage positions and fractional times) for every velocity oracle; tableaux satisfy the order conditions through 1/2/4; exact to order p on linear fields and as quadrature; same for ladim.analytical. Convergence for arbitrary smooth fields is not proved (stated partial). Tied to tracker.py/analytical.py by differential evaluation on polynomial fields incl. clipped stages, and end to end through the ROMS forcing.",
          BASE + "tolerance 1e-11; Butcher's theorem not formalised.", "DESIGN.md section 6 C01")
