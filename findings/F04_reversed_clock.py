"""C13/C10: the reversed clock must read start - n*dt at step n (step2time had no reversal branch)."""
from _common import *
from ladim.timekeeper import TimeKeeper
tk = TimeKeeper(start="2000-01-01T01:00:00", stop="2000-01-01T00:00:00", dt=600, time_reversal=True)
seen = []
for n in range(3):
    tk.update(); seen.append((tk.step, str(tk.time), str(tk.step2time(n)), tk.time2step(tk.step2time(n))))
print(seen)
want = [(0, "2000-01-01T01:00:00"), (1, "2000-01-01T00:50:00"), (2, "2000-01-01T00:40:00")]
ok = all(s[0] == w[0] and s[1] == w[1] and s[2] == w[1] and s[3] == w[0] for s, w in zip(seen, want))
verdict(ok, "reversed clock reads start - n*dt")
