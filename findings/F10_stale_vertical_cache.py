"""C14: a particle's trajectory does not depend on other particles dying.
Depth-dependent current (u = 0.1 m/s at the lower level, 0.5 m/s at the upper level); particle A
(shallow) is killed by the IBM after step 1; particle B (deep) must move exactly as when released alone."""
from _common import *
PLUG = str(HERE.parent / "harness" / "plugins" / "kill_ibm.py")
imax, jmax, N = 14, 6, 2
u = np.zeros((1, N, jmax, imax - 1)); u[0, 0] = 0.1; u[0, 1] = 0.5
res = {}
with workdir() as d:
    rf.write_roms(d / "f.nc", imax=imax, jmax=jmax, N=N, times=[0, 60000], u=np.concatenate([u, u]), h=100.0)
    for layout in ("sparse", "dense"):
        for name, rows, kill in [("pair", [[0, 3.0, 3.0, 20.0], [0, 3.0, 3.0, 80.0]], {1: [0]}), ("single", [[0, 3.0, 3.0, 80.0]], {})]:
            rf.write_release(d / "r.rls", rows)
            conf = rf.base_config(start=0, stop=3600, dt=600, forcing_file=d/"f.nc", release_file=d/"r.rls", out_file=d/f"{name}.nc", layout=layout)
            conf["ibm"] = {"module": PLUG, "kill": kill}
            try:
                rl.run_main(conf, d)
            except Exception as e:
                res[layout, name] = f"crash {type(e).__name__}: {e}"; continue
            from netCDF4 import Dataset
            with Dataset(d / f"{name}.nc") as nc:
                nc.set_auto_mask(False)
                if layout == "sparse":
                    o = rl.read_sparse(d / f"{name}.nc")
                    res[layout, name] = [r["vars"]["X"][-1] for r in o["records"]]
                else:
                    X = nc.variables["X"][:]
                    res[layout, name] = [float(x) for x in X[:, -1]]
for k, v in res.items(): print(k, v)
ok = all(res[l, "pair"] == res[l, "single"] for l in ("sparse", "dense"))
verdict(ok, "trajectory of B independent of A's death")
