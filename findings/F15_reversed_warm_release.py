"""C08/C10/C04: a reversed run that is warm-started must still release the rows after (= earlier than) the start time."""
from _common import *
from netCDF4 import Dataset
from ladim.timekeeper import TimeKeeper
from ladim.state import State
from ladim.release import ParticleReleaser
with workdir() as d:
    rf.write_release(d / "r.rls", [[1800, 3.0, 3.0, 5.0], [1200, 4.0, 3.0, 5.0], [600, 5.0, 3.0, 5.0]])
    with Dataset(d / "warm.nc", "w") as nc:   # minimal restart file: one particle, pid 0
        nc.createDimension("particle_instance", None); nc.createDimension("time", None)
        v = nc.createVariable("pid", "i4", ("particle_instance",)); v[:] = [0]
    tk = TimeKeeper(start=rf.iso(1800), stop=rf.iso(0), dt=600, time_reversal=True)
    st = State()
    rel = ParticleReleaser({"time": tk, "state": st, "grid": None}, d / "r.rls", names=["release_time", "X", "Y", "Z"], warm_start_file=str(d / "warm.nc"))
    seen = []
    for n in range(tk.Nsteps):
        tk.update(); before = len(st); rel.update(); seen.append((n, st.X[before:].tolist()))
print(seen)
verdict(seen == [(0, []), (1, [4.0]), (2, [5.0])], "reversed warm start releases the remaining rows (row at the start time skipped)")
