"""C04/C10: in a reversed run every release row is released at its own time.
Rows (descending = simulation order): t=3600 X=3 ; t=2400 X=4,4.5 ; t=1200 X=5."""
from _common import *
from ladim.timekeeper import TimeKeeper
from ladim.state import State
from ladim.release import ParticleReleaser
with workdir() as d:
    rf.write_release(d / "r.rls", [[3600, 3.0, 3.0, 5.0], [2400, 4.0, 3.0, 5.0], [2400, 4.5, 3.0, 5.0], [1200, 5.0, 3.0, 5.0]])
    tk = TimeKeeper(start=rf.iso(3600), stop=rf.iso(0), dt=600, time_reversal=True)
    st = State()
    mods = {"time": tk, "state": st, "grid": None}
    rel = ParticleReleaser(mods, d / "r.rls", names=["release_time", "X", "Y", "Z"])
    seen = []
    for n in range(tk.Nsteps):
        tk.update(); before = len(st); rel.update(); seen.append((n, st.X[before:].tolist()))
print(seen)
want = [(0, [3.0]), (1, []), (2, [4.0, 4.5]), (3, []), (4, [5.0]), (5, [])]
verdict(seen == want, "reversed release: rows released at their own times")
