"""C18: an optional section written with nothing in it (YAML `grid:` -> null) behaves as an empty / omitted one."""
from _common import *
import yaml
from ladim.configure import configure
res = {}
with workdir() as d:
    rf.write_roms(d / "f.nc", imax=8, jmax=6, N=2, times=[0, 6000])
    rf.write_release(d / "r.rls", [[0, 3.0, 3.0, 5.0]])
    base = rf.base_config(start=0, stop=1200, dt=600, forcing_file=d/"f.nc", release_file=d/"r.rls", out_file=d/"o.nc")
    for sec in ("grid", "state", "ibm", "warm_start"):
        conf = {k: v for k, v in base.items()}
        conf[sec] = None
        try:
            rl.run_main(conf, d)
            res[sec] = "ran"
        except BaseException as e:
            res[sec] = f"{type(e).__name__}: {e}"
print(res)
verdict(all(v == "ran" for v in res.values()), "null optional sections behave as empty ones")
