"""C07: a run of N steps with output period p must write ceil(N/p) records and end normally.
N=5, p=2, numrec in {0, 2}: records at steps 0, 2, 4."""
from _common import *
bad = []
with workdir() as d:
    rf.write_roms(d / "f.nc", imax=8, jmax=6, N=2, times=[0, 6000])
    rf.write_release(d / "r.rls", [[0, 3.0, 3.0, 5.0]])
    for numrec in (0, 2):
        conf = rf.base_config(start=0, stop=3000, dt=600, forcing_file=d/"f.nc", release_file=d/"r.rls",
                              out_file=d/f"o{numrec}.nc", output_period=1200, numrec=numrec)
        try:
            rl.run_main(conf, d)
        except Exception as e:
            print("numrec", numrec, "crashed:", type(e).__name__, e); bad.append(numrec); continue
        files = sorted(p.name for p in d.glob(f"o{numrec}*.nc"))
        times = [r["time"] for f in files for r in rl.read_sparse(d / f)["records"]]
        print("numrec", numrec, files, times)
        if times != [0.0, 1200.0, 2400.0]: bad.append(numrec)
verdict(not bad, f"all due records written (failing numrec: {bad})")
