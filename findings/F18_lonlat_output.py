"""C16: longitude/latitude requested as output variables are the bilinear interpolation of the grid's
coordinates at the particle position of the same record (v2 configuration, lon/lat not state variables)."""
from _common import *
from ladim.sample import sample2D
ok = False
with workdir() as d:
    imax, jmax = 12, 9
    jj, ii = np.meshgrid(np.arange(jmax), np.arange(imax), indexing="ij")
    lon, lat = 5 + 0.02 * ii + 0.001 * jj, 60 + 0.01 * jj - 0.0005 * ii
    rf.write_roms(d / "f.nc", imax=imax, jmax=jmax, N=2, times=[0, 6000], u=0.3, lon=lon, lat=lat)
    rf.write_release(d / "r.rls", [[0, 3.25, 4.5, 5.0]])
    conf = rf.base_config(start=0, stop=1800, dt=600, forcing_file=d/"f.nc", release_file=d/"r.rls", out_file=d/"o.nc",
                          instance_variables=("pid", "X", "Y", "lon", "lat"))
    try:
        rl.run_main(conf, d)
        o = rl.read_sparse(d / "o.nc")
        ok = True
        for r in o["records"]:
            X, Y = np.array(r["vars"]["X"]), np.array(r["vars"]["Y"])
            wlon, wlat = sample2D(lon, X, Y), sample2D(lat, X, Y)
            print(r["time"], r["vars"]["lon"], wlon.tolist(), r["vars"]["lat"], wlat.tolist())
            ok &= np.allclose(r["vars"]["lon"], wlon, atol=1e-9) and np.allclose(r["vars"]["lat"], wlat, atol=1e-9)
    except Exception as e:
        print("crashed:", type(e).__name__, e)
verdict(ok, "lon/lat output = interpolated grid coordinates")
