"""C20: a release row without a position value must be refused at start-up (no output record)."""
from _common import *
res = None
with workdir() as d:
    rf.write_roms(d / "f.nc", imax=8, jmax=6, N=2, times=[0, 6000])
    (d / "r.rls").write_text(f"{rf.iso(0)} 3.0 3.0 5.0\n{rf.iso(600)} 3.25\n")
    conf = rf.base_config(start=0, stop=1800, dt=600, forcing_file=d/"f.nc", release_file=d/"r.rls", out_file=d/"o.nc")
    try:
        rl.run_main(conf, d); res = "ran"
    except SystemExit as e:
        res = f"SystemExit({e.code})"
    except Exception as e:
        res = type(e).__name__
    res += " out_exists=%s" % (d / "o.nc").exists()
print(res)
verdict(res.startswith("SystemExit") and res.endswith("False"), "release row without position refused at start-up")
