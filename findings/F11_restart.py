"""C08: restart from every file boundary continues the run as if it never stopped."""
from _common import *
sys.path.insert(0, str(HERE.parent / "harness" / "props"))
import c08_impl as c8
scen = {
 "multiple_of_period": dict(N=12, p=2, numrec=2, dt=600, adv="EF", lifetime=3000, rows=[[0, 3.0, 3.0, 20.0], [0, 3.5, 4.0, 70.0], [1800, 4.0, 3.0, 30.0]], continuous=1200),
 "not_multiple": dict(N=11, p=2, numrec=2, dt=600, adv="RK4", lifetime=2400, rows=[[0, 3.0, 3.0, 20.0], [4200, 4.0, 3.0, 30.0]], continuous=None),
 "highest_pid_dead_with_pvars": dict(N=10, p=1, numrec=3, dt=600, adv="EF", kill={1: [1, 2]}, rows=[[0, 3.0, 3.0, 20.0], [600, 3.5, 4.0, 70.0], [600, 3.5, 4.5, 70.0], [4200, 4.0, 3.0, 30.0]], continuous=None),
 "highest_pid_dead_no_pvars": dict(N=10, p=1, numrec=3, dt=600, adv="EF", pvars=False, kill={1: [1, 2]}, rows=[[0, 3.0, 3.0, 20.0], [600, 3.5, 4.0, 70.0], [600, 3.5, 4.5, 70.0], [4200, 4.0, 3.0, 30.0]], continuous=None),
}
bad = {}
for name, sc in scen.items():
    with workdir() as d:
        cold, warm = c8.run_split_and_restarts(d, sc)
    for r, w in warm.items():
        diffs = c8.compare(cold, w, r)
        print(name, "restart after file", r, "OK" if not diffs else diffs[:4])
        if diffs: bad.setdefault(name, []).append(r)
verdict(not bad, f"restart transparency (failing: {bad})")
