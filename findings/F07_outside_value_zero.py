"""C16: sample2D returns the requested substitute value outside the grid, including 0.0."""
from _common import *
from ladim.sample import sample2D
F = np.arange(12.0).reshape(3, 4) + 5
got = sample2D(F, np.array([1.5, 7.0, -0.5]), np.array([1.0, 1.0, 1.0]), outside_value=0.0).tolist()
print(got)
verdict(got == [10.5, 0.0, 0.0], "outside_value=0.0 honoured")
