"""C16: ll2xy must invert xy2ll for every position of the valid region, also near the far corners of a
polar-stereographic grid (the first Newton pass from the array centre overshoots the last row/column)."""
from _common import *
from ladim.sample import sample2D, bilin_inv
nr, nc, dx = 40, 40, 4.0
xp, yp = -100.0, 40 + 1500 / 4.0
scale = 6371 * (1 + np.sin(np.radians(60)))
j, i = np.meshgrid(np.arange(nr), np.arange(nc), indexing="ij")
lat = 90 - 2 * np.degrees(np.arctan(dx * np.hypot(i - xp, j - yp) / scale))
lon = np.degrees(np.arctan2(i - xp, yp - j))
bad = []
for X, Y in [(38.49, 38.49), (20.0, 38.4), (38.4, 3.0), (0.6, 0.6), (12.25, 30.5)]:
    lo, la = sample2D(lon, np.array([X]), np.array([Y])), sample2D(lat, np.array([X]), np.array([Y]))
    try:
        y, x = bilin_inv(lo, la, lon, lat)
        ok = abs(x[0] - X) < 2e-2 and abs(y[0] - Y) < 2e-2  # solver tolerance: sqrt(1e-7) deg ~ 1e-2 cell here
        print((X, Y), "->", (float(x[0]), float(y[0])), "ok" if ok else "WRONG")
    except IndexError as e:
        print((X, Y), "IndexError", e); ok = False
    if not ok: bad.append((X, Y))
verdict(not bad, f"lon/lat -> grid coordinates in the valid region (failing: {bad})")
