"""Shared set-up for the finding demonstrations (run with /venv/bin/python, PYTHONPATH=/repo)."""
import os, sys, tempfile, shutil, contextlib
from pathlib import Path
HERE = Path(__file__).resolve().parent
sys.path.insert(0, str(HERE.parent / "harness" / "lib"))
import numpy as np
import romsfiles as rf
import run_ladim as rl

@contextlib.contextmanager
def workdir():
    d = Path(tempfile.mkdtemp(prefix="ladimdemo_", dir=os.environ.get("VERIF_WORK", None)))
    try:
        yield d
    finally:
        shutil.rmtree(d, ignore_errors=True)

def verdict(ok, msg):
    print(("PASS " if ok else "FAIL ") + msg)
    sys.exit(0 if ok else 1)
