"""C01: RK2/RK4 must sample the velocity at the intermediate stage positions.
Field u = c*(x - 5) [m/s] (v = 0), dx = 1000 m, dt = 600 s: one RK4 step from x0 must give
x0 + (x0-5)*(z + z^2/2 + z^3/6 + z^4/24), z = c*dt/dx;   RK2 (midpoint): z + z^2/2."""
from _common import *
imax, jmax, N = 12, 8, 2
c = 0.2 * 1000 / 600           # z = 0.2
xu = np.arange(imax - 1) + 0.5  # u-point positions
u = np.broadcast_to(c * (xu - 5.0), (1, N, jmax, imax - 1))
bad = []
with workdir() as d:
    rf.write_roms(d / "f.nc", imax=imax, jmax=jmax, N=N, times=[0, 6000], u=np.concatenate([u, u]))
    rf.write_release(d / "r.rls", [[0, 7.0, 4.0, 5.0]])
    for adv, poly in [("EF", lambda z: z), ("RK2", lambda z: z + z*z/2), ("RK4", lambda z: z + z*z/2 + z**3/6 + z**4/24)]:
        conf = rf.base_config(start=0, stop=1200, dt=600, forcing_file=d/"f.nc", release_file=d/"r.rls", out_file=d/f"o{adv}.nc", advection=adv)
        rl.run_main(conf, d)
        X = rl.read_sparse(d / f"o{adv}.nc")["records"][1]["vars"]["X"][0]
        want = 7.0 + 2.0 * poly(0.2)
        print(adv, X, want)
        if abs(X - want) > 1e-9: bad.append(adv)
verdict(not bad, f"stage positions used by {bad or 'all schemes'}")
