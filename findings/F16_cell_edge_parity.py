"""C02: scalar forcing / vertical level of a particle exactly on a cell edge must not depend on the subgrid offset."""
from _common import *
from ladim.ROMS import Grid, Forcing
from ladim.state import State
from ladim.timekeeper import TimeKeeper
imax, jmax, N = 10, 8, 3
h = 50 + 10 * np.arange(imax)[None, :] * np.ones((jmax, 1))
temp = np.arange(N * jmax * imax, dtype=float).reshape(1, N, jmax, imax)
res = {}
with workdir() as d:
    rf.write_roms(d / "f.nc", imax=imax, jmax=jmax, N=N, times=[0, 6000], h=h, extra={"temp": np.concatenate([temp, temp])})
    for sub in (None, (2, 9, 1, 7), (3, 9, 2, 7)):
        tk = TimeKeeper(start=rf.iso(0), stop=rf.iso(1200), dt=600)
        st = State(instance_variables={"temp": float})
        g = Grid(filename=d / "f.nc", subgrid=sub)
        mods = {"time": tk, "state": st, "grid": g}
        st.append(X=np.array([4.5]), Y=np.array([3.2]), Z=np.array([20.0]), temp=0.0)
        f = Forcing(mods, filename=str(d / "f.nc"), extra_forcing=["temp"])
        tk.update(); f.update()
        res[sub] = (float(f.variables["temp"][0]), int(f.K[0]), round(float(f.A[0]), 6), float(g.depth(st.X, st.Y)[0]))
        f.close()
for k, v in res.items(): print(k, v)
verdict(len(set(res.values())) == 1, "forcing at a cell edge independent of the subgrid")
