"""C20/C04: a set-up whose only release time is the stop time (window is stop-exclusive) has no
release inside the window and must be refused at start-up, with no output record."""
from _common import *
res = {}
with workdir() as d:
    rf.write_roms(d / "f.nc", imax=8, jmax=6, N=2, times=[0, 6000])
    for rev in (False, True):
        start, stop = (3000, 0) if rev else (0, 3000)
        rf.write_release(d / "r.rls", [[stop, 3.0, 3.0, 5.0]])
        conf = rf.base_config(start=start, stop=stop, dt=600, forcing_file=d/"f.nc", release_file=d/"r.rls",
                              out_file=d/f"o{rev}.nc", time_reversal=rev)
        try:
            rl.run_main(conf, d); res[rev] = "ran"
        except SystemExit as e:
            res[rev] = f"SystemExit({e.code})"
        except Exception as e:
            res[rev] = f"{type(e).__name__}"
        res[rev] += " out_exists=%s" % (d / f"o{rev}.nc").exists()
print(res)
verdict(all(v.startswith("SystemExit") and v.endswith("False") for v in res.values()), "release at stop time refused")
