"""C03: velocity in force = linear interpolation between the bracketing frames (also when the frame
spacing equals dt, at fractional times after a slope change, across files, reversed), scalar = latest frame."""
from _common import *
sys.path.insert(0, str(HERE.parent / "harness" / "props"))
import c03_impl as c3
layouts = {
 "spacing_eq_dt": dict(dt=600, start=0, stop=2400, reversed=False, files=[[[0,1,10],[600,2,20],[1200,4,30],[1800,8,40],[2400,16,50]]]),
 "slope_change_fraction": dict(dt=600, start=0, stop=3600, reversed=False, files=[[[0,0,10],[1200,2,20],[3600,10,30]]]),
 "reversed_multifile": dict(dt=600, start=3600, stop=0, reversed=True, files=[[[0,1,10],[1200,3,20]],[[2400,7,30],[3600,15,40]]]),
 "preroll_across_files": dict(dt=600, start=1800, stop=4800, reversed=False, files=[[[0,1,10],[1200,3,20]],[[2400,7,30],[4800,15,40]]]),
 "one_frame_per_file": dict(dt=600, start=600, stop=3000, reversed=False, files=[[[0,1,10]],[[1200,3,20]],[[2400,7,30]],[[3600,15,40]]]),
}
bad = []
for name, lay in layouts.items():
    with workdir() as d:
        try:
            got = c3.trace(d, lay)
        except Exception as e:
            print(name, "crashed", type(e).__name__, e); bad.append(name); continue
    want = c3.spec(lay)
    ok = all(abs(a - b) < 1e-9 for g, w in zip(got, want) for a, b in zip(g["u"] + [g["temp"]], w["u"] + [w["temp"]]))
    print(name, "ok" if ok else "MISMATCH")
    if not ok:
        for g, w in zip(got, want): print("   step", g["step"], "got", g["u"], g["temp"], "want", w["u"], w["temp"])
        bad.append(name)
verdict(not bad, f"forcing in time (failing layouts: {bad})")
