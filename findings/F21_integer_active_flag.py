"""C09: inactive particles are not moved horizontally - also when the `active` column of the release file is spelled 0 / 1
(pandas reads it as int64; before the fix State.append let the flag become an integer array and ~active indexed by number)."""
from _common import *
import numpy as np
from netCDF4 import Dataset
res = None
with workdir() as d:
    rf.write_roms(d / "f.nc", imax=12, jmax=8, N=2, times=[0, 6000], u=0.5, v=0.0)
    rows = [(3.0, 3.0, 1), (4.0, 3.0, 0), (5.0, 4.0, 1), (6.0, 4.0, 0), (3.0, 5.0, 1)]
    (d / "r.rls").write_text("".join(f"{rf.iso(0)} {x} {y} 5.0 {a}\n" for x, y, a in rows))
    conf = rf.base_config(start=0, stop=1800, dt=600, forcing_file=d / "f.nc", release_file=d / "r.rls", out_file=d / "o.nc",
                          names=("release_time", "X", "Y", "Z", "active"))
    rl.run_main(conf, d)
    with Dataset(d / "o.nc") as nc:
        cnt = [int(c) for c in nc.variables["particle_count"][:]]
        pid = np.asarray(nc.variables["pid"][:]); X = np.asarray(nc.variables["X"][:])
    last = slice(sum(cnt[:-1]), sum(cnt))
    moved = {int(p): float(x) for p, x in zip(pid[last], X[last])}
    res = [round(moved[k] - rows[k][0], 6) for k in sorted(moved)]
print(res)
verdict(all((dx == 0.0) == (rows[k][2] == 0) for k, dx in enumerate(res)), "inactive (0) rows stay put, active (1) rows move")
