"""C06: per-particle variables are stored at index pid for every particle released so far,
also when the highest pids are dead at the end of the file, or when no particle is alive."""
from _common import *
PLUG = str(HERE.parent / "harness" / "plugins" / "kill_ibm.py")
bad = []
with workdir() as d:
    rf.write_roms(d / "f.nc", imax=8, jmax=6, N=2, times=[0, 6000])
    rf.write_release(d / "r.rls", [[0, 3.0, 3.0, 5.0, 11.5], [600, 3.5, 3.0, 5.0, 12.5], [600, 4.0, 3.0, 5.0, 13.5]])
    for name, kill in [("trailing_dead", {1: [1, 2]}), ("all_dead", {1: [0, 1, 2]})]:
        conf = rf.base_config(start=0, stop=1800, dt=600, forcing_file=d/"f.nc", release_file=d/"r.rls",
                              out_file=d/f"{name}.nc", names=["release_time", "X", "Y", "Z", "weight"])
        conf["state"] = {"particle_variables": {"release_time": "time", "weight": "float"}}
        conf["ibm"] = {"module": PLUG, "kill": kill}
        conf["output"]["particle_variables"] = {
            "release_time": {"encoding": {"datatype": "f8"}, "attributes": {"units": "seconds since reference_time"}},
            "weight": {"encoding": {"datatype": "f8"}, "attributes": {"long_name": "w"}}}
        try:
            rl.run_main(conf, d)
        except Exception as e:
            print(name, "crashed:", type(e).__name__, e); bad.append(name); continue
        out = rl.read_sparse(d / f"{name}.nc")
        print(name, out["pvars"], [r["vars"]["pid"] for r in out["records"]])
        if out["pvars"].get("weight") != [11.5, 12.5, 13.5] or out["pvars"].get("release_time") != [0.0, 600.0, 600.0]:
            bad.append(name)
verdict(not bad, f"particle variables complete (failing: {bad})")
