(** Correspondence checker for C03: rebuilds the step tables from the file layout (times of the frames
    per file), runs Model/ForcingTime.v (init, then one update per model step) and compares with what the
    real Forcing object showed at every step: velocity at fractions 0, 1/2, 1, variables["u"], and the
    scalar field.

    Case layout (integers):
      exact :: dt :: start :: rev :: hs :: nsteps :: nfiles ::
      per file:  nframes :: (time :: u_num :: u_den :: s_num :: s_den)*
      per step:  observed :: v(0) v(1/2) v(1) variables[u] scalar      (each value as num :: den)
    observed = 0: no particle was alive at that step, nothing could be sampled; the machine is stepped
    all the same (Forcing.update runs every step) and the comparison resumes at the next observed step.
    exact = 1: values were chosen so that float arithmetic is exact, comparison is [Qeq_bool];
    exact = 0: general floats, comparison is [close 1e-9] (relative to 1 + |a| + |b|). *)
From Coq Require Import ZArith QArith List Bool.
From Ladim Require Import Base.Num Model.Time Model.ForcingTime Corr.Run.
Import ListNotations.
Open Scope Z_scope.

Fixpoint parse_recs (k : nat) (l : list Z) : list record * list Z :=
  match k with
  | O => ([], l)
  | S j =>
      match l with
      | t :: un :: ud :: sn :: sd :: r =>
          let '(rs, r') := parse_recs j r in ((t, mkQ un ud, mkQ sn sd) :: rs, r')
      | _ => ([], [])
      end
  end.
Fixpoint parse_files (k : nat) (l : list Z) : list (list record) * list Z :=
  match k with
  | O => ([], l)
  | S j =>
      match l with
      | n :: r =>
          let '(f, r1) := parse_recs (Z.to_nat n) r in
          let '(fs, r2) := parse_files j r1 in (f :: fs, r2)
      | [] => ([], [])
      end
  end.

Definition norm (st : fstate) : fstate :=
  {| u := Qred (u st); u_new := Qred (u_new st); dU := Qred (dU st); scal := Qred (scal st);
     open_file := open_file st; rlog := [] |}.

Definition cmp (exact : bool) (a b : Q) : bool :=
  if exact then Qeq_bool a b else close (1 # 1000000000) a b.

Fixpoint check_rows (fuel : nat) (T : tables) (D : disk) (hs rv exact : bool) (st : fstate) (step : Z)
         (rows : list Z) : bool :=
  match fuel with
  | O => match rows with [] => true | _ => false end
  | S f =>
      match rows with
      | ob :: an :: ad :: bn :: bd :: cn :: cd :: un :: ud :: tn :: td :: r =>
          match forcing_update T D hs st step with
          | None => false
          | Some st1 =>
              let s := norm st1 in
              if ob =? 0 then check_rows f T D hs rv exact s (step + 1) r else
              cmp exact (velocity_frac rv s 0) (mkQ an ad)
              && cmp exact (velocity_frac rv s (1 # 2)) (mkQ bn bd)
              && cmp exact (velocity_frac rv s 1) (mkQ cn cd)
              && cmp exact (particle_u rv s) (mkQ un ud)
              && (negb hs || cmp exact (scal s) (mkQ tn td))
              && check_rows f T D hs rv exact s (step + 1) r
          end
      | _ => false
      end
  end.

Definition check_case (c : list Z) : bool :=
  match c with
  | ex :: dt0 :: start0 :: rv0 :: hs0 :: nst :: nfiles :: r =>
      let exact := negb (ex =? 0) in
      let rv := negb (rv0 =? 0) in
      let hs := negb (hs0 =? 0) in
      let t := {| start := start0; stop := start0; dt := dt0; ref := 0; rev := rv |} in
      let '(files, rows) := parse_files (Z.to_nat nfiles) r in
      let T := mk_tables (scan t files) in
      let D := disk_of files in
      match forcing_init T D hs with
      | None => false
      | Some st => check_rows (Z.to_nat nst) T D hs rv exact (norm st) 0 rows
      end
  | _ => false
  end.
