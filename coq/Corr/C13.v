(** Correspondence checker for C13: decodes a case written by harness/props/c13.py and
    compares the model (Model/Time.v) with the implementation's observation. *)
From Coq Require Import ZArith QArith List Bool String Ascii.
From Ladim Require Import Base.Num Model.Time Corr.Run.
Import ListNotations.
Open Scope Z_scope.

Fixpoint str_of (l : list Z) : string :=
  match l with [] => EmptyString | c :: r => String (ascii_of_nat (Z.to_nat c)) (str_of r) end.
Definition opt (has v : Z) : option Z := if has =? 1 then Some v else None.
Definition qeq (q : Q) (num den : Z) : bool := Qeq_bool q (mkQ num den).

Definition check_case (c : list Z) : bool :=
  match c with
  | 1 :: hs :: s :: he :: e :: d :: hr :: r :: rv :: ok :: rest =>
      match tk_init (opt hs s) (opt he e) d (opt hr r) (rv =? 1), rest with
      | InitExit, _ => ok =? 0
      | InitOk t, [oN; oref; n; os2t; x; ot2s; u; onum; oden; k; ostep; otime; cnum; cden] =>
          (ok =? 1) && (nsteps t =? oN) && (ref t =? oref) && (step2time t n =? os2t)
          && (time2step t x =? ot2s) && qeq (step2nctime t n u) onum oden
          && (let cl := clock_after t (Z.to_nat k) in
              (cstep cl =? ostep) && (ctime cl =? otime) && qeq (nctime t cl 0) cnum cden)
      | InitOk _, _ => false
      end
  | 2 :: sk :: v :: ok :: ov :: chars =>
      let p := if sk =? 0 then PInt v else if sk =? 1 then PDelta v
               else if sk =? 2 then PList v (str_of chars) else if sk =? 3 then PStr (str_of chars)
               else POther in
      match normalize_period p with
      | Some z => (ok =? 1) && (z =? ov)
      | None => ok =? 0
      end
  | _ => false
  end.
