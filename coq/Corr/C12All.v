(** Dispatcher for the correspondence cases of C12: cases of the exact-rational models (Corr/C12.v, leading 0..3) and,
    with a leading -9, cases of the FLOATING-POINT model of the level search (Model/VerticalFloat.v, checker
    Corr/VertF.v kind 3: N, the bit patterns of the column's levels and of the depth, and the K and the bit pattern of
    the weight A the compiled z2s_kernel returned).  Accepted: the same K and the model's A bit for bit (what the
    unchanged code gives), or the same K and A within 64 * 2^-53; and for a case inside the hypotheses the observed
    (K, A) must satisfy 1 <= K <= N-1 and 0 <= A <= 1 EXACTLY ([check_inv]). *)
From Coq Require Import ZArith List Bool Floats.
From Ladim Require Import Model.TrilinearFloat Model.VerticalFloat.
From Ladim Require Corr.C12 Corr.VertF.
Import ListNotations.
Open Scope Z_scope.

Definition check_close (c : list Z) : bool :=
  match c with
  | 3 :: r =>
      match Ladim.Corr.VertF.split_z2s r with
      | Some (n, zr, zb, k, ab) =>
          let ka := z2s_f (map float_of_bits zr) (float_of_bits zb) in
          (fst ka =? k) && PrimFloat.leb (PrimFloat.abs (snd ka - float_of_bits ab)%float) (64 * Z.ldexp 1 (-53))%float
      | None => false
      end
  | _ => false
  end.

Definition check_float (c : list Z) : bool :=
  match c with
  | 3 :: _ =>
      (Ladim.Corr.VertF.check_bits c || check_close c) &&
      (negb (Ladim.Corr.VertF.check_side c) || Ladim.Corr.VertF.check_inv c)
  | _ => false
  end.

Definition check_case (c : list Z) : bool :=
  match c with
  | -9 :: r => check_float r
  | _ => Ladim.Corr.C12.check_case c
  end.
