(** Correspondence checker for C18: decodes a case written by harness/props/c18.py and compares
    the model (Model/Config.v) with what the real [ladim.configure.configure] returned.

    Encoding (all integers).  A case starts with a STRING TABLE: [ntab; (len; byte_1 .. byte_len) * ntab]
    (UTF-8 bytes), so the model works on the real characters (wildcard test, legacy module-name
    test, version's first character).  Trees refer to strings by table index:
      0 = None | 1 b = bool | 2 z = int | 3 n d = float n/d | 4 i = string i
      | 5 n item*n = list | 6 n (keyindex item)*n = dict (insertion order).
    After the table:
      kind (0 = free tree, 1 = the v1 spelling of a description, 2 = a v2 spelling), omit flag,
      [description] (kinds 1, 2), sorted wildcard expansion [n; index*n], warm start time
      [0 | 1 tree], the PARSED FILE [tree], the observation [0 tree | 1 errorcode], and the
      observation after the harness's own signature-based defaults [0 tree | 1 errorcode | 2].
    The checker requires: (kinds 1, 2) the model's renderer gives the tree the parser produced from
    the harness's hand-written file (order of keys ignored: it has no meaning in a file);
    [configure] of the model on the parsed tree equals the observed dictionary, KEYS IN THE SAME
    ORDER (Python's insertion order), or fails with the same exception class; and [normalize] of it
    is the same dictionary (order of keys ignored) as the harness's own, which takes module names,
    class names and defaults from the real [init_module] and the real constructor signatures. *)
From Coq Require Import ZArith List Bool String Ascii.
From Ladim Require Import Model.Config Corr.Run.
Import ListNotations.
Open Scope Z_scope.

(** ** comparison *)
Fixpoint cv_eqb (a b : cv) : bool :=
  match a, b with
  | CNull, CNull => true
  | CBool x, CBool y => Bool.eqb x y
  | CInt x, CInt y => x =? y
  | CFloat n d, CFloat n' d' => (n =? n') && (d =? d')
  | CStr s, CStr t => String.eqb s t
  | CList l, CList m =>
      (fix go (l m : list cv) : bool :=
         match l, m with
         | [], [] => true
         | x :: r, y :: t => cv_eqb x y && go r t
         | _, _ => false
         end) l m
  | CDict l, CDict m =>
      (fix go (l m : list (string * cv)) : bool :=
         match l, m with
         | [], [] => true
         | (k, x) :: r, (k', y) :: t => String.eqb k k' && cv_eqb x y && go r t
         | _, _ => false
         end) l m
  | _, _ => false
  end.
(** the same, dictionaries compared as Python compares them (order of keys ignored) *)
Fixpoint cv_equiv (a b : cv) : bool :=
  match a, b with
  | CNull, CNull => true
  | CBool x, CBool y => Bool.eqb x y
  | CInt x, CInt y => x =? y
  | CFloat n d, CFloat n' d' => (n =? n') && (d =? d')
  | CStr s, CStr t => String.eqb s t
  | CList l, CList m =>
      (fix go (l m : list cv) : bool :=
         match l, m with
         | [], [] => true
         | x :: r, y :: t => cv_equiv x y && go r t
         | _, _ => false
         end) l m
  | CDict l, CDict m =>
      (Nat.eqb (List.length l) (List.length m)) &&
      (fix go (l : list (string * cv)) : bool :=
         match l with
         | [] => true
         | (k, x) :: r => match aget m k with Some y => cv_equiv x y | None => false end && go r
         end) l
  | _, _ => false
  end.

(** ** decoding *)
Fixpoint str_of (l : list Z) : string :=
  match l with [] => EmptyString | c :: r => String (ascii_of_nat (Z.to_nat c)) (str_of r) end.
Fixpoint take {A} (n : nat) (l : list A) : list A :=
  match n, l with O, _ => [] | S k, x :: r => x :: take k r | _, [] => [] end.
Fixpoint drop {A} (n : nat) (l : list A) : list A :=
  match n, l with O, _ => l | S k, _ :: r => drop k r | _, [] => [] end.

Fixpoint p_table (n : nat) (l : list Z) : list string * list Z :=
  match n with
  | O => ([], l)
  | S k => match l with
           | len :: r => let '(t, r') := p_table k (drop (Z.to_nat len) r) in
                         (str_of (take (Z.to_nat len) r) :: t, r')
           | [] => ([], [])
           end
  end.
Definition tget (tab : list string) (i : Z) : string := nth (Z.to_nat i) tab EmptyString.

Definition P (A : Type) := list Z -> option (A * list Z).
Definition pret {A} (a : A) : P A := fun l => Some (a, l).
Definition pbind {A B} (p : P A) (f : A -> P B) : P B :=
  fun l => match p l with Some (a, r) => f a r | None => None end.
Notation "x <~ e ;; f" := (pbind e (fun x => f)) (at level 61, e at next level, right associativity).
Definition pint : P Z := fun l => match l with x :: r => Some (x, r) | [] => None end.
Definition pbool : P bool := x <~ pint ;; pret (negb (x =? 0)).

Fixpoint p_cv (fuel : nat) (tab : list string) (l : list Z) : option (cv * list Z) :=
  match fuel with
  | O => None
  | S f =>
      match l with
      | 0 :: r => Some (CNull, r)
      | 1 :: b :: r => Some (CBool (negb (b =? 0)), r)
      | 2 :: z :: r => Some (CInt z, r)
      | 3 :: n :: d :: r => Some (CFloat n d, r)
      | 4 :: i :: r => Some (CStr (tget tab i), r)
      | 5 :: n :: r => match p_items f tab (Z.to_nat n) r with
                       | Some (xs, r') => Some (CList xs, r')
                       | None => None
                       end
      | 6 :: n :: r => match p_entries f tab (Z.to_nat n) r with
                       | Some (xs, r') => Some (CDict xs, r')
                       | None => None
                       end
      | _ => None
      end
  end
with p_items (fuel : nat) (tab : list string) (n : nat) (l : list Z) : option (list cv * list Z) :=
  match fuel with
  | O => None
  | S f =>
      match n with
      | O => Some ([], l)
      | S k => match p_cv f tab l with
               | Some (x, r) => match p_items f tab k r with
                                | Some (xs, r') => Some (x :: xs, r')
                                | None => None
                                end
               | None => None
               end
      end
  end
with p_entries (fuel : nat) (tab : list string) (n : nat) (l : list Z)
  : option (list (string * cv) * list Z) :=
  match fuel with
  | O => None
  | S f =>
      match n with
      | O => Some ([], l)
      | S k => match l with
               | ki :: r0 =>
                   match p_cv f tab r0 with
                   | Some (x, r) => match p_entries f tab k r with
                                    | Some (xs, r') => Some ((tget tab ki, x) :: xs, r')
                                    | None => None
                                    end
                   | None => None
                   end
               | [] => None
               end
      end
  end.

Section Dec.
  Variable tab : list string.
  Definition pcv : P cv := fun l => p_cv (S (List.length l)) tab l.
  Definition pstr : P string := i <~ pint ;; pret (tget tab i).
  Definition popt {A} (p : P A) : P (option A) :=
    h <~ pint ;; if h =? 0 then pret None else (x <~ p ;; pret (Some x)).
  Fixpoint prep {A} (p : P A) (n : nat) : P (list A) :=
    match n with O => pret [] | S k => x <~ p ;; xs <~ prep p k ;; pret (x :: xs) end.
  Definition plist {A} (p : P A) : P (list A) := n <~ pint ;; prep p (Z.to_nat n).
  Definition pdict : P dict := plist (k <~ pstr ;; v <~ pcv ;; pret (k, v)).
  Definition poutvar : P outvar :=
    n <~ pstr ;; f <~ pcv ;; a <~ pdict ;; pret {| ov_name := n; ov_fmt := f; ov_attrs := a |}.
  Definition pgfmod : P gfmod :=
    k <~ pint ;; if k =? 0 then pret (GRoms false) else if k =? 1 then pret (GRoms true)
                 else (n <~ pstr ;; pret (GCustom n)).
  Definition pspell : P spelling :=
    a <~ pbool ;; b <~ pbool ;; c <~ pbool ;; d <~ pbool ;; e <~ pbool ;;
    pret {| sp_files := a; sp_ibm_legacy := b; sp_rtype := c; sp_min := d; sp_version := e |}.
  Definition psim : P sim :=
    start <~ pcv ;; stop <~ pcv ;; dt <~ pcv ;; reference <~ popt pcv ;;
    md <~ pgfmod ;; ff <~ pstr ;; gf <~ popt pstr ;; sg <~ popt pcv ;; ef <~ popt pcv ;;
    adv <~ pcv ;; dif <~ popt pcv ;;
    rf <~ pcv ;; names <~ plist pstr ;; cont <~ pbool ;; fq <~ popt pcv ;;
    convs <~ pdict ;; pvars <~ plist pstr ;;
    im <~ popt pcv ;; io <~ pdict ;; iv <~ plist pstr ;;
    ofile <~ pcv ;; oper <~ pcv ;; ofmt <~ popt pcv ;; oi <~ plist poutvar ;; op <~ plist poutvar ;;
    sp <~ pspell ;;
    pret {| s_start := start; s_stop := stop; s_dt := dt; s_reference := reference;
            s_module := md; s_forcing_file := ff; s_grid_file := gf; s_subgrid := sg; s_extra_forcing := ef;
            s_advection := adv; s_diffusion := dif;
            s_release_file := rf; s_names := names; s_continuous := cont; s_frequency := fq;
            s_converters := convs; s_particle_vars := pvars;
            s_ibm_module := im; s_ibm_opts := io; s_ibm_vars := iv;
            s_out_file := ofile; s_out_period := oper; s_out_format := ofmt;
            s_out_instance := oi; s_out_particle := op; s_spell := sp |}.

  Definition err_code (e : err) : Z :=
    match e with EKey => 1 | EType => 2 | EAttr => 3 | EIndex => 4 | EExit n => 10 + n end.
  (** an observation: [0 tree], [1 errorcode] or [2] (not recorded) *)
  Definition obs_code : P (option (Z + cv)) :=
    k <~ pint ;;
    if k =? 0 then (t <~ pcv ;; pret (Some (inr t)))
    else if k =? 1 then (c <~ pint ;; pret (Some (inl c)))
    else pret None.

  Definition agrees (exact : bool) (m : res cv) (o : option (Z + cv)) : bool :=
    match o, m with
    | None, _ => true
    | Some (inr t), Ok x => if exact then cv_eqb x t else cv_equiv x t
    | Some (inl c), Err e => err_code e =? c
    | _, _ => false
    end.

  Definition check_body : P bool :=
    kind <~ pint ;; omit <~ pbool ;;
    S <~ (if kind =? 0 then pret None else (s <~ psim ;; pret (Some s))) ;;
    gl <~ plist pstr ;;
    wst <~ popt pcv ;;
    parsed <~ pcv ;;
    obs <~ obs_code ;;
    nobs <~ obs_code ;;
    let rendered_ok :=
      match S with
      | None => true
      | Some s => cv_equiv (if kind =? 1 then render_v1 s else render_v2 s omit) parsed
      end in
    let m := configure (fun _ => gl) wst parsed in
    pret (rendered_ok && agrees true m obs && agrees false (normalize_res m) nobs).
End Dec.

Definition check_case (c : list Z) : bool :=
  match c with
  | ntab :: r =>
      let '(tab, r') := p_table (Z.to_nat ntab) r in
      match check_body tab r' with
      | Some (b, []) => b
      | _ => false
      end
  | [] => false
  end.
