(** Correspondence checker for whole set-ups (Model/Setup.v): the harness describes a REAL set-up — clock,
    the forcing files with the times and values of their frames, the release table with its times, the
    output period, the physics constants — and the records that ladim.main wrote for it; [m_run] is computed
    from the description by the component machines and compared record by record (exact rationals: the
    harness generates dyadic set-ups whose float arithmetic is exact).

    Case layout (a rational = numerator, denominator):
      start stop dt rev period cont adv  dtdx(2) lo(2) hi(2) life  ncls cfac(2)*ncls  nland cell*nland
                                          -- cont = continuous-release frequency in seconds, 0 = discrete release
                                          -- adv = advection scheme of the tracker: 0 = EF, 1 = RK2, 2 = RK4
                                          -- the land cells along the particle line (whole land columns of the grid)
      nfiles { nrec { time u(2) scalar(2) }*nrec }*nfiles
      nrows { time mult tag xcode class }*nrows            -- x = xcode / 1024
      nrecords { step count { pid x(2) age temp(2) }*count }*nrecords
    The set-up must be well-formed ([setup_ok]) — the theorems of Props/C10.v, C14.v are about those. *)
From Coq Require Import ZArith QArith List Bool.
From Ladim Require Import Base.Num Model.Time Model.ForcingTime Model.Release Model.Sim Model.Setup Corr.Run.
Import ListNotations.
Open Scope Z_scope.

Fixpoint p_qs (n : nat) (l : list Z) : list Q * list Z :=
  match n with
  | O => ([], l)
  | S k => match l with
           | a :: b :: r => let '(q, r') := p_qs k r in (mkQ a b :: q, r')
           | _ => ([], [])
           end
  end.
Fixpoint p_zs (n : nat) (l : list Z) : list Z * list Z :=
  match n with
  | O => ([], l)
  | S k => match l with
           | a :: r => let '(q, r') := p_zs k r in (a :: q, r')
           | [] => ([], [])
           end
  end.
Fixpoint p_recs (n : nat) (l : list Z) : list record * list Z :=
  match n with
  | O => ([], l)
  | S k => match l with
           | x :: un :: ud :: sn :: sd :: r => let '(q, r') := p_recs k r in ((x, mkQ un ud, mkQ sn sd) :: q, r')
           | _ => ([], [])
           end
  end.
Fixpoint p_files (n : nat) (l : list Z) : list (list record) * list Z :=
  match n with
  | O => ([], l)
  | S k => match l with
           | m :: r => let '(f, r1) := p_recs (Z.to_nat m) r in let '(fs, r2) := p_files k r1 in (f :: fs, r2)
           | [] => ([], [])
           end
  end.
Fixpoint p_rows (n : nat) (l : list Z) : list row * list Z :=
  match n with
  | O => ([], l)
  | S k => match l with
           | x :: m :: tg :: xc :: c :: r =>
               let '(q, r') := p_rows k r in ({| rt := x; rmult := Z.to_nat m; rvals := [tg; xc; c] |} :: q, r')
           | _ => ([], [])
           end
  end.

Fixpoint check_rows (rows : list (Z * Z * pv)) (l : list Z) : option (list Z) :=
  match rows with
  | [] => Some l
  | (pid, _, v) :: rows' =>
      match l with
      | op :: xn :: xd :: ag :: tn :: td :: r =>
          if (pid =? op) && Qeq_bool (vx v) (mkQ xn xd) && (vage v =? ag) && Qeq_bool (vtemp v) (mkQ tn td)
          then check_rows rows' r else None
      | _ => None
      end
  end.
Fixpoint check_recs (rs : list (rec pv)) (l : list Z) : option (list Z) :=
  match rs with
  | [] => Some l
  | r :: rs' =>
      match l with
      | st :: cnt :: rest =>
          if (st =? rstep r) && (cnt =? Z.of_nat (length (rrows r)))
          then match check_rows (rrows r) rest with Some l' => check_recs rs' l' | None => None end
          else None
      | _ => None
      end
  end.

Definition parse_setup (c : list Z) : option (setup * list Z) :=
  match c with
  | st :: sp :: d :: rv :: per :: cf0 :: ad :: dn :: dd :: lon :: lod :: hin :: hid :: life :: ncls :: r =>
      let '(cf, r0) := p_qs (Z.to_nat ncls) r in
      match r0 with
      | nland :: r0' =>
      let '(land, r1) := p_zs (Z.to_nat nland) r0' in
      match r1 with
      | nf :: r2 =>
          let '(files, r3) := p_files (Z.to_nat nf) r2 in
          match r3 with
          | nr :: r4 =>
              let '(rows, r5) := p_rows (Z.to_nat nr) r4 in
              Some ({| s_tk := {| start := st; stop := sp; dt := d; ref := 0; rev := negb (rv =? 0) |};
                       s_files := files; s_tab := rows;
                       s_cont := (if cf0 =? 0 then None else Some cf0); s_period := per; s_dtdx := mkQ dn dd;
                       s_lo := mkQ lon lod; s_hi := mkQ hin hid; s_life := life; s_cfac := cf;
                       s_land := land; s_adv := ad |}, r5)
          | [] => None
          end
      | [] => None
      end
      | [] => None
      end
  | _ => None
  end.

Definition check_case (c : list Z) : bool :=
  match parse_setup c with
  | Some (s, nrec :: r) =>
      let run := m_run s in
      setup_ok s && negb (crashed run) && (nrec =? Z.of_nat (length (recs run))) &&
      match check_recs (recs run) r with Some [] => true | _ => false end
  | _ => false
  end.

(** the mirror image / the shifted image of the described set-up wrote the described records
    (first integer: 1 = mirror, 2 = shift, followed by the shift in seconds) — used by the harness to tie
    [mirror_setup] / [shift_setup] themselves to the files it writes for the transformed runs *)
Definition check_case_tr (c : list Z) : bool :=
  match c with
  | kind :: d :: c' =>
      match parse_setup c' with
      | Some (s, nrec :: r) =>
          let s' := if kind =? 1 then mirror_setup s else shift_setup s d in
          let run := m_run s' in
          setup_ok s' && negb (crashed run) && (nrec =? Z.of_nat (length (recs run))) &&
          match check_recs (recs run) r with Some [] => true | _ => false end
      | _ => false
      end
  | _ => false
  end.

(** restart: [r] then the description of the ORIGINAL set-up, then the records the RESTARTED simulation wrote
    (steps counted from the restart).  The model restarts as Proofs/SetupRestartProofs.v states it: the record
    of step r of the model's own uninterrupted run, relabelled as step 0, restored into the warm set-up. *)
From Ladim Require Import Model.SetupWarm Proofs.SimProofs Proofs.SimShiftProofs.
Definition check_case_warm (c : list Z) : bool :=
  match c with
  | r :: c' =>
      match parse_setup c' with
      | Some (s, nrec :: obs) =>
          let step := sim_step pv Z (m_release s) (m_force s) s_cache (m_track s) (ibm s) (s_due s) in
          let before := fold_left step (zrange 0 r) (sim_init pv Z) in
          let rec_r := snapshot pv r (after_release pv Z (m_release s) (m_force s) before false r) in
          let np := npid before + Z.of_nat (length (m_release s r)) in
          let run := m_warm_run (warm_setup s r) (relabel_rec pv (- r) rec_r) np in
          setup_ok s && dir_ok (s_tk s) && (0 <=? r) && (r <? s_nsteps s) && (0 <? s_period s) && s_due s r &&
          negb (crashed run) && (nrec =? Z.of_nat (length (recs run))) &&
          match check_recs (recs run) obs with Some [] => true | _ => false end
      | _ => false
      end
  | _ => false
  end.
