(** Correspondence checker for C15: vertical part of Tracker.update against Model/Tracker.vertical,
    with the bottom depth looked up by the model in the sliced bathymetry at the OLD position. *)
From Coq Require Import ZArith QArith List Bool.
From Ladim Require Import Base.Num Model.Tracker Corr.Run Corr.TrackerDec.
Import ListNotations.
Open Scope Z_scope.

Definition tol : Q := 1 # 1000000000.

(** per particle: x(2) y(2) z(2) hasWd Wd(2) hasWa Wa(2) oz(2) *)
Fixpoint check_parts (g : grid) (dt : Q) (n : nat) (l : list Z) : bool :=
  match n with
  | O => match l with [] => true | _ => false end
  | S k =>
      match l with
      | xn :: xd :: yn :: yd :: zn :: zd :: hd_ :: dn :: dd :: ha :: an :: ad :: ozn :: ozd :: r =>
          match depth g (mkQ xn xd) (mkQ yn yd) with
          | None => false
          | Some h =>
              let wd := if hd_ =? 1 then Some (mkQ dn dd) else None in
              let wa := if ha =? 1 then Some (mkQ an ad) else None in
              close tol (vertical h dt (mkQ zn zd) wd wa) (mkQ ozn ozd) && check_parts g dt k r
          end
      | _ => false
      end
  end.

Definition check_case (c : list Z) : bool :=
  match c with
  | i0 :: i1 :: j0 :: j1 :: tn :: td :: n :: r =>
      let jm := Z.to_nat (j1 - j0) in let im := Z.to_nat (i1 - i0) in
      let g := {| gi0 := i0; gi1 := i1; gj0 := j0; gj1 := j1; gM := []; gH := rowsQ jm im r; gDX := [] |} in
      check_parts g (mkQ tn td) (Z.to_nat n) (dropZ (2 * jm * im) r)
  | _ => false
  end.
