(** Correspondence checker for C07: the files/records the real Output produced for (N, p, numrec)
    against the cursor machine. *)
From Coq Require Import ZArith List Bool.
From Ladim Require Import Base.Num Model.Output Corr.Run Corr.TrackerDec.
Import ListNotations.
Open Scope Z_scope.

(** observed files: per file  number width closed pv_written nrec steps... *)
Fixpoint check_files (want_pv : bool) (proto : option (Z * Z)) (fs : list (file Z unit)) (l : list Z) : bool :=
  match fs with
  | [] => match l with [] => true | _ => false end
  | f :: fs' =>
      match l with
      | num :: width :: cl :: pvw :: n :: r =>
          let '(wn, ww) := file_number proto (fno f) in
          (num =? wn) && (width =? ww) && Bool.eqb (closed f) (negb (cl =? 0))
          && (if want_pv then Bool.eqb (match pv f with Some _ => true | None => false end) (negb (pvw =? 0)) else true)
          && list_eqb_Z (recs f) (takeZ (Z.to_nat n) r)
          && check_files want_pv proto fs' (dropZ (Z.to_nat n) r)
      | _ => false
      end
  end.

Definition check_case (c : list Z) : bool :=
  match c with
  | nsteps :: p :: numrec :: multinames :: hasproto :: pstart :: pwidth :: wantpv :: crashed :: nfiles :: r =>
      let s := out_run Z unit (fun n => n) (fun _ => tt) nsteps p numrec in
      let proto := if hasproto =? 1 then Some (pstart, pwidth) else None in
      if err s then crashed =? 1
      else (crashed =? 0) && (Z.of_nat (length (files s)) =? nfiles)
           && (if multinames =? 1 then check_files (wantpv =? 1) proto (files s) r
               else check_files (wantpv =? 1) (Some (0, 1)) (files s) r)
  | _ => false
  end.
