(** Dispatcher for the correspondence cases of C15: cases of the exact-rational model (Corr/C15.v) and, with a leading
    -9, cases of the FLOATING-POINT model of the vertical step (Model/VerticalFloat.v, checker Corr/VertF.v kinds 1, 2:
    IEEE-754 bit patterns of depth, velocities, time step, bottom depth and of the depth the real Tracker.update
    returned).  Accepted: the model's result bit for bit (what the unchanged code gives on every generated case), or
    within 16 * 2^-53 * (h + |z|) of it (a re-association is not a disagreement); in both cases the observed depth of a
    case inside the hypotheses must satisfy the invariant 0 <= depth <= h EXACTLY ([check_inv]). *)
From Coq Require Import ZArith List Bool Floats.
From Ladim Require Import Model.TrilinearFloat Model.VerticalFloat.
From Ladim Require Corr.C15 Corr.VertF.
Import ListNotations.
Open Scope Z_scope.

Definition close_f (scale m r : float) : bool :=
  PrimFloat.leb (PrimFloat.abs (m - r)%float) (16 * Z.ldexp 1 (-53) * scale + Z.ldexp 1 (-1060))%float.

Definition check_close (c : list Z) : bool :=
  match c with
  | [1; zb; wb; dtb; hb; rb] =>
      close_f (PrimFloat.abs (float_of_bits hb) + PrimFloat.abs (float_of_bits zb))%float
        (vstep_f (float_of_bits zb) (float_of_bits wb) (float_of_bits dtb) (float_of_bits hb)) (float_of_bits rb)
  | [2; zb; w1b; w2b; dtb; hb; rb] =>
      close_f (PrimFloat.abs (float_of_bits hb) + PrimFloat.abs (float_of_bits zb))%float
        (vstep2_f (float_of_bits zb) (float_of_bits w1b) (float_of_bits w2b) (float_of_bits dtb) (float_of_bits hb))
        (float_of_bits rb)
  | _ => false
  end.

Definition check_float (c : list Z) : bool :=
  match c with
  | 1 :: _ | 2 :: _ =>
      (Ladim.Corr.VertF.check_bits c || check_close c) &&
      (negb (Ladim.Corr.VertF.check_side c) || Ladim.Corr.VertF.check_inv c)
  | _ => false
  end.

Definition check_case (c : list Z) : bool :=
  match c with
  | -9 :: r => check_float r
  | _ => Ladim.Corr.C15.check_case c
  end.
