(** Corr/Run.v — generic evaluator for correspondence cases.
    A case is a list of integers written by the harness (inputs and the implementation's
    observation).  [failing chk cases] lists the indices of the cases the checker rejects. *)
From Coq Require Import ZArith List Bool.
Import ListNotations.
Open Scope Z_scope.

Fixpoint failing_from {A} (chk : A -> bool) (i : Z) (l : list A) : list Z :=
  match l with
  | [] => []
  | c :: r => if chk c then failing_from chk (i + 1) r else i :: failing_from chk (i + 1) r
  end.
Definition failing {A} (chk : A -> bool) (l : list A) : list Z := failing_from chk 0 l.

Lemma failing_nil_all {A} (chk : A -> bool) l i :
  failing_from chk i l = [] -> forall c, In c l -> chk c = true.
Proof.
  revert i; induction l as [|x l IH]; intros i H c Hc; [destruct Hc|].
  cbn in H. destruct (chk x) eqn:E; [|discriminate].
  destruct Hc as [<-|Hc]; [exact E|eauto].
Qed.
