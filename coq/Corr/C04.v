(** Correspondence checker for C04: decodes a release table, the configuration and what the real
    ParticleReleaser + TimeKeeper + State appended at every step; runs Model/Release.v on the same
    table and compares start-up refusal, the rows appended per step (release time if recorded,
    position, extra values, order, count) and the final cursor.

    case = start stop dt rev cont freq warm hasrt lonlat ax bx ay by ncols nrows
           { t mult v_1 .. v_ncols }*nrows
           exit nrun final_index { k { rt v_1 .. v_ncols }*k }*nrun
    values are integer codes (floats * 1024, times in seconds); with lonlat = 1 the first two
    values of a file row are lon, lat and ll2xy is the linear map (ax*lon + bx, ay*lat + by). *)
From Coq Require Import ZArith List Bool.
From Ladim Require Import Base.Num Model.Time Model.Release Corr.Run.
Import ListNotations.
Open Scope Z_scope.

Fixpoint take (n : nat) (l : list Z) : list Z :=
  match n, l with O, _ => [] | S k, x :: r => x :: take k r | _, [] => [] end.
Fixpoint drop (n : nat) (l : list Z) : list Z :=
  match n, l with O, _ => l | S k, _ :: r => drop k r | _, [] => [] end.

Fixpoint parse_rows (w : nat) (n : nat) (l : list Z) : list row * list Z :=
  match n with
  | O => ([], l)
  | S k =>
      match l with
      | x :: m :: r =>
          let '(rows, rest) := parse_rows w k (drop w r) in
          ({| rt := x; rmult := Z.to_nat m; rvals := take w r |} :: rows, rest)
      | _ => ([], [])
      end
  end.

Definition enc_row (hasrt : bool) (r : row) : list Z := (if hasrt then rt r else 0) :: rvals r.
Definition enc_step (hasrt : bool) (out : list row) : list Z :=
  Z.of_nat (length out) :: flat_map (enc_row hasrt) out.

Definition check_case (c : list Z) : bool :=
  match c with
  | st :: sp :: d :: rv :: cont :: freq :: warm :: hasrt :: lonlat :: ax :: bx :: ay :: by_ :: ncols :: nrows :: r =>
      let '(rows, r1) := parse_rows (Z.to_nat ncols) (Z.to_nat nrows) r in
      let t := {| start := st; stop := sp; dt := d; ref := 0; rev := negb (rv =? 0) |} in
      let ll := if lonlat =? 0 then None else Some (fun lon lat => (ax * lon + bx, ay * lat + by_)) in
      let tab := clean_position ll rows in
      match r1 with
      | ex :: nrun :: fin :: obs =>
          match rel_init t (if cont =? 0 then None else Some freq) (negb (warm =? 0)) tab with
          | RelExit => (ex =? 1)
          | RelOk _ g s =>
              (ex =? 0) &&
              match run_upto g s (Z.to_nat nrun) with
              | None => false
              | Some (stf, outs) =>
                  (Z.of_nat (idx stf) =? fin) && list_eqb_Z (flat_map (enc_step (negb (hasrt =? 0))) outs) obs
              end
          end
      | _ => false
      end
  | _ => false
  end.

(* smoke test: forward, 2 rows at start (mult 2, 1), one outside *)
Example check_case_smoke :
  check_case [1000; 1020; 10; 0; 0; 0; 0; 1; 0; 0; 0; 0; 0; 1; 3;
              1000; 2; 5;  1000; 1; 6;  1020; 1; 7;
              0; 2; 1;  3; 1000; 5; 1000; 5; 1000; 6;  0] = true.
Proof. vm_compute. reflexivity. Qed.
