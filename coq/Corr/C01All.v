(** Dispatcher for the correspondence cases of C01: cases of the exact-rational model (Corr/C01.v, leading 1 or 2)
    and, with a leading -9, cases of the FLOATING-POINT model of the tracker's horizontal step (Model/TrackerFloat.v,
    checker Corr/C01F.v: IEEE-754 bit patterns of the inputs, of the stage velocities the forcing returned, of the stage
    positions the real code asked for and of the final position).

    A float case is accepted when its side conditions hold and the observed stage positions and final position are
    the model's BIT FOR BIT — which is what the unchanged code does on every generated case — or, failing that, all lie
    within a generous multiple (64 * 2^-53 times the size of the quantities involved) of the model's values, i.e. inside
    the proved rounding uncertainty of either: an algebraically equivalent re-association of the step's arithmetic is
    then not reported as a disagreement, a wrong factor, stage or velocity is. *)
From Coq Require Import ZArith List Bool Floats.
From Ladim Require Import Model.TrilinearFloat Model.TrackerFloat.
From Ladim Require Corr.C01 Corr.C01F.
Import ListNotations.
Open Scope Z_scope.

Definition close_f (scale m r : float) : bool :=
  PrimFloat.leb (PrimFloat.abs (m - r)%float) (64 * Z.ldexp 1 (-53) * scale + Z.ldexp 1 (-1060))%float.
Fixpoint closes (scale : float) (ms : list float) (rs : list Z) : bool :=
  match ms, rs with
  | [], [] => true
  | m :: ms', r :: rs' => close_f scale m (float_of_bits r) && closes scale ms' rs'
  | _, _ => false
  end.
Definition sum_abs (x : float) (l : list float) : float := fold_left (fun a s => (a + PrimFloat.abs (s - x))%float) l 0%float.

Definition check_close (c : list Z) : bool :=
  match c with
  | [3; xb; fracb; ub; gb; lob; hib; rb] =>
      let x := float_of_bits xb in
      let m := stage_f x (float_of_bits fracb) (float_of_bits ub) (float_of_bits gb) (float_of_bits lob) (float_of_bits hib) in
      close_f (PrimFloat.abs x + PrimFloat.abs (m - x))%float m (float_of_bits rb)
  | [4; u1; u2; u3; u4; rb] =>
      let a := fun b => PrimFloat.abs (float_of_bits b) in
      close_f (a u1 + a u2 + a u3 + a u4)%float
        (rk4avg_f (float_of_bits u1) (float_of_bits u2) (float_of_bits u3) (float_of_bits u4)) (float_of_bits rb)
  | code :: xb :: dtb :: dxb :: lob :: hib :: rest =>
      let scheme := Ladim.Corr.C01F.scheme_of code in
      match Ladim.Corr.C01F.split_step scheme rest with
      | Some (us, ps, fb) =>
          let x := float_of_bits xb in
          match step_f scheme x (float_of_bits dtb) (float_of_bits dxb) (float_of_bits lob) (float_of_bits hib)
                  (List.map float_of_bits us) with
          | Some (stages, final) =>
              let scale := (PrimFloat.abs x + PrimFloat.abs (final - x) + sum_abs x stages)%float in
              closes scale stages ps && close_f scale final (float_of_bits fb)
          | None => false
          end
      | None => false
      end
  | _ => false
  end.

Definition check_float (c : list Z) : bool :=
  Ladim.Corr.C01F.check_side c && (Ladim.Corr.C01F.check_bits c || check_close c).

Definition check_case (c : list Z) : bool :=
  match c with
  | -9 :: r => check_float r
  | _ => Ladim.Corr.C01.check_case c
  end.
