(** Dispatcher for the system-level correspondences (C10, C14): a case is tagged
      0 : a step-indexed scenario for the executable Sim instance (Corr/SimInst.v)
      1 : a whole set-up described by times, files and tables (Corr/SetupRun.v, Model/Setup.v)
      2 : the mirror image / shifted image of a described set-up against the run of the transformed files
      3 : the restarted simulation of a described set-up (restart after step r) *)
From Coq Require Import ZArith List Bool.
From Ladim Require Import Corr.SimInst Corr.SetupRun.
Import ListNotations.
Open Scope Z_scope.

Definition check_case (c : list Z) : bool :=
  match c with
  | 0 :: r => SimInst.check_case r
  | 1 :: r => SetupRun.check_case r
  | 2 :: r => SetupRun.check_case_tr r
  | 3 :: r => SetupRun.check_case_warm r
  | _ => false
  end.
