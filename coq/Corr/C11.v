(** Correspondence checker for C11: decodes a run of the real [Tracker] written by
    harness/props/c11.py and compares it step by step with Model/Diffusion.v.

    Case layout (integers; a float is written as mantissa m and binary exponent e, value m*2^e —
    exact, and much shorter to parse than numerator/denominator; [mkF] decodes it):
      D Dz dt sd sdz (2 each)  vadv
      total, then total draws xi (2 each)                 -- the part of the stream the run consumed
      nsteps, then per step:  n  cnt  and n rows  dx dy u v w X0 X1 Y0 Y1 Z0 Z1 (2 each)
    where dx dy are the grid's metric AT THE PARTICLE'S POSITION BEFORE THE STEP (the stub grid of the harness
    has a position-dependent metric, so a metric cached from an earlier step or another particle is seen)
    and u v w the water velocity there.
    [sd], [sdz] are the standard deviations sqrt(2D/dt), sqrt(2Dz/dt) as floats; they are inputs of the
    executable model and are first checked against the model's squares [sd2] (relative 1e-12).
    [cnt] is the number of draws the implementation's generator advanced in the step (found by the
    harness from the generator state, not from the model).
    Per particle and direction the implementation's displacement must agree
      (a) with [update_disp] (the code-shaped model) within 1e-9 of the magnitudes involved, and
      (b) in square-root-free form: (d - advective)^2 = c2 * xi_i^2 with c2 = cx2/cz2 and i the model's
          index, and d*xi_i >= 0  ([disp_close], tolerance 1e-9 relative to the same magnitudes);
      with the switch off the displacement must be the advective one.
    The model's number of draws per step must equal [cnt], and the steps together must consume
    exactly [total] draws. *)
From Coq Require Import ZArith QArith Qabs List Bool.
From Ladim Require Import Base.Num Model.Diffusion Corr.Run.
Import ListNotations.
Open Scope Z_scope.

Definition tol : Q := 1 # 1000000000.
Definition tol_sd : Q := 1 # 1000000000000.

Definition mkF (m e : Z) : Q :=
  if 0 <=? e then inject_Z (Z.shiftl m e) else Qmake m (Z.to_pos (Z.shiftl 1 (- e))).

Fixpoint takeq (n : nat) (l : list Z) : list Q * list Z :=
  match n with
  | O => ([], l)
  | S j => match l with
           | a :: b :: r => let '(qs, r') := takeq j r in (mkF a b :: qs, r')
           | _ => ([], [])
           end
  end.
Fixpoint rows (k : nat) (w : nat) (l : list Z) : list (list Q) * list Z :=
  match k with
  | O => ([], l)
  | S j => let '(row, r) := takeq w l in let '(rs, r') := rows j w r in (row :: rs, r')
  end.

Definition rel_close (t a b : Q) : bool := Qle_bool (Qabs (a - b)) (t * (Qabs a + Qabs b)).

(** one direction of one particle.  [Qred] only keeps the numbers short (vm_compute works on binary
    inductive integers); it does not change any value. *)
Definition check_dir (xs : list Q) (oi : option Z) (c2 a0 a1 adv model : Q) : bool :=
  let d := Qred (a1 - a0) in
  let adv := Qred adv in
  let m := Qred (Qabs a0 + Qabs a1 + Qabs adv) in
  Qle_bool (Qabs (Qred (d - Qred model))) (tol * m) &&
  match oi with
  | Some i => match znth_opt xs i with
              | Some x => disp_close tol m (Qred c2) x (Qred (d - adv))
              | None => false
              end
  | None => zero_close tol m (Qred (d - adv))
  end.

Definition check_particle (D Dz dt sd sdz : Q) (vadv : bool) (xs : list Q) (k n p : Z)
           (obs : list Q) : bool :=
  match obs with
  | [dx; dy; u; v; w; x0; x1; y0; y1; z0; z1] =>
      let r := update_disp (xi_of_list xs) D Dz dt sd sdz vadv k n p dx dy u v w in
      check_dir xs (step_index (switch D) (switch Dz) k n DX p) (cx2 D dt dx) x0 x1 (u * dt / dx) (dX r) &&
      check_dir xs (step_index (switch D) (switch Dz) k n DY p) (cx2 D dt dy) y0 y1 (v * dt / dy) (dY r) &&
      check_dir xs (step_index (switch D) (switch Dz) k n DZ p) (cz2 Dz dt) z0 z1
                (if vadv then w * dt else 0) (dZ r)
  | _ => false
  end.

Fixpoint check_particles (D Dz dt sd sdz : Q) (vadv : bool) (xs : list Q) (k n p : Z)
         (obss : list (list Q)) : bool :=
  match obss with
  | [] => true
  | obs :: orest =>
      check_particle D Dz dt sd sdz vadv xs k n p obs &&
      check_particles D Dz dt sd sdz vadv xs k n (p + 1) orest
  end.

Fixpoint check_steps (fuel : nat) (D Dz dt sd sdz : Q) (vadv : bool) (xs : list Q) (total : Z)
         (k : Z) (l : list Z) : bool :=
  match fuel with
  | O => match l with [] => k =? total | _ => false end
  | S f =>
      match l with
      | n :: cnt :: r =>
          let '(obss, r') := rows (Z.to_nat n) 11 r in
          (Z.of_nat (length obss) =? n) &&
          (step_draws (switch D) (switch Dz) n =? cnt) &&
          check_particles D Dz dt sd sdz vadv xs k n 0 obss &&
          check_steps f D Dz dt sd sdz vadv xs total
                      (knext (update_layout (switch D) (switch Dz) k n)) r'
      | _ => false
      end
  end.

(** only a coefficient that is switched on has a standard deviation that matters *)
Definition sd_ok (sd D dt : Q) : bool :=
  if switch D then Qle_bool 0 sd && rel_close tol_sd (sd * sd) (sd2 D dt) else true.

Definition check_case (c : list Z) : bool :=
  match takeq 5 c with
  | ([D; Dz; dt; sd; sdz], vadv :: r1) =>
      match r1 with
      | total :: r2 =>
          let '(xs, r3) := takeq (Z.to_nat total) r2 in
          match r3 with
          | nsteps :: r4 =>
              Qlt_bool 0 dt && sd_ok sd D dt && sd_ok sdz Dz dt &&
              (Z.of_nat (length xs) =? total) &&
              check_steps (Z.to_nat nsteps) D Dz dt sd sdz (negb (vadv =? 0)) xs total 0 r4
          | [] => false
          end
      | [] => false
      end
  | _ => false
  end.
