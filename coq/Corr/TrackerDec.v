(** shared decoding helpers for the tracker correspondences *)
From Coq Require Import ZArith QArith List Bool.
From Ladim Require Import Base.Num Model.Tracker.
Import ListNotations.
Open Scope Z_scope.

Fixpoint takeZ (n : nat) (l : list Z) : list Z :=
  match n, l with O, _ => [] | S k, x :: r => x :: takeZ k r | _, [] => [] end.
Fixpoint dropZ (n : nat) (l : list Z) : list Z :=
  match n, l with O, _ => l | S k, _ :: r => dropZ k r | _, [] => [] end.
(** rows x cols integers -> list of rows *)
Fixpoint rowsZ (rows cols : nat) (l : list Z) : list (list Z) :=
  match rows with O => [] | S r => takeZ cols l :: rowsZ r cols (dropZ cols l) end.
(** consecutive (num, den) pairs -> rationals *)
Fixpoint qs (n : nat) (l : list Z) : list Q :=
  match n, l with
  | S k, a :: b :: r => mkQ a b :: qs k r
  | _, _ => []
  end.
Fixpoint rowsQ (rows cols : nat) (l : list Z) : list (list Q) :=
  match rows with O => [] | S r => qs cols l :: rowsQ r cols (dropZ (2 * cols) l) end.
Definition qeqb (a b : Q) : bool := Qeq_bool a b.
