(** A concrete, executable instance of Model/Sim.v used by the system-level correspondences
    (C08, C10, C14): depth-class dependent uniform current (the cache is the particle's depth class),
    Euler-forward move with out-of-grid kill, ageing IBM with a lifetime, one scalar forcing variable. *)
From Coq Require Import ZArith QArith List Bool.
From Ladim Require Import Base.Num Model.Sim Corr.Run Corr.TrackerDec.
Import ListNotations.
Open Scope Z_scope.

Record pv := { vx : Q; vcls : Z; vage : Z; vtemp : Q }.

Record scen := {
  sN : Z; sp : Z; sdtdx : Q; slife : Z; slo : Q; shi : Q;
  sutab : list (list Q);      (* per step, per depth class: velocity *)
  sttab : list (list Q);      (* per step, per depth class: scalar forcing value *)
  srows : list (Z * Z * Q * Z) (* step, tag, x, class — in file order *)
}.
Definition tab (t : list (list Q)) (n c : Z) : Q :=
  match znth_opt t n with Some row => match znth_opt row c with Some q => q | None => 0%Q end | None => 0%Q end.

Definition i_release (s : scen) (keep : Z -> bool) (n : Z) : list (Z * pv) :=
  map (fun r => let '(st, tg, x, c) := r in (tg, {| vx := x; vcls := c; vage := 0; vtemp := 0%Q |}))
      (filter (fun r => let '(st, tg, x, c) := r in (st =? n) && keep tg) (srows s)).
Definition i_force (s : scen) (n : Z) (v : pv) : pv :=
  {| vx := vx v; vcls := vcls v; vage := vage v; vtemp := tab (sttab s) n (vcls v) |}.
Definition i_cache (s : scen) (n : Z) (v : pv) : Z := vcls v.
Definition i_track (s : scen) (n : Z) (v : pv) (c : Z) : pv * bool :=
  let cand := (vx v + tab (sutab s) n c * sdtdx s)%Q in
  if Qlt_bool (slo s) cand && Qlt_bool cand (shi s)
  then ({| vx := cand; vcls := vcls v; vage := vage v; vtemp := vtemp v |}, true)
  else (v, false).
Definition i_ibm (s : scen) (n : Z) (v : pv) : pv * bool :=
  let a := vage v + 1 in
  ({| vx := vx v; vcls := vcls v; vage := a; vtemp := vtemp v |}, (slife s <? 0) || (a <? slife s)).
Definition i_due (s : scen) (n : Z) : bool := n mod sp s =? 0.

Definition i_cold (s : scen) (keep : Z -> bool) (nsteps : Z) : sim pv Z :=
  cold_run pv Z (i_release s keep) (i_force s) (i_cache s) (i_track s) (i_ibm s) (i_due s) nsteps.
Definition i_warm (s : scen) (r : Z) : option (sim pv Z) :=
  let c := i_cold s (fun _ => true) (r + 1) in
  match rev (recs c) with
  | rr :: _ => if rstep rr =? r
               then Some (warm_run pv Z (i_release s (fun _ => true)) (i_force s) (i_cache s) (i_track s) (i_ibm s) (i_due s)
                                   rr (npid c) (sN s))
               else None
  | [] => None
  end.

(** ---- decoding ---- *)
Fixpoint qrows (rows cols : nat) (l : list Z) : list (list Q) :=
  match rows with O => [] | S r => qs cols l :: qrows r cols (dropZ (2 * cols) l) end.
Fixpoint rel_rows (n : nat) (l : list Z) : list (Z * Z * Q * Z) * list Z :=
  match n with
  | O => ([], l)
  | S k => match l with
           | st :: tg :: xn :: xd :: c :: r => let '(rs, r') := rel_rows k r in ((st, tg, mkQ xn xd, c) :: rs, r')
           | _ => ([], [])
           end
  end.
(** observed record rows: pid x(2) age temp(2) *)
Fixpoint check_rows (rows : list (Z * Z * pv)) (l : list Z) : option (list Z) :=
  match rows with
  | [] => Some l
  | (pid, _, v) :: rows' =>
      match l with
      | op :: xn :: xd :: ag :: tn :: td :: r =>
          if (pid =? op) && Qeq_bool (vx v) (mkQ xn xd) && (vage v =? ag) && Qeq_bool (vtemp v) (mkQ tn td)
          then check_rows rows' r else None
      | _ => None
      end
  end.
Fixpoint check_recs (rs : list (rec pv)) (l : list Z) : option (list Z) :=
  match rs with
  | [] => Some l
  | r :: rs' =>
      match l with
      | st :: cnt :: rest =>
          if (st =? rstep r) && (cnt =? Z.of_nat (length (rrows r)))
          then match check_rows (rrows r) rest with Some l' => check_recs rs' l' | None => None end
          else None
      | _ => None
      end
  end.
Definition mem (l : list Z) (x : Z) : bool := existsb (Z.eqb x) l.

(** runs: kind param nrec recs...   kind 0 = cold, all rows; 1 = cold with the rows whose tags follow
    (param = how many tags); 2 = warm start from the record of step param *)
Fixpoint check_runs (fuel : nat) (s : scen) (l : list Z) : bool :=
  match fuel with
  | O => match l with [] => true | _ => false end
  | S f =>
      match l with
      | 0 :: _ :: nrec :: r =>
          let c := i_cold s (fun _ => true) (sN s) in
          negb (crashed c) && (nrec =? Z.of_nat (length (recs c)))
          && match check_recs (recs c) r with Some r' => check_runs f s r' | None => false end
      | 1 :: k :: r =>
          let tags := takeZ (Z.to_nat k) r in
          match dropZ (Z.to_nat k) r with
          | nrec :: r1 =>
              let c := i_cold s (mem tags) (sN s) in
              negb (crashed c) && (nrec =? Z.of_nat (length (recs c)))
              && match check_recs (recs c) r1 with Some r' => check_runs f s r' | None => false end
          | [] => false
          end
      | 2 :: rr :: nrec :: r =>
          match i_warm s rr with
          | Some w => negb (crashed w) && (nrec =? Z.of_nat (length (recs w)))
                      && match check_recs (recs w) r with Some r' => check_runs f s r' | None => false end
          | None => false
          end
      | _ => false
      end
  end.

Definition check_case (c : list Z) : bool :=
  match c with
  | N :: p :: dn :: dd :: life :: lon :: lod :: hin :: hid :: ncls :: r =>
      let n := Z.to_nat N in let k := Z.to_nat ncls in
      let ut := qrows n k r in
      let r1 := dropZ (2 * n * k) r in
      let tt := qrows n k r1 in
      match dropZ (2 * n * k) r1 with
      | nrows :: r2 =>
          let '(rows, r3) := rel_rows (Z.to_nat nrows) r2 in
          match r3 with
          | nruns :: r4 =>
              check_runs (Z.to_nat nruns)
                {| sN := N; sp := p; sdtdx := mkQ dn dd; slife := life; slo := mkQ lon lod; shi := mkQ hin hid;
                   sutab := ut; sttab := tt; srows := rows |} r4
          | [] => false
          end
      | [] => false
      end
  | _ => false
  end.
