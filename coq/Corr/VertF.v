(** Correspondence checker at the FLOAT level for the vertical step (C15) and the level search weight (C12):
    the binary64 models of Model/VerticalFloat.v against what the REAL code returned, BIT FOR BIT.
    Cases are written by harness/props/vert_float.py.

    "bits" = the IEEE-754 binary64 pattern of a float as a non-negative integer below 2^64
    (Python: int.from_bytes(struct.pack(">d", x), "big")).  A case is a list of integers whose FIRST element
    is the kind:

      kind 1, one vertical displacement  (6 integers)
          [ 1 ; zb ; wb ; dtb ; hb ; rb ]
            zb   bits of the depth Z before the step          wb   bits of the vertical velocity W
            dtb  bits of the time step dt (seconds)           hb   bits of the bottom depth h of the start cell
            rb   bits of the depth the REAL code returned  ( Z += W*dt ; Z[Z<0] *= -1 ; Z[Z>h] = 2*h - Z )
          model: [vstep_f z w dt h]

      kind 2, two vertical displacements  (7 integers)
          [ 2 ; zb ; w1b ; w2b ; dtb ; hb ; rb ]
            w1b  bits of the FIRST velocity (vertical diffusion), w2b of the SECOND (vertical advection)
          model: [vstep2_f z w1 w2 dt h]

      kind 3, level search  (N + 5 integers)
          [ 3 ; N ; zr_0 ; ... ; zr_{N-1} ; zb ; K ; Ab ]
            N        number of levels (plain integer)
            zr_i     bits of z_rho[i, J, I]  (i = 0 the deepest level)
            zb       bits of the particle depth Z[n]
            K        the level index the REAL kernel returned (plain integer)
            Ab       bits of the weight A the REAL kernel returned
          model: [z2s_f zr z] = (K, A)

    [check_case] (= [check_bits]) holds iff every pattern is in range and the model's result has the SAME BITS
    as the observed one ([same_bits]: class, sign, mantissa, exponent; +0 and -0 differ; and for non-NaN results
    [bits_of_float] of the model result is the very integer) -- for kind 3 also the same K.  It makes no
    assumption on the inputs (NaN, infinities, unsorted levels, displacements far outside the column are fine).

    [check_side] evaluates the HYPOTHESES of the theorems of Proofs/VerticalFloatProofs.v as one boolean:
      kinds 1, 2: [vstep_ok]/[vstep2_ok]: h finite, 0 < h <= 2^1000, z finite in [0, h], the rounded displaced
                  depth z1 finite with -h <= z1 <= 2 h;
      kind 3:     [z2s_ok]: N >= 2, all levels finite and at most 2^1022 in magnitude, strictly increasing,
                  z finite.
    [check_inv] evaluates the INVARIANT on the OBSERVED value: finite and 0 <= r <= h  (kinds 1, 2);
    1 <= K <= N - 1, A finite, 0 <= A <= 1  (kind 3).
    Proofs/VertFSound.v: check_side c = true -> check_bits c = true -> check_inv c = true.

    FAST INPUT PATH: [check_case_w : list int -> bool], every integer as two primitive integers (hi, lo) with
    value hi * 2^32 + lo (plain integers as (0, n)); by definition [check_case] of the recombined list
    ([unwords] of Corr/C02F.v). *)
From Coq Require Import ZArith List Bool Floats Uint63.
From Ladim Require Import Model.TrilinearFloat Model.VerticalFloat Corr.C02F.
Import ListNotations.
Open Scope Z_scope.

(** kind 3: split [N; zr...; zb; K; Ab] into (N, zr, zb, K, Ab) *)
Definition split_z2s (c : list Z) : option (nat * list Z * Z * Z * Z) :=
  match c with
  | n :: rest =>
      if (n <? 0) then None else
      let n' := Z.to_nat n in
      match skipn n' rest with
      | [zb; k; ab] => if Nat.eqb (length rest) (n' + 3) then Some (n', firstn n' rest, zb, k, ab) else None
      | _ => None
      end
  | [] => None
  end.

Definition check_bits (c : list Z) : bool :=
  match c with
  | [1; zb; wb; dtb; hb; rb] =>
      forallb pattern_ok [zb; wb; dtb; hb; rb] &&
      result_agrees (vstep_f (float_of_bits zb) (float_of_bits wb) (float_of_bits dtb) (float_of_bits hb)) rb
  | [2; zb; w1b; w2b; dtb; hb; rb] =>
      forallb pattern_ok [zb; w1b; w2b; dtb; hb; rb] &&
      result_agrees (vstep2_f (float_of_bits zb) (float_of_bits w1b) (float_of_bits w2b) (float_of_bits dtb)
                       (float_of_bits hb)) rb
  | 3 :: r =>
      match split_z2s r with
      | Some (n, zr, zb, k, ab) =>
          forallb pattern_ok zr && pattern_ok zb && pattern_ok ab &&
          (let ka := z2s_f (map float_of_bits zr) (float_of_bits zb) in
           (fst ka =? k) && result_agrees (snd ka) ab)
      | None => false
      end
  | _ => false
  end.

Definition check_side (c : list Z) : bool :=
  match c with
  | [1; zb; wb; dtb; hb; rb] =>
      vstep_ok (float_of_bits zb) (float_of_bits wb) (float_of_bits dtb) (float_of_bits hb)
  | [2; zb; w1b; w2b; dtb; hb; rb] =>
      vstep2_ok (float_of_bits zb) (float_of_bits w1b) (float_of_bits w2b) (float_of_bits dtb) (float_of_bits hb)
  | 3 :: r =>
      match split_z2s r with
      | Some (n, zr, zb, k, ab) => z2s_ok (map float_of_bits zr) (float_of_bits zb)
      | None => false
      end
  | _ => false
  end.

Definition check_inv (c : list Z) : bool :=
  match c with
  | [1; zb; wb; dtb; hb; rb] => in_column (float_of_bits rb) (float_of_bits hb)
  | [2; zb; w1b; w2b; dtb; hb; rb] => in_column (float_of_bits rb) (float_of_bits hb)
  | 3 :: r =>
      match split_z2s r with
      | Some (n, zr, zb, k, ab) => z2s_inv n (k, float_of_bits ab)
      | None => false
      end
  | _ => false
  end.

Definition check_case (c : list Z) : bool := check_bits c.
(** correspondence AND hypotheses (every accepted case is an instance of the theorems) *)
Definition check_full (c : list Z) : bool := check_side c && check_bits c.

(** indices (from 0) of: the cases whose bits disagree; the cases outside the hypotheses; the cases inside the
    hypotheses, with agreeing bits, whose OBSERVED value violates the invariant (empty by Proofs/VertFSound.v) *)
Definition failing (l : list (list Z)) : list Z := failing_from check_case 0 l.
Definition outside (l : list (list Z)) : list Z := failing_from check_side 0 l.
Definition violating (l : list (list Z)) : list Z :=
  failing_from (fun c => negb (check_side c && check_bits c) || check_inv c) 0 l.
Definition report (l : list (list Z)) : list Z * list Z * list Z := (failing l, outside l, violating l).

(** the fast input path *)
Definition check_case_w (c : list int) : bool := Nat.even (length c) && check_case (unwords c).
Definition report_w (l : list (list int)) : list Z * list Z * list Z := report (map unwords l).

(** * Sanity examples
    0x4059000000000000 = 100.0, 0x4058C00000000000 = 99.0, 0x4000000000000000 = 2.0, 0x4058400000000000 = 97.0,
    0x3FF0000000000000 = 1.0, 0xC000000000000000 = -2.0, 0x4008000000000000 = 3.0 *)
(** z = 99, w = 2, dt = 2, h = 100: 103 is below the bottom, reflected to 97 *)
Example check_vstep : check_case [1; 0x4058C00000000000; 0x4000000000000000; 0x4000000000000000; 0x4059000000000000;
                                  0x4058400000000000] = true.
Proof. vm_compute. reflexivity. Qed.
(** off by one unit in the last place: rejected *)
Example check_vstep_ulp : check_case [1; 0x4058C00000000000; 0x4000000000000000; 0x4000000000000000; 0x4059000000000000;
                                      0x4058400000000001] = false.
Proof. vm_compute. reflexivity. Qed.
(** z = 1, w = -2, dt = 2: -3 is above the surface, reflected to 3; inside the hypotheses; invariant holds *)
Example check_vstep_surface :
  let c := [1; 0x3FF0000000000000; 0xC000000000000000; 0x4000000000000000; 0x4059000000000000; 0x4008000000000000] in
  check_case c = true /\ check_side c = true /\ check_inv c = true.
Proof. vm_compute. repeat split. Qed.
(** a displacement of 3 h is outside the hypotheses (and the result, -100, outside the column), bits still agree:
    z = 0, w = 150, dt = 2, h = 100: 300 -> 2 * 100 - 300 = -100 (0xC059000000000000); 150 = 0x4062C00000000000 *)
Example check_vstep_far :
  let c := [1; 0; 0x4062C00000000000; 0x4000000000000000; 0x4059000000000000; 0xC059000000000000] in
  check_case c = true /\ check_side c = false /\ check_inv c = false.
Proof. vm_compute. repeat split. Qed.
(** two displacements: z = 99, w1 = 2, w2 = -1 (0xBFF0000000000000), dt = 2: 99 + 4 - 2 = 101 -> 99 *)
Example check_vstep2 : check_full [2; 0x4058C00000000000; 0x4000000000000000; 0xBFF0000000000000; 0x4000000000000000;
                                   0x4059000000000000; 0x4058C00000000000] = true.
Proof. vm_compute. reflexivity. Qed.
(** levels -10, -5, -1 (0xC024000000000000, 0xC014000000000000, 0xBFF0000000000000), z = 3: K = 2, A = 0.5 *)
Example check_z2s :
  let c := [3; 3; 0xC024000000000000; 0xC014000000000000; 0xBFF0000000000000; 0x4008000000000000; 2; 0x3FE0000000000000] in
  check_case c = true /\ check_side c = true /\ check_inv c = true.
Proof. vm_compute. repeat split. Qed.
(** a wrong K, a wrong last bit of A, a wrong level count: rejected *)
Example check_z2s_wrong :
  check_case [3; 3; 0xC024000000000000; 0xC014000000000000; 0xBFF0000000000000; 0x4008000000000000; 1; 0x3FE0000000000000] = false /\
  check_case [3; 3; 0xC024000000000000; 0xC014000000000000; 0xBFF0000000000000; 0x4008000000000000; 2; 0x3FE0000000000001] = false /\
  check_case [3; 2; 0xC024000000000000; 0xC014000000000000; 0xBFF0000000000000; 0x4008000000000000; 2; 0x3FE0000000000000] = false /\
  check_case [3; 4; 0xC024000000000000; 0xC014000000000000; 0xBFF0000000000000; 0x4008000000000000; 2; 0x3FE0000000000000] = false.
Proof. vm_compute. repeat split. Qed.
(** the sign of a zero weight counts *)
Example check_z2s_zero :
  check_case [3; 3; 0xC024000000000000; 0xC014000000000000; 0xBFF0000000000000; 0x3FF0000000000000; 2; 0] = true /\
  check_case [3; 3; 0xC024000000000000; 0xC014000000000000; 0xBFF0000000000000; 0x3FF0000000000000; 2; 0x8000000000000000] = false.
Proof. vm_compute. split; reflexivity. Qed.
Example check_words :
  check_case_w [0; 1; 0x4058C000; 0; 0x40000000; 0; 0x40000000; 0; 0x40590000; 0; 0x40584000; 0]%uint63 = true.
Proof. vm_compute. reflexivity. Qed.
