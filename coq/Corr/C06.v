(** Correspondence checker for C06: one sparse output file read back with netCDF4 against
    Model/Output.sparse_run applied to the snapshots of the real State taken at each write;
    particle variables against write_pvars. *)
From Coq Require Import ZArith List Bool.
From Ladim Require Import Base.Num Model.State Model.Output Corr.Run Corr.TrackerDec.
Import ListNotations.
Open Scope Z_scope.

Fixpoint colsZ (nvars cnt : nat) (l : list Z) : list (list Z) :=
  match nvars with O => [] | S k => takeZ cnt l :: colsZ k cnt (dropZ cnt l) end.
(** nrec records: time count values(nvars*count) *)
Fixpoint parse_snaps (nrec nvars : nat) (l : list Z) : list snapshot * list Z :=
  match nrec with
  | O => ([], l)
  | S k =>
      match l with
      | t :: cnt :: r =>
          let c := Z.to_nat cnt in
          let '(rest, r') := parse_snaps k nvars (dropZ (nvars * c) r) in
          ({| stime := t; cols := colsZ nvars c r |} :: rest, r')
      | _ => ([], [])
      end
  end.
(** k length-prefixed lists *)
Fixpoint parse_lists (k : nat) (l : list Z) : list (list Z) * list Z :=
  match k with
  | O => ([], l)
  | S j => match l with
           | n :: r => let '(c, r') := parse_lists j (dropZ (Z.to_nat n) r) in (takeZ (Z.to_nat n) r :: c, r')
           | [] => ([], [])
           end
  end.

Definition check_case (c : list Z) : bool :=
  match c with
  | nvars :: nrec :: r =>
      let nv := Z.to_nat nvars in
      let '(rs, r1) := parse_snaps (Z.to_nat nrec) nv r in
      let f := fst (sparse_run nv rs) in
      (* observed: counts, times, then nvars flat arrays *)
      let '(hdr, r2) := parse_lists 2 r1 in
      let '(oflat, r3) := parse_lists nv r2 in
      match hdr, r3 with
      | [ocounts; otimes], npv :: np :: r4 =>
          (* particle variables: state columns, then observed columns *)
          let '(scols, r5) := parse_lists (Z.to_nat npv) r4 in
          let '(ocols, r6) := parse_lists (Z.to_nat npv) r5 in
          let st := {| npid := np; pid := []; inst := []; pvar := scols; idef := []; pdef := [] |} in
          list_eqb_Z (counts f) ocounts && list_eqb_Z (stimes f) otimes && list_eqb_LZ (flat f) oflat
          && list_eqb_LZ (write_pvars st) ocols
          && match r6 with [] => true | _ => false end
      | _, _ => false
      end
  | _ => false
  end.
