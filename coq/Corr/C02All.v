(** Dispatcher for the correspondence cases of C02: cases of the exact-rational model (Corr/C02.v, leading integer
    1, 2, 3, ...) and, with a leading 9, cases of the FLOATING-POINT model of the trilinear kernel
    (Model/TrilinearFloat.v, checker Corr/C02F.v: IEEE-754 bit patterns of the inputs and of the result the compiled
    kernel returned).

    A float case is accepted when the side conditions of the error theorem hold (weights in [0, 1], positions in
    their cells, finite values bounded by M <= 2^1000) and the observed result is the model's result BIT FOR BIT —
    which is what the unchanged code does on every generated case — or, failing that, differs from the model's by no
    more than twice the proved uncertainty of either (2 * delta M = 22 * 2^-53 * M + 14 * 2^-1075, taken generously
    as 23 * 2^-53 * M + 2^-1060 in float arithmetic): both then lie within delta M of the exact convex combination
    (Props/C02.v T7), so an algebraically equivalent re-association of the kernel's sums is not reported as a
    disagreement, while any change of a weight or of a node is. *)
From Coq Require Import ZArith List Bool Floats.
From Ladim Require Import Model.TrilinearFloat.
From Ladim Require Corr.C02 Corr.C02F.
Import ListNotations.
Open Scope Z_scope.

Definition close_enough (c : list Z) : bool :=
  match c with
  | [xb; i; yb; j; ab; d00; u00; d01; u01; d10; u10; d11; u11; mb; rb] =>
      let m := kernel_f (float_of_bits xb) i (float_of_bits yb) j (float_of_bits ab)
                 (float_of_bits d00) (float_of_bits u00) (float_of_bits d01) (float_of_bits u01)
                 (float_of_bits d10) (float_of_bits u10) (float_of_bits d11) (float_of_bits u11) in
      let r := float_of_bits rb in
      let tol := (23 * Z.ldexp 1 (-53) * float_of_bits mb + Z.ldexp 1 (-1060))%float in
      PrimFloat.leb (PrimFloat.abs (m - r)%float) tol
  | _ => false
  end.

Definition check_float (c : list Z) : bool :=
  Ladim.Corr.C02F.check_side c && (Ladim.Corr.C02F.check_bits c || close_enough c).

Definition check_case (c : list Z) : bool :=
  match c with
  | 9 :: r => check_float r
  | _ => Ladim.Corr.C02.check_case c
  end.

(** sanity: 1.0 for all eight nodes at (0.5, 0.5), weight 0.5: result 1.0; the same case with the result off by one
    unit in the last place is still accepted (close), with the result 1.5 it is not *)
Example float_case_exact :
  check_case [9; 4602678819172646912; 0; 4602678819172646912; 0; 4602678819172646912;
              4607182418800017408; 4607182418800017408; 4607182418800017408; 4607182418800017408;
              4607182418800017408; 4607182418800017408; 4607182418800017408; 4607182418800017408;
              4607182418800017408; 4607182418800017408] = true.
Proof. vm_compute. reflexivity. Qed.
Example float_case_ulp :
  check_case [9; 4602678819172646912; 0; 4602678819172646912; 0; 4602678819172646912;
              4607182418800017408; 4607182418800017408; 4607182418800017408; 4607182418800017408;
              4607182418800017408; 4607182418800017408; 4607182418800017408; 4607182418800017408;
              4607182418800017408; 4607182418800017409] = true.
Proof. vm_compute. reflexivity. Qed.
Example float_case_wrong :
  check_case [9; 4602678819172646912; 0; 4602678819172646912; 0; 4602678819172646912;
              4607182418800017408; 4607182418800017408; 4607182418800017408; 4607182418800017408;
              4607182418800017408; 4607182418800017408; 4607182418800017408; 4607182418800017408;
              4607182418800017408; 4609434218613702656] = false.
Proof. vm_compute. reflexivity. Qed.
