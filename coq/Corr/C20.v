(** Correspondence checker for C20: decodes a case written by harness/props/c20.py (a complete
    set-up and what ladim.main.main did with it) and compares the model (Model/Startup.v [main_run])
    with the observation: refused at start-up or started, the refusing stage, the number of
    update() calls, the number of output records. *)
From Coq Require Import ZArith List Bool.
From Ladim Require Import Base.Num Model.Time Model.Release Model.Startup Corr.Run.
Import ListNotations.
Open Scope Z_scope.

Definition flag (z : Z) : bool := z =? 1.
Definition opt (has v : Z) : option Z := if has =? 1 then Some v else None.
Definition dec_sec (z : Z) : sec := if z =? 0 then SecMissing else if z =? 1 then SecNull else SecPresent.
Definition dec_cf (z : Z) : cf_status :=
  if z =? 0 then CfOk else if z =? 1 then CfMissing else if z =? 2 then CfBadSyntax else CfBadVersion.
Definition stage_code (st : stage_t) : Z :=
  match st with
  | StConfig => 0 | StState => 1 | StTime => 2 | StGrid => 3 | StForcing => 4 | StRelease => 5
  | StTracker => 6 | StIbm => 7 | StOutput => 8
  end.

(** n files, each written as its number of frames followed by the frame times *)
Fixpoint take_files (n : nat) (l : list Z) : list (list Z) * list Z :=
  match n with
  | O => ([], l)
  | S k =>
      match l with
      | len :: r =>
          let '(fs, rest) := take_files k (skipn (Z.to_nat len) r) in
          (firstn (Z.to_nat len) r :: fs, rest)
      | [] => ([], [])
      end
  end.

Definition check_case (c : list Z) : bool :=
  match c with
  | cfz :: st :: sf :: sr :: str :: so :: gm :: gf :: fm :: ff
    :: hs :: vs :: he :: ve :: d :: hr :: vr :: rv
    :: gfile :: im :: jm :: hsub :: i0 :: i1 :: j0 :: j1
    :: rk :: rne :: rfl :: rpc :: rrp :: hc :: fq
    :: ofn :: hp :: vp :: oiv :: nf :: rest =>
      let '(files, rest1) := take_files (Z.to_nat nf) rest in
      match rest1 with
      | nrel :: rest2 =>
          let times := firstn (Z.to_nat nrel) rest2 in
          match skipn (Z.to_nat nrel) rest2 with
          | [orefused; ostage; oupd; orec] =>
              let s := {| cf := dec_cf cfz; sec_time := dec_sec st; sec_forcing := dec_sec sf;
                          sec_release := dec_sec sr; sec_tracker := dec_sec str; sec_output := dec_sec so;
                          grid_module := flag gm; grid_filename := flag gf; forcing_module := flag fm;
                          forcing_filename := flag ff;
                          t_start := opt hs vs; t_stop := opt he ve; t_dt := d; t_ref := opt hr vr; t_rev := flag rv;
                          grid_file := flag gfile; imax0 := im; jmax0 := jm;
                          subgrid := if hsub =? 1 then Some (i0, i1, j0, j1) else None;
                          forcing_files := files;
                          rel_key := flag rk; rel_name_empty := flag rne; rel_file := flag rfl;
                          rel_poscols := flag rpc; rel_rowpos := flag rrp; rel_times := times; rel_cont := opt hc fq;
                          out_filename := flag ofn; out_period := opt hp vp; out_ivars := flag oiv |} in
              let r := main_run s in
              match r_outcome r with
              | Started => (orefused =? 0) && (oupd =? r_updates r) && (orec =? r_records r)
              | Refused stg =>
                  (orefused =? 1) && (ostage =? stage_code stg) && (oupd =? r_updates r) && (orec =? r_records r)
              end
          | _ => false
          end
      | [] => false
      end
  | _ => false
  end.
