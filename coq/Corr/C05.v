(** Correspondence checker for C05: replays an encoded operation sequence on Model/State.v and
    compares the full state with the implementation's after every operation. *)
From Coq Require Import ZArith List Bool.
From Ladim Require Import Base.Num Model.State Corr.Run.
Import ListNotations.
Open Scope Z_scope.

Fixpoint take (n : nat) (l : list Z) : list Z :=
  match n, l with O, _ => [] | S k, x :: r => x :: take k r | _, [] => [] end.
Fixpoint drop (n : nat) (l : list Z) : list Z :=
  match n, l with O, _ => l | S k, _ :: r => drop k r | _, [] => [] end.
Definition bools (l : list Z) : list bool := map (fun v => negb (v =? 0)) l.

(** k argument slots: 0 = not given, 1 v = scalar, 2 len vals = array *)
Fixpoint parse_args (k : nat) (l : list Z) : list (option arg) * list Z :=
  match k with
  | O => ([], l)
  | S j =>
      match l with
      | 0 :: r => let '(a, r') := parse_args j r in (None :: a, r')
      | 1 :: v :: r => let '(a, r') := parse_args j r in (Some (Sc v) :: a, r')
      | 2 :: n :: r => let '(a, r') := parse_args j (drop (Z.to_nat n) r) in
                       (Some (Ar (take (Z.to_nat n) r)) :: a, r')
      | _ => ([], [])
      end
  end.
(** k columns, each: len vals *)
Fixpoint parse_cols (k : nat) (l : list Z) : list (list Z) * list Z :=
  match k with
  | O => ([], l)
  | S j => match l with
           | n :: r => let '(c, r') := parse_cols j (drop (Z.to_nat n) r) in (take (Z.to_nat n) r :: c, r')
           | [] => ([], [])
           end
  end.

Definition parse_op (ni np : nat) (l : list Z) : option (op * list Z) :=
  match l with
  | 0 :: r => let '(ia, r1) := parse_args ni r in let '(pa, r2) := parse_args np r1 in Some (Append ia pa, r2)
  | 1 :: r => Some (AppendInvalid, r)
  | 2 :: n :: r => Some (Kill (bools (take (Z.to_nat n) r)), drop (Z.to_nat n) r)
  | 3 :: r => Some (Compactify, r)
  | 4 :: c :: n :: r => Some (SetInst (Z.to_nat c) (take (Z.to_nat n) r), drop (Z.to_nat n) r)
  | 5 :: c :: n :: r => Some (SetPvar (Z.to_nat c) (take (Z.to_nat n) r), drop (Z.to_nat n) r)
  | 6 :: c :: v :: n :: r => Some (Poke (Z.to_nat c) (bools (take (Z.to_nat n) r)) v, drop (Z.to_nat n) r)
  | _ => None
  end.

Definition lz_eqb := list_eqb_Z.
Definition state_matches (s : state) (onpid : Z) (opid : list Z) (oinst opvar : list (list Z)) : bool :=
  (npid s =? onpid) && lz_eqb (pid s) opid && list_eqb_LZ (inst s) oinst && list_eqb_LZ (pvar s) opvar.

Fixpoint check_ops (fuel : nat) (ni np : nat) (s : state) (l : list Z) : bool :=
  match fuel with
  | O => match l with [] => true | _ => false end
  | S f =>
      match parse_op ni np l with
      | None => false
      | Some (o, r) =>
          let s' := step s o in
          match r with
          | onpid :: n :: r1 =>
              let opid := take (Z.to_nat n) r1 in
              let '(oi, r2) := parse_cols ni (drop (Z.to_nat n) r1) in
              let '(op_, r3) := parse_cols np r2 in
              state_matches s' onpid opid oi op_ && check_ops f ni np s' r3
          | _ => false
          end
      end
  end.

Definition check_case (c : list Z) : bool :=
  match c with
  | ni :: np :: r =>
      let ni' := Z.to_nat ni in let np' := Z.to_nat np in
      let idf := take ni' r in let pdf := take np' (drop ni' r) in
      match drop (ni' + np') r with
      | nops :: r' => check_ops (Z.to_nat nops) ni' np' (empty_state ni' np' idf pdf) r'
      | [] => false
      end
  | _ => false
  end.
