(** Correspondence checker for C17: the index triples the kernels' Python bodies actually read (recorded
    by an index-recording ndarray subclass in harness/props/c17.py) against the model's read lists
    (Model/Interp.v), and the bounds verdict.

    ok = 1: the Python run finished and every recorded index was inside the array (0 <= index < extent);
    ok = 0: numpy raised IndexError or a negative (wrapped) index was recorded.
    With ok = 1 the recorded set must EQUAL the model's list and the model must find it in bounds;
    with ok = 0 (negative controls outside the clip box, or a defective caller) the records (possibly cut
    short by the IndexError) must be among the model's reads and the model must find a read out of bounds.

    kind 1  trilinear(F, X, Y, K, A) on an array of shape (N, jn, im)
       1 :: N :: jn :: im :: x_n :: x_d :: y_n :: y_d :: k :: ok :: recorded triples (k j i)*
    kind 2  sample3DUV(U, V, X, Y, K, A, method), U (N, jmax, imax+1), V (N, jmax+1, imax)
       2 :: meth :: N :: jmax :: imax :: x_n :: x_d :: y_n :: y_d :: k :: ok :: nu :: U-triples (3*nu) ++ V-triples
    kind 3  z2s(z_rho, X, Y, Z): the water column z_rho[:, J, I] of shape (N, jn, im)
       3 :: jn :: im :: x_n :: x_d :: y_n :: y_d :: ok :: j :: i   (j i absent when nothing was recorded)
    kind 4  nearest sampler sample3D(F, X, Y, K, A, "nearest")
       4 :: N :: jn :: im :: x_n :: x_d :: y_n :: y_d :: k :: ok :: recorded triples
    kind 5  the jitted ladim.tracker.clip(X, Y, xmin, xmax, ymin, ymax): positions before and after.
            The result must be exactly max(min(x, hi), lo) = [clip1 lo hi x]; when the call was made by the
            tracker of a grid (has = 1) the limits it passed must be the model's grid.xmin + 0.01 etc.
            (1e-9: the float sum i0 + 0.01 is rounded) and the results must be in the model's clip box.
       5 :: has :: i0 :: i1 :: j0 :: j1 :: xlo(2) :: xhi(2) :: ylo(2) :: yhi(2) :: P :: P * [x y ox oy] (2 ints each) *)
From Coq Require Import ZArith QArith List Bool.
From Ladim Require Import Base.Num Model.Interp Corr.Run.
Import ListNotations.
Open Scope Z_scope.

Definition idx_eqb (a b : idx) : bool :=
  let '(k1, j1, i1) := a in let '(k2, j2, i2) := b in (k1 =? k2) && (j1 =? j2) && (i1 =? i2).
Definition subset (a b : list idx) : bool := forallb (fun t => existsb (idx_eqb t) b) a.
Fixpoint triples (l : list Z) : option (list idx) :=
  match l with
  | [] => Some []
  | k :: j :: i :: r => match triples r with Some t => Some ((k, j, i) :: t) | None => None end
  | _ => None
  end.

Definition verdict (ok : Z) (n jn im : Z) (model recorded : list idx) : bool :=
  if ok =? 1
  then subset model recorded && subset recorded model && forallb (in_shape n jn im) model
  else subset recorded model && negb (forallb (in_shape n jn im) model).

(** apply [f] to [n] consecutive records of width [w] *)
Fixpoint all_records (n : nat) (w : nat) (f : list Z -> bool) (l : list Z) : bool :=
  match n with
  | O => true
  | S n' => f (firstn w l) && all_records n' w f (skipn w l)
  end.

Definition dummy : arr3 := {| a_n := 0; a_j := 0; a_i := 0; a_data := [] |}.

Definition check_case (c : list Z) : bool :=
  match c with
  | 1 :: N :: jn :: im :: xn :: xd :: yn :: yd :: k :: ok :: rec =>
      match triples rec with
      | Some r => verdict ok N jn im (snd (trilinear dummy (mkQ xn xd) (mkQ yn yd) k 0)) r
      | None => false
      end
  | 2 :: meth :: N :: jmax :: imax :: xn :: xd :: yn :: yd :: k :: ok :: nu :: rec =>
      let m := if meth =? 0 then Bilinear else Nearest in
      let s := sample3DUV dummy dummy (mkQ xn xd) (mkQ yn yd) k 0 m in
      match triples (firstn (Z.to_nat (3 * nu)) rec), triples (skipn (Z.to_nat (3 * nu)) rec) with
      | Some ru, Some rv =>
          let mu := snd (fst s) in
          let mv := snd (snd s) in
          if ok =? 1
          then verdict 1 N jmax (imax + 1) mu ru && verdict 1 N (jmax + 1) imax mv rv
          else subset ru mu && subset rv mv &&
               negb (forallb (in_shape N jmax (imax + 1)) mu && forallb (in_shape N (jmax + 1) imax) mv)
      | _, _ => false
      end
  | 3 :: jn :: im :: xn :: xd :: yn :: yd :: ok :: rec =>
      let j := qround (mkQ yn yd) in
      let i := qround (mkQ xn xd) in
      match rec with
      | [rj; ri] => verdict ok 1 jn im [(0, j, i)] [(0, rj, ri)]
      | [] => (ok =? 0) && negb (in_shape 1 jn im (0, j, i))
      | _ => false
      end
  | 4 :: N :: jn :: im :: xn :: xd :: yn :: yd :: k :: ok :: rec =>
      match triples rec with
      | Some r => verdict ok N jn im (snd (nearest dummy (mkQ xn xd) (mkQ yn yd) k)) r
      | None => false
      end
  | 5 :: has :: i0 :: i1 :: j0 :: j1 :: xln :: xld :: xhn :: xhd :: yln :: yld :: yhn :: yhd :: P :: rest =>
      let xlo := mkQ xln xld in let xhi := mkQ xhn xhd in
      let ylo := mkQ yln yld in let yhi := mkQ yhn yhd in
      let g := {| g_i0 := i0; g_i1 := i1; g_j0 := j0; g_j1 := j1 |} in
      let tol := (1 # 1000000000)%Q in
      (if has =? 1
       then close tol xlo (g_xmin g + (1#100))%Q && close tol xhi (g_xmax g - (1#100))%Q &&
            close tol ylo (g_ymin g + (1#100))%Q && close tol yhi (g_ymax g - (1#100))%Q
       else true) &&
      (Z.of_nat (length rest) =? 8 * P) &&
      all_records (Z.to_nat P) 8 (fun r =>
        match r with
        | [xn; xd; yn; yd; oxn; oxd; oyn; oyd] =>
            Qeq_bool (clip1 xlo xhi (mkQ xn xd)) (mkQ oxn oxd) &&
            Qeq_bool (clip1 ylo yhi (mkQ yn yd)) (mkQ oyn oyd) &&
            (if has =? 1
             then close tol (mkQ oxn oxd) (clip_x g (mkQ xn xd)) && close tol (mkQ oyn oyd) (clip_y g (mkQ yn yd))
             else true)
        | _ => false
        end) rest
  | _ => false
  end.
