(** Correspondence checker for C01: Tracker.update with a polynomial velocity field
    u = a0 + a1 x + a2 y + a3 f + a4 x f + a5 y f (v likewise) against Model/Tracker's schemes,
    and ladim.analytical.get_velocity1/2/4 against the model. *)
From Coq Require Import ZArith QArith List Bool.
From Ladim Require Import Base.Num Model.Tracker Corr.Run Corr.TrackerDec.
Import ListNotations.
Open Scope Z_scope.

Definition tol : Q := 1 # 100000000000.
Definition poly (c : list Q) (f x y : Q) : Q :=
  match c with
  | [a0; a1; a2; a3; a4; a5] => (a0 + a1 * x + a2 * y + a3 * f + a4 * x * f + a5 * y * f)%Q
  | _ => 0%Q
  end.

Definition check_case (c : list Z) : bool :=
  match c with
  | 1 :: scheme :: r =>
      (* x y dt dx dy xmin xmax ymin ymax (9 rationals), 6 + 6 coefficients, observed x' y' *)
      match qs 9 r, qs 12 (dropZ 18 r), qs 2 (dropZ 42 r) with
      | [x; y; dt; dx; dy; xmin; xmax; ymin; ymax], cs, [ox; oy] =>
          let cu := firstn 6 cs in let cv := skipn 6 cs in
          let vel := fun f x y => (poly cu f x y, poly cv f x y) in
          let dtdx := (dt / dx)%Q in let dtdy := (dt / dy)%Q in
          let xlo := (xmin + (1#100))%Q in let xhi := (xmax - (1#100))%Q in
          let ylo := (ymin + (1#100))%Q in let yhi := (ymax - (1#100))%Q in
          let sch := if scheme =? 1 then EF vel
                     else if scheme =? 2 then RK2 vel dtdx dtdy xlo xhi ylo yhi
                     else RK4 vel dtdx dtdy xlo xhi ylo yhi in
          let '(nx, ny) := candidate dtdx dtdy sch x y in
          close tol nx ox && close tol ny oy
      | _, _, _ => false
      end
  | 2 :: which :: r =>
      (* s x y dt (4 rationals), 6 + 6 coefficients (time terms unused), observed U V *)
      match qs 4 r, qs 12 (dropZ 8 r), qs 2 (dropZ 32 r) with
      | [s; x; y; dt], cs, [oU; oV] =>
          let cu := firstn 6 cs in let cv := skipn 6 cs in
          let sample := fun x y => (poly cu 0 x y, poly cv 0 x y) in
          let '(U, V) := if which =? 1 then get_velocity1 sample x y
                         else if which =? 2 then get_velocity2 sample dt s x y
                         else get_velocity4 sample dt x y in
          close tol U oU && close tol V oV
      | _, _, _ => false
      end
  | _ => false
  end.
