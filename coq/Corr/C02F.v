(** Correspondence checker for C02 at the FLOAT level: the binary64 model Model/TrilinearFloat.v against what
    the real numba-compiled kernel [ladim.ROMS.trilinear] returned, BIT FOR BIT.
    Cases are written by harness/props/c02_float.py.

    A case is a list of 15 integers.  "bits" = the IEEE-754 binary64 pattern of a float as a non-negative
    integer below 2^64 (Python: int.from_bytes(struct.pack(">d", x), "big")); i, j are plain integers.

        [ Xb ; i ; Yb ; j ; Ab ;
          d00 ; u00 ; d01 ; u01 ; d10 ; u10 ; d11 ; u11 ;
          Mb ; Rb ]

      Xb, Yb   bits of the particle position X[n], Y[n]
      i, j     the cell indices int(X[n]), int(Y[n]) the kernel used
      Ab       bits of the vertical weight A[n]
      dXY      bits of F[k-1, j+Y, i+X]  (level k-1, weight a)     X, Y in {0, 1}: the kernel's f00, f01, f10, f11
      uXY      bits of F[k,   j+Y, i+X]  (level k,   weight 1-a)
      Mb       bits of a float M with |node value| <= M for all eight (the harness passes the largest magnitude)
      Rb       bits of the value the REAL kernel returned

    [check_case] holds iff
      (1) all patterns are in range,
      (2) the side conditions hold ([kernel_ok]): X, Y finite, 0 <= X, Y < 2^52, float(i) <= X < float(i+1),
          float(j) <= Y < float(j+1), 0 <= i, j < 2^53 - 1, A finite in [0, 1], the node values finite and bounded
          by M, M finite and <= 2^1000  -- exactly the hypotheses of [kernel_f_error_checked], so every accepted
          case is an instance of the proved error bound (Proofs/C02FSound.v states this for the observed value);
      (3) [kernel_f] (= trilinear_f a (frac_f X i) (frac_f Y j) ...) recomputed in the model has the SAME BITS
          as Rb: same class, sign, mantissa and exponent ([same_bits]; +0 and -0 are different), and
          also [bits_of_float] of the model result is the integer Rb itself (for non-NaN results).

    [check_bits] is (1) + (3) alone (no side conditions: any finite or non-finite inputs),
    [failing] returns the indices of the failing cases of a list (to print only those).

    FAST INPUT PATH.  Coq elaborates a 64-bit [Z] literal through the number-notation machinery (about 0.5 ms
    each, i.e. ~7 ms per case), while primitive [int] literals are parsed natively (20 times faster).
    [check_case_w : list int -> bool] takes the same 15 numbers, each as TWO primitive integers (hi, lo) with
    value hi * 2^32 + lo (hi = pattern >> 32, lo = pattern & 0xFFFFFFFF; i and j as (0, i), (0, j)):
        [ Xhi ; Xlo ; 0 ; i ; Yhi ; Ylo ; 0 ; j ; Ahi ; Alo ; ... ; Rhi ; Rlo ]        (30 integers)
    and is BY DEFINITION [check_case] of the recombined integers ([unwords]) -- there is one decoder only. *)
From Coq Require Import ZArith List Bool Floats Uint63.
From Ladim Require Import Model.TrilinearFloat.
Import ListNotations.
Open Scope Z_scope.

Definition pattern_ok (z : Z) : bool := (0 <=? z) && (z <? 2 ^ 64).

Definition result_agrees (model : float) (rb : Z) : bool :=
  same_bits model (float_of_bits rb) &&
  (is_nan model || (bits_of_float model =? rb)).

Definition check_bits (c : list Z) : bool :=
  match c with
  | [xb; i; yb; j; ab; d00; u00; d01; u01; d10; u10; d11; u11; mb; rb] =>
      forallb pattern_ok [xb; yb; ab; d00; u00; d01; u01; d10; u10; d11; u11; mb; rb] &&
      result_agrees
        (kernel_f (float_of_bits xb) i (float_of_bits yb) j (float_of_bits ab)
           (float_of_bits d00) (float_of_bits u00) (float_of_bits d01) (float_of_bits u01)
           (float_of_bits d10) (float_of_bits u10) (float_of_bits d11) (float_of_bits u11)) rb
  | _ => false
  end.

Definition check_side (c : list Z) : bool :=
  match c with
  | [xb; i; yb; j; ab; d00; u00; d01; u01; d10; u10; d11; u11; mb; rb] =>
      kernel_ok (float_of_bits xb) i (float_of_bits yb) j (float_of_bits ab)
        (float_of_bits d00) (float_of_bits u00) (float_of_bits d01) (float_of_bits u01)
        (float_of_bits d10) (float_of_bits u10) (float_of_bits d11) (float_of_bits u11) (float_of_bits mb)
  | _ => false
  end.

Definition check_case (c : list Z) : bool := check_side c && check_bits c.

(** indices (from 0) of the cases a checker rejects *)
Fixpoint failing_from (chk : list Z -> bool) (n : Z) (l : list (list Z)) : list Z :=
  match l with
  | [] => []
  | c :: r => if chk c then failing_from chk (n + 1) r else n :: failing_from chk (n + 1) r
  end.
Definition failing (l : list (list Z)) : list Z := failing_from check_case 0 l.
Definition failing_bits (l : list (list Z)) : list Z := failing_from check_bits 0 l.

(** the fast input path: pairs of primitive integers (hi, lo) -> hi * 2^32 + lo *)
Fixpoint unwords (l : list int) : list Z :=
  match l with
  | hi :: lo :: r => (Uint63.to_Z hi * 4294967296 + Uint63.to_Z lo) :: unwords r
  | _ => []
  end.
Definition check_case_w (c : list int) : bool := (Nat.eqb (length c) 30) && check_case (unwords c).
Fixpoint failing_w_from (n : Z) (l : list (list int)) : list Z :=
  match l with
  | [] => []
  | c :: r => if check_case_w c then failing_w_from (n + 1) r else n :: failing_w_from (n + 1) r
  end.
Definition failing_w (l : list (list int)) : list Z := failing_w_from 0 l.

(** sanity: X = 3.75 in cell 3, Y = 2.5 in cell 2, a = 0.25, node values 1 .. 8, M = 8; the kernel gives 5.75
    ((1-p)(1-q) f00 + p (1-q) f10 + (1-p) q f01 + p q f11 with f = 0.25 d + 0.75 u = 1.75, 3.75, 5.75, 7.75;
     p = 0.75, q = 0.5: 0.125*1.75 + 0.375*5.75 + 0.125*3.75 + 0.375*7.75 = 5.75)  *)
Example check_example :
  check_case [4615626668101337088; 3; 4612811918334230528; 2; 4598175219545276416;
              4607182418800017408; 4611686018427387904; 4613937818241073152; 4616189618054758400;
              4617315517961601024; 4618441417868443648; 4619567317775286272; 4620693217682128896;
              4620693217682128896; 4618159942891732992] = true.
Proof. vm_compute. reflexivity. Qed.
(** a result that is off by one unit in the last place, or has the wrong sign of zero, is rejected *)
Example check_example_ulp :
  check_case [4615626668101337088; 3; 4612811918334230528; 2; 4598175219545276416;
              4607182418800017408; 4611686018427387904; 4613937818241073152; 4616189618054758400;
              4617315517961601024; 4618441417868443648; 4619567317775286272; 4620693217682128896;
              4620693217682128896; 4618159942891732993] = false.
Proof. vm_compute. reflexivity. Qed.
Example check_example_negzero :
  check_bits [0; 0; 0; 0; 0; 0; 0; 0; 0; 0; 0; 0; 0; 0; 0] = true /\
  check_bits [0; 0; 0; 0; 0; 0; 0; 0; 0; 0; 0; 0; 0; 0; 9223372036854775808] = false.
Proof. vm_compute. split; reflexivity. Qed.
(** a wrong cell index is rejected by the side conditions *)
Example check_example_cell :
  check_side [4615626668101337088; 2; 4612811918334230528; 2; 4598175219545276416;
              4607182418800017408; 4611686018427387904; 4613937818241073152; 4616189618054758400;
              4617315517961601024; 4618441417868443648; 4619567317775286272; 4620693217682128896;
              4620693217682128896; 4618159942891732992] = false.
Proof. vm_compute. reflexivity. Qed.

Example check_example_words :
  check_case_w [1074659328; 0; 0; 3; 1074003968; 0; 0; 2; 1070596096; 0;
                1072693248; 0; 1073741824; 0; 1074266112; 0; 1074790400; 0;
                1075052544; 0; 1075314688; 0; 1075576832; 0; 1075838976; 0;
                1075838976; 0; 1075249152; 0]%uint63 = true.
Proof. vm_compute. reflexivity. Qed.
