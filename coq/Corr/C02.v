(** Correspondence checker for C02: decodes a case written by harness/props/c02.py and compares the
    model (Model/Interp.v) with what the real code returned.

    Numbers: a float is two integers (numerator, denominator) decoded with [mkQ]; array contents are
    integer numerators over one common denominator [den] (the harness stores dyadic values).
    tolerance flag: 0 = exact (Qeq_bool; inputs dyadic, float arithmetic exact), 1 = 1e-9 (general float64
    positions/weights), 2 = 1e-6 (float32 products of packed storage).

    kind 1  sample3D(F, X, Y, K, A, method) on a generated array
       1 :: meth :: tol :: N :: jn :: im :: den :: P :: P * [x_n x_d y_n y_d k a_n a_d o_n o_d] ++ F
    kind 2  sample3DUV(U, V, X, Y, K, A, method), U (N, jmax, imax+1), V (N, jmax+1, imax)
       2 :: meth :: tol :: N :: jmax :: imax :: den :: P :: P * [x y k a ou ov] ++ U ++ V
    kind 3  real Grid + Forcing on a generated file: forcing.velocity(X, Y, Z) with the cached K, A
       3 :: tol :: imax0 :: jmax0 :: N :: den :: scaled :: su_n :: su_d :: sv_n :: sv_d ::
            has_sub :: a :: b :: c :: d :: P :: P * [X Y K A u v] ++ mask_rho ++ u[frame] ++ v[frame]
    kind 4  the same run, forcing.variables[name] of a scalar field
       4 :: tol :: imax0 :: jmax0 :: N :: den :: scaled :: s_n :: s_d :: o_n :: o_d ::
            has_sub :: a :: b :: c :: d :: P :: P * [X Y K o] ++ field[frame] *)
From Coq Require Import ZArith QArith List Bool.
From Ladim Require Import Base.Num Model.Interp Corr.Run.
Import ListNotations.
Open Scope Z_scope.

Definition tolq (flag : Z) : option Q :=
  if flag =? 0 then None else if flag =? 1 then Some (1 # 1000000000)%Q else Some (1 # 1000000)%Q.
Definition agree (flag : Z) (model : option Q) (num den : Z) : bool :=
  match model with
  | None => false
  | Some m => match tolq flag with
              | None => Qeq_bool m (mkQ num den)
              | Some t => close t m (mkQ num den)
              end
  end.
Definition meth_of (m : Z) : method := if m =? 0 then Bilinear else Nearest.
Definition arr_of (n jn im den : Z) (l : list Z) : arr3 :=
  {| a_n := n; a_j := jn; a_i := im; a_data := map (fun z => mkQ z den) l |}.
Definition take (n : Z) (l : list Z) : list Z := firstn (Z.to_nat n) l.
Definition drop (n : Z) (l : list Z) : list Z := skipn (Z.to_nat n) l.

(** apply [f] to [n] consecutive records of width [w] *)
Fixpoint all_records (n : nat) (w : nat) (f : list Z -> bool) (l : list Z) : bool :=
  match n with
  | O => true
  | S n' => f (firstn w l) && all_records n' w f (skipn w l)
  end.

Definition sub_of (has a b c d : Z) : option (Z * Z * Z * Z) := if has =? 1 then Some (a, b, c, d) else None.

Definition check_case (c : list Z) : bool :=
  match c with
  | 1 :: meth :: tol :: N :: jn :: im :: den :: P :: rest =>
      let F := arr_of N jn im den (drop (P * 9) rest) in
      (Z.of_nat (length (a_data F)) =? N * jn * im) &&
      all_records (Z.to_nat P) 9 (fun r =>
        match r with
        | [xn; xd; yn; yd; k; an; ad; on; od] =>
            agree tol (fst (sample3D F (mkQ xn xd) (mkQ yn yd) k (mkQ an ad) (meth_of meth))) on od
        | _ => false
        end) rest
  | 2 :: meth :: tol :: N :: jmax :: imax :: den :: P :: rest =>
      let d := drop (P * 11) rest in
      let nu := N * jmax * (imax + 1) in
      let U := arr_of N jmax (imax + 1) den (take nu d) in
      let V := arr_of N (jmax + 1) imax den (drop nu d) in
      (Z.of_nat (length (a_data V)) =? N * (jmax + 1) * imax) &&
      all_records (Z.to_nat P) 11 (fun r =>
        match r with
        | [xn; xd; yn; yd; k; an; ad; un; ud; vn; vd] =>
            let s := sample3DUV U V (mkQ xn xd) (mkQ yn yd) k (mkQ an ad) (meth_of meth) in
            agree tol (fst (fst s)) un ud && agree tol (fst (snd s)) vn vd
        | _ => false
        end) rest
  | 3 :: tol :: imax0 :: jmax0 :: N :: den :: sc :: sun :: sud :: svn :: svd ::
      has :: a :: b :: c' :: d' :: P :: rest =>
      let d := drop (P * 11) rest in
      let nm := jmax0 * imax0 in
      let nu := N * jmax0 * (imax0 - 1) in
      let mask := arr_of 1 jmax0 imax0 1 (take nm d) in
      let fu := arr_of N jmax0 (imax0 - 1) den (take nu (drop nm d)) in
      let fv := arr_of N (jmax0 - 1) imax0 den (drop nu (drop nm d)) in
      let pu := {| scaled := sc =? 1; scale_factor := mkQ sun sud; add_offset := 0 |} in
      let pv := {| scaled := sc =? 1; scale_factor := mkQ svn svd; add_offset := 0 |} in
      (Z.of_nat (length (a_data fv)) =? N * (jmax0 - 1) * imax0) &&
      match grid_init mask (sub_of has a b c' d') with
      | None => false
      | Some gr =>
          let UV := read_velocity gr fu fv pu pv in
          let U := fst UV in
          let V := snd UV in
          all_records (Z.to_nat P) 11 (fun r =>
            match r with
            | [xn; xd; yn; yd; k; an; ad; un; ud; vn; vd] =>
                let s := velocity gr U V (mkQ xn xd) (mkQ yn yd) k (mkQ an ad) Bilinear in
                agree tol (fst (fst s)) un ud && agree tol (fst (snd s)) vn vd
            | _ => false
            end) rest
      end
  | 4 :: tol :: imax0 :: jmax0 :: N :: den :: sc :: sn :: sd :: on :: od ::
      has :: a :: b :: c' :: d' :: P :: rest =>
      let ff := arr_of N jmax0 imax0 den (drop (P * 7) rest) in
      let pf := {| scaled := sc =? 1; scale_factor := mkQ sn sd; add_offset := mkQ on od |} in
      let mask := mk3 1 jmax0 imax0 (fun _ _ _ => 1%Q) in
      (Z.of_nat (length (a_data ff)) =? N * jmax0 * imax0) &&
      match grid_init mask (sub_of has a b c' d') with
      | None => false
      | Some gr =>
          let F := read_field gr ff pf in
          all_records (Z.to_nat P) 7 (fun r =>
            match r with
            | [xn; xd; yn; yd; k; vn; vd] =>
                agree tol (fst (force_scalar gr F (mkQ xn xd) (mkQ yn yd) k 0)) vn vd
            | _ => false
            end) rest
      end
  | _ => false
  end.
