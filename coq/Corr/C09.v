(** Correspondence checker for C09: one Tracker.update (EF, prescribed velocities) on a real ROMS.Grid
    against Model/Tracker.move. *)
From Coq Require Import ZArith QArith List Bool.
From Ladim Require Import Base.Num Model.Tracker Corr.Run Corr.TrackerDec.
Import ListNotations.
Open Scope Z_scope.

(** per particle 18 integers: x(2) y(2) alive active nan u(2) v(2) ox(2) oy(2) oalive oactive, then dtdx(2) is global *)
Fixpoint check_parts (g : grid) (dtdx : Q) (n : nat) (l : list Z) : bool :=
  match n with
  | O => match l with [] => true | _ => false end
  | S k =>
      match l with
      | xn :: xd :: yn :: yd :: al :: ac :: nan :: un :: ud :: vn :: vd :: oxn :: oxd :: oyn :: oyd :: oal :: oac :: r =>
          let p := {| px := mkQ xn xd; py := mkQ yn yd; alive := negb (al =? 0); active := negb (ac =? 0) |} in
          let cand := if nan =? 1 then None
                      else Some ((px p + mkQ un ud * dtdx)%Q, (py p + mkQ vn vd * dtdx)%Q) in
          let q := move g p cand in
          qeqb (px q) (mkQ oxn oxd) && qeqb (py q) (mkQ oyn oyd)
          && Bool.eqb (alive q) (negb (oal =? 0)) && Bool.eqb (active q) (negb (oac =? 0))
          && check_parts g dtdx k r
      | _ => false
      end
  end.

Definition check_case (c : list Z) : bool :=
  match c with
  | i0 :: i1 :: j0 :: j1 :: tn :: td :: n :: r =>
      let jm := Z.to_nat (j1 - j0) in let im := Z.to_nat (i1 - i0) in
      let g := {| gi0 := i0; gi1 := i1; gj0 := j0; gj1 := j1; gM := rowsZ jm im r; gH := []; gDX := [] |} in
      check_parts g (mkQ tn td) (Z.to_nat n) (dropZ (jm * im) r)
  | _ => false
  end.
