(** Correspondence checker for C19: decodes a case written by harness/props/c19.py and compares the
    model (Model/Protocol.v) with what the real code did.

    case 1 (a whole run through ladim.main.main with recording modules):
      1 :: warm :: N :: p :: hc_grid :: hc_forcing :: hc_release :: hc_tracker :: hc_ibm :: hc_output ::
      observed call log as pairs  code, timer.step  in the order the calls happened
    case 2 (one call of ladim.model.load_module):   2 :: load
    case 3 (two calls in one process, same base name in two directories):   3 :: length of load1 :: load1 ++ load2
      load = str given ++ str existing_file ++ str importable_name ++ [outcome] ++ str observed __file__ ++ str observed __name__
      str  = length :: character codes;  outcome 0 = module from file, 1 = imported, 2 = SystemExit *)
From Coq Require Import ZArith String Ascii List Bool.
From Ladim Require Import Base.Num Model.Protocol Corr.Run.
Import ListNotations.
Open Scope Z_scope.

Definition idx (m : modname) : Z :=
  match m with MState => 0 | MTime => 1 | MGrid => 2 | MForcing => 3 | MRelease => 4 | MTracker => 5 | MIbm => 6 | MOutput => 7 end.
Definition code (c : call) : Z :=
  match c with
  | Construct m => 10 + idx m
  | WarmStart => 1 | TimerUpdate => 2 | Compactify => 3 | ReleaseUpdate => 4 | ForceUpdate => 5
  | OutputUpdate false => 6 | OutputUpdate true => 7 | TrackerUpdate => 8 | IbmUpdate => 9
  | Close m => 20 + idx m
  end.

(** the value of timer.step seen by each call: -1 after construction (and before the clock exists), the
    clock's own log entry is made after it has advanced, the restore of a warm start is followed by
    timer.step = 0 *)
Fixpoint annotate (step : Z) (l : list call) : list Z :=
  match l with
  | [] => []
  | TimerUpdate :: r => code TimerUpdate :: (step + 1) :: annotate (step + 1) r
  | WarmStart :: r => code WarmStart :: step :: annotate 0 r
  | c :: r => code c :: step :: annotate step r
  end.

Fixpoint zlist_eqb (a b : list Z) : bool :=
  match a, b with
  | [], [] => true
  | x :: a', y :: b' => (x =? y) && zlist_eqb a' b'
  | _, _ => false
  end.

Fixpoint str_of (l : list Z) : string :=
  match l with [] => EmptyString | c :: r => String (ascii_of_nat (Z.to_nat c)) (str_of r) end.
(** length-prefixed string from the front of the stream *)
Definition take_str (l : list Z) : option (string * list Z) :=
  match l with
  | n :: r => if (0 <=? n) && (Z.of_nat (length r) >=? n)
              then Some (str_of (firstn (Z.to_nat n) r), skipn (Z.to_nat n) r) else None
  | [] => None
  end.

Definition nonempty (s : string) : bool := negb (String.eqb s EmptyString).

Definition check_load (l : list Z) : bool :=
  match take_str l with None => false | Some (given, l1) =>
  match take_str l1 with None => false | Some (existing, l2) =>
  match take_str l2 with None => false | Some (impname, l3) =>
  match l3 with [] => false | outcome :: l4 =>
  match take_str l4 with None => false | Some (ofile, l5) =>
  match take_str l5 with None => false | Some (oname, l6) =>
    let fe := fun s => nonempty existing && String.eqb s existing in
    let imp := fun s => nonempty impname && String.eqb s impname in
    match l6 with _ :: _ => false | [] =>
    match load_module fe imp given with
    | LoadFile path => (outcome =? 0) && String.eqb ofile path && String.eqb oname (internal_name path)
    | Import name => (outcome =? 1) && String.eqb oname name
    | Exit => outcome =? 2
    end end
  end end end end end end.

Definition check_case (c : list Z) : bool :=
  match c with
  | 1 :: warm :: N :: p :: hg :: hf :: hr :: ht :: hi :: ho :: observed =>
      let hc := fun m => match m with
                         | MState | MTime => false
                         | MGrid => hg =? 1 | MForcing => hf =? 1 | MRelease => hr =? 1
                         | MTracker => ht =? 1 | MIbm => hi =? 1 | MOutput => ho =? 1
                         end in
      zlist_eqb (annotate step_after_construction (run_trace (warm =? 1) N (due_period p) hc)) observed
  | 2 :: load => check_load load
  | 3 :: n :: rest =>
      (0 <=? n) && check_load (firstn (Z.to_nat n) rest) && check_load (skipn (Z.to_nat n) rest)
  | _ => false
  end.
