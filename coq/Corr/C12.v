(** Correspondence checker for C12: decodes a case written by harness/props/c12.py and compares the
    model (Model/VGrid.v) with what the real ladim/ROMS.py returned.
    A float is two integers (numerator, denominator) from float.as_integer_ratio().
    Case layouts (flat list of integers):
    - sdepth / Grid.z_r / Grid.z_w:
        1 :: vt :: st(0 rho | 1 w) :: exact(1|0) :: hc(2) :: N :: M :: C (2N) ::
             M blocks of  h(2) :: observed level depths (2N)
    - z2s (nearest rho-point + kernel):
        2 :: exact :: imax :: ncols :: N :: P :: ncols columns (2N each, C order J*imax+I) ::
             P blocks of  X(2) :: Y(2) :: Z(2) :: observed K :: observed A(2)
    - z2s_kernel on one column:
        3 :: exact :: N :: P :: column (2N) :: P blocks of  Z(2) :: observed K :: observed A(2)
    - verdict of an [interval]-checked s_stretch goal file (see c12.py):  4 :: ok
    - several of the above belonging to one generated set-up:  0 :: len1 :: case1 ++ len2 :: case2 ++ ...
    exact = 1: inputs are dyadic with few bits so every float operation of the code is exact and the
    comparison is [Qeq_bool]; exact = 0: [close 1e-9]. K is always compared exactly. *)
From Coq Require Import ZArith QArith List Bool.
From Ladim Require Import Base.Num Model.VGrid Corr.Run.
Import ListNotations.
Open Scope Z_scope.

Definition tol : Q := 1 # 1000000000.
Definition agree (exact : bool) (a b : Q) : bool := if exact then Qeq_bool a b else close tol a b.
Fixpoint agree_list (exact : bool) (a b : list Q) : bool :=
  match a, b with
  | [], [] => true
  | x :: r, y :: t => agree exact x y && agree_list exact r t
  | _, _ => false
  end.

(** read n floats *)
Fixpoint takeQ (n : nat) (l : list Z) : option (list Q * list Z) :=
  match n with
  | O => Some ([], l)
  | S m =>
      match l with
      | a :: b :: r =>
          match takeQ m r with
          | Some (qs, rest) => Some (mkQ a b :: qs, rest)
          | None => None
          end
      | _ => None
      end
  end.
(** read m columns of n floats *)
Fixpoint takeCols (m n : nat) (l : list Z) : option (list (list Q) * list Z) :=
  match m with
  | O => Some ([], l)
  | S k =>
      match takeQ n l with
      | Some (c, rest) =>
          match takeCols k n rest with
          | Some (cs, rest') => Some (c :: cs, rest')
          | None => None
          end
      | None => None
      end
  end.

Fixpoint check_columns (m : nat) (vt : Z) (st : stagger) (exact : bool) (hc : Q) (C : list Q)
                       (N : nat) (l : list Z) : bool :=
  match m with
  | O => match l with [] => true | _ => false end
  | S k =>
      match l with
      | hn :: hd :: r =>
          match takeQ N r with
          | Some (z, rest) =>
              agree_list exact (sdepth vt st hc (mkQ hn hd) C) z
              && check_columns k vt st exact hc C N rest
          | None => false
          end
      | _ => false
      end
  end.

Definition agree_KA (exact : bool) (m : Z * Q) (K : Z) (A : Q) : bool :=
  (fst m =? K) && agree exact (snd m) A.

Fixpoint check_particles (p : nat) (exact : bool) (imax : Z) (cols : list (list Q)) (l : list Z) : bool :=
  match p with
  | O => match l with [] => true | _ => false end
  | S k =>
      match l with
      | xn :: xd :: yn :: yd :: zn :: zd :: K :: an :: ad :: rest =>
          agree_KA exact (z2s imax cols (mkQ xn xd) (mkQ yn yd) (mkQ zn zd)) K (mkQ an ad)
          && check_particles k exact imax cols rest
      | _ => false
      end
  end.

Fixpoint check_depths (p : nat) (exact : bool) (zr : list Q) (l : list Z) : bool :=
  match p with
  | O => match l with [] => true | _ => false end
  | S k =>
      match l with
      | zn :: zd :: K :: an :: ad :: rest =>
          agree_KA exact (z2s_kernel zr (mkQ zn zd)) K (mkQ an ad)
          && check_depths k exact zr rest
      | _ => false
      end
  end.

Definition check_one (c : list Z) : bool :=
  match c with
  | 1 :: vt :: st :: ex :: hcn :: hcd :: N :: M :: rest =>
      match takeQ (Z.to_nat N) rest with
      | Some (C, rest') =>
          check_columns (Z.to_nat M) vt (if st =? 0 then Rho else W) (ex =? 1) (mkQ hcn hcd) C
                        (Z.to_nat N) rest'
      | None => false
      end
  | 2 :: ex :: imax :: ncols :: N :: P :: rest =>
      match takeCols (Z.to_nat ncols) (Z.to_nat N) rest with
      | Some (cols, rest') => check_particles (Z.to_nat P) (ex =? 1) imax cols rest'
      | None => false
      end
  | 3 :: ex :: N :: P :: rest =>
      match takeQ (Z.to_nat N) rest with
      | Some (zr, rest') => check_depths (Z.to_nat P) (ex =? 1) zr rest'
      | None => false
      end
  | [4; ok] => ok =? 1
  | _ => false
  end.

(** a bundle of cases; every step consumes at least the length field, so [length l] is enough fuel *)
Fixpoint check_multi (fuel : nat) (l : list Z) : bool :=
  match fuel with
  | O => false
  | S f =>
      match l with
      | [] => true
      | n :: r => check_one (firstn (Z.to_nat n) r) && check_multi f (skipn (Z.to_nat n) r)
      end
  end.

Definition check_case (c : list Z) : bool :=
  match c with
  | 0 :: r => check_multi (S (length r)) r
  | _ => check_one c
  end.
