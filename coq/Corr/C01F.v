(** Correspondence checker for C01 at the FLOAT level: the binary64 model Model/TrackerFloat.v of the horizontal
    step of [ladim.tracker.Tracker.update] (EF / RK2 / RK4, one coordinate) against what the REAL code did,
    BIT FOR BIT.  Cases are written by harness/props/c01_float.py, which drives the real [Tracker.update] for one
    particle with a stub forcing that records the positions and fractional steps it is asked at and returns
    prescribed velocities.

    "bits" = the IEEE-754 binary64 pattern of a float as a non-negative integer below 2^64
    (Python: int.from_bytes(struct.pack(">d", x), "big")).

    LAYOUT of a case (a list of integers):

        [ code ; Xb ; DTb ; DXb ; LOb ; HIb ;  U1b .. Unb ;  P1b .. Pkb ;  Fb ]

      code     the scheme: 0 = EF (n = 1, k = 0; 8 integers), 1 = RK2 (n = 2, k = 1; 10 integers),
               2 = RK4 (n = 4, k = 3; 14 integers);
               code + 8 (8, 9, 10): the same layout, but the case is declared OUTSIDE the hypotheses of the error
               theorems (NaN / infinite / huge / tiny inputs): only the bit-for-bit agreement is checked;
               3, 4: kernel-level cases, see below
      Xb       bits of the coordinate of the particle before the step (X[p], or Y[p] when the case is about Y)
      DTb      bits of the time step in seconds (tracker.dt)
      DXb      bits of the metric of the particle's cell in this direction (dx, or dy)
      LOb HIb  bits of the clip bounds the tracker used (tracker.xmin = grid.xmin + 0.01, tracker.xmax = grid.xmax - 0.01;
               ymin, ymax for Y)
      U1b..    bits of the velocity component the forcing RETURNED at stage 1 .. n
      P1b..    bits of the coordinate at which the real code ASKED the forcing at stage 2 .. n
               (stage 1 is always asked at X itself; the harness checks that, and the fractional steps, directly)
      Fb       bits of the coordinate after the step (state.X[p])

      code 3   [3 ; Xb ; FRACb ; Ub ; DTDXb ; LOb ; HIb ; Rb]: one call of the numba kernels [RKstep1] + [clip]
               (any frac, any bounds): Rb = bits of  max(min(X + frac * U * dtdx, hi), lo)
      code 4   [4 ; U1b ; U2b ; U3b ; U4b ; Rb]: one call of the numba kernel [RK4avg]

    [check_case] holds iff
      (1) all patterns are in range;
      (2) for code 0, 1, 2: the side conditions [step_ok] hold: x finite with |x| <= 2^1000, dt and the
          velocities finite and at most 2^100 in magnitude, dx finite with |dx| >= 2^-100, lo and hi finite --
          exactly the hypotheses of [ef_f_checked] / [rk2_f_checked] / [rk4_f_checked]
          (Proofs/TrackerFloatProofs.v), so every accepted case of these codes is an instance of the proved
          error bounds (Proofs/C01FSound.v states this for the observed values);
      (3) the model ([ef_f] / [rk2_f] / [rk4_f], resp. [stage_f], [rk4avg_f]) recomputed from the inputs gives
          stage positions and a final position with the SAME BITS as the observed ones: same class, sign,
          mantissa and exponent ([same_bits]; +0 and -0 are different; NaN equals NaN), and for non-NaN values
          [bits_of_float] of the model value is the observed integer itself.

    [check_bits] is (1) + (3) alone, [failing] returns the indices of the failing cases of a list.

    FAST INPUT PATH (as in Corr/C02F.v): [check_case_w : list int -> bool] takes the same numbers, each as TWO
    primitive integers (hi, lo) with value hi * 2^32 + lo, and is BY DEFINITION [check_case] of the
    recombined integers ([unwords]). *)
From Coq Require Import ZArith List Bool Floats Uint63.
From Ladim Require Import Model.TrilinearFloat Model.TrackerFloat.
Import ListNotations.
Open Scope Z_scope.

Definition pattern_ok (z : Z) : bool := (0 <=? z) && (z <? 2 ^ 64).

Definition result_agrees (model : float) (rb : Z) : bool :=
  same_bits model (float_of_bits rb) &&
  (is_nan model || (bits_of_float model =? rb)).

Fixpoint results_agree (models : list float) (rbs : list Z) : bool :=
  match models, rbs with
  | [], [] => true
  | m :: ms, r :: rs => result_agrees m r && results_agree ms rs
  | _, _ => false
  end.

(** the scheme of a case code (codes 8, 9, 10 are 0, 1, 2 without side conditions) *)
Definition scheme_of (code : Z) : Z := if 8 <=? code then code - 8 else code.
Definition n_vel (scheme : Z) : nat :=
  match scheme with 0 => 1%nat | 1 => 2%nat | 2 => 4%nat | _ => 0%nat end.

(** split the tail of a step case: n velocities, then the stage positions, then the final position *)
Definition split_step (scheme : Z) (rest : list Z) : option (list Z * list Z * Z) :=
  let n := n_vel scheme in
  let us := firstn n rest in
  let tl := skipn n rest in
  match rev tl with
  | fb :: rps => if (Nat.eqb (length us) n) && (Nat.eqb (length rps) (n - 1)) then Some (us, rev rps, fb) else None
  | [] => None
  end.

Definition check_bits (c : list Z) : bool :=
  match c with
  | [3; xb; fracb; ub; gb; lob; hib; rb] =>
      forallb pattern_ok [xb; fracb; ub; gb; lob; hib; rb] &&
      result_agrees (stage_f (float_of_bits xb) (float_of_bits fracb) (float_of_bits ub) (float_of_bits gb)
                       (float_of_bits lob) (float_of_bits hib)) rb
  | [4; u1; u2; u3; u4; rb] =>
      forallb pattern_ok [u1; u2; u3; u4; rb] &&
      result_agrees (rk4avg_f (float_of_bits u1) (float_of_bits u2) (float_of_bits u3) (float_of_bits u4)) rb
  | code :: xb :: dtb :: dxb :: lob :: hib :: rest =>
      let scheme := scheme_of code in
      match split_step scheme rest with
      | Some (us, ps, fb) =>
          forallb pattern_ok (xb :: dtb :: dxb :: lob :: hib :: rest) &&
          match step_f scheme (float_of_bits xb) (float_of_bits dtb) (float_of_bits dxb)
                  (float_of_bits lob) (float_of_bits hib) (List.map float_of_bits us) with
          | Some (stages, final) => results_agree stages ps && result_agrees final fb
          | None => false
          end
      | None => false
      end
  | _ => false
  end.

Definition check_side (c : list Z) : bool :=
  match c with
  | code :: xb :: dtb :: dxb :: lob :: hib :: rest =>
      if (0 <=? code) && (code <=? 2) then
        match split_step code rest with
        | Some (us, _, _) =>
            step_ok (float_of_bits xb) (float_of_bits dtb) (float_of_bits dxb) (float_of_bits lob) (float_of_bits hib)
              (List.map float_of_bits us)
        | None => false
        end
      else (code =? 3) || (code =? 4) || ((8 <=? code) && (code <=? 10))
  | _ => false
  end.

Definition check_case (c : list Z) : bool := check_side c && check_bits c.

(** indices (from 0) of the cases a checker rejects *)
Fixpoint failing_from (chk : list Z -> bool) (n : Z) (l : list (list Z)) : list Z :=
  match l with
  | [] => []
  | c :: r => if chk c then failing_from chk (n + 1) r else n :: failing_from chk (n + 1) r
  end.
Definition failing (l : list (list Z)) : list Z := failing_from check_case 0 l.
Definition failing_bits (l : list (list Z)) : list Z := failing_from check_bits 0 l.

(** the fast input path: pairs of primitive integers (hi, lo) -> hi * 2^32 + lo *)
Fixpoint unwords (l : list int) : list Z :=
  match l with
  | hi :: lo :: r => (Uint63.to_Z hi * 4294967296 + Uint63.to_Z lo) :: unwords r
  | _ => []
  end.
Definition check_case_w (c : list int) : bool := Nat.even (length c) && check_case (unwords c).
Fixpoint failing_w_from (n : Z) (l : list (list int)) : list Z :=
  match l with
  | [] => []
  | c :: r => if check_case_w c then failing_w_from (n + 1) r else n :: failing_w_from (n + 1) r
  end.
Definition failing_w (l : list (list int)) : list Z := failing_w_from 0 l.

(** ** sanity (the numbers of the examples of Model/TrackerFloat.v: x = 1, dt = 60, dx = 100, box [0.01, 9.99])
    1.0 = 4607182418800017408, 60.0 = 4633641066610819072, 100.0 = 4636737291354636288,
    0.01 = 4576918229304087675, 9.99 = 4621813488089437307, 0.5 = 4602678819172646912, 0.25 = 4598175219545276416,
    0.3 = 4599075939470750515, 0.1 = 4591870180066957722 *)
(** EF with u = 0.5 ends at 1.3 = 4608533498688228557 *)
Example check_ef :
  check_case [0; 4607182418800017408; 4633641066610819072; 4636737291354636288; 4576918229304087675; 4621813488089437307;
              4602678819172646912; 4608533498688228557] = true.
Proof. vm_compute. reflexivity. Qed.
(** RK2 with u = 0.5, 0.25: asked at 1.15 = 4607857958744122982, ends at 1.15 *)
Example check_rk2 :
  check_case [1; 4607182418800017408; 4633641066610819072; 4636737291354636288; 4576918229304087675; 4621813488089437307;
              4602678819172646912; 4598175219545276416; 4607857958744122982; 4607857958744122982] = true.
Proof. vm_compute. reflexivity. Qed.
(** RK4 with u = 0.5, 0.25, 0.3, 0.1: asked at 1.15, 1.075 = 4607520188772070195, 1.18 = 4607993066732944097,
    ends at 1.17 = 4607948030736670392 *)
Example check_rk4 :
  check_case [2; 4607182418800017408; 4633641066610819072; 4636737291354636288; 4576918229304087675; 4621813488089437307;
              4602678819172646912; 4598175219545276416; 4599075939470750515; 4591870180066957722;
              4607857958744122982; 4607520188772070195; 4607993066732944097; 4607948030736670392] = true.
Proof. vm_compute. reflexivity. Qed.
(** a final position off by one unit in the last place, or a stage position off by one, is rejected *)
Example check_rk4_ulp :
  check_case [2; 4607182418800017408; 4633641066610819072; 4636737291354636288; 4576918229304087675; 4621813488089437307;
              4602678819172646912; 4598175219545276416; 4599075939470750515; 4591870180066957722;
              4607857958744122982; 4607520188772070195; 4607993066732944097; 4607948030736670393] = false /\
  check_case [2; 4607182418800017408; 4633641066610819072; 4636737291354636288; 4576918229304087675; 4621813488089437307;
              4602678819172646912; 4598175219545276416; 4599075939470750515; 4591870180066957722;
              4607857958744122982; 4607520188772070194; 4607993066732944097; 4607948030736670392] = false.
Proof. vm_compute. split; reflexivity. Qed.
(** the wrong number of integers for the scheme is rejected *)
Example check_length :
  check_case [1; 4607182418800017408; 4633641066610819072; 4636737291354636288; 4576918229304087675; 4621813488089437307;
              4602678819172646912; 4608533498688228557] = false.
Proof. vm_compute. reflexivity. Qed.
(** a NaN velocity: rejected by the side conditions under code 0, accepted (bits agree: NaN) under code 8 *)
Example check_wild :
  check_case [0; 4607182418800017408; 4633641066610819072; 4636737291354636288; 4576918229304087675; 4621813488089437307;
              9221120237041090560; 9221120237041090560] = false /\
  check_case [8; 4607182418800017408; 4633641066610819072; 4636737291354636288; 4576918229304087675; 4621813488089437307;
              9221120237041090560; 9221120237041090560] = true.
Proof. vm_compute. split; reflexivity. Qed.
(** kernel-level: clip(-0.0 + 1 * (-0.0) * 1, lo = +0.0, hi = 1) keeps -0.0 (min/max keep their first argument on ties);
    RK4avg(1, 1, 1, 1) = 1 *)
Example check_kernels :
  check_case [3; 9223372036854775808; 4607182418800017408; 9223372036854775808; 4607182418800017408; 0; 4607182418800017408; 9223372036854775808] = true /\
  check_case [3; 9223372036854775808; 4607182418800017408; 9223372036854775808; 4607182418800017408; 0; 4607182418800017408; 0] = false /\
  check_case [4; 4607182418800017408; 4607182418800017408; 4607182418800017408; 4607182418800017408; 4607182418800017408] = true.
Proof. vm_compute. repeat split; reflexivity. Qed.
Example check_words :
  check_case_w [0; 0; 1072693248; 0; 1078853632; 0; 1079574528; 0; 1065646817; 1202590843; 1076099809; 1202590843;
                1071644672; 0; 1073007820; 3435973837]%uint63 = true.
Proof. vm_compute. reflexivity. Qed.
