(** Correspondence checker for C16: decodes a case written by harness/props/c16.py and compares
    Model/Geo.v with what the implementation returned.
    A float is two integers (numerator, denominator).  [mode] 0 = exact stream (dyadic inputs, results
    must be equal as rationals), 1 = general stream (relative tolerance 1e-9 on a single evaluation /
    a single Newton pass, 1e-6 on whole runs of the iteration).

    kind 1 (sample2D):  1 mode nr nc F.. hasmask [mr mc M..] undef hasout out npts {x y obs v}*
        obs: 0 value v | 1 ValueError(point outside grid) | 2 ValueError(mask shape) | 3 IndexError
    kind 2 (bilin_inv, one trajectory per point: the results for maxiter = 0, 1, 2, ...):
        2 mode nr nc F.. G.. tol npts {f g nst {sk x y}*nst chain maxiter}*
        sk: 0 values | 1 IndexError (never agrees with the model) | 2 non-finite
    kind 3 (Grid on a subgrid of full arrays):
        3 mode NR NC LON.. LAT.. i0 i1 j0 j1 npts {ptype a b obs c d [xp yp]}*
        ptype 0: xy2ll(X=a, Y=b) -> obs 0: lon=c, lat=d | obs 1: ValueError
        ptype 1: ll2xy(lon=a, lat=b) -> obs 0: X=c, Y=d | obs 1: IndexError (never agrees); whole iteration
        ptype 2: ll2xy(lon=a, lat=b) = (X=c, Y=d), checked as ONE pass of the model from (xp, yp), the
                 result of bilin_inv on the grid's own arrays with one pass less: covers slicing, the
                 default tol, the exchange of the axes and the offsets on grids where whole runs in
                 exact rationals are too large *)
From Coq Require Import ZArith QArith List Bool.
From Ladim Require Import Base.Num Model.Geo Corr.Run.
Import ListNotations.
Open Scope Z_scope.

Fixpoint takeQ (n : nat) (l : list Z) : list Q * list Z :=
  match n, l with
  | O, _ => ([], l)
  | S k, a :: b :: r => let '(qs, r') := takeQ k r in (mkQ a b :: qs, r')
  | S _, _ => ([], [])
  end.
Definition readArr (nr nc : Z) (l : list Z) : arr2 * list Z :=
  let '(qs, r) := takeQ (Z.to_nat (nr * nc)) l in (mkArr nr nc qs, r).

Definition tol9 : Q := 1 # 1000000000.
Definition tol6 : Q := 1 # 1000000.
Definition cmp (mode : Z) (tol : Q) (a b : Q) : bool := if mode =? 0 then Qeq_bool a b else close tol a b.

(** ** kind 1 *)
Definition sres_matches (mode : Z) (r : sres) (obs : Z) (v : Q) : bool :=
  match r with
  | SVal m => (obs =? 0) && cmp mode tol9 m v
  | SOutside => obs =? 1
  | SBadMask => obs =? 2
  | SIndex => obs =? 3
  end.
Fixpoint s2d_points (fuel : nat) (mode : Z) (F : arr2) (mask : option arr2) (undef : Q) (outv : option Q)
         (l : list Z) : bool :=
  match fuel, l with
  | O, [] => true
  | S k, xn :: xd :: yn :: yd :: obs :: vn :: vd :: r =>
      sres_matches mode (sample2D F mask undef outv (mkQ xn xd) (mkQ yn yd)) obs (mkQ vn vd)
      && s2d_points k mode F mask undef outv r
  | _, _ => false
  end.
Definition check_s2d (mode : Z) (l : list Z) : bool :=
  match l with
  | nr :: nc :: r =>
      let '(F, r) := readArr nr nc r in
      match r with
      | hasmask :: r =>
          let '(mask, r) :=
            if hasmask =? 1 then
              match r with
              | mr :: mc :: r' => let '(M, r'') := readArr mr mc r' in (Some M, r'')
              | _ => (None, [])
              end
            else (None, r) in
          match r with
          | un :: ud :: hasout :: on :: od :: npts :: r =>
              s2d_points (Z.to_nat npts) mode F mask (mkQ un ud)
                         (if hasout =? 1 then Some (mkQ on od) else None) r
          | _ => false
          end
      | _ => false
      end
  | _ => false
  end.

(** ** kind 2 *)
(** previous state (sk x y), next state (sk' x' y') *)
Definition square_ok (mode : Z) (f g : Q) (F G : arr2) (tol : Q) (sk : Z) (x y : Q) (sk' : Z) (x' y' : Q) : bool :=
  if sk =? 0 then
    match bilin_step f g F G tol x y with
    | StStop => (sk' =? 0) && Qeq_bool x' x && Qeq_bool y' y
    | StNext mx my => (sk' =? 0) && cmp mode tol9 mx x' && cmp mode tol9 my y'
    | StLeft => false
    | StSingular => true
    end
  else if sk =? 1 then false
  else true.

(** consume [n] further states; returns (ok, last state, rest) *)
Fixpoint traj (n : nat) (mode : Z) (f g : Q) (F G : arr2) (tol : Q) (sk : Z) (x y : Q) (l : list Z)
  : bool * (Z * Q * Q) * list Z :=
  match n with
  | O => (true, (sk, x, y), l)
  | S k =>
      match l with
      | sk' :: xn :: xd :: yn :: yd :: r =>
          let x' := mkQ xn xd in let y' := mkQ yn yd in
          let '(ok, last, r') := traj k mode f g F G tol sk' x' y' r in
          (square_ok mode f g F G tol sk x y sk' x' y' && ok, last, r')
      | _ => (false, (sk, x, y), [])
      end
  end.

Definition chain_ok (mode : Z) (f g : Q) (F G : arr2) (maxiter : Z) (tol : Q) (last : Z * Q * Q) : bool :=
  let '(sk, x, y) := last in
  match bilin_inv f g F G maxiter tol with
  | BDone mx my _ => (sk =? 0) && cmp mode tol6 mx x && cmp mode tol6 my y
  | BLeft _ _ => false
  | BSingular _ _ => true
  | BShape => false
  end.

Fixpoint binv_points (fuel : nat) (mode : Z) (F G : arr2) (tol : Q) (l : list Z) : bool :=
  match fuel, l with
  | O, [] => true
  | S k, fn :: fd :: gn :: gd :: nst :: s0 :: xn :: xd :: yn :: yd :: r =>
      let f := mkQ fn fd in let g := mkQ gn gd in
      let x0 := mkQ xn xd in let y0 := mkQ yn yd in
      (* maxiter = 0 returns the initial guess *)
      let ok0 := (s0 =? 0) && Qeq_bool x0 (fst (bilin_start F)) && Qeq_bool y0 (snd (bilin_start F)) in
      let '(ok, last, r') := traj (Z.to_nat (nst - 1)) mode f g F G tol s0 x0 y0 r in
      match r' with
      | chain :: maxiter :: r'' =>
          ok0 && ok && (if chain =? 1 then chain_ok mode f g F G maxiter tol last else true)
          && binv_points k mode F G tol r''
      | _ => false
      end
  | _, _ => false
  end.
Definition check_binv (mode : Z) (l : list Z) : bool :=
  match l with
  | nr :: nc :: r =>
      let '(F, r) := readArr nr nc r in
      let '(G, r) := readArr nr nc r in
      match r with
      | tn :: td :: npts :: r => binv_points (Z.to_nat npts) mode F G (mkQ tn td) r
      | _ => false
      end
  | _ => false
  end.

(** ** kind 3 *)
Definition grid_point (mode : Z) (g : grid) (ptype : Z) (a b : Q) (obs : Z) (c d : Q) (xp yp : Q) : bool :=
  if ptype =? 0 then
    match xy2ll g a b with
    | (SVal lo, SVal la) => (obs =? 0) && cmp mode tol9 lo c && cmp mode tol9 la d
    | (SOutside, _) | (_, SOutside) => obs =? 1
    | _ => false
    end
  else if ptype =? 1 then
    match ll2xy g a b with
    | BDone X Y _ => (obs =? 0) && cmp mode tol6 X c && cmp mode tol6 Y d
    | BLeft _ _ => false
    | BSingular _ _ => true
    | BShape => false
    end
  else
    match bilin_step a b (glon g) (glat g) default_tol xp yp with
    | StStop => (obs =? 0) && cmp mode tol9 (yp + inject_Z (gi0 g)) c && cmp mode tol9 (xp + inject_Z (gj0 g)) d
    | StNext x' y' => (obs =? 0) && cmp mode tol9 (y' + inject_Z (gi0 g)) c && cmp mode tol9 (x' + inject_Z (gj0 g)) d
    | StLeft => false
    | StSingular => true
    end.
Fixpoint grid_points (fuel : nat) (mode : Z) (g : grid) (l : list Z) : bool :=
  match fuel, l with
  | O, [] => true
  | S k, ptype :: an :: ad :: bn :: bd :: obs :: cn :: cd :: dn :: dd :: r =>
      let a := mkQ an ad in let b := mkQ bn bd in let c := mkQ cn cd in let d := mkQ dn dd in
      if ptype =? 2 then
        match r with
        | xn :: xd :: yn :: yd :: r' =>
            grid_point mode g ptype a b obs c d (mkQ xn xd) (mkQ yn yd) && grid_points k mode g r'
        | _ => false
        end
      else grid_point mode g ptype a b obs c d 0%Q 0%Q && grid_points k mode g r
  | _, _ => false
  end.
Definition check_grid (mode : Z) (l : list Z) : bool :=
  match l with
  | NR :: NC :: r =>
      let '(LON, r) := readArr NR NC r in
      let '(LAT, r) := readArr NR NC r in
      match r with
      | i0 :: i1 :: j0 :: j1 :: npts :: r => grid_points (Z.to_nat npts) mode (load_grid LON LAT i0 i1 j0 j1) r
      | _ => false
      end
  | _ => false
  end.

Definition check_case (c : list Z) : bool :=
  match c with
  | 1 :: mode :: r => check_s2d mode r
  | 2 :: mode :: r => check_binv mode r
  | 3 :: mode :: r => check_grid mode r
  | _ => false
  end.
