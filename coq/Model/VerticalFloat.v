(** Executable binary64 models of two small pieces of float code whose invariants hold EXACTLY in binary64
    (no rounding delta), because rounding to nearest is monotone.

    (A) Vertical movement with reflecting boundaries, /repo/ladim/tracker.py, [Tracker.update] (property C15):

            Z += W * self.dt            # vertical diffusion (W random), and/or
            Z += W * self.dt            # vertical advection (W = forcing "w")
            Z[Z < 0] *= -1              # reflect at the surface
            below_seabed = Z > h
            Z[below_seabed] = 2 * h[below_seabed] - Z[below_seabed]       # reflect at the bottom

        [reflect_f z1 h] is the pair of reflections, in exactly this order; [vstep_f z w dt h] one displacement
        followed by the reflections, [vstep2_f z w1 w2 dt h] two displacements (w1 * dt first, then w2 * dt).
        The surface reflection is the float product z1 * (-1.0) (numpy casts the integer -1 to float64), the
        bottom reflection is the float product 2.0 * h followed by one subtraction; the comparison [Z > h] is
        [h <? Z] (false for NaN either way).

    (B) The level search and its weight, /repo/ladim/ROMS.py, [z2s_kernel] (property C12):

            zr = z_rho[:, J[n], I[n]]
            k = np.searchsorted(zr, -Z[n])
            if k == zr.size:  K[n] = k - 1 ; A[n] = 0
            elif k > 0:       K[n] = k     ; A[n] = (zr[k] + Z[n]) / (zr[k] - zr[k - 1])
            (else K[n] = 1, A[n] = 1 by initialisation)

        [searchsorted_left] is the BINARY search numba compiles (numba/np/arraymath.py [_searchsorted], a
        facsimile of numpy's binsearch.cpp):
            while lo < hi:  mid = lo + ((hi - lo) >> 1);  if lt(a[mid], key): lo = mid + 1  else: hi = mid
        with numba's float ordering [lt_floats a b = a < b or (isnan b and not isnan a)] ([lt_key]).
        [count_lt] is its specification on sorted arrays (the number of leading elements below the key);
        Proofs/VerticalFloatProofs.v shows they agree on sorted arrays.
        [z2s_f zr z] returns the pair (K, A).

    Everything is over Coq's primitive floats (IEEE-754 binary64, round to nearest even, one rounding per
    operation).  No proofs here except computational sanity examples. *)
From Coq Require Import ZArith Floats Uint63 List Bool.
From Ladim Require Import Model.TrilinearFloat.
Import ListNotations.
Open Scope float_scope.

(** * (A) vertical step *)

(** the two reflections *)
Definition reflect_f (z1 h : float) : float :=
  let z2 := if z1 <? 0 then z1 * (-1) else z1 in
  if h <? z2 then 2 * h - z2 else z2.

(** one displacement ([Z += W * dt]), then the reflections *)
Definition vdisp_f (z w dt : float) : float := z + w * dt.
Definition vstep_f (z w dt h : float) : float := reflect_f (vdisp_f z w dt) h.
(** two displacements (diffusion then advection), then the reflections *)
Definition vstep2_f (z w1 w2 dt h : float) : float := reflect_f (vdisp_f (vdisp_f z w1 dt) w2 dt) h.

(** computable side conditions = the hypotheses of [reflect_f_bounds] / [vstep_f_bounds]:
    h finite, 0 < h <= 2^1000; z finite with 0 <= z <= h; the ROUNDED displaced depth z1 finite with
    -h <= z1 <= 2 h  (2 * h and - h are computed exactly, see the proofs) *)
Definition depth_ok (h : float) : bool := is_finite h && (0 <? h) && (h <=? two1000).
Definition start_ok (z h : float) : bool := is_finite z && (0 <=? z) && (z <=? h).
Definition disp_ok (z1 h : float) : bool := is_finite z1 && (- h <=? z1) && (z1 <=? 2 * h).
Definition vstep_ok (z w dt h : float) : bool :=
  depth_ok h && start_ok z h && disp_ok (vdisp_f z w dt) h.
Definition vstep2_ok (z w1 w2 dt h : float) : bool :=
  depth_ok h && start_ok z h && disp_ok (vdisp_f (vdisp_f z w1 dt) w2 dt) h.
(** the invariant itself, as a boolean on a float: finite and 0 <= r <= h *)
Definition in_column (r h : float) : bool := is_finite r && (0 <=? r) && (r <=? h).

(** * (B) level search *)

(** numba's [lt_floats]: NaN is larger than everything *)
Definition lt_key (a b : float) : bool := (a <? b) || (is_nan b && negb (is_nan a)).

Fixpoint bsearch (fuel : nat) (l : list float) (v : float) (lo hi : nat) : nat :=
  match fuel with
  | O => lo
  | S f =>
      if Nat.ltb lo hi then
        let mid := (lo + Nat.div2 (hi - lo))%nat in
        if lt_key (nth mid l nan) v then bsearch f l v (S mid) hi else bsearch f l v lo mid
      else lo
  end.

(** [np.searchsorted(zr, v)] (side = 'left'); [length l] iterations are more than enough (the interval
    shrinks by at least one element per iteration) *)
Definition searchsorted_left (l : list float) (v : float) : nat := bsearch (length l) l v 0 (length l).

(** the specification on sorted arrays: number of leading elements below the key *)
Fixpoint count_lt (l : list float) (v : float) : nat :=
  match l with
  | [] => O
  | a :: r => if lt_key a v then S (count_lt r v) else O
  end.

Definition z2s_f (zr : list float) (z : float) : Z * float :=
  let n := length zr in
  let k := searchsorted_left zr (- z) in
  if Nat.eqb k n then ((Z.of_nat k - 1)%Z, 0)
  else if Nat.ltb 0 k then
    (Z.of_nat k, (nth k zr nan + z) / (nth k zr nan - nth (k - 1) zr nan))
  else (1%Z, 1).

(** computable side conditions = the hypotheses of [z2s_f_bounds]: at least two levels, every level finite and
    at most 2^1022 in magnitude (so that a difference of two levels cannot overflow), NON-DECREASING (a strictly
    increasing column, the ROMS case, in particular: equal neighbours are harmless because the search returns k
    with zr[k-1] < -z <= zr[k], so the two levels it divides by are always distinct); z finite *)
Definition two1022 : float := Z.ldexp 1 1022.
Definition level_ok (a : float) : bool := is_finite a && (abs a <=? two1022).
Fixpoint nondecreasing (l : list float) : bool :=
  match l with
  | a :: ((b :: _) as r) => (a <=? b) && nondecreasing r
  | _ => true
  end.
Definition z2s_ok (zr : list float) (z : float) : bool :=
  Nat.leb 2 (length zr) && forallb level_ok zr && nondecreasing zr && is_finite z.
(** the invariant as a boolean: 1 <= K <= N - 1, A finite, 0 <= A <= 1 *)
Definition z2s_inv (n : nat) (ka : Z * float) : bool :=
  let (k, a) := ka in
  (1 <=? k)%Z && (k <=? Z.of_nat n - 1)%Z && is_finite a && (0 <=? a) && (a <=? 1).

(** the depth the pair (K, A) stands for, as [ladim.ROMS.trilinear]/[sample3D] combine two levels:
    A * zr[K-1] + (1 - A) * zr[K]  ([lerp_f] of Model/TrilinearFloat.v) *)
Definition z2s_depth_f (zr : list float) (ka : Z * float) : float :=
  let (k, a) := ka in
  lerp_f a (nth (Z.to_nat k - 1) zr nan) (nth (Z.to_nat k) zr nan).

(** * Sanity examples *)
#[local] Set Warnings "-inexact-float".

(** inside the column nothing happens; above the surface: negation; below the bottom: 2 h - z *)
Example vstep_inside : same_bits (vstep_f 10 0.5 2 100) 11 = true. Proof. vm_compute. reflexivity. Qed.
Example vstep_surface : same_bits (vstep_f 1 (-2) 2 100) 3 = true. Proof. vm_compute. reflexivity. Qed.
Example vstep_bottom : same_bits (vstep_f 99 2 2 100) 97 = true. Proof. vm_compute. reflexivity. Qed.
Example vstep2_example : same_bits (vstep2_f 99 2 (-1) 2 100) 99 = true. Proof. vm_compute. reflexivity. Qed.
(** -0.0 is not below the surface ([-0.0 < 0] is false): it stays -0.0 *)
Example reflect_negzero : same_bits (reflect_f (-0) 100) (-0) = true. Proof. vm_compute. reflexivity. Qed.

(** three levels -10, -5, -1: the cases of the kernel *)
Example z2s_above_top : z2s_f [-10; -5; -1] 0.5 = (2%Z, 0). Proof. vm_compute. reflexivity. Qed.
Example z2s_on_top : z2s_f [-10; -5; -1] 1 = (2%Z, 0). Proof. vm_compute. reflexivity. Qed.
Example z2s_middle : z2s_f [-10; -5; -1] 3 = (2%Z, 0.5). Proof. vm_compute. reflexivity. Qed.
Example z2s_on_level : z2s_f [-10; -5; -1] 5 = (1%Z, 0). Proof. vm_compute. reflexivity. Qed.
Example z2s_lower : fst (z2s_f [-10; -5; -1] 7) = 1%Z /\ bits_of_float (snd (z2s_f [-10; -5; -1] 7)) = bits_of_float 0.4.
Proof. vm_compute. split; reflexivity. Qed.
Example z2s_bottom : z2s_f [-10; -5; -1] 10 = (1%Z, 1). Proof. vm_compute. reflexivity. Qed.
Example z2s_below_bottom : z2s_f [-10; -5; -1] 12 = (1%Z, 1). Proof. vm_compute. reflexivity. Qed.
(** a NaN depth is "larger than everything" for the search: k = N, so K = N - 1, A = 0 (as the real kernel) *)
Example z2s_nan : z2s_f [-10; -5; -1] nan = (2%Z, 0). Proof. vm_compute. reflexivity. Qed.
(** binary search and its specification agree here *)
Example search_agree :
  map (searchsorted_left [-10; -5; -1; -0.5]) [-11; -10; -7; -5; -1; -0.75; -0.5; 0; nan] =
  map (count_lt [-10; -5; -1; -0.5]) [-11; -10; -7; -5; -1; -0.75; -0.5; 0; nan].
Proof. vm_compute. reflexivity. Qed.
