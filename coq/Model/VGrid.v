(** Model/VGrid.v — ROMS vertical grid in exact rationals (ladim/ROMS.py: [sdepth], [z2s], [z2s_kernel]).
    Definitions only.  Real-valued quantities are [Q]; float rounding is not modelled.
    The stretching array C is an input (a [list Q]); the stretching curves themselves are
    transcendental and live in Model/VStretch.v (over [R]). *)
From Coq Require Import ZArith QArith List Bool.
From Ladim Require Import Base.Num.
Import ListNotations.
Open Scope Z_scope.

(** * Predicates on level lists (boolean, so that examples are checked by computation) *)
(** strictly increasing: l[i] < l[i+1] *)
Fixpoint increasing (l : list Q) : bool :=
  match l with
  | a :: ((b :: _) as r) => Qlt_bool a b && increasing r
  | _ => true
  end.
(** every element inside [lo, hi] *)
Definition within (lo hi : Q) (l : list Q) : bool :=
  forallb (fun x => Qle_bool lo x && Qle_bool x hi) l.
(** w[k] < r[k] < w[k+1] for all k, with length w = length r + 1 *)
Fixpoint interleaved (w r : list Q) : bool :=
  match w, r with
  | [_], [] => true
  | w0 :: ((w1 :: _) as w'), r0 :: r' => Qlt_bool w0 r0 && Qlt_bool r0 w1 && interleaved w' r'
  | _, _ => false
  end.
Definition headQ (l : list Q) : Q := hd 0%Q l.
Definition lastQ (l : list Q) : Q := last l 0%Q.
(** z[k] with Python-free indexing (only used with 0 <= k < length) *)
Definition nthQ (l : list Q) (k : Z) : Q := nth (Z.to_nat k) l 0%Q.

(** * Unstretched abscissae S *)
Inductive stagger := Rho | W.
(** rho: [S = -1.0 + (0.5 + np.arange(N)) / N] *)
Definition S_rho (N k : Z) : Q := (-(1) + ((1#2) + inject_Z k) / inject_Z N)%Q.
(** w: [S = np.linspace(-1.0, 0.0, N)]  =  -1 + k * (1/(N-1))  (N = 1 gives [-1]; in Q, x/0 = 0) *)
Definition S_w (N k : Z) : Q := (-(1) + inject_Z k / inject_Z (N - 1))%Q.
Definition S_at (st : stagger) (N k : Z) : Q :=
  match st with Rho => S_rho N k | W => S_w N k end.

(** * sdepth: depth of the levels of one water column of depth h *)
(** Vtransform 1 (Song & Haidvogel): [A = Hc*(S - C); B = C*H; A + B] *)
Definition zlevel1 (hc h s c : Q) : Q := (hc * (s - c) + c * h)%Q.
(** Vtransform 2 (Shchepetkin): [A = Hc*S + C*H; B = 1 + Hc/H; A / B] *)
Definition zlevel2 (hc h s c : Q) : Q := ((hc * s + c * h) / (1 + hc / h))%Q.
Definition zlevel (vt : Z) : Q -> Q -> Q -> Q -> Q :=
  if vt =? 1 then zlevel1 else zlevel2.

(** admissible parameters: h > 0, hc >= 0, and hc <= h for Vtransform 1; Vtransform is 1 or 2 *)
Definition vparams_ok (vt : Z) (hc h : Q) : bool :=
  Qlt_bool 0 h && Qle_bool 0 hc && (if vt =? 1 then Qle_bool hc h else vt =? 2).

(** walk along C with the running level number k, using abscissa [sf k] *)
Fixpoint sdepth_aux (f : Q -> Q -> Q) (sf : Z -> Q) (k : Z) (C : list Q) : list Q :=
  match C with
  | [] => []
  | c :: r => f (sf k) c :: sdepth_aux f sf (k + 1) r
  end.
(** [sdepth(H, Hc, C, stagger, Vtransform)] for a single column H = h; N = len(C) *)
Definition sdepth (vt : Z) (st : stagger) (hc h : Q) (C : list Q) : list Q :=
  let N := Z.of_nat (length C) in
  sdepth_aux (zlevel vt hc h) (S_at st N) 0 C.

(** * searchsorted and the level lookup *)
(** [np.searchsorted(a, v)] (side='left'): for sorted a the first index i with v <= a[i], len(a) if none.
    Linear scan over the leading elements that are < v. *)
Fixpoint searchsorted_left (a : list Q) (v : Q) : Z :=
  match a with
  | [] => 0
  | x :: r => if Qlt_bool x v then 1 + searchsorted_left r v else 0
  end.

(** body of the loop of [z2s_kernel] for one particle: column zr, depth Zp (positive downwards) *)
Definition z2s_kernel (zr : list Q) (Zp : Q) : Z * Q :=
  let k := searchsorted_left zr (- Zp)%Q in
  if k =? Z.of_nat (length zr) then (k - 1, 0%Q)
  else if 0 <? k then (k, ((nthQ zr k + Zp) / (nthQ zr k - nthQ zr (k - 1)))%Q)
  else (1, 1%Q).                                     (* k = 0: K = A = 1 by declaration *)

(** [z2s(z_rho, X, Y, Z)]: nearest rho-point by round-half-even, then the kernel.
    z_rho is given as the list of its columns in C order, column (J, I) at position J*imax + I. *)
Definition column (imax : Z) (cols : list (list Q)) (J I : Z) : list Q :=
  nth (Z.to_nat (J * imax + I)) cols [].
Definition z2s (imax : Z) (cols : list (list Q)) (X Y Zp : Q) : Z * Q :=
  let I := qround X in
  let J := qround Y in
  z2s_kernel (column imax cols J I) Zp.

(** weighted level depth of a lookup result and the clamped particle depth (specification side) *)
Definition weighted_depth (zr : list Q) (KA : Z * Q) : Q :=
  let (K, A) := KA in (A * nthQ zr (K - 1) + (1 - A) * nthQ zr K)%Q.
Definition clamped_depth (zr : list Q) (Zp : Q) : Q := clamp (headQ zr) (lastQ zr) (- Zp)%Q.
