(** Model/Diffusion.v — ladim/tracker.py: the random-walk part of [Tracker.update]
    ([Tracker.__init__] switches, [diffuse], [diffuse_vert], the conversion U*dt/dx and W*dt).
    Definitions only.

    The generator [self.rng] is modelled by a cursor [k : Z] into an abstract stream of draws
    [xi : Z -> Q] (a Section variable; a list for execution).  [rng.normal(size=n)] started at cursor
    [k] hands out the draws [k, k+n) in order and leaves the cursor at [k+n].
    The standard deviation [(2*D/dt)**0.5] is not a rational function; it enters the executable
    model as an input [sd] (the number the code computed) and the theorems speak about its square:
    [sd2 = 2*D/dt], and the squared displacement coefficients [cx2 = 2*D*dt/dx^2], [cz2 = 2*Dz*dt].
    The identity with [sqrt] is proved over [R] in Proofs/DiffusionProofs.v. *)
From Coq Require Import ZArith QArith Qabs List Bool.
From Ladim Require Import Base.Num.
Import ListNotations.
Open Scope Z_scope.

(** * Switches:  [self.diffusion = bool(diffusion > 0)], [self.vertdiff = bool(vertdiff > 0)] *)
Definition switch (D : Q) : bool := Qlt_bool 0 D.

(** * Squared coefficients *)
(** square of the diffusive velocity [stddev = (2*D/dt)**0.5] *)
Definition sd2 (D dt : Q) : Q := (2 * D / dt)%Q.
(** square of the horizontal displacement per unit draw, in grid units: (stddev*dt/dx)^2 *)
Definition cx2 (D dt dx : Q) : Q := (2 * D * dt / (dx * dx))%Q.
(** square of the vertical displacement per unit draw, in metres: (stddev_z*dt)^2 *)
Definition cz2 (Dz dt : Q) : Q := (2 * Dz * dt)%Q.

(** * Draw discipline *)
Inductive dir := DX | DY | DZ.
Definition dir_eqb (a b : dir) : bool :=
  match a, b with DX, DX | DY, DY | DZ, DZ => true | _, _ => false end.

(** [rng.normal(size=n)] at cursor [k]: element [p] of the result is draw [k+p]; new cursor [k+n] *)
Definition rng_normal (k n : Z) : (Z -> Z) * Z := (fun p => k + p, k + n).

(** [diffuse]: U = stddev * rng.normal(size=n); V = stddev * rng.normal(size=n) — two calls in this order *)
Definition diffuse (k n : Z) : (Z -> Z) * (Z -> Z) * Z :=
  let '(iu, k1) := rng_normal k n in
  let '(iv, k2) := rng_normal k1 n in
  (iu, iv, k2).
(** [diffuse_vert]: W = stddev * rng.normal(size=n) *)
Definition diffuse_vert (k n : Z) : (Z -> Z) * Z := rng_normal k n.

(** which draw each particle uses in each direction during one [update], and the cursor afterwards.
    Order of [Tracker.update]: horizontal diffusion (if on), later vertical diffusion (if on). *)
Record layout := { ix : option (Z -> Z); iy : option (Z -> Z); iz : option (Z -> Z); knext : Z }.
Definition update_layout (hon von : bool) (k n : Z) : layout :=
  let '(ox, oy, k1) :=
    if hon then let '(iu, iv, k') := diffuse k n in (Some iu, Some iv, k') else (None, None, k) in
  let '(oz, k2) :=
    if von then let '(iw, k') := diffuse_vert k1 n in (Some iw, k') else (None, k1) in
  {| ix := ox; iy := oy; iz := oz; knext := k2 |}.
Definition pick (d : dir) (L : layout) : option (Z -> Z) :=
  match d with DX => ix L | DY => iy L | DZ => iz L end.
Definition apply_idx (o : option (Z -> Z)) (p : Z) : option Z :=
  match o with Some f => Some (f p) | None => None end.

(** the step function: index of the draw used by particle [p] (0 <= p < n) in direction [d] in a step
    that starts at cursor [k] with [n] particles, and the number of draws the step consumes *)
Definition step_index (hon von : bool) (k n : Z) (d : dir) (p : Z) : option Z :=
  if (0 <=? p) && (p <? n) then apply_idx (pick d (update_layout hon von k n)) p else None.
Definition step_draws (hon von : bool) (n : Z) : Z := knext (update_layout hon von 0 n).

(** several steps; [ns] = number of particles in each step (it may change between steps) *)
Fixpoint cursor_after (hon von : bool) (k : Z) (ns : list Z) : Z :=
  match ns with
  | [] => k
  | n :: r => cursor_after hon von (knext (update_layout hon von k n)) r
  end.
Fixpoint draw_index (hon von : bool) (k : Z) (ns : list Z) (s : nat) (d : dir) (p : Z) : option Z :=
  match ns with
  | [] => None
  | n :: r =>
      match s with
      | O => step_index hon von k n d p
      | S s' => draw_index hon von (knext (update_layout hon von k n)) r s' d p
      end
  end.
Definition nonneg_all (ns : list Z) : bool := forallb (fun n => 0 <=? n) ns.

(** * Displacements of one particle in one step *)
Section Stream.
  Variable xi : Z -> Q.

  (** diffusive velocity component: [stddev * rng.normal(...)[p]], absent when the switch is off *)
  Definition diffusive (sd : Q) (oi : option Z) : Q :=
    match oi with Some i => (sd * xi i)%Q | None => 0%Q end.
  (** [U = 0; U += Uadv; U += Udiff; X1 = X + U*dt/dx]: the displacement X1 - X in grid units *)
  Definition hdisp (sd : Q) (oi : option Z) (uadv dt dx : Q) : Q :=
    ((0 + uadv + diffusive sd oi) * dt / dx)%Q.
  (** [Z += W*dt] (diffusion, if on) then [Z += w*dt] (vertical advection, if on) *)
  Definition vdisp (sdz : Q) (oi : option Z) (vadv : bool) (w dt : Q) : Q :=
    let z1 := match oi with Some _ => (diffusive sdz oi * dt)%Q | None => 0%Q end in
    if vadv then (z1 + w * dt)%Q else z1.

  Record pdisp := { dX : Q; dY : Q; dZ : Q }.
  (** particle [p] of [n] in a step starting at cursor [k]; [sd], [sdz] are the two standard deviations
      as computed by the code; [dx dy] the metric, [u v w] the advective velocity at the particle *)
  Definition update_disp (D Dz dt sd sdz : Q) (vadv : bool) (k n p : Z) (dx dy u v w : Q) : pdisp :=
    let L := update_layout (switch D) (switch Dz) k n in
    {| dX := hdisp sd (apply_idx (ix L) p) u dt dx;
       dY := hdisp sd (apply_idx (iy L) p) v dt dy;
       dZ := vdisp sdz (apply_idx (iz L) p) vadv w dt |}.
End Stream.

(** the stream given as a list (for execution) *)
Definition xi_of_list (l : list Q) : Z -> Q :=
  fun i => match znth_opt l i with Some q => q | None => 0%Q end.

(** * The observable relation between a diffusive displacement [e], its draw [x] and the squared
      coefficient [c2]:  e = sqrt(c2) * x  written without a square root *)
Definition disp_exact (c2 x e : Q) : Prop := (e * e == c2 * (x * x) /\ 0 <= e * x)%Q.
(** the same with a tolerance [tol] relative to the magnitude [m] of the numbers the floating-point
    computation went through (|e*e - c2*x*x| <= tol*m^2, e*x >= -tol*m*|x|) *)
Definition disp_close (tol m c2 x e : Q) : bool :=
  Qle_bool (Qabs (e * e - c2 * (x * x))) (tol * (m * m)) &&
  Qle_bool (- (tol * m * Qabs x)) (e * x).
(** a displacement that must vanish (switch off) *)
Definition zero_close (tol m e : Q) : bool := Qle_bool (Qabs e) (tol * m).

(** * The L2 reading: a random displacement is a finitely supported coefficient vector over the draw
      indices, standing for the random variable  sum_i v(i) * xi(i).  With the draws independent
      N(0,1) (numpy's contract, NOT proved) the covariance of two such variables is the inner product
      of their vectors; the unit vectors [draw i] are the draws themselves. *)
Definition vec := Z -> Q.
Definition vzero : vec := fun _ => 0%Q.
Definition draw (i : Z) : vec := fun j => if j =? i then 1%Q else 0%Q.
Definition vscale (c : Q) (v : vec) : vec := fun j => (c * v j)%Q.
Definition vadd (u v : vec) : vec := fun j => (u j + v j)%Q.
Fixpoint qsum (f : nat -> Q) (N : nat) : Q :=
  match N with O => 0%Q | S m => (qsum f m + f m)%Q end.
(** inner product over the index range [0, N) (N bounds the support) *)
Definition ip (N : nat) (u v : vec) : Q := qsum (fun i => (u (Z.of_nat i) * v (Z.of_nat i))%Q) N.
(** the value of the random variable on a concrete stream *)
Definition realize (xi : Z -> Q) (N : nat) (v : vec) : Q :=
  qsum (fun i => (v (Z.of_nat i) * xi (Z.of_nat i))%Q) N.

(** the vector of a diffusive displacement: coefficient [c] on the draw it uses *)
Definition disp_vec (c : Q) (oi : option Z) : vec :=
  match oi with Some i => vscale c (draw i) | None => vzero end.
Fixpoint vsum (f : nat -> vec) (m : nat) : vec :=
  match m with O => vzero | S j => vadd (vsum f j) (f j) end.
(** accumulated diffusive displacement of particle [p] in direction [d] over the first [m] steps;
    [c s] is the coefficient in step [s] *)
Definition walk_vec (hon von : bool) (k : Z) (ns : list Z) (d : dir) (p : Z) (c : nat -> Q) (m : nat) : vec :=
  vsum (fun s => disp_vec (c s) (draw_index hon von k ns s d p)) m.
