(** Model/Geo.v — ladim/sample.py [sample2D], [bilin_inv]; ladim/ROMS.py [Grid.xy2ll], [Grid.ll2xy],
    the slicing of lon_rho/lat_rho to the subgrid; release.py [clean_position] and out_netcdf.py (lon/lat).
    Definitions only.  Real values are [Q] (float rounding not modelled), indices are [Z].
    The particle arrays of the code are modelled for ONE point (numpy applies the same scalar
    computation to every element; the two places where elements interact are named below:
    [np.any(outside)] raising for the whole call, [np.all(H < tol)] stopping all points together). *)
From Coq Require Import ZArith QArith Qround Qreduction List Bool.
From Ladim Require Import Base.Num.
Import ListNotations.
Open Scope Q_scope.

(** * 2-D arrays: shape + flat (row-major) content, total lookup *)
Record arr2 := mkArr { nrow : Z; ncol : Z; adat : list Q }.

Definition in_range (A : arr2) (r c : Z) : bool :=
  ((0 <=? r) && (r <? nrow A) && (0 <=? c) && (c <? ncol A))%Z.
(** [A[r, c]]; [None] = IndexError.  Python's wrap-around of negative indices is NOT reproduced:
    a negative index is "outside" here (sample2D and, since the cell index is clipped, bilin_inv never
    produce one on arrays with at least two rows and columns). *)
Definition aget (A : arr2) (r c : Z) : option Q :=
  if in_range A r c then znth_opt (adat A) (r * ncol A + c)%Z else None.
Definition wf_arr (A : arr2) : bool :=
  ((0 <=? nrow A) && (0 <=? ncol A) && (Z.of_nat (length (adat A)) =? nrow A * ncol A))%Z.
Definition same_shape (A B : arr2) : bool := ((nrow A =? nrow B) && (ncol A =? ncol B))%Z.

(** tabulated array, and the numpy slice [A[r0:r1, c0:c1]] (0 <= r0 <= r1 <= nrow etc. in all uses) *)
Definition atab (nr nc : Z) (f : Z -> Z -> Q) : arr2 :=
  mkArr nr nc (flat_map (fun r => map (fun c => f r c) (zrange 0 nc)) (zrange 0 nr)).
Definition asub (A : arr2) (r0 r1 c0 c1 : Z) : arr2 :=
  atab (r1 - r0) (c1 - c0)
       (fun r c => match aget A (r0 + r) (c0 + c) with Some v => v | None => 0 end).

(** the four nodes of a cell, in the order both functions of the code read them:
    [A[r,c]], [A[r+1,c]], [A[r,c+1]], [A[r+1,c+1]] *)
Record quad := Quad { n00 : Q; n01 : Q; n10 : Q; n11 : Q }.
Definition corners (A : arr2) (r c : Z) : option quad :=
  match aget A r c, aget A (r + 1) c, aget A r (c + 1), aget A (r + 1) (c + 1) with
  | Some a, Some b, Some c', Some d => Some (Quad a b c' d)
  | _, _, _, _ => None
  end.

(** * sample2D(F, X, Y, mask=None, undef_value=0.0, outside_value=None), one point.
    [jmax, imax = F.shape]: rows are the Y direction.  In the code's names
    W00 ~ F[J,I], W01 ~ F[J+1,I], W10 ~ F[J,I+1], W11 ~ F[J+1,I+1]. *)
Inductive sres :=
| SVal (v : Q)
| SOutside     (* ValueError("point outside grid"): outside and outside_value is None *)
| SBadMask     (* ValueError("Must have mask.shape == F.shape") *)
| SIndex.      (* IndexError: only possible when the array has fewer than 2 rows or columns *)

(** [outside = (X0 < 0) | (X0 >= imax - 1) | (Y0 < 0) | (Y0 >= jmax - 1)] on the float positions *)
Definition outside (F : arr2) (x y : Q) : bool :=
  Qlt_bool x 0 || Qle_bool (inject_Z (ncol F - 1)) x || Qlt_bool y 0 || Qle_bool (inject_Z (nrow F - 1)) y.

Definition weights (p q : Q) : quad := Quad ((1 - p) * (1 - q)) ((1 - p) * q) (p * (1 - q)) (p * q).

(** [if mask is not None: W00 = mask[J, I] * W00 ...; SW = W00 + W01 + W10 + W11] else [SW = 1.0] *)
Definition apply_mask (m : option quad) (w : quad) : quad * Q :=
  match m with
  | None => (w, 1)
  | Some m =>
      let a := n00 m * n00 w in let b := n01 m * n01 w in
      let c := n10 m * n10 w in let d := n11 m * n11 w in
      (Quad a b c d, a + b + c + d)
  end.

(** [SW = where(SW == 0, -1.0, SW); result = where(SW <= 0, undef_value, (W00*F[J,I] + ...) / SW)] *)
Definition s2d_value (undef : Q) (m : option quad) (v : quad) (p q : Q) : Q :=
  let ws := apply_mask m (weights p q) in
  let w := fst ws in
  let sw := if Qeq_bool (snd ws) 0 then - (1) else snd ws in
  if Qle_bool sw 0 then undef
  else (n00 w * n00 v + n01 w * n01 v + n10 w * n10 v + n11 w * n11 v) / sw.

Definition sample2D (F : arr2) (mask : option arr2) (undef : Q) (outv : option Q) (x y : Q) : sres :=
  if match mask with Some M => negb (same_shape M F) | None => false end then SBadMask else
  let i := qtrunc x in                      (* I = X0.astype("int") *)
  let j := qtrunc y in
  let p := x - inject_Z i in                (* P = X0 - I, computed BEFORE outside indices are zeroed *)
  let q := y - inject_Z j in
  let out := outside F x y in
  match out, outv with
  | true, None => SOutside                  (* if np.any(outside): if outside_value is None: raise *)
  | _, _ =>
      let i := if out then 0%Z else i in    (* I = np.where(outside, 0, I) *)
      let j := if out then 0%Z else j in
      match (match mask with
             | None => Some None
             | Some M => match corners M j i with Some m => Some (Some m) | None => None end
             end) with
      | None => SIndex
      | Some m =>
          match corners F j i with
          | None => SIndex
          | Some v =>
              let r := s2d_value undef m v p q in
              (* if outside_value is not None: result = where(outside, outside_value, result) *)
              SVal (match outv with Some ov => if out then ov else r | None => r end)
          end
      end
  end.

(** * bilin_inv(f, g, F, G, maxiter=7, tol=1.0e-7), one point.
    [imax, jmax = F.shape]: here x runs along the FIRST index (rows).  Node order of [corners F i j]:
    F[i,j], F[i+1,j], F[i,j+1], F[i+1,j+1]. *)
Definition bil_est (k : quad) (p q : Q) : Q :=
  (1 - p) * (1 - q) * n00 k + p * (1 - q) * n01 k + (1 - p) * q * n10 k + p * q * n11 k.
Definition bil_dx (k : quad) (q : Q) : Q := (1 - q) * (n01 k - n00 k) + q * (n11 k - n10 k).
Definition bil_dy (k : quad) (p : Q) : Q := (1 - p) * (n10 k - n00 k) + p * (n11 k - n01 k).

(** [np.clip(v, lo, hi)] = minimum(maximum(v, lo), hi) *)
Definition zclip (lo hi v : Z) : Z := Z.min (Z.max v lo) hi.
(** [i = np.clip(x.astype("i"), 0, imax - 2)]: the cell is kept inside the array, an iterate beyond
    the edge extrapolates the edge cell (p = x - i is then outside [0, 1]) *)
Definition cell_index (n : Z) (x : Q) : Z := zclip 0 (n - 2) (qtrunc x).

(** bilinear estimate of A at (x, y) as the iteration computes it.  [None] only for an array with fewer
    than two rows or columns (the clipped index is then -1; Python would wrap around) or a malformed one *)
Definition bil_at (A : arr2) (x y : Q) : option Q :=
  let i := cell_index (nrow A) x in let j := cell_index (ncol A) y in
  match corners A i j with
  | Some k => Some (bil_est k (x - inject_Z i) (y - inject_Z j))
  | None => None
  end.

Definition resid2 (Fs f Gs g : Q) : Q := (Fs - f) * (Fs - f) + (Gs - g) * (Gs - g).

Inductive bstep :=
| StStop                 (* H < tol: break *)
| StNext (x y : Q)       (* Newton update *)
| StLeft                 (* a node is not in the array: impossible for arrays with >= 2 rows and columns *)
| StSingular.            (* det = 0: the code divides by zero (inf/nan) *)

(** one pass of the loop body at (x, y).  [Qred] is the identity up to [==]; it only keeps the
    representation small when the model is evaluated. *)
Definition bilin_step (f g : Q) (F G : arr2) (tol : Q) (x y : Q) : bstep :=
  let i := cell_index (nrow F) x in         (* imax, jmax = F.shape are used for F and for G *)
  let j := cell_index (ncol F) y in
  let p := x - inject_Z i in
  let q := y - inject_Z j in
  match corners F i j, corners G i j with
  | Some kf, Some kg =>
      let Fs := bil_est kf p q in
      let Gs := bil_est kg p q in
      if Qlt_bool (resid2 Fs f Gs g) tol then StStop else
      let Fx := bil_dx kf q in let Fy := bil_dy kf p in
      let Gx := bil_dx kg q in let Gy := bil_dy kg p in
      let det := Fx * Gy - Fy * Gx in
      if Qeq_bool det 0 then StSingular else
      StNext (Qred (x - (Gy * (Fs - f) - Fy * (Gs - g)) / det))
             (Qred (y - (- Gx * (Fs - f) + Fx * (Gs - g)) / det))
  | _, _ => StLeft
  end.

Inductive bres :=
| BDone (x y : Q) (by_test : bool)  (* returned x, y; by_test = the loop ended by [break] *)
| BLeft (x y : Q)      (* a node was not in the array at (x, y): only arrays with < 2 rows or columns *)
| BSingular (x y : Q)
| BShape.              (* ValueError("Shape mismatch in 2D arrays") *)

Fixpoint bilin_loop (f g : Q) (F G : arr2) (tol : Q) (fuel : nat) (x y : Q) : bres :=
  match fuel with
  | O => BDone x y false                    (* maxiter passes done; the last update is not tested *)
  | S k =>
      match bilin_step f g F G tol x y with
      | StStop => BDone x y true
      | StNext x' y' => bilin_loop f g F G tol k x' y'
      | StLeft => BLeft x y
      | StSingular => BSingular x y
      end
  end.

(** initial guess [0.5 * imax, 0.5 * jmax] *)
Definition bilin_start (F : arr2) : Q * Q := ((1 # 2) * inject_Z (nrow F), (1 # 2) * inject_Z (ncol F)).
Definition bilin_inv (f g : Q) (F G : arr2) (maxiter : Z) (tol : Q) : bres :=
  if negb (same_shape G F) then BShape
  else bilin_loop f g F G tol (Z.to_nat maxiter) (fst (bilin_start F)) (snd (bilin_start F)).

Definition default_maxiter : Z := 7.
(** the float64 literal 1.0e-7 as an exact rational *)
Definition default_tol : Q := 944473296573929 # 9444732965739290427392.

(** * ROMS.Grid: the coordinate arrays of the loaded subgrid and the two conversions *)
Record grid := mkGrid { gi0 : Z; gj0 : Z; glon : arr2; glat : arr2 }.

(** [self.lon = ncid.variables["lon_rho"][self.J, self.I]] with J = slice(j0, j1), I = slice(i0, i1) *)
Definition load_grid (LON LAT : arr2) (i0 i1 j0 j1 : Z) : grid :=
  mkGrid i0 j0 (asub LON j0 j1 i0 i1) (asub LAT j0 j1 i0 i1).

(** [xy2ll]: (sample2D(self.lon, X - i0, Y - j0), sample2D(self.lat, X - i0, Y - j0)) *)
Definition xy2ll (g : grid) (X Y : Q) : sres * sres :=
  (sample2D (glon g) None 0 None (X - inject_Z (gi0 g)) (Y - inject_Z (gj0 g)),
   sample2D (glat g) None 0 None (X - inject_Z (gi0 g)) (Y - inject_Z (gj0 g))).

(** [ll2xy]: Y, X = bilin_inv(lon, lat, self.lon, self.lat); return X + i0, Y + j0 *)
Definition ll2xy (g : grid) (lon lat : Q) : bres :=
  match bilin_inv lon lat (glon g) (glat g) default_maxiter default_tol with
  | BDone y x t => BDone (x + inject_Z (gi0 g)) (y + inject_Z (gj0 g)) t
  | r => r
  end.

(** * Users.  release.py clean_position: a row given by lon, lat gets X, Y = grid.ll2xy(lon, lat);
    out_netcdf.py write: lon, lat = xy2ll(state.X, state.Y) of the same record. *)
Definition release_position (g : grid) (lon lat : Q) : bres := ll2xy g lon lat.
Definition output_lonlat (g : grid) (XY : list (Q * Q)) : list (sres * sres) :=
  map (fun p => xy2ll g (fst p) (snd p)) XY.
