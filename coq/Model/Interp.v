(** Model/Interp.v — the spatial part of ladim/ROMS.py (definitions only, no proofs):
    3-D arrays with a total bounds-checked lookup, the sampling kernels [trilinear], [sample3D],
    [sample3DUV] (every kernel also returns the list of index triples it reads), the sub-rectangle
    logic of [Grid.__init__] (limits, slices, land masks at u- and v-points), the unpacking and
    masking of [Forcing._read_velocity]/[_read_field], [Forcing.velocity]/[force_particles], and the
    clip of Runge-Kutta stage positions of ladim/tracker.py.
    Real-valued quantities are Q (float rounding is not modelled), indices are Z.
    The level search z2s is NOT here (property C12): K and A are inputs. *)
From Coq Require Import ZArith QArith List Bool.
From Ladim Require Import Base.Num.
Import ListNotations.
Open Scope Z_scope.

(** * 3-D arrays: shape (n, jn, im) + flat content in C order.
    Lookup is total: [None] = out of bounds.  A negative index is out of bounds (numpy would wrap
    it around; C17 proves it never occurs). *)
Record arr3 := { a_n : Z; a_j : Z; a_i : Z; a_data : list Q }.

Definition idx := (Z * Z * Z)%type.          (* (k, j, i) *)

Definition in_shape (n jn im : Z) (t : idx) : bool :=
  let '(k, j, i) := t in
  (0 <=? k) && (k <? n) && (0 <=? j) && (j <? jn) && (0 <=? i) && (i <? im).
Definition inb3 (F : arr3) (k j i : Z) : bool := in_shape (a_n F) (a_j F) (a_i F) (k, j, i).
Definition flat3 (F : arr3) (k j i : Z) : Z := (k * a_j F + j) * a_i F + i.
Definition get3 (F : arr3) (k j i : Z) : option Q :=
  if inb3 F k j i then nth_opt (a_data F) (Z.to_nat (flat3 F k j i)) else None.
Definition get_idx (F : arr3) (t : idx) : option Q := let '(k, j, i) := t in get3 F k j i.
(** value with default 0, used only where the index is in range by construction *)
Definition getd (F : arr3) (k j i : Z) : Q := match get3 F k j i with Some v => v | None => 0%Q end.

(** array given by a function of the index triple *)
Definition mk3 (n jn im : Z) (f : Z -> Z -> Z -> Q) : arr3 :=
  {| a_n := n; a_j := jn; a_i := im;
     a_data := map (fun t => f (t / (jn * im)) ((t / im) mod jn) (t mod im)) (zrange 0 (n * jn * im)) |}.
(** element-wise map (scalar * array, offset + array) *)
Definition amap (f : Q -> Q) (F : arr3) : arr3 :=
  {| a_n := a_n F; a_j := a_j F; a_i := a_i F; a_data := map f (a_data F) |}.
(** F[:, jlo:jhi, ilo:ihi]  (slices inside the extents) *)
Definition slice3 (F : arr3) (jlo jhi ilo ihi : Z) : arr3 :=
  mk3 (a_n F) (jhi - jlo) (ihi - ilo) (fun k j i => getd F k (j + jlo) (i + ilo)).
(** np.multiply(U, M2, out=U): 2-D array (stored with n = 1) broadcast over the levels *)
Definition mul_mask (F M2 : arr3) : arr3 :=
  mk3 (a_n F) (a_j F) (a_i F) (fun k j i => (getd F k j i * getd M2 0 j i)%Q).

(** * The kernels *)
Inductive method := Bilinear | Nearest.

(** the eight reads of [trilinear], in the order of the code: f00, f01, f10, f11, level k-1 first *)
Definition tri_idx (x y : Q) (k : Z) : list idx :=
  let i := qtrunc x in
  let j := qtrunc y in
  [(k - 1, j, i); (k, j, i); (k - 1, j + 1, i); (k, j + 1, i);
   (k - 1, j, i + 1); (k, j, i + 1); (k - 1, j + 1, i + 1); (k, j + 1, i + 1)].

(** the arithmetic of the kernel; v<dk><dj><di>, dk = 0 is level k-1 *)
Definition tri_formula (a p q v000 v100 v010 v110 v001 v101 v011 v111 : Q) : Q :=
  let f00 := (a * v000 + (1 - a) * v100)%Q in
  let f01 := (a * v010 + (1 - a) * v110)%Q in
  let f10 := (a * v001 + (1 - a) * v101)%Q in
  let f11 := (a * v011 + (1 - a) * v111)%Q in
  ((1 - p) * (1 - q) * f00 + p * (1 - q) * f10 + (1 - p) * q * f01 + p * q * f11)%Q.

(** [trilinear(F, X, Y, K, A)] for one particle: i = int(x), p = x - i, ... *)
Definition trilinear (F : arr3) (x y : Q) (k : Z) (a : Q) : option Q * list idx :=
  let i := qtrunc x in
  let j := qtrunc y in
  let p := (x - inject_Z i)%Q in
  let q := (y - inject_Z j)%Q in
  let reads := tri_idx x y k in
  (match map (get_idx F) reads with
   | [Some v000; Some v100; Some v010; Some v110; Some v001; Some v101; Some v011; Some v111] =>
       Some (tri_formula a p q v000 v100 v010 v110 v001 v101 v011 v111)
   | _ => None
   end, reads).

(** method "nearest": I = X.round().astype(int), F[K, J, I] *)
Definition nearest (F : arr3) (x y : Q) (k : Z) : option Q * list idx :=
  let i := qround x in
  let j := qround y in
  (get3 F k j i, [(k, j, i)]).

Definition sample3D (F : arr3) (x y : Q) (k : Z) (a : Q) (m : method) : option Q * list idx :=
  match m with Bilinear => trilinear F x y k a | Nearest => nearest F x y k end.

(** u lives half a cell to the left of the rho-point with the same local index, v half a cell below *)
Definition sample3DUV (U V : arr3) (x y : Q) (k : Z) (a : Q) (m : method)
  : (option Q * list idx) * (option Q * list idx) :=
  (sample3D U (x + (1#2))%Q y k a m, sample3D V x (y + (1#2))%Q k a m).

(** * Grid.__init__: the loaded sub-rectangle *)
Record subgrid := { g_i0 : Z; g_i1 : Z; g_j0 : Z; g_j1 : Z }.
Definition g_imax (g : subgrid) : Z := g_i1 g - g_i0 g.
Definition g_jmax (g : subgrid) : Z := g_j1 g - g_j0 g.

(** 1 <= i0 < i1 <= imax0 - 1, 1 <= j0 < j1 <= jmax0 - 1 *)
Definition legal (imax0 jmax0 : Z) (g : subgrid) : bool :=
  (1 <=? g_i0 g) && (g_i0 g <? g_i1 g) && (g_i1 g <=? imax0 - 1) &&
  (1 <=? g_j0 g) && (g_j0 g <? g_j1 g) && (g_j1 g <=? jmax0 - 1).

(** default = end points, negative values count from the upper end, sanity check ([None] = SystemExit) *)
Definition grid_limits (imax0 jmax0 : Z) (sub : option (Z * Z * Z * Z)) : option subgrid :=
  let '(a, b, c, d) := match sub with Some l => l | None => (1, imax0 - 1, 1, jmax0 - 1) end in
  let fixi v := if v <? 0 then imax0 + v else v in
  let fixj v := if v <? 0 then jmax0 + v else v in
  let g := {| g_i0 := fixi a; g_i1 := fixi b; g_j0 := fixj c; g_j1 := fixj d |} in
  if legal imax0 jmax0 g then Some g else None.

(** limits of the region where velocities are defined, and the tracker's clip box *)
Definition g_xmin (g : subgrid) : Q := inject_Z (g_i0 g).
Definition g_xmax (g : subgrid) : Q := inject_Z (g_i1 g - 1).
Definition g_ymin (g : subgrid) : Q := inject_Z (g_j0 g).
Definition g_ymax (g : subgrid) : Q := inject_Z (g_j1 g - 1).
(** Grid.ingrid: the valid region *)
Definition in_valid (g : subgrid) (X Y : Q) : bool :=
  Qlt_bool (g_xmin g + (1#2)) X && Qlt_bool X (g_xmax g - (1#2)) &&
  Qlt_bool (g_ymin g + (1#2)) Y && Qlt_bool Y (g_ymax g - (1#2)).
(** tracker.clip: X = max(min(X, xmax), xmin) with xmin = grid.xmin + 0.01, xmax = grid.xmax - 0.01 *)
Definition clip1 (lo hi x : Q) : Q := Qmax' (Qmin' x hi) lo.
Definition clip_x (g : subgrid) (X : Q) : Q := clip1 (g_xmin g + (1#100)) (g_xmax g - (1#100)) X.
Definition clip_y (g : subgrid) (Y : Q) : Q := clip1 (g_ymin g + (1#100)) (g_ymax g - (1#100)) Y.

(** M = mask_rho[J, I].astype(int) *)
Definition mask_M (mask : arr3) (g : subgrid) : arr3 :=
  amap (fun v => inject_Z (qtrunc v)) (slice3 mask (g_j0 g) (g_j1 g) (g_i0 g) (g_i1 g)).
(** Mu[:, 1:-1] = M[:, :-1] * M[:, 1:];  Mu[:, 0] = M[:, 0];  Mu[:, -1] = M[:, -1]   shape (jmax, imax+1) *)
Definition mask_Mu (M : arr3) : arr3 :=
  let im := a_i M in
  mk3 1 (a_j M) (im + 1) (fun _ j i =>
    if i =? 0 then getd M 0 j 0
    else if i =? im then getd M 0 j (im - 1)
    else (getd M 0 j (i - 1) * getd M 0 j i)%Q).
(** Mv[1:-1, :] = M[:-1, :] * M[1:, :];  Mv[0, :] = M[0, :];  Mv[-1, :] = M[-1, :]   shape (jmax+1, imax) *)
Definition mask_Mv (M : arr3) : arr3 :=
  let jm := a_j M in
  mk3 1 (jm + 1) (a_i M) (fun _ j i =>
    if j =? 0 then getd M 0 0 i
    else if j =? jm then getd M 0 (jm - 1) i
    else (getd M 0 (j - 1) i * getd M 0 j i)%Q).

Record grid := { gr_sub : subgrid; gr_M : arr3; gr_Mu : arr3; gr_Mv : arr3 }.
(** [mask] is the file's mask_rho, stored with n = 1, shape (1, jmax0, imax0) *)
Definition grid_of (mask : arr3) (g : subgrid) : grid :=
  let M := mask_M mask g in
  {| gr_sub := g; gr_M := M; gr_Mu := mask_Mu M; gr_Mv := mask_Mv M |}.
Definition grid_init (mask : arr3) (sub : option (Z * Z * Z * Z)) : option grid :=
  match grid_limits (a_i mask) (a_j mask) sub with
  | Some g => Some (grid_of mask g)
  | None => None
  end.

(** * Forcing._read_velocity / _read_field on one frame of the file *)
Record packing := { scaled : bool; scale_factor : Q; add_offset : Q }.
Definition unpacked : packing := {| scaled := false; scale_factor := 1; add_offset := 0 |}.

(** [fu] = u[frame] of the file, shape (N, jmax0, imax0-1); [fv] = v[frame], shape (N, jmax0-1, imax0).
    U = u[frame, :, Ju, Iu], Iu = i0-1:i1;  V = v[frame, :, Jv, Iv], Jv = j0-1:j1;
    if scaled["u"]: U = scale_factor["u"]*U, V = scale_factor["v"]*V  (offset assumed 0);
    then U *= Mu, V *= Mv *)
Definition read_velocity (gr : grid) (fu fv : arr3) (pu pv : packing) : arr3 * arr3 :=
  let g := gr_sub gr in
  let U := slice3 fu (g_j0 g) (g_j1 g) (g_i0 g - 1) (g_i1 g) in
  let V := slice3 fv (g_j0 g - 1) (g_j1 g) (g_i0 g) (g_i1 g) in
  let U := if scaled pu then amap (Qmult (scale_factor pu)) U else U in
  let V := if scaled pu then amap (Qmult (scale_factor pv)) V else V in
  (mul_mask U (gr_Mu gr), mul_mask V (gr_Mv gr)).

(** F0 = var[frame, :, J, I];  F = add_offset + scale_factor * F0 if scaled *)
Definition read_field (gr : grid) (ff : arr3) (pf : packing) : arr3 :=
  let g := gr_sub gr in
  let F0 := slice3 ff (g_j0 g) (g_j1 g) (g_i0 g) (g_i1 g) in
  if scaled pf then amap (fun v => (add_offset pf + scale_factor pf * v)%Q) F0 else F0.

(** * Forcing.velocity / force_particles for one particle at global grid coordinates (X, Y) with
    cached level index K and weight A *)
Definition velocity (gr : grid) (U V : arr3) (X Y : Q) (K : Z) (A : Q) (m : method) :=
  let g := gr_sub gr in
  sample3DUV U V (X - inject_Z (g_i0 g))%Q (Y - inject_Z (g_j0 g))%Q K A m.
(** force_particles: sample3D(F, X.round() - i0, Y.round() - j0, K, A, method="nearest") — the cell
    is rounded BEFORE the shift to the subgrid (as Grid.depth/atsea do); the sampler rounds again *)
Definition force_scalar (gr : grid) (F : arr3) (X Y : Q) (K : Z) (A : Q) :=
  let g := gr_sub gr in
  sample3D F (inject_Z (qround X) - inject_Z (g_i0 g))%Q (inject_Z (qround Y) - inject_Z (g_j0 g))%Q K A Nearest.
(** the cell whose water column Forcing.update hands to z2s: (round(Y) - j0, round(X) - i0) *)
Definition level_cell (g : subgrid) (X Y : Q) : Z * Z := (qround Y - g_j0 g, qround X - g_i0 g).

(** the whole path from the file's frame to the particle *)
Definition file_velocity (mask fu fv : arr3) (pu pv : packing) (g : subgrid) (X Y : Q) (K : Z) (A : Q) :=
  let gr := grid_of mask g in
  let '(U, V) := read_velocity gr fu fv pu pv in
  velocity gr U V X Y K A Bilinear.
Definition file_scalar (mask ff : arr3) (pf : packing) (g : subgrid) (X Y : Q) (K : Z) (A : Q) :=
  let gr := grid_of mask g in
  force_scalar gr (read_field gr ff pf) X Y K A.
