(** Executable binary64 model of the horizontal step of [ladim.tracker.Tracker] (C01, float level).

    The code (/repo/ladim/tracker.py), for ONE coordinate (X with U and dx; Y with V and dy is the same text):

      update:   dx = grid.metric(X, Y);  xmin = grid.xmin + 0.01;  xmax = grid.xmax - 0.01
                U = np.zeros_like(X);  U += advect(X, Y, Z, force)               --  0.0 + Uadv      [accum_f]
                X1 = X + U * self.dt / self.dx                                   --  X + ((U * dt) / dx)  [move_f]
      EF:       Uadv = force.velocity(X, Y, Z)                                       (fractional_step = 0)
      RK2:      dtdx = dt / self.dx                                              --  one division     [dtdx_f]
                U1 = velocity(X, f=0); X1 = RKstep(X, U1, 0.5, dtdx); clip(X1, xmin, xmax)
                Uadv = velocity(X1, f=0.5)
      RK4:      U1 = velocity(X, 0);    X1 = RKstep(X, U1, 0.5, dtdx); clip
                U2 = velocity(X1, 0.5); X2 = RKstep(X, U2, 0.5, dtdx); clip
                U3 = velocity(X2, 0.5); X3 = RKstep(X, U3, 1.0, dtdx); clip
                U4 = velocity(X3, 1.0); Uadv = RK4avg(U1, U2, U3, U4)
      RKstep1 (numba):  Xp[i] = X[i] + frac * U[i] * dtdx[i]                     --  X + ((frac * U) * dtdx)  [rkstep_f]
      clip (numba):     X[p] = max(min(X[p], xmax), xmin)                        --  [clip_f]
      RK4avg (numba):   (U1 + 2 * U2 + 2 * U3 + U4) / 6.0                        --  (((U1 + 2*U2) + 2*U3) + U4) / 6  [rk4avg_f]

    NOTE the two different ways a displacement is formed: the stages multiply by the PRECOMPUTED quotient
    dtdx = dt / dx, the final move multiplies by dt and THEN divides by dx.

    numba's [min]/[max] on floats (numba/cpython/builtins.py, [do_minmax]): the accumulator is replaced by the new
    value iff  value < acc  (min)  resp.  value > acc  (max); an unordered comparison (NaN) keeps the
    accumulator.  Hence  min(a, b) = b if b < a else a  and  max(a, b) = b if b > a else a, which fixes the
    treatment of NaN (a NaN position stays NaN, a NaN bound is ignored) and of signed zeros (-0 and +0 compare
    equal, the first argument is kept).  This, the association of every expression and the absence of fused
    multiply-add were confirmed against the compiled code bit for bit (harness/props/c01_float.py).

    The forcing is an oracle: the model is TOLD the velocity it returned at each stage ([u1 .. u4]) and outputs the
    stage positions at which it must have been asked, plus the final position.

    Everything is over Coq's primitive floats ([PrimFloat]: IEEE-754 binary64, round to nearest even, one
    rounding per operation).  No proofs here except computational examples; the theorems are in
    Proofs/TrackerFloatProofs.v.  The bit-pattern decoder [float_of_bits] / [bits_of_float] / [same_bits] is
    the one of Model/TrilinearFloat.v. *)
From Coq Require Import ZArith Floats List.
From Ladim Require Import Model.TrilinearFloat.
Import ListNotations.
Open Scope float_scope.

(** ** The kernels *)

(** numba's two-argument [min] and [max] on float64 *)
Definition min_f (a b : float) : float := if b <? a then b else a.
Definition max_f (a b : float) : float := if a <? b then b else a.

(** [clip]: max(min(x, hi), lo) *)
Definition clip_f (x lo hi : float) : float := max_f (min_f x hi) lo.

(** [RKstep1]: X + frac * U * dtdx, parsed X + ((frac * U) * dtdx) *)
Definition rkstep_f (x frac u dtdx : float) : float := x + frac * u * dtdx.

(** a stage position: RKstep, then clip *)
Definition stage_f (x frac u dtdx lo hi : float) : float := clip_f (rkstep_f x frac u dtdx) lo hi.

(** [RK4avg]: (U1 + 2 * U2 + 2 * U3 + U4) / 6.0  (the integer 2 becomes the float 2.0) *)
Definition rk4avg_f (u1 u2 u3 u4 : float) : float := (u1 + 2 * u2 + 2 * u3 + u4) / 6.

(** [U = np.zeros_like(X); U += Uadv]: 0.0 + Uadv.  The identity on every float except -0.0, which becomes +0.0 *)
Definition accum_f (u : float) : float := 0 + u.

(** the quotient the Runge-Kutta stages use *)
Definition dtdx_f (dt dx : float) : float := dt / dx.

(** the final move of [Tracker.update]: X + U * dt / dx, parsed X + ((U * dt) / dx) *)
Definition move_f (x u dt dx : float) : float := x + u * dt / dx.

(** the final position, from the advective velocity the scheme returned *)
Definition final_f (x uadv dt dx : float) : float := move_f x (accum_f uadv) dt dx.

(** ** The three schemes: (stage positions requested from the forcing after the first, final position).
    The first request is always at [x] itself (fractional step 0). *)
Definition ef_f (x dt dx lo hi u1 : float) : list float * float :=
  ([], final_f x u1 dt dx).

Definition rk2_f (x dt dx lo hi u1 u2 : float) : list float * float :=
  let dtdx := dtdx_f dt dx in
  let x1 := stage_f x 0.5 u1 dtdx lo hi in
  ([x1], final_f x u2 dt dx).

Definition rk4_f (x dt dx lo hi u1 u2 u3 u4 : float) : list float * float :=
  let dtdx := dtdx_f dt dx in
  let x1 := stage_f x 0.5 u1 dtdx lo hi in
  let x2 := stage_f x 0.5 u2 dtdx lo hi in
  let x3 := stage_f x 1 u3 dtdx lo hi in
  ([x1; x2; x3], final_f x (rk4avg_f u1 u2 u3 u4) dt dx).

(** scheme code 0 = EF, 1 = RK2, 2 = RK4; [None] when the number of stage velocities does not fit the scheme *)
Definition step_f (scheme : Z) (x dt dx lo hi : float) (us : list float) : option (list float * float) :=
  match scheme, us with
  | 0%Z, [u1] => Some (ef_f x dt dx lo hi u1)
  | 1%Z, [u1; u2] => Some (rk2_f x dt dx lo hi u1 u2)
  | 2%Z, [u1; u2; u3; u4] => Some (rk4_f x dt dx lo hi u1 u2 u3 u4)
  | _, _ => None
  end.

(** the fractional time steps at which the scheme asks the forcing (for the record; they are exact dyadic
    constants, the harness compares them as such) *)
Definition stage_fracs (scheme : Z) : list float :=
  match scheme with
  | 0%Z => [0]
  | 1%Z => [0; 0.5]
  | 2%Z => [0; 0.5; 0.5; 1]
  | _ => []
  end.

(** ** Computable side conditions (the hypotheses of the theorems in Proofs/TrackerFloatProofs.v as booleans)

    x: finite, |x| <= 2^1000            velocities: finite, |u| <= 2^100
    dt: finite, |dt| <= 2^100           dx: finite, |dx| >= 2^-100  (in particular non-zero)
    lo, hi: finite *)
Definition two100 : float := Z.ldexp 1 100.
Definition twom100 : float := Z.ldexp 1 (-100).
Definition pos_ok (x : float) : bool := is_finite x && (abs x <=? two1000).
Definition vel_ok (u : float) : bool := is_finite u && (abs u <=? two100).
Definition dt_ok (dt : float) : bool := is_finite dt && (abs dt <=? two100).
Definition dx_ok (dx : float) : bool := is_finite dx && (twom100 <=? abs dx).
Definition step_ok (x dt dx lo hi : float) (us : list float) : bool :=
  pos_ok x && dt_ok dt && dx_ok dx && is_finite lo && is_finite hi && forallb vel_ok us.

(** ** Sanity examples *)
(** x = 1, dt = 60, dx = 100, u = 0.5: 1 + 0.5 * 60 / 100 = 1.3 (and 1.3 is the double nearest to it) *)
#[local] Set Warnings "-inexact-float".
Example ef_example : same_bits (snd (ef_f 1 60 100 0.01 9.99 0.5)) 1.3 = true.
Proof. vm_compute. reflexivity. Qed.
(** RK2: the midpoint is asked at 1 + 0.5 * 0.5 * 0.6 = 1.15, the move uses the second velocity *)
Example rk2_example :
  let r := rk2_f 1 60 100 0.01 9.99 0.5 0.25 in
  List.map bits_of_float (fst r) = [bits_of_float 1.15] /\ same_bits (snd r) 1.15 = true.
Proof. vm_compute. split; reflexivity. Qed.
(** RK4 with velocities 0.5 0.25 0.3 0.1: stages at 1.15, 1.075, 1.18; final 1 + (1.7 / 6) * 0.6 = 1.17 *)
Example rk4_example :
  let r := rk4_f 1 60 100 0.01 9.99 0.5 0.25 0.3 0.1 in
  List.map bits_of_float (fst r) = List.map bits_of_float [1.15; 1.075; 1.18] /\ same_bits (snd r) 1.17 = true.
Proof. vm_compute. split; reflexivity. Qed.
(** the stages are clipped, the final move is not: velocities 50, -50 push the stages to the two bounds *)
Example rk4_clipped :
  List.map bits_of_float (fst (rk4_f 1 60 100 0.01 9.99 50 (-50) 0.3 0.1)) = List.map bits_of_float [9.99; 0.01; 1.18].
Proof. vm_compute. reflexivity. Qed.
(** a NaN velocity makes the stage position NaN (clip does not repair it) and the final position NaN *)
Example rk4_nan :
  let r := rk4_f 1 60 100 0.01 9.99 0.5 0.25 nan 0.1 in
  List.map is_nan (fst r) = [false; false; true] /\ is_nan (snd r) = true.
Proof. vm_compute. split; reflexivity. Qed.
(** the two displacement formulas differ in the last bit: u * (dt/dx) versus (u * dt) / dx *)
Example stage_vs_move :
  bits_of_float (rkstep_f 0 1 0.7 (dtdx_f 600 800)) = 4602903999154015436%Z /\
  bits_of_float (move_f 0 0.7 600 800) = 4602903999154015437%Z.
Proof. vm_compute. split; reflexivity. Qed.
(** signed zeros: the accumulation 0.0 + u turns -0.0 into +0.0 *)
Example accum_negzero : same_bits (accum_f (-0)) 0 = true /\ same_bits (accum_f 0) 0 = true.
Proof. vm_compute. split; reflexivity. Qed.
(** min/max keep the FIRST argument when the two compare equal or unordered *)
Example minmax_corners :
  same_bits (min_f (-0) 0) (-0) = true /\ same_bits (min_f 0 (-0)) 0 = true /\
  is_nan (min_f nan 1) = true /\ same_bits (min_f 1 nan) 1 = true /\
  same_bits (max_f (-0) 0) (-0) = true /\ is_nan (max_f nan 1) = true /\ same_bits (max_f 1 nan) 1 = true.
Proof. vm_compute. repeat split; reflexivity. Qed.
Example step_ok_example : step_ok 1 60 100 0.01 9.99 [0.5; 0.25; 0.3; 0.1] = true.
Proof. vm_compute. reflexivity. Qed.
