(** Model/Release.v — ladim/release.py: ParticleReleaser (window filters, discretize, groups,
    blind cursor, update / __next__), plus the SPECIFICATION of property C04.

    Times are integer seconds (as in Model/Time.v).  A release row carries its time, its
    multiplicity and its other column values (position X/Y or lon/lat first, then Z and the
    extra columns) as integer codes: the release logic only moves values around.
    Definitions only; proofs are in Proofs/ReleaseProofs.v. *)
From Coq Require Import ZArith List Bool.
From Ladim Require Import Base.Num Model.Time.
Import ListNotations.
Open Scope Z_scope.

Record row := { rt : Z; rmult : nat; rvals : list Z }.

(** * Part 1: the code *)

(** clean_position: lon/lat (the first two values) -> X/Y through grid.ll2xy *)
Definition convert_pos (ll2xy : Z -> Z -> Z * Z) (r : row) : row :=
  match rvals r with
  | lon :: lat :: rest =>
      let '(x, y) := ll2xy lon lat in {| rt := rt r; rmult := rmult r; rvals := x :: y :: rest |}
  | _ => r
  end.
Definition clean_position (ll2xy : option (Z -> Z -> Z * Z)) (tab : list row) : list row :=
  match ll2xy with Some f => map (convert_pos f) tab | None => tab end.

(** the three index filters of __init__ (lines 76-79, 96-99, 104) *)
Definition before_stop (t : tk) (x : Z) : bool := if rev t then stop t <? x else x <? stop t.
Definition from_start (t : tk) (x : Z) : bool := if rev t then x <=? start t else start t <=? x.
(** the warm-start skip (lines 102-108), mirrored under time reversal *)
Definition after_start (t : tk) (x : Z) : bool := if rev t then x <? start t else start t <? x.

Definition filter_time (p : Z -> bool) (tab : list row) : list row := filter (fun r => p (rt r)) tab.

(** rows of one index value, in table order (a pandas group / boolean selection) *)
Definition rows_at (x : Z) (tab : list row) : list row := filter_time (Z.eqb x) tab.

(** index.unique(): distinct values in order of first appearance *)
Fixpoint uniq (l : list Z) : list Z :=
  match l with
  | [] => []
  | x :: r => x :: filter (fun y => negb (y =? x)) (uniq r)
  end.

(** groupby(index, sort=False): one group per distinct time, first-appearance order, each group
    in table order *)
Definition group_by_time (tab : list row) : list (list row) :=
  map (fun x => rows_at x tab) (uniq (map rt tab)).

(** np.arange(a, b, s): ceil((b - a) / s) values a, a+s, ... *)
Fixpoint arange_aux (n : nat) (x s : Z) : list Z :=
  match n with O => [] | S k => x :: arange_aux k (x + s) s end.
Definition arange (a b s : Z) : list Z :=
  if 0 <? s then arange_aux (Z.to_nat (cdiv (b - a) s)) a s
  else if s <? 0 then arange_aux (Z.to_nat (cdiv (a - b) (- s))) a s
  else [].

Definition retime (x : Z) (r : row) : row := {| rt := x; rmult := rmult r; rvals := rvals r |}.

(** T.join(B, on="times"): the group of a tick if the tick is a file time, else missing *)
Definition lookup_group (tab : list row) (x : Z) : option (list row) :=
  match rows_at x tab with [] => None | g => Some g end.
(** join + ffill + explode, one tick after the other; [last] is the last non-missing group *)
Fixpoint join_ffill (tab : list row) (last : option (list row)) (ticks : list Z) : list row :=
  match ticks with
  | [] => []
  | x :: r =>
      let cur := match lookup_group tab x with Some g => Some g | None => last end in
      match cur with Some g => map (retime x) g | None => [] end ++ join_ffill tab cur r
  end.
(** discretize(): [tab] is the table after the stop filter (non-empty in the code) *)
Definition discretize (t : tk) (freq : Z) (tab : list row) : list row :=
  match tab with
  | [] => []
  | r0 :: _ => join_ffill tab None (arange (rt r0) (stop t) (if rev t then - freq else freq))
  end.

Inductive init_res :=
| RelExit                                                  (* SystemExit(3) *)
| RelOk (tab : list row) (groups : list (list row)) (steps : list Z).
                                           (* self._df, self._B, self.steps *)

(** __init__ after reading the file: [cont] = Some frequency for continuous release *)
Definition rel_init (t : tk) (cont : option Z) (warm : bool) (tab : list row) : init_res :=
  let d1 := filter_time (before_stop t) tab in
  match d1 with
  | [] => RelExit
  | _ :: _ =>
      let d2 := match cont with Some f => discretize t f d1 | None => d1 end in
      let d3 := filter_time (from_start t) d2 in
      let d4 := if warm then filter_time (after_start t) d3 else d3 in
      match d4, warm with
      | [], false => RelExit
      | _, _ => RelOk d4 (group_by_time d4) (map (time2step t) (uniq (map rt d4)))
      end
  end.

(** __next__: the group under the cursor, every row repeated mult times *)
Definition expand (g : list row) : list row := flat_map (fun r => repeat r (rmult r)) g.

Record rel_state := { idx : nat }.
(** update(): [None] = StopIteration escapes; otherwise the new cursor and the appended rows *)
Definition release_update (groups : list (list row)) (steps : list Z) (step : Z) (st : rel_state)
  : option (rel_state * list row) :=
  if existsb (Z.eqb step) steps then
    match nth_opt groups (idx st) with
    | Some g => Some ({| idx := S (idx st) |}, expand g)
    | None => None
    end
  else Some (st, []).

(** the loop [timer.update(); release.update()] for steps 0 .. N-1: final cursor and what was
    appended at each step *)
Fixpoint run_upto (groups : list (list row)) (steps : list Z) (N : nat)
  : option (rel_state * list (list row)) :=
  match N with
  | O => Some ({| idx := O |}, [])
  | S k =>
      match run_upto groups steps k with
      | None => None
      | Some (st, outs) =>
          match release_update groups steps (Z.of_nat k) st with
          | None => None
          | Some (st', out) => Some (st', outs ++ [out])
          end
      end
  end.

(** * Part 2: the specification (property C04) *)

(** the simulated window: start inclusive, stop exclusive, mirrored for reversed runs *)
Definition in_window (t : tk) (x : Z) : bool :=
  if rev t then (stop t <? x) && (x <=? start t) else (start t <=? x) && (x <? stop t).
(** warm start: the start time itself is excluded as well *)
Definition in_window_warm (t : tk) (x : Z) : bool :=
  if rev t then (stop t <? x) && (x <? start t) else (start t <? x) && (x <? stop t).

(** what the property wants appended at step n: the scheduled rows of that step in file order,
    each mult times *)
Definition released_by (win : Z -> bool) (t : tk) (tab : list row) (n : Z) : list row :=
  flat_map (fun r => repeat r (rmult r))
           (filter (fun r => win (rt r) && (time2step t (rt r) =? n)) tab).
Definition released_at (t : tk) (tab : list row) (n : Z) : list row := released_by (in_window t) t tab n.
Definition released_at_warm (t : tk) (tab : list row) (n : Z) : list row :=
  released_by (in_window_warm t) t tab n.

(** number of distinct scheduled release times strictly before step n (the cursor) *)
Definition times_before (win : Z -> bool) (t : tk) (tab : list row) (n : Z) : nat :=
  length (filter (fun x => time2step t x <? n) (uniq (map rt (filter_time win tab)))).

(** hypotheses on tables: simulation order and time grid *)
Definition sim_le (t : tk) (x y : Z) : bool := if rev t then y <=? x else x <=? y.
Fixpoint sim_sorted (t : tk) (l : list Z) : bool :=
  match l with
  | [] => true
  | x :: r => match r with [] => true | y :: _ => sim_le t x y end && sim_sorted t r
  end.
Definition on_grid (t : tk) (x : Z) : bool := (x - start t) mod dt t =? 0.
Definition table_ok (t : tk) (tab : list row) : bool :=
  sim_sorted t (map rt tab) && forallb (fun r => on_grid t (rt r)) tab.

(** continuous mode.  [first] is the first file time in the window-before-stop; ticks are
    first + k * freq (k >= 0) up to the stop time (first - k * freq when reversed) *)
Definition is_tick (t : tk) (freq first x : Z) : bool :=
  sim_le t first x && ((x - first) mod freq =? 0) && before_stop t x.
(** latest file time at or before the tick x in simulation order *)
Definition later (t : tk) (x : Z) (best : option Z) (y : Z) : option Z :=
  if sim_le t y x then
    match best with
    | None => Some y
    | Some b => if sim_le t b y then Some y else Some b
    end
  else best.
Definition latest (t : tk) (tab : list row) (x : Z) : option Z :=
  fold_left (later t x) (map rt tab) None.
(** start of the window: inclusive for a cold start, exclusive for a warm start *)
Definition the_start (t : tk) (warm : bool) (x : Z) : bool :=
  if warm then after_start t x else from_start t x.
(** at step n: if the time of the step is a tick inside the window, the row set of the latest
    file time (re-stamped with the tick) in file order, each row mult times; else nothing *)
Definition cont_released_at (t : tk) (freq : Z) (warm : bool) (tab : list row) (n : Z) : list row :=
  let w := filter_time (before_stop t) tab in
  match w with
  | [] => []
  | r0 :: _ =>
      let x := step2time t n in
      if is_tick t freq (rt r0) x && the_start t warm x then
        match latest t w x with
        | Some y => expand (map (retime x) (rows_at y w))
        | None => []
        end
      else []
  end.
(** hypotheses of continuous mode: positive frequency, a multiple of dt; the part of the table
    before the stop time is in simulation order, its first time on the model time grid and all
    its times on the frequency grid anchored at the first *)
Definition freq_grid (freq : Z) (tab : list row) : bool :=
  match tab with [] => true | r0 :: _ => forallb (fun r => (rt r - rt r0) mod freq =? 0) tab end.
Definition cont_ok (t : tk) (freq : Z) (tab : list row) : bool :=
  let w := filter_time (before_stop t) tab in
  (0 <? freq) && (freq mod dt t =? 0) && sim_sorted t (map rt w) && freq_grid freq w
  && match w with [] => true | r0 :: _ => on_grid t (rt r0) end.
