(** Model/Time.v — ladim/timekeeper.py: TimeKeeper arithmetic, normalize_period.
    Times are integer seconds (datetime64[s]); dt > 0 is the time step in seconds. *)
From Coq Require Import ZArith QArith List Bool String Ascii.
From Ladim Require Import Base.Num.
Import ListNotations.
Open Scope Z_scope.

Record tk := { start : Z; stop : Z; dt : Z; ref : Z; rev : bool }.

(** constructor: the three missing-argument exits, the direction check, reference default *)
Inductive init_result := InitOk (t : tk) | InitExit.
Definition tk_init (ostart ostop : option Z) (dt0 : Z) (oref : option Z) (rv : bool) : init_result :=
  match ostart, ostop with
  | Some s, Some e =>
      if dt0 =? 0 then InitExit
      else if negb (Bool.eqb rv (e - s <? 0)) then InitExit
      else InitOk {| start := s; stop := e; dt := dt0; rev := rv;
                     ref := match oref with Some r => r | None => Z.min s e end |}
  | _, _ => InitExit
  end.

Definition step2time (t : tk) (n : Z) : Z :=
  if rev t then start t - n * dt t else start t + n * dt t.
Definition time2step (t : tk) (x : Z) : Z :=
  if rev t then (start t - x) / dt t else (x - start t) / dt t.
Definition nsteps (t : tk) : Z := Z.abs (stop t - start t) / dt t.

(** seconds per unit of the unit_table ("s", "m", "h", "d"); 0 = unknown *)
Definition unit_secs (u : Z) : Z :=
  if u =? 0 then 1 else if u =? 1 then 60 else if u =? 2 then 3600 else if u =? 3 then 86400 else 0.
Definition step2nctime (t : tk) (n : Z) (u : Z) : Q :=
  inject_Z (step2time t n - ref t) / inject_Z (unit_secs u).

(** the running clock *)
Record clock := { cstep : Z; ctime : Z }.
Definition clock_init (t : tk) : clock := {| cstep := -1; ctime := step2time t (-1) |}.
Definition clock_update (t : tk) (c : clock) : clock :=
  {| cstep := cstep c + 1; ctime := if rev t then ctime c - dt t else ctime c + dt t |}.
Definition nctime (t : tk) (c : clock) (u : Z) : Q :=
  inject_Z (ctime c - ref t) / inject_Z (unit_secs u).
Fixpoint clock_after (t : tk) (k : nat) : clock :=
  match k with O => clock_init t | S j => clock_update t (clock_after t j) end.

(** * normalize_period *)
Open Scope string_scope.
Definition is_digit (c : ascii) : bool :=
  let n := nat_of_ascii c in (Nat.leb 48 n) && (Nat.leb n 57).
Definition digit_val (c : ascii) : Z := Z.of_nat (nat_of_ascii c) - 48.
(** longest prefix of digits: returns its value, its length and the rest *)
Fixpoint take_digits (s : string) (acc : Z) (len : nat) : Z * nat * string :=
  match s with
  | String c r => if is_digit c then take_digits r (10 * acc + digit_val c) (S len) else (acc, len, s)
  | EmptyString => (acc, len, s)
  end.
(** one optional group  \d+L  *)
Definition group (L : ascii) (s : string) : option Z * string :=
  match take_digits s 0 O with
  | (v, len, String c r) => if (Nat.ltb 0 len) && Ascii.eqb c L then (Some v, r) else (None, s)
  | (_, _, EmptyString) => (None, s)
  end.
Definition parse_iso (s : string) : option Z :=
  match s with
  | String "P" (String "T" r) =>
      let '(h, r1) := group "H" r in
      let '(m, r2) := group "M" r1 in
      let '(sec, r3) := group "S" r2 in
      match r3 with
      | EmptyString =>
          match h, m, sec with
          | None, None, None => None
          | _, _, _ =>
              Some (3600 * match h with Some x => x | None => 0 end
                    + 60 * match m with Some x => x | None => 0 end
                    + match sec with Some x => x | None => 0 end)
          end
      | _ => None
      end
  | _ => None
  end.

(** period spellings: int seconds, timedelta (seconds), [value, unit], ISO string, anything else *)
Inductive period :=
| PInt (z : Z) | PDelta (z : Z) | PList (v : Z) (u : string) | PStr (s : string) | POther.
Definition list_unit_secs (u : string) : option Z :=
  if String.eqb u "s" then Some 1 else if String.eqb u "m" then Some 60
  else if String.eqb u "h" then Some 3600 else if String.eqb u "D" then Some 86400 else None.
Definition normalize_period (p : period) : option Z :=
  match p with
  | PInt z => Some z
  | PDelta z => Some z
  | PList v u => match list_unit_secs u with Some k => Some (v * k) | None => None end
  | PStr s => parse_iso s
  | POther => None
  end.

(** rendering of an ISO period (the specification side of the recogniser) *)
Fixpoint all_digits (s : string) : bool :=
  match s with EmptyString => true | String c r => is_digit c && all_digits r end.
Fixpoint digits_value (s : string) (acc : Z) : Z :=
  match s with EmptyString => acc | String c r => digits_value r (10 * acc + digit_val c) end.
Definition part (o : option string) (L : ascii) (rest : string) : string :=
  match o with None => rest | Some ds => ds ++ String L rest end.
Definition render_iso (oh om os : option string) : string :=
  "PT" ++ part oh "H" (part om "M" (part os "S" "")).
Definition wf_part (o : option string) : bool :=
  match o with None => true | Some ds => (Nat.ltb 0 (String.length ds)) && all_digits ds end.
Definition part_value (o : option string) : Z :=
  match o with None => 0 | Some ds => digits_value ds 0 end.
