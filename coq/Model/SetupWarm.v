(** Model/SetupWarm.v — the restarted simulation of a set-up (Model/Setup.v): the clock starts at the time
    of the restart record and counts its steps from there (TimeKeeper with start = warm-start time), the
    forcing module is constructed afresh at that start (Forcing.__init__: new step tables, pre-step
    interpolation), the releaser is constructed with warm = true (the rows at the start time are not released
    again, the cursor starts at zero), the particles and the pid counter come from the restart file. *)
From Coq Require Import ZArith QArith List Bool.
From Ladim Require Import Base.Num Model.Time Model.ForcingTime Model.Release Model.Sim Model.Setup.
Import ListNotations.
Open Scope Z_scope.

Definition warm_tk (t : tk) (r : Z) : tk :=
  {| start := step2time t r; stop := stop t; dt := dt t; ref := ref t; rev := rev t |}.
(** the set-up of the restarted run: same files, same table, same constants, same advection scheme, clock from
    the restart time *)
Definition warm_setup (s : setup) (r : Z) : setup :=
  {| s_tk := warm_tk (s_tk s) r; s_files := s_files s; s_tab := s_tab s; s_cont := s_cont s; s_period := s_period s;
     s_dtdx := s_dtdx s; s_lo := s_lo s; s_hi := s_hi s; s_life := s_life s; s_cfac := s_cfac s;
     s_land := s_land s; s_adv := s_adv s |}.

(** the releaser of a warm start *)
Definition mw_rows (s : setup) (n : Z) : list row :=
  match rel_init (s_tk s) (s_cont s) true (s_tab s) with
  | RelOk _ groups steps =>
      match run_upto groups steps (S (Z.to_nat n)) with
      | Some (_, outs) => last outs []
      | None => []
      end
  | RelExit => []
  end.
(** what the warm releaser must append at step n (C04, warm start): discrete / continuous release *)
Definition spw_rows (s : setup) (n : Z) : list row :=
  match s_cont s with
  | None => released_at_warm (s_tk s) (s_tab s) n
  | Some f => cont_released_at (s_tk s) f true (s_tab s) n
  end.
Definition mw_release (s : setup) (n : Z) : list (Z * pv) := map row_part (mw_rows s n).

(** the restarted run: [w] is the warm set-up, [r0] the restart record in the new numbering (step 0),
    [np] the restored pid counter *)
Definition m_warm_run (w : setup) (r0 : rec pv) (np : Z) : sim pv Z :=
  warm_run pv Z (mw_release w) (m_force w) s_cache (m_track w) (ibm w) (s_due w) r0 np (s_nsteps w).

(** the clock runs from start towards stop (TimeKeeper refuses the opposite, C13) *)
Definition dir_ok (t : tk) : bool := if rev t then stop t <=? start t else start t <=? stop t.
