(** Model/Setup.v — a whole set-up compiled into the step-indexed environment of Model/Sim.v by the
    COMPONENT MACHINES: the clock (Model/Time.v), the forcing files scanned and read as Forcing.__init__ /
    Forcing.update do (Model/ForcingTime.v: frames at arbitrary times in arbitrary files), the release
    table handled as ParticleReleaser does (Model/Release.v: window filter, grouping, cursor), the output
    period, and a small concrete particle physics:

      - position x (one horizontal coordinate, grid units), depth class (never changes), age (steps), temp;
      - Forcing.update stores the scalar field in force ("temp") and caches the particle's depth class;
      - Tracker.update moves x by U * dt/dx, where U is the velocity the particle FEELS: the flow in force
        u * factor(class) (sign-flipped when the clock runs backwards) sits on the u-faces of the grid line, a
        face next to a LAND cell is masked to zero (ROMS.Forcing._read_velocity multiplies by the u-mask), and
        the particle at x feels the linear interpolation in x between its two faces (ROMS.sample3DUV along a
        flow uniform in y) — without land simply u * factor(class);
        the particle is killed when the candidate leaves (lo, hi) (Grid.ingrid), and the move is CANCELLED —
        the particle stays where it is, alive — when the candidate lies in a land cell (Grid.atsea; the cell
        of a position is its round-half-even, as in Model/Tracker.v);
      - the IBM ages the particle and kills it at age >= lifetime (lifetime < 0: never).

    The ADVECTION SCHEME of the tracker is part of the set-up ([s_adv]: 0 = EF, 1 = RK2, 2 = RK4; tracker.py EF /
    RK2 / RK4).  The velocity U of the move is
      EF   the velocity felt at the particle's position x at the step itself (fractional_step = 0);
      RK2  U1 felt at (x, 0); X1 = x + 1/2 U1 dt/dx; U = the velocity felt at (X1, fractional_step = 1/2);
      RK4  U1 at (x, 0); U2 at (x + 1/2 U1 dt/dx, 1/2); U3 at (x + 1/2 U2 dt/dx, 1/2); U4 at (x + U3 dt/dx, 1);
           U = (U1 + 2 U2 + 2 U3 + U4) / 6,
    where the flow at fractional step f is Forcing.velocity(..., fractional_step = f) of the forcing state in
    force at the step ([velocity_frac] of Model/ForcingTime.v: u + f dU, plain u when f < 1/1000, negated when
    the clock runs backwards) and "felt" is the masked-face interpolation above at the STAGE position, with the
    factor of the particle's own depth class at every stage (the real code caches the level and its weight at
    Forcing.update, at the start position).  The kill / land-cancel rules act on the candidate x + U dt/dx.
    NOT MODELLED: the clip of the stage positions into [xmin + 0.01, xmax - 0.01] = [lo - 49/100, hi + 49/100].
    Instead well-formedness demands [no_clip]: for RK2 every |u| * |factor| * |dt/dx| over all frames of all
    files and all class factors (and the factor 1 of an unknown class) is at most 98/100, for RK4 at most
    49/100 (nothing for EF; any other scheme number is refused).  Every stage displacement is then at most
    49/100 of a cell, so no stage position of a particle inside (lo, hi) leaves the clip box and the clip is the
    identity ([stages_in_box] in Proofs/SetupProofs.v).  [no_clip] thus EXCLUDES the set-ups whose flow is fast
    enough (about half a cell per step for RK4, one cell for RK2) for the clip to act near the open boundary.

    The releaser works in either mode of release.py: DISCRETE ([s_cont] = None: the rows of the table at their
    times) or CONTINUOUS ([s_cont] = Some frequency: discretize() — the row set of the latest file time at
    every tick of the frequency grid anchored at the first file time before the stop).

    [m_run] is "what the code does" for the set-up; [sp_run] is the SPECIFICATION run: particles enter at
    the steps of their release times (C04's [released_at]; continuous mode: at every tick inside the window,
    C04's [cont_released_at]), feel the linear interpolation of the frames
    (C03's [lerp_spec]) — at step n, stage fraction f: at the point n + f of the step axis — and the latest
    scalar frame (C03's [latest_spec]).  Proofs/SetupProofs.v proves that
    the two agree record for record for every well-formed set-up, and derives the closed time-shift (C14)
    and time-mirror (C10) theorems about file layouts, release tables and clocks. *)
From Coq Require Import ZArith QArith Qabs List Bool.
From Ladim Require Import Base.Num Model.Time Model.ForcingTime Model.Release Model.Sim.
Import ListNotations.
Open Scope Z_scope.

Record pv := { vx : Q; vcls : Z; vage : Z; vtemp : Q }.

Record setup := {
  s_tk : tk;                         (* start, stop, dt, reference, direction *)
  s_files : list (list record);      (* forcing files in glob order: records (time, u, scalar) *)
  s_tab : list row;                  (* release table in file order; rvals = [tag; 1024*x; class] *)
  s_cont : option Z;                 (* continuous release: Some frequency in seconds; None = discrete release *)
  s_period : Z;                      (* output period in steps *)
  s_dtdx : Q;                        (* dt / dx *)
  s_lo : Q; s_hi : Q;                (* open interval of valid positions *)
  s_life : Z;                        (* IBM lifetime in steps, negative = none *)
  s_cfac : list Q;                   (* velocity factor of each depth class *)
  s_land : list Z;                   (* the x-cells that are land along the particle line *)
  s_adv : Z                          (* advection scheme: 0 = EF, 1 = RK2, 2 = RK4 *)
}.

Definition row_part (r : row) : Z * pv :=
  (nth 0 (rvals r) 0,
   {| vx := Qmake (nth 1 (rvals r) 0) 1024; vcls := nth 2 (rvals r) 0; vage := 0; vtemp := 0 |}).

Definition s_raw (s : setup) : list frame := scan (s_tk s) (s_files s).
Definition s_disk (s : setup) : disk := disk_of (s_files s).
Definition s_nsteps (s : setup) : Z := nsteps (s_tk s).

Definition cfac (s : setup) (c : Z) : Q := match znth_opt (s_cfac s) c with Some q => q | None => 1 end.

(** the physics, parameterised by the forcing in force *)
Definition with_temp (v : pv) (t : Q) : pv := {| vx := vx v; vcls := vcls v; vage := vage v; vtemp := t |}.
(** land and the masked u-faces: face k lies at x = k + 1/2, between the cells k and k + 1, and carries the
    flow U unless one of its two cells is land; a particle at x, with k0 = floor(x - 1/2), sits between the
    faces k0 and k0 + 1 at the fraction p = x - 1/2 - k0 and feels their linear interpolation *)
Definition is_land (s : setup) (k : Z) : bool := existsb (Z.eqb k) (s_land s).
Definition face (s : setup) (U : Q) (k : Z) : Q := if is_land s k || is_land s (k + 1) then 0%Q else U.
Definition felt (s : setup) (U x : Q) : Q :=
  let k0 := qfloor (x - (1 # 2)) in
  let p := (x - (1 # 2) - inject_Z k0)%Q in
  ((1 - p) * face s U k0 + p * face s U (k0 + 1))%Q.
(** the advection schemes of tracker.py over a flow [uf] given as a function of the fractional step: the
    velocity felt by a particle of class c at stage position x and fraction f, RKstep, and the velocity of the
    move (EF / RK2 / RK4; stage positions NOT clipped, see [no_clip]) *)
Definition stage (s : setup) (uf : Q -> Q) (c : Z) (f x : Q) : Q := felt s (uf f * cfac s c) x.
Definition rk_pos (s : setup) (x frac U : Q) : Q := (x + frac * U * s_dtdx s)%Q.
Definition adv (s : setup) (uf : Q -> Q) (c : Z) (x : Q) : Q :=
  if s_adv s =? 1 then
    let U1 := stage s uf c 0 x in
    stage s uf c (1 # 2) (rk_pos s x (1 # 2) U1)
  else if s_adv s =? 2 then
    let U1 := stage s uf c 0 x in
    let U2 := stage s uf c (1 # 2) (rk_pos s x (1 # 2) U1) in
    let U3 := stage s uf c (1 # 2) (rk_pos s x (1 # 2) U2) in
    let U4 := stage s uf c 1 (rk_pos s x 1 U3) in
    ((U1 + 2 * U2 + 2 * U3 + U4) / 6)%Q
  else stage s uf c 0 x.
(** Tracker.update: the candidate out of the valid interval kills (value unchanged); the candidate in a land
    cell cancels the move (value unchanged, still alive); otherwise the particle moves to the candidate.
    The candidate is kept as a REDUCED fraction ([Qred], the same rational): the position enters the felt flow
    through the interpolation weight, so unreduced denominators would be cubed at every step *)
Definition move (s : setup) (uf : Q -> Q) (v : pv) (c : Z) : pv * bool :=
  let cand := Qred (vx v + adv s uf c (vx v) * s_dtdx s)%Q in
  if Qlt_bool (s_lo s) cand && Qlt_bool cand (s_hi s)
  then if is_land s (qround cand) then (v, true)
       else ({| vx := cand; vcls := vcls v; vage := vage v; vtemp := vtemp v |}, true)
  else (v, false).
Definition ibm (s : setup) (n : Z) (v : pv) : pv * bool :=
  let a := vage v + 1 in
  ({| vx := vx v; vcls := vcls v; vage := a; vtemp := vtemp v |}, (s_life s <? 0) || (a <? s_life s)).
Definition s_cache (n : Z) (v : pv) : Z := vcls v.
Definition s_due (s : setup) (n : Z) : bool := n mod s_period s =? 0.

(** * the machines *)
Definition m_fstate (s : setup) (n : Z) : option fstate :=
  state_at (mk_tables (s_raw s)) (s_disk s) true n.
(** Forcing.velocity(..., fractional_step = f) of the state in force at step n; [m_u] = the flow at the step itself *)
Definition m_uf (s : setup) (n : Z) (f : Q) : Q :=
  match m_fstate s n with Some st => velocity_frac (rev (s_tk s)) st f | None => 0 end.
Definition m_u (s : setup) (n : Z) : Q := m_uf s n 0.
Definition m_temp (s : setup) (n : Z) : Q :=
  match m_fstate s n with Some st => scal st | None => 0 end.
Definition m_rows (s : setup) (n : Z) : list row :=
  match rel_init (s_tk s) (s_cont s) false (s_tab s) with
  | RelOk _ groups steps =>
      match run_upto groups steps (S (Z.to_nat n)) with
      | Some (_, outs) => last outs []
      | None => []
      end
  | RelExit => []
  end.
Definition m_release (s : setup) (n : Z) : list (Z * pv) := map row_part (m_rows s n).
Definition m_force (s : setup) (n : Z) (v : pv) : pv := with_temp v (m_temp s n).
Definition m_track (s : setup) (n : Z) (v : pv) (c : Z) : pv * bool := move s (m_uf s n) v c.
Definition m_run (s : setup) : sim pv Z :=
  cold_run pv Z (m_release s) (m_force s) s_cache (m_track s) (ibm s) (s_due s) (s_nsteps s).

(** * the specification *)
Definition sp_uf (s : setup) (n : Z) (f : Q) : Q :=
  match lerp_spec (upts (s_raw s) (s_disk s)) (inject_Z n + f) with
  | Some v => if rev (s_tk s) then (- v)%Q else v
  | None => 0
  end.
Definition sp_u (s : setup) (n : Z) : Q := sp_uf s n 0.
Definition sp_temp (s : setup) (n : Z) : Q :=
  match latest_spec (spts (s_raw s) (s_disk s)) n with Some v => v | None => 0 end.
Definition sp_rows (s : setup) (n : Z) : list row :=
  match s_cont s with
  | None => released_at (s_tk s) (s_tab s) n
  | Some f => cont_released_at (s_tk s) f false (s_tab s) n
  end.
Definition sp_release (s : setup) (n : Z) : list (Z * pv) := map row_part (sp_rows s n).
Definition sp_force (s : setup) (n : Z) (v : pv) : pv := with_temp v (sp_temp s n).
Definition sp_track (s : setup) (n : Z) (v : pv) (c : Z) : pv * bool := move s (sp_uf s n) v c.
Definition sp_run (s : setup) : sim pv Z :=
  cold_run pv Z (sp_release s) (sp_force s) s_cache (sp_track s) (ibm s) (s_due s) (s_nsteps s).

(** * well-formed set-ups (decidable): positive time step; DISCRETE release: the in-window part of the
    release table in simulation order on the time grid; CONTINUOUS release: C04's [cont_ok] (positive
    frequency, a multiple of dt; the part of the table before the stop time in simulation order, its first
    time on the model time grid, all its times on the frequency grid anchored at the first); the releaser
    does not refuse the run; forcing frames on the time grid at pairwise different times, one at or before
    the start and one after the last step; a known advection scheme whose stage positions are never clipped
    ([no_clip], see the header) *)
Definition disp_le (s : setup) (b : Q) : bool :=
  forallb (fun r : record =>
             forallb (fun cf => Qle_bool (Qabs (snd (fst r)) * Qabs cf * Qabs (s_dtdx s)) b) (1%Q :: s_cfac s))
          (concat (s_files s)).
Definition no_clip (s : setup) : bool :=
  if s_adv s =? 0 then true
  else if s_adv s =? 1 then disp_le s (98 # 100)
  else if s_adv s =? 2 then disp_le s (49 # 100)
  else false.
Definition started (s : setup) : bool :=
  match rel_init (s_tk s) (s_cont s) false (s_tab s) with RelOk _ _ _ => true | RelExit => false end.
Definition tab_ok (s : setup) : bool :=
  match s_cont s with
  | None => table_ok (s_tk s) (filter_time (in_window (s_tk s)) (s_tab s))
  | Some f => cont_ok (s_tk s) f (s_tab s)
  end.
Definition setup_ok (s : setup) : bool :=
  (0 <? dt (s_tk s)) && tab_ok s && started s &&
  ForcingTime.on_grid (s_tk s) (s_files s) && nodupb (layout_times (s_files s)) &&
  covers (s_raw s) (s_nsteps s - 1) && no_clip s.

(** values are compared up to [==] on the rationals *)
Definition pv_eq (v w : pv) : Prop :=
  (vx v == vx w)%Q /\ vcls v = vcls w /\ vage v = vage w /\ (vtemp v == vtemp w)%Q.

(** * symmetries of set-ups *)
Definition shift_rec (d : Z) (r : record) : record := let '(t, u, sc) := r in (t + d, u, sc).
Definition shift_row (d : Z) (r : row) : row := {| rt := rt r + d; rmult := rmult r; rvals := rvals r |}.
Definition shift_tk' (t : tk) (d : Z) : tk :=
  {| start := start t + d; stop := stop t + d; dt := dt t; ref := ref t + d; rev := rev t |}.
Definition shift_setup (s : setup) (d : Z) : setup :=
  {| s_tk := shift_tk' (s_tk s) d; s_files := map (map (shift_rec d)) (s_files s);
     s_tab := map (shift_row d) (s_tab s); s_cont := s_cont s; s_period := s_period s; s_dtdx := s_dtdx s;
     s_lo := s_lo s; s_hi := s_hi s; s_life := s_life s; s_cfac := s_cfac s; s_land := s_land s;
     s_adv := s_adv s |}.

(** the mirror image of a reversed set-up: a forward clock over the axis x |-> 2*start - x, every forcing
    frame and release row at its mirror time, velocities sign-flipped, scalars unchanged *)
Definition mirror_x (t : tk) (x : Z) : Z := 2 * start t - x.
Definition mirror_tk' (t : tk) : tk :=
  {| start := start t; stop := mirror_x t (stop t); dt := dt t; ref := ref t; rev := negb (rev t) |}.
Definition mirror_rec (t : tk) (r : record) : record := let '(x, u, sc) := r in (mirror_x t x, (- u)%Q, sc).
Definition mirror_row' (t : tk) (r : row) : row := {| rt := mirror_x t (rt r); rmult := rmult r; rvals := rvals r |}.
Definition mirror_setup (s : setup) : setup :=
  {| s_tk := mirror_tk' (s_tk s); s_files := map (map (mirror_rec (s_tk s))) (s_files s);
     s_tab := map (mirror_row' (s_tk s)) (s_tab s); s_cont := s_cont s; s_period := s_period s; s_dtdx := s_dtdx s;
     s_lo := s_lo s; s_hi := s_hi s; s_life := s_life s; s_cfac := s_cfac s; s_land := s_land s;
     s_adv := s_adv s |}.

(** * a concrete reversed set-up used by the non-vacuity examples: two forcing files, frames 1200 s apart on a
    600 s clock, a release table with a multiplicity and a row at the stop time (never released) *)
Definition rcq (time a b : Z) : record := (time, inject_Z a, inject_Z b).
Definition ex_setup : setup :=
  {| s_tk := {| start := 3600; stop := 0; dt := 600; ref := 0; rev := true |};
     s_files := [[rcq 0 1 10; rcq 1200 3 20]; [rcq 2400 7 30; rcq 3600 15 40]];
     s_tab := [ {| rt := 3600; rmult := 1; rvals := [0; 5120; 0] |}; {| rt := 2400; rmult := 2; rvals := [1; 6144; 1] |};
                {| rt := 0; rmult := 1; rvals := [2; 7168; 0] |} ];
     s_cont := None; s_period := 2; s_dtdx := 1 # 16; s_lo := 1; s_hi := 18; s_life := 5; s_cfac := [1; 1 # 2]%Q;
     s_land := []; s_adv := 0 |}.
(** a concrete forward set-up with CONTINUOUS release every 1200 s on a 600 s clock: the file times 0 (one
    row) and 2400 (two rows, one with multiplicity 2) lie on the frequency grid anchored at 0; the row at the
    stop time is never used *)
Definition ex_setup_cont : setup :=
  {| s_tk := {| start := 0; stop := 3600; dt := 600; ref := 0; rev := false |};
     s_files := [[rcq 0 1 10; rcq 1200 3 20]; [rcq 2400 7 30; rcq 3600 15 40]];
     s_tab := [ {| rt := 0; rmult := 1; rvals := [0; 5120; 0] |}; {| rt := 2400; rmult := 2; rvals := [1; 6144; 1] |};
                {| rt := 2400; rmult := 1; rvals := [2; 4096; 0] |}; {| rt := 3600; rmult := 1; rvals := [3; 7168; 0] |} ];
     s_cont := Some 1200; s_period := 2; s_dtdx := 1 # 16; s_lo := 1; s_hi := 18; s_life := 5; s_cfac := [1; 1 # 2]%Q;
     s_land := []; s_adv := 0 |}.
(** [ex_setup] with LAND in cell 4, a coarser grid (dt/dx = 1/8), output at every step and no lifetime: the
    particle released at x = 5 sits half-way between the masked face at 4 1/2 and the open face at 5 1/2 and
    feels half the flow (reversed clock: towards lower x); its first two moves (candidates 4 1/16 and 4 5/16, in
    the land cell) are CANCELLED, the third (to 4 9/16, in cell 5) is made, and from there it creeps towards the
    masked face; the particles released at x = 6 lie between two open faces and feel the whole flow *)
Definition ex_setup_land : setup :=
  {| s_tk := s_tk ex_setup; s_files := s_files ex_setup; s_tab := s_tab ex_setup; s_cont := None; s_period := 1;
     s_dtdx := 1 # 8; s_lo := 1; s_hi := 18; s_life := -1; s_cfac := [1; 1 # 2]%Q; s_land := [4]; s_adv := 0 |}.
(** the same set-up under another advection scheme *)
Definition with_adv (s : setup) (a : Z) : setup :=
  {| s_tk := s_tk s; s_files := s_files s; s_tab := s_tab s; s_cont := s_cont s; s_period := s_period s;
     s_dtdx := s_dtdx s; s_lo := s_lo s; s_hi := s_hi s; s_life := s_life s; s_cfac := s_cfac s; s_land := s_land s;
     s_adv := a |}.
(** [ex_setup] (reversed clock, flow 15, 11, 7, 5, 3, 2 at the six steps: the fractional-step sampling matters)
    under RK2 — the largest displacement is 15/16 of a cell per step, within [no_clip] for RK2 —, and on a grid
    twice as coarse (dt/dx = 1/32, at most 15/32 of a cell per step) under RK4; [ex_setup_land] on the finer grid
    dt/dx = 1/16 under RK2: the stage position of the particle next to the masked face feels another flow than
    the particle itself *)
Definition ex_setup_rk2 : setup := with_adv ex_setup 1.
Definition ex_setup_rk4_base : setup :=
  {| s_tk := s_tk ex_setup; s_files := s_files ex_setup; s_tab := s_tab ex_setup; s_cont := None; s_period := 2;
     s_dtdx := 1 # 32; s_lo := 1; s_hi := 18; s_life := 5; s_cfac := [1; 1 # 2]%Q; s_land := []; s_adv := 0 |}.
Definition ex_setup_rk4 : setup := with_adv ex_setup_rk4_base 2.
Definition ex_setup_land_rk2 : setup :=
  {| s_tk := s_tk ex_setup; s_files := s_files ex_setup; s_tab := s_tab ex_setup; s_cont := None; s_period := 1;
     s_dtdx := 1 # 16; s_lo := 1; s_hi := 18; s_life := -1; s_cfac := [1; 1 # 2]%Q; s_land := [4]; s_adv := 1 |}.
(** the same under RK4 on the grid dt/dx = 1/32: next to the masked face the four stage velocities differ with the
    stage positions, the run differs from the RK2 run of the same set-up (without land RK4 and RK2 coincide: the
    flow is uniform in space and linear in time within a step, so both use its mid-step value) *)
Definition ex_setup_land_rk4 : setup :=
  {| s_tk := s_tk ex_setup; s_files := s_files ex_setup; s_tab := s_tab ex_setup; s_cont := None; s_period := 1;
     s_dtdx := 1 # 32; s_lo := 1; s_hi := 18; s_life := -1; s_cfac := [1; 1 # 2]%Q; s_land := [4]; s_adv := 2 |}.
(** records of a run in readable form: (step, [(pid, tag, x, age, temp)]) with reduced fractions *)
Definition show_run (r : sim pv Z) : list (Z * list (Z * Z * Q * Z * Q)) :=
  map (fun x : rec pv => (rstep x, map (fun y : Z * Z * pv => let '(pid, tg, v) := y in
                                         (pid, tg, Qred (vx v), vage v, Qred (vtemp v))) (rrows x))) (recs r).
