(** Model/Startup.v — the start-up of a run: ladim/main.py (configure, Model(config), then the time
    loop), ladim/configure.py (configure, configure_v2), ladim/model.py (Model.__init__ builds the
    modules state, time, grid, forcing, release, tracker, ibm, output in this order; init_module),
    and the refusals of the constructors: TimeKeeper.__init__ (Model/Time.v [tk_init]),
    ROMS.Grid.__init__, ROMS.Forcing.__init__ (find_files, scan_file_times, forcing_steps, the
    pre-step lookup), ParticleReleaser.__init__ (Model/Release.v [rel_init]), Output.__init__.

    A [setup] holds exactly the data these decisions depend on.  Times are integer seconds.
    Scope: cold start, configuration format version 2, default modules.
    Definitions only; proofs are in Proofs/StartupProofs.v. *)
From Coq Require Import ZArith List Bool.
From Ladim Require Import Base.Num Model.Time Model.Release.
Import ListNotations.
Open Scope Z_scope.

(** where a refusal happens: in [configure] or in the constructor (or [init_module] call) of a module *)
Inductive stage_t :=
| StConfig | StState | StTime | StGrid | StForcing | StRelease | StTracker | StIbm | StOutput.
Inductive outcome := Started | Refused (st : stage_t).

(** the configuration file: readable version-2 YAML/TOML, absent, not parseable, wrong version *)
Inductive cf_status := CfOk | CfMissing | CfBadSyntax | CfBadVersion.
(** a top-level section: absent, given without content ([time:] -> None), given with content *)
Inductive sec := SecMissing | SecNull | SecPresent.

Record setup := {
  cf : cf_status;
  sec_time : sec; sec_forcing : sec; sec_release : sec; sec_tracker : sec; sec_output : sec;
  (* keys of the grid and forcing sections that configure_v2 looks at *)
  grid_module : bool; grid_filename : bool; forcing_module : bool; forcing_filename : bool;
  (* time section: absent keys are None (dt: absent = 0) *)
  t_start : option Z; t_stop : option Z; t_dt : Z; t_ref : option Z; t_rev : bool;
  (* grid: can the file named by grid.filename be opened; shape of h; subgrid = [i0, i1, j0, j1] *)
  grid_file : bool; imax0 : Z; jmax0 : Z; subgrid : option (Z * Z * Z * Z);
  (* forcing: the files matched by the pattern in sorted order, each with its frame times *)
  forcing_files : list (list Z);
  (* release: release_file key given, its value is "", the file exists, it has X,Y or lon,lat
     columns, every row has a value in them, the release times of its rows, Some frequency =
     continuous release *)
  rel_key : bool; rel_name_empty : bool; rel_file : bool; rel_poscols : bool; rel_rowpos : bool;
  rel_times : list Z; rel_cont : option Z;
  (* output: mandatory arguments of Output.__init__ *)
  out_filename : bool; out_period : option Z; out_ivars : bool
}.

Definition given (x : sec) : bool := match x with SecMissing => false | _ => true end.
Definition present (x : sec) : bool := match x with SecPresent => true | _ => false end.

(** * configure (configure.py:34-95) and configure_v2 (102-160): true = a configuration is returned.
    Missing file, bad syntax, bad version -> SystemExit(3).  configure_v2 subscripts
    config["tracker"], ["time"], ["release"], ["output"] (KeyError -> SystemExit(3)); only when
    the grid section lacks "module" / "filename" it reads config["forcing"]["module"] /
    ["filename"] (KeyError -> SystemExit(3) when the section or the key is absent; a section
    without content gives an uncaught TypeError — still inside configure). *)
Definition configure (s : setup) : bool :=
  match cf s with
  | CfOk =>
      given (sec_tracker s) && given (sec_time s) && given (sec_release s) && given (sec_output s)
      && (if grid_module s then true else present (sec_forcing s) && forcing_module s)
      && (if grid_filename s then true else present (sec_forcing s) && forcing_filename s)
  | _ => false
  end.

(** * the constructors *)

(** TimeKeeper: a section without content reaches init_module as None (AttributeError) *)
Definition time_stage (s : setup) : option tk :=
  match sec_time s with
  | SecPresent =>
      match tk_init (t_start s) (t_stop s) (t_dt s) (t_ref s) (t_rev s) with
      | InitOk t => Some t
      | InitExit => None
      end
  | _ => None
  end.

(** Grid (ROMS.py:58-98).  Without grid.filename configure_v2 takes the first forcing file (the
    pattern itself when nothing matches: Dataset then fails). *)
Definition grid_file_found (s : setup) : bool :=
  if grid_filename s then grid_file s else match forcing_files s with [] => false | _ => true end.
(** negative limits count from the upper end *)
Definition from_end (n x : Z) : Z := if x <? 0 then n + x else x.
Definition grid_limits (s : setup) : Z * Z * Z * Z :=
  match subgrid s with
  | Some (i0, i1, j0, j1) =>
      (from_end (imax0 s) i0, from_end (imax0 s) i1, from_end (jmax0 s) j0, from_end (jmax0 s) j1)
  | None => (1, imax0 s - 1, 1, jmax0 s - 1)
  end.
Definition limits_ok (imax jmax : Z) (l : Z * Z * Z * Z) : bool :=
  let '(i0, i1, j0, j1) := l in
  ((1 <=? i0) && (i0 <? i1) && (i1 <=? imax - 1)) && ((1 <=? j0) && (j0 <? j1) && (j1 <=? jmax - 1)).
Definition grid_stage (s : setup) : option (Z * Z * Z * Z) :=
  if grid_file_found s then
    if limits_ok (imax0 s) (jmax0 s) (grid_limits s) then Some (grid_limits s) else None
  else None.

(** scan_file_times: all_frames[1:] <= all_frames[:-1] anywhere -> SystemExit(4) *)
Fixpoint strictly_increasing (l : list Z) : bool :=
  match l with
  | [] => true
  | x :: r => match r with [] => true | y :: _ => x <? y end && strictly_increasing r
  end.

(** list.sort() *)
Fixpoint insert (x : Z) (l : list Z) : list Z :=
  match l with
  | [] => [x]
  | y :: r => if x <=? y then x :: l else y :: insert x r
  end.
Definition sort (l : list Z) : list Z := fold_right insert [] l.
(** list.index(p): position of the first occurrence; None = ValueError *)
Fixpoint index_of (p : Z) (l : list Z) : option nat :=
  match l with
  | [] => None
  | x :: r => if x =? p then Some O else option_map S (index_of p r)
  end.
(** V = [step for step in steps if step < 0]; prestep = max(V) if V else 0 *)
Definition max_neg (steps : list Z) : option Z :=
  fold_right (fun x acc => if x <? 0 then Some (match acc with Some a => Z.max x a | None => x end) else acc)
             None steps.
Definition prestep (steps : list Z) : Z := match max_neg steps with Some p => p | None => 0 end.

(** Forcing (ROMS.py:413-480 with find_files, scan_file_times, forcing_steps): the sorted step
    numbers of the frames, or a refusal: no file (SystemExit 3), frames not strictly increasing over
    the concatenated files (SystemExit 4), no frame at all (IndexError), first frame after the
    minimum time or last frame before the maximum time (SystemExit 3), no frame after the pre-step
    frame (stepdiff[i] / steps[i+1]: IndexError; steps.index: ValueError). *)
Definition forcing_frames (s : setup) : list Z := concat (forcing_files s).
Definition covers (t : tk) (frames : list Z) : bool :=
  match frames with
  | [] => false
  | f0 :: _ => (f0 <=? Z.min (start t) (stop t)) && (Z.max (start t) (stop t) <=? last frames f0)
  end.
Definition prestep_ok (steps : list Z) : bool :=
  match index_of (prestep steps) steps with
  | Some i => Nat.ltb (S i) (length steps)
  | None => false
  end.
Definition forcing_stage (s : setup) (t : tk) : option (list Z) :=
  match sec_forcing s with
  | SecPresent =>
      if negb (forcing_filename s) then None                 (* TypeError: filename is mandatory *)
      else
        match forcing_files s with
        | [] => None                                         (* No forcing file *)
        | _ :: _ =>
            let frames := forcing_frames s in
            if negb (strictly_increasing frames) then None   (* not strictly sorted *)
            else
              match frames with
              | [] => None                                   (* all_frames[0] *)
              | f0 :: _ =>
                  if Z.min (start t) (stop t) <? f0 then None            (* No forcing at minimum time *)
                  else if last frames f0 <? Z.max (start t) (stop t) then None  (* ... at maximum time *)
                  else
                    let steps := sort (map (time2step t) frames) in
                    if prestep_ok steps then Some steps else None
              end
        end
  | _ => None                                                (* None.get / config["forcing"] *)
  end.

(** ParticleReleaser (release.py:36-110): a section without content becomes release_file = "";
    missing key (TypeError), empty name, file not found, no position columns, a row without a
    position value (clean_position, on the whole table), then the window filters of [rel_init] on
    the table (every row counts as a row, whatever its mult) *)
Definition mkrow (x : Z) : row := {| rt := x; rmult := 1%nat; rvals := [] |}.
Definition release_table (s : setup) : list row := map mkrow (rel_times s).
Definition release_stage (s : setup) (t : tk) : bool :=
  match sec_release s with
  | SecPresent =>
      rel_key s && negb (rel_name_empty s) && rel_file s && rel_poscols s && rel_rowpos s
      && match rel_init t (rel_cont s) false (release_table s) with RelExit => false | RelOk _ _ _ => true end
  | _ => false
  end.

(** Output (out_netcdf.py:34-118): filename, output_period, instance_variables are mandatory
    arguments; the result is output_period_step = output_period // dt.  The file is created here,
    records are written by Output.update only. *)
Definition output_stage (s : setup) (t : tk) : option Z :=
  match sec_output s with
  | SecPresent =>
      if out_filename s && out_ivars s then
        match out_period s with Some p => Some (p / dt t) | None => None end
      else None
  | _ => None
  end.

(** * Model.__init__: the modules dictionary filled in the order of [module_names]; a constructor
    can only use modules that are already in the dictionary (modules["time"] ...) *)
Record env := {
  e_state : bool; e_time : option tk; e_grid : option (Z * Z * Z * Z); e_forcing : option (list Z);
  e_release : bool; e_tracker : bool; e_ibm : bool; e_output : option Z
}.
Definition env0 : env :=
  {| e_state := false; e_time := None; e_grid := None; e_forcing := None; e_release := false;
     e_tracker := false; e_ibm := false; e_output := None |}.

Definition construct (s : setup) (m : stage_t) (e : env) : option env :=
  match m with
  | StConfig => None
  | StState =>
      Some {| e_state := true; e_time := e_time e; e_grid := e_grid e; e_forcing := e_forcing e;
              e_release := e_release e; e_tracker := e_tracker e; e_ibm := e_ibm e; e_output := e_output e |}
  | StTime =>
      match time_stage s with
      | Some t =>
          Some {| e_state := e_state e; e_time := Some t; e_grid := e_grid e; e_forcing := e_forcing e;
                  e_release := e_release e; e_tracker := e_tracker e; e_ibm := e_ibm e; e_output := e_output e |}
      | None => None
      end
  | StGrid =>
      match grid_stage s with
      | Some g =>
          Some {| e_state := e_state e; e_time := e_time e; e_grid := Some g; e_forcing := e_forcing e;
                  e_release := e_release e; e_tracker := e_tracker e; e_ibm := e_ibm e; e_output := e_output e |}
      | None => None
      end
  | StForcing =>
      match e_time e, e_grid e with
      | Some t, Some _ =>
          match forcing_stage s t with
          | Some st =>
              Some {| e_state := e_state e; e_time := e_time e; e_grid := e_grid e; e_forcing := Some st;
                      e_release := e_release e; e_tracker := e_tracker e; e_ibm := e_ibm e; e_output := e_output e |}
          | None => None
          end
      | _, _ => None
      end
  | StRelease =>
      match e_time e, e_grid e, e_state e with
      | Some t, Some _, true =>
          if release_stage s t then
            Some {| e_state := e_state e; e_time := e_time e; e_grid := e_grid e; e_forcing := e_forcing e;
                    e_release := true; e_tracker := e_tracker e; e_ibm := e_ibm e; e_output := e_output e |}
          else None
      | _, _, _ => None
      end
  | StTracker =>
      match e_time e with
      | Some _ =>
          Some {| e_state := e_state e; e_time := e_time e; e_grid := e_grid e; e_forcing := e_forcing e;
                  e_release := e_release e; e_tracker := true; e_ibm := e_ibm e; e_output := e_output e |}
      | None => None
      end
  | StIbm =>
      Some {| e_state := e_state e; e_time := e_time e; e_grid := e_grid e; e_forcing := e_forcing e;
              e_release := e_release e; e_tracker := e_tracker e; e_ibm := true; e_output := e_output e |}
  | StOutput =>
      match e_time e, e_grid e with
      | Some t, Some _ =>
          match output_stage s t with
          | Some p =>
              Some {| e_state := e_state e; e_time := e_time e; e_grid := e_grid e; e_forcing := e_forcing e;
                      e_release := e_release e; e_tracker := e_tracker e; e_ibm := e_ibm e; e_output := Some p |}
          | None => None
          end
      | _, _ => None
      end
  end.

Definition module_names : list stage_t :=
  [StState; StTime; StGrid; StForcing; StRelease; StTracker; StIbm; StOutput].

Fixpoint build (s : setup) (names : list stage_t) (e : env) : outcome * env :=
  match names with
  | [] => (Started, e)
  | m :: r => match construct s m e with Some e' => build s r e' | None => (Refused m, e) end
  end.

(** main.py up to the time loop: config = configure(file); model = Model(config) *)
Definition startup_env (s : setup) : outcome * env :=
  if configure s then build s module_names env0 else (Refused StConfig, env0).
Definition startup (s : setup) : outcome := fst (startup_env s).

(** * the run: the loop [for step in range(0, Nsteps): model.update()] is entered only when
    Model(config) returned; Output.update (called from model.update) is the only writer of records
    and needs the output module: one record when step % output_period_step == 0 *)
Definition output_update (e : env) (step : Z) : Z :=
  match e_output e with
  | Some p => if p =? 0 then 1 else if step mod p =? 0 then 1 else 0
  | None => 0
  end.
Definition loop_steps (o : outcome) (e : env) : list Z :=
  match o, e_time e with
  | Started, Some t => zrange 0 (nsteps t)
  | _, _ => []
  end.
Record run_result := { r_outcome : outcome; r_updates : Z; r_records : Z }.
Definition main_run (s : setup) : run_result :=
  let '(o, e) := startup_env s in
  let steps := loop_steps o e in
  {| r_outcome := o; r_updates := Z.of_nat (length steps); r_records := zsum (map (output_update e) steps) |}.

(** * Part 2: the fault list of property C20 as decidable predicates on the set-up *)

(** the time window, when start and stop are given *)
Definition window (s : setup) : option (Z * Z) :=
  match t_start s, t_stop s with Some a, Some b => Some (Z.min a b, Z.max a b) | _, _ => None end.

(** forcing that does not cover the window [min_time, max_time] (no frame at all included) *)
Definition fault_coverage (s : setup) : bool :=
  match window s with
  | Some (lo, hi) =>
      match forcing_frames s with
      | [] => true
      | f0 :: _ => (lo <? f0) || (last (forcing_frames s) f0 <? hi)
      end
  | None => false
  end.
(** frames out of order or duplicated, inside a file or across the file list *)
Definition fault_frame_order (s : setup) : bool := negb (strictly_increasing (forcing_frames s)).
(** missing start, stop or time step *)
Definition fault_missing_time (s : setup) : bool :=
  match t_start s, t_stop s with Some _, Some _ => t_dt s =? 0 | _, _ => true end.
(** stop on the wrong side of start: forward with stop < start, reversed with start <= stop *)
Definition fault_direction (s : setup) : bool :=
  match t_start s, t_stop s with
  | Some a, Some b => negb (Bool.eqb (t_rev s) (b - a <? 0))
  | _, _ => false
  end.
(** no release inside the window [start, stop) (mirrored when reversed).  Discrete: no row time in
    the window.  Continuous: no release instant first + k * frequency (k >= 0, before the stop time)
    in the window, the first being the first file row before the stop time. *)
Definition the_tk (s : setup) : option tk :=
  match t_start s, t_stop s with
  | Some a, Some b => Some {| start := a; stop := b; dt := t_dt s; rev := t_rev s;
                              ref := match t_ref s with Some r => r | None => Z.min a b end |}
  | _, _ => None
  end.
Definition release_instants (t : tk) (cont : option Z) (times : list Z) : list Z :=
  match cont with
  | None => times
  | Some f =>
      match filter (before_stop t) times with
      | [] => []
      | x0 :: _ => arange x0 (stop t) (if rev t then - f else f)
      end
  end.
Definition fault_no_release (s : setup) : bool :=
  match the_tk s with
  | Some t => negb (existsb (in_window t) (release_instants t (rel_cont s) (rel_times s)))
  | None => false
  end.
(** release rows without a position: the file has neither X,Y nor lon,lat columns, or some row
    has no value there *)
Definition fault_no_position (s : setup) : bool := negb (rel_poscols s) || negb (rel_rowpos s).
(** missing files: grid file, forcing file(s), release file (or no name for it) *)
Definition fault_missing_file (s : setup) : bool :=
  negb (grid_file_found s) || match forcing_files s with [] => true | _ => false end
  || negb (rel_key s) || rel_name_empty s || negb (rel_file s).
(** missing mandatory section *)
Definition fault_missing_section (s : setup) : bool :=
  negb (given (sec_time s) && given (sec_forcing s) && given (sec_release s) && given (sec_tracker s)
        && given (sec_output s)).
(** a mandatory section given without content (tracker: accepted by the code, see C20.v) *)
Definition fault_empty_section (s : setup) : bool :=
  negb (present (sec_time s) && present (sec_forcing s) && present (sec_release s) && present (sec_output s)).
(** illegal subgrid: after counting negative limits from the end, not 1 <= i0 < i1 <= imax-1 or
    not 1 <= j0 < j1 <= jmax-1 *)
Definition fault_subgrid (s : setup) : bool := negb (limits_ok (imax0 s) (jmax0 s) (grid_limits s)).
(** unusable configuration file *)
Definition fault_config_file (s : setup) : bool := match cf s with CfOk => false | _ => true end.

Definition any_fault (s : setup) : bool :=
  fault_coverage s || fault_frame_order s || fault_missing_time s || fault_direction s
  || fault_no_release s || fault_no_position s || fault_missing_file s || fault_missing_section s
  || fault_empty_section s || fault_subgrid s || fault_config_file s.

(** what a set-up must have besides "no fault" to be a meaningful input at all (none of these is in
    the property's list): the keys that say where the forcing is, a positive time step, a positive
    frequency of a continuous release, the mandatory arguments of the output module *)
Definition well_formed (s : setup) : bool :=
  (0 <? t_dt s) && forcing_filename s && (grid_module s || forcing_module s)
  && match rel_cont s with Some f => 0 <? f | None => true end
  && out_filename s && out_ivars s && match out_period s with Some _ => true | None => false end.
