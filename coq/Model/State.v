(** Model/State.v — ladim/state.py: parallel-array particle store.
    Values are opaque integers (the operations only move values around).  Instance column 0 is
    [alive] (0 = dead), the other instance columns and the particle columns are addressed by position;
    [pid] is kept apart as in the code (it cannot be given to append). *)
From Coq Require Import ZArith List Bool Lia.
From Ladim Require Import Base.Num.
Import ListNotations.
Open Scope Z_scope.

Record state := {
  npid : Z;                 (* number of pids handed out so far *)
  pid  : list Z;
  inst : list (list Z);     (* instance columns; column 0 = alive *)
  pvar : list (list Z);     (* particle columns, indexed by pid *)
  idef : list Z;            (* default value per instance column (NaN coded by the harness) *)
  pdef : list Z
}.

Definition empty_state (ni np : nat) (idf pdf : list Z) : state :=
  {| npid := 0; pid := []; inst := repeat [] ni; pvar := repeat [] np; idef := idf; pdef := pdf |}.

Inductive arg := Sc (v : Z) | Ar (l : list Z).

Definition bsize (args : list arg) : option nat :=
  let lens := flat_map (fun a => match a with Sc _ => [] | Ar l => [length l] end) args in
  match filter (fun n => negb (Nat.eqb n 1)) lens with
  | [] => Some 1%nat
  | m :: r => if forallb (Nat.eqb m) r then Some m else None
  end.
Definition bcast (n : nat) (a : arg) : list Z :=
  match a with
  | Sc v => repeat v n
  | Ar [v] => repeat v n
  | Ar l => l
  end.
Definition resolve (o : option arg) (d : Z) : arg := match o with Some a => a | None => Sc d end.

Fixpoint map2 {A B C} (f : A -> B -> C) (l1 : list A) (l2 : list B) : list C :=
  match l1, l2 with x :: r1, y :: r2 => f x y :: map2 f r1 r2 | _, _ => [] end.

Fixpoint fmask {A} (m : list bool) (l : list A) : list A :=
  match m, l with
  | b :: m', x :: l' => if b then x :: fmask m' l' else fmask m' l'
  | _, _ => []
  end.

Definition alive_mask (s : state) : list bool := map (fun v => negb (v =? 0)) (hd [] (inst s)).
Definition count_true (m : list bool) : Z := zsum (map (fun b : bool => if b then 1 else 0) m).

Inductive op :=
| Append (iargs pargs : list (option arg))   (* one entry per column; None = not given *)
| AppendInvalid                              (* an argument name that is not a state variable, or pid *)
| Kill (m : list bool)                       (* alive[m] = False (in place) *)
| Compactify
| Poke (col : nat) (m : list bool) (v : Z)   (* state[var][m] = v  (in place) *)
| SetInst (col : nat) (vals : list Z)        (* state[var] = vals *)
| SetPvar (col : nat) (vals : list Z).

Fixpoint set_nth {A} (n : nat) (v : A) (l : list A) : list A :=
  match l, n with
  | [], _ => []
  | _ :: r, O => v :: r
  | x :: r, S k => x :: set_nth k v r
  end.

Definition kill_col (m : list bool) (col : list Z) : list Z :=
  map2 (fun (b : bool) v => if b then 0 else v) m col.

Definition step (s : state) (o : op) : state :=
  match o with
  | Append ia pa =>
      let ia' := map2 resolve ia (idef s) in
      let pa' := map2 resolve pa (pdef s) in
      match bsize (ia' ++ pa') with
      | None => s                                   (* ValueError before any mutation *)
      | Some n =>
          {| npid := npid s + Z.of_nat n;
             pid := pid s ++ zrange_aux (npid s) n;
             inst := map2 (fun col a => col ++ bcast n a) (inst s) ia';
             pvar := map2 (fun col a => col ++ bcast n a) (pvar s) pa';
             idef := idef s; pdef := pdef s |}
      end
  | AppendInvalid => s
  | Kill m =>
      match inst s with
      | [] => s
      | a :: r => {| npid := npid s; pid := pid s; inst := kill_col m a :: r; pvar := pvar s;
                     idef := idef s; pdef := pdef s |}
      end
  | Compactify =>
      let m := alive_mask s in
      if 0 <? Z.of_nat (length (pid s)) - count_true m then
        {| npid := npid s; pid := fmask m (pid s); inst := map (fmask m) (inst s); pvar := pvar s;
           idef := idef s; pdef := pdef s |}
      else s
  | Poke c m v =>
      {| npid := npid s; pid := pid s;
         inst := set_nth c (map2 (fun (b : bool) x => if b then v else x) m (nth c (inst s) [])) (inst s);
         pvar := pvar s; idef := idef s; pdef := pdef s |}
  | SetInst c v =>
      {| npid := npid s; pid := pid s; inst := set_nth c v (inst s); pvar := pvar s;
         idef := idef s; pdef := pdef s |}
  | SetPvar c v =>
      {| npid := npid s; pid := pid s; inst := inst s; pvar := set_nth c v (pvar s);
         idef := idef s; pdef := pdef s |}
  end.

Definition run (s : state) (ops : list op) : state := fold_left step ops s.

(** item assignment is length-preserving in the property's quantifier; arguments name existing columns *)
Definition op_wf (s : state) (o : op) : bool :=
  match o with
  | Append ia pa => Nat.eqb (length ia) (length (inst s)) && Nat.eqb (length pa) (length (pvar s))
  | Kill m => Nat.eqb (length m) (length (pid s))
  | Poke c m _ => Nat.ltb c (length (inst s)) && Nat.eqb (length m) (length (pid s))
  | SetInst c v => Nat.ltb c (length (inst s)) && Nat.eqb (length v) (length (pid s))
  | SetPvar c v => Nat.ltb c (length (pvar s)) && (Z.of_nat (length v) =? npid s)
  | _ => true
  end.
Fixpoint wf_run (s : state) (ops : list op) : bool :=
  match ops with [] => true | o :: r => op_wf s o && wf_run (step s o) r end.

(** observation helpers / specification vocabulary *)
Fixpoint find_by {A} (keys : list Z) (vals : list A) (k : Z) : option A :=
  match keys, vals with
  | key :: ks, v :: vs => if key =? k then Some v else find_by ks vs k
  | _, _ => None
  end.
(** value of instance column [c] for the particle with identifier [p] *)
Definition ival (s : state) (c : nat) (p : Z) : option Z := find_by (pid s) (nth c (inst s) []) p.
Definition pval (s : state) (c : nat) (p : Z) : option Z := znth_opt (nth c (pvar s) []) p.
Definition is_alive (s : state) (p : Z) : bool :=
  match find_by (pid s) (alive_mask s) p with Some true => true | _ => false end.

Fixpoint incr_from (lo : Z) (l : list Z) : Prop :=
  match l with [] => True | x :: r => lo <= x /\ incr_from (x + 1) r end.

Definition Inv (s : state) : Prop :=
  0 <= npid s /\ incr_from 0 (pid s) /\ Forall (fun p => p < npid s) (pid s) /\
  Forall (fun c => length c = length (pid s)) (inst s) /\
  Forall (fun c => Z.of_nat (length c) = npid s) (pvar s) /\
  length (idef s) = length (inst s) /\ length (pdef s) = length (pvar s).

(** pids handed out by an operation sequence, in order (ghost history) *)
Fixpoint issued (s : state) (ops : list op) : list Z :=
  match ops with
  | [] => []
  | o :: r => let s' := step s o in zrange (npid s) (npid s') ++ issued s' r
  end.
