(** Model/Config.v — ladim/configure.py ([configure], [configure_v2], [configure_v1]) and the
    part of ladim/model.py ([init_module]) and of the module constructors that decides which
    arguments a module finally sees ([normalize]).

    A configuration is a JSON-like tree [cv].  Dictionaries are association lists in INSERTION
    ORDER with unique keys (Python's dict): [aset] on an existing key keeps its position, on a new
    key appends.  Python exceptions are the [Err] results ([EKey] KeyError, [EType] TypeError,
    [EAttr] AttributeError, [EIndex] IndexError, [EExit n] SystemExit(n)).

    Not modelled (trusted, exercised by the correspondence runs): the YAML/TOML parsers, [Path]
    normalisation (file names are taken to be in normal form, a [Path] is its string), the NetCDF read of the warm start file (its
    last time value is the argument [wst]), the directory listing (the sorted expansion of a
    pattern is the Section variable [glob]).  The readers are FUNCTIONS of the tree: whether two equal
    mappings of the file are one shared object (a YAML anchor/alias) cannot matter; the generated
    files use aliases, so in-place editing of the loaded configuration shows up as a
    correspondence failure.  Definitions only; proofs in Proofs/ConfigProofs.v. *)
From Coq Require Import ZArith List Bool String Ascii DecimalString.
Import ListNotations.
Open Scope string_scope.

(** * Values *)
(** [CFloat n d] is the float n/d as [float.as_integer_ratio] gives it (d > 0, lowest terms). *)
Inductive cv : Type :=
| CNull
| CBool (b : bool)
| CInt (z : Z)
| CFloat (n d : Z)
| CStr (s : string)
| CList (l : list cv)
| CDict (d : list (string * cv)).

Definition dict := list (string * cv).

(** * Association lists with unique keys, insertion ordered *)
Section AList.
  Context {A : Type}.
  Fixpoint aget (d : list (string * A)) (k : string) : option A :=
    match d with
    | [] => None
    | (k', v) :: r => if String.eqb k' k then Some v else aget r k
    end.
  Definition ahas (d : list (string * A)) (k : string) : bool :=
    match aget d k with Some _ => true | None => false end.
  Fixpoint aset (d : list (string * A)) (k : string) (v : A) : list (string * A) :=
    match d with
    | [] => [(k, v)]
    | (k', v') :: r => if String.eqb k' k then (k', v) :: r else (k', v') :: aset r k v
    end.
  Fixpoint adel (d : list (string * A)) (k : string) : list (string * A) :=
    match d with
    | [] => []
    | (k', v') :: r => if String.eqb k' k then r else (k', v') :: adel r k
    end.
  Definition akeys (d : list (string * A)) : list string := map fst d.
End AList.

Definition mem (v : string) (l : list string) : bool := existsb (String.eqb v) l.
(** first occurrences, in order (what repeated insertion into a dict leaves) *)
Fixpoint uniq (l : list string) : list string :=
  match l with
  | [] => []
  | v :: r => v :: filter (fun x => negb (String.eqb v x)) (uniq r)
  end.
Fixpoint nodupb (l : list string) : bool :=
  match l with [] => true | v :: r => negb (mem v r) && nodupb r end.

(** * Exceptions *)
Inductive err := EKey | EType | EAttr | EIndex | EExit (code : Z).
Inductive res (A : Type) : Type := Ok (a : A) | Err (e : err).
Arguments Ok {A} a.
Arguments Err {A} e.
Definition bind {A B} (r : res A) (f : A -> res B) : res B :=
  match r with Ok a => f a | Err e => Err e end.
Notation "x <- e ;; f" := (bind e (fun x => f)) (at level 61, e at next level, right associativity).

(** * Python operations on values *)
(** [bool(v)] *)
Definition truthy (v : cv) : bool :=
  match v with
  | CNull => false
  | CBool b => b
  | CInt z => negb (Z.eqb z 0)
  | CFloat n _ => negb (Z.eqb n 0)
  | CStr s => negb (String.eqb s "")
  | CList l => match l with [] => false | _ => true end
  | CDict d => match d with [] => false | _ => true end
  end.
Definition is_null (v : cv) : bool := match v with CNull => true | _ => false end.
(** [v == "s"] *)
Definition is_str (v : cv) (s : string) : bool :=
  match v with CStr t => String.eqb t s | _ => false end.

(** ["p" in "s"] for strings *)
Fixpoint substr_in (p s : string) : bool :=
  String.prefix p s || match s with EmptyString => false | String _ r => substr_in p r end.
Fixpoint has_char (c : ascii) (s : string) : bool :=
  match s with EmptyString => false | String a r => Ascii.eqb a c || has_char c r end.
(** [("*" in name) or ("?" in name)] *)
Definition has_wild (s : string) : bool := has_char "*"%char s || has_char "?"%char s.

(** [v[k]] *)
Definition getitem (v : cv) (k : string) : res cv :=
  match v with
  | CDict d => match aget d k with Some x => Ok x | None => Err EKey end
  | _ => Err EType
  end.
(** [v[k] = x] *)
Definition setitem (v : cv) (k : string) (x : cv) : res cv :=
  match v with
  | CDict d => Ok (CDict (aset d k x))
  | _ => Err EType
  end.
(** [k in v]: key of a dict, element of a list, substring of a string *)
Definition contains (v : cv) (k : string) : res bool :=
  match v with
  | CDict d => Ok (ahas d k)
  | CList l => Ok (existsb (fun x => is_str x k) l)
  | CStr s => Ok (substr_in k s)
  | _ => Err EType
  end.
(** [v.get(k, dflt)] *)
Definition getdef (v : cv) (k : string) (dflt : cv) : res cv :=
  match v with
  | CDict d => Ok (match aget d k with Some x => x | None => dflt end)
  | _ => Err EAttr
  end.
(** [for var in v] when the elements are used as dictionary keys / compared with names: a list of
    strings, or the keys of a dict *)
Fixpoint strs_of (l : list cv) : res (list string) :=
  match l with
  | [] => Ok []
  | CStr s :: r => t <- strs_of r ;; Ok (s :: t)
  | _ :: _ => Err EType
  end.
Definition iter_strs (v : cv) : res (list string) :=
  match v with
  | CList l => strs_of l
  | CDict d => Ok (akeys d)
  | _ => Err EType
  end.
(** [Path(v)] (a path is represented by its string; see header) *)
Definition to_path (v : cv) : res string :=
  match v with CStr s => Ok s | _ => Err EType end.
(** [D = v.copy(); x = D.pop(k)] *)
Definition copy_pop (v : cv) (k : string) : res (cv * dict) :=
  match v with
  | CDict d => match aget d k with Some x => Ok (x, adel d k) | None => Err EKey end
  | CList _ => Err EType
  | _ => Err EAttr
  end.

(** [str(v)]; for a float only the integer part is spelled (enough for the first character of
    floats in [1e-4, 1e16), which is all [configure] looks at apart from the test [== "0"]) *)
Definition str_of_Z (z : Z) : string := NilZero.string_of_int (Z.to_int z).
Definition str_of_cv (v : cv) : string :=
  match v with
  | CNull => "None"
  | CBool true => "True"
  | CBool false => "False"
  | CInt z => str_of_Z z
  | CFloat n d => (if Z.ltb n 0 then "-" else "") ++ str_of_Z (Z.quot (Z.abs n) d) ++ "."
  | CStr s => s
  | CList _ => "["
  | CDict _ => "{"
  end.

Section Configure.
  (** sorted expansion of a wildcard pattern in its directory: [sorted(directory.glob(name))] *)
  Variable glob : string -> list string.
  (** time of the last record of the warm start file, [None] when it cannot be opened *)
  Variable wst : option cv.

  (** ** configure_v2 (configure.py:107-173) *)
  (** [if config.get(k) is None: config[k] = dict()] — a section that is missing, or present
      without content (YAML "grid:" parses to None), becomes an empty one *)
  Definition ensure (c : cv) (k : string) : res cv :=
    v <- getdef c k CNull ;; if is_null v then setitem c k (CDict []) else Ok c.

  (** the file an omitted grid file name stands for *)
  Definition first_file_v2 (p : string) : string :=
    if has_wild p then match glob p with [] => p | f :: _ => f end else p.

  Definition v2_grid (c : cv) : res cv :=
    g <- getitem c "grid" ;;
    hm <- contains g "module" ;;
    g <- (if hm then Ok g
          else f <- getitem c "forcing" ;; m <- getitem f "module" ;; setitem g "module" m) ;;
    hf <- contains g "filename" ;;
    g <- (if hf then Ok g
          else f <- getitem c "forcing" ;; fn <- getitem f "filename" ;; p <- to_path fn ;;
               setitem g "filename" (CStr (first_file_v2 p))) ;;
    setitem c "grid" g.

  Definition v2_warm (c : cv) : res cv :=
    ws <- getitem c "warm_start" ;;
    hw <- contains ws "filename" ;;
    if hw then
      wf <- getitem ws "filename" ;;
      t <- (match wst with Some t => Ok t | None => Err (EExit 1) end) ;;
      tm <- getitem c "time" ;; tm <- setitem tm "start" t ;; c <- setitem c "time" tm ;;
      hv <- contains ws "variables" ;;
      ws <- (if hv then Ok ws else setitem ws "variables" (CList [])) ;;
      c <- setitem c "warm_start" ws ;;
      r <- getitem c "release" ;; r <- setitem r "warm_start_file" wf ;; c <- setitem c "release" r ;;
      o <- getitem c "output" ;;
      hs <- contains o "skip_initial" ;;
      if hs then Ok c else (o <- setitem o "skip_initial" (CBool true) ;; setitem c "output" o)
    else Ok c.

  Definition configure_v2 (c : cv) : res cv :=
    c <- ensure c "state" ;;
    c <- ensure c "grid" ;;
    c <- ensure c "ibm" ;;
    c <- ensure c "warm_start" ;;
    tr <- getitem c "tracker" ;;
    c <- (if is_null tr then setitem c "tracker" (CDict []) else Ok c) ;;
    _ <- getitem c "time" ;;
    rl <- getitem c "release" ;;
    c <- (if is_null rl then setitem c "release" (CDict [("release_file", CStr "")]) else Ok c) ;;
    _ <- getitem c "output" ;;
    c <- v2_grid c ;;
    v2_warm c.

  (** ** configure_v1 (configure.py:177-314) *)
  Definition v1_time (c : cv) : res cv :=
    tc <- getitem c "time_control" ;;
    st <- getitem tc "start_time" ;;
    sp <- getitem tc "stop_time" ;;
    nu <- getitem c "numerics" ;;
    dt <- getitem nu "dt" ;;
    let t := CDict [("start", st); ("stop", sp); ("dt", dt)] in
    h <- contains tc "reference_time" ;;
    if h then (r <- getitem tc "reference_time" ;; setitem t "reference" r) else Ok t.

  (** [gridforce[k]] if present, else [files[k]] if present, else [""] *)
  Definition v1_file_entry (c gf : cv) (k : string) : res cv :=
    h <- contains gf k ;;
    if h then getitem gf k
    else fl <- getitem c "files" ;; h2 <- contains fl k ;;
         if h2 then getitem fl k else Ok (CStr "").

  Definition first_file_v1 (p : string) : res cv :=
    if has_wild p then match glob p with [] => Err EIndex | f :: _ => Ok (CStr f) end
    else Ok (CStr p).

  (** returns (grid, forcing) *)
  Definition v1_gridforce (c : cv) : res (cv * cv) :=
    gf <- getitem c "gridforce" ;;
    m <- getitem gf "module" ;;
    legacy <- contains m "ladim1.gridforce.ROMS" ;;
    let m2 := if legacy then CStr "ladim.ROMS" else m in
    ff <- v1_file_entry c gf "input_file" ;;
    gfile <- v1_file_entry c gf "gridfile" ;;
    gfile <- (if negb (truthy gfile) && truthy ff
              then p <- to_path ff ;; first_file_v1 p
              else Ok gfile) ;;
    let grid := [("module", m2); ("filename", gfile)] in
    let forcing := [("module", m2); ("filename", ff)] in
    hs <- contains gf "subgrid" ;;
    grid <- (if hs then s <- getitem gf "subgrid" ;; Ok (aset grid "subgrid" s) else Ok grid) ;;
    he <- contains gf "extra_forcing" ;;
    forcing <- (if he then e <- getitem gf "extra_forcing" ;; Ok (aset forcing "extra_forcing" e)
                else Ok forcing) ;;
    Ok (CDict grid, CDict forcing).

  Definition ignored (v : string) : bool := mem v ["mult"; "X"; "Y"; "Z"].
  Definition lonlat (v : string) : bool := mem v ["lon"; "lat"].

  (** the loop over the release column names; state = (instance_variables, particle_variables) *)
  Fixpoint v1_state_loop (pr : cv) (l : list string) (inst part : dict) : res (dict * dict) :=
    match l with
    | [] => Ok (inst, part)
    | var :: r =>
        if ignored var then v1_state_loop pr r inst part
        else
          let inst := if lonlat var then aset inst var (CStr "float") else inst in
          hp <- contains pr "particle_variables" ;;
          isin <- (if hp then pv <- getitem pr "particle_variables" ;; contains pv var else Ok false) ;;
          part <- (if isin then t <- getdef pr var (CStr "float") ;; Ok (aset part var t) else Ok part) ;;
          v1_state_loop pr r inst part
    end.

  Definition v1_state (c : cv) : res cv :=
    hi <- contains c "ibm" ;;
    hv <- (if hi then ib <- getitem c "ibm" ;; contains ib "variables" else Ok false) ;;
    inst <- (if hv then ib <- getitem c "ibm" ;; vs <- getitem ib "variables" ;; l <- iter_strs vs ;;
                        Ok (fold_left (fun d v => aset d v (CStr "float")) l [])
             else Ok []) ;;
    pr <- getitem c "particle_release" ;;
    vs <- getitem pr "variables" ;;
    l <- iter_strs vs ;;
    ip <- v1_state_loop pr l inst [] ;;
    let '(inst, part) := ip in
    let dv := fold_left (fun d v => aset d v (CInt 0)) (akeys inst) [] in
    Ok (CDict [("instance_variables", CDict inst); ("particle_variables", CDict part);
               ("default_values", CDict dv)]).

  Definition v1_tracker (c : cv) : res cv :=
    nu <- getitem c "numerics" ;;
    adv <- getitem nu "advection" ;;
    df <- getitem nu "diffusion" ;;
    Ok (CDict (("advection", adv) :: (if truthy df then [("diffusion", df)] else []))).

  Definition v1_release (c : cv) : res cv :=
    fl <- getitem c "files" ;;
    rf <- getitem fl "particle_release_file" ;;
    pr <- getitem c "particle_release" ;;
    vs <- getitem pr "variables" ;;
    let rel := [("release_file", rf); ("names", vs)] in
    hr <- contains pr "release_type" ;;
    cont <- (if hr then rt <- getitem pr "release_type" ;; Ok (is_str rt "continuous") else Ok false) ;;
    if cont then fq <- getitem pr "release_frequency" ;;
                 Ok (CDict (rel ++ [("continuous", CBool true); ("release_frequency", fq)]))
    else Ok (CDict rel).

  Definition v1_ibm_step (d : dict) (kv : string * cv) : dict :=
    let '(k, v) := kv in
    if String.eqb k "ibm_module" then aset d "module" v
    else if String.eqb k "variables" then d else aset d k v.

  Definition v1_ibm (c : cv) : res cv :=
    hi <- contains c "ibm" ;;
    if hi then
      ib <- getitem c "ibm" ;;
      match ib with
      | CDict d => Ok (CDict (fold_left v1_ibm_step d []))
      | _ => Err EType
      end
    else Ok (CDict []).

  Definition v1_outvar (ov : cv) (acc : res dict) (var : string) : res dict :=
    a <- acc ;;
    dsc <- getitem ov var ;;
    nd <- copy_pop dsc "ncformat" ;;
    let '(nc, d) := nd in
    Ok (aset a var (CDict [("encoding", CDict [("datatype", nc)]); ("attributes", CDict d)])).

  Definition v1_output (c : cv) : res cv :=
    fl <- getitem c "files" ;;
    fn <- getitem fl "output_file" ;;
    ov <- getitem c "output_variables" ;;
    op <- getitem ov "outper" ;;
    fmt <- getdef ov "format" (CStr "NETCDF3_CLASSIC") ;;
    iv <- getitem ov "instance" ;;
    il <- iter_strs iv ;;
    inst <- fold_left (v1_outvar ov) il (Ok []) ;;
    pv <- getitem ov "particle" ;;
    pl <- iter_strs pv ;;
    part <- fold_left (v1_outvar ov) pl (Ok []) ;;
    Ok (CDict [("filename", fn); ("output_period", op); ("instance_variables", CDict inst);
               ("particle_variables", CDict part); ("ncargs", CDict [("data_model", fmt)])]).

  Definition configure_v1 (c : cv) : res cv :=
    tm <- v1_time c ;;
    gfc <- v1_gridforce c ;;
    let '(grid, forcing) := gfc in
    st <- v1_state c ;;
    tr <- v1_tracker c ;;
    rl <- v1_release c ;;
    ib <- v1_ibm c ;;
    hw <- contains c "warm_start" ;;
    out <- v1_output c ;;
    Ok (CDict ([("time", tm); ("grid", grid); ("forcing", forcing); ("state", st); ("tracker", tr);
                ("release", rl); ("ibm", ib)]
               ++ (if hw then [] else [("warm_start", CDict [])])
               ++ [("output", out)])).

  (** ** configure (configure.py:33-101), after the file has been parsed *)
  Inductive version := V1 | V2.
  (** the version decision: [Ok None] = refused (SystemExit 3) *)
  Definition decide_version (c : cv) : res (option version) :=
    v <- getdef c "version" (CStr "0") ;;
    let vs := str_of_cv v in
    vs <- (if String.eqb vs "0"
           then h <- contains c "time_control" ;; Ok (if h then "1" else "2")
           else Ok vs) ;;
    match vs with
    | EmptyString => Err EIndex
    | String ch _ =>
        if Ascii.eqb ch "2" then Ok (Some V2)
        else if Ascii.eqb ch "1" then Ok (Some V1)
        else Ok None
    end.

  Definition configure (c : cv) : res cv :=
    v <- decide_version c ;;
    match v with
    | Some V2 => match configure_v2 c with Err EKey => Err (EExit 3) | r => r end
    | Some V1 => configure_v1 c
    | None => Err (EExit 3)
    end.
End Configure.

(** * What the modules finally see: init_module + constructor defaults *)
(** how a constructor treats an argument: kept as it is; replaced by a fixed value when falsy
    ([x if x else dict()]); used as a float (0 and 0.0 are the same number) *)
Inductive coercion := Plain | FalsyTo (v : cv) | AsFloat.
Definition coerce (co : coercion) (v : cv) : cv :=
  match co with
  | Plain => v
  | FalsyTo x => if truthy v then v else x
  | AsFloat => match v with CInt z => CFloat z 1 | _ => v end
  end.
(** parameter name, default ([None] = required), treatment *)
Definition param := (string * option cv * coercion)%type.

Definition sig_time : list param :=
  [("start", Some (CStr ""), Plain); ("stop", Some (CStr ""), Plain); ("dt", Some (CInt 0), Plain);
   ("reference", Some CNull, Plain); ("time_reversal", Some (CBool false), Plain)].
Definition sig_state : list param :=
  [("instance_variables", Some CNull, FalsyTo (CDict [])); ("particle_variables", Some CNull, FalsyTo (CDict []));
   ("default_values", Some CNull, FalsyTo (CDict []))].
Definition sig_grid : list param :=
  [("filename", None, Plain); ("subgrid", Some CNull, Plain); ("Vinfo", Some CNull, Plain)].
Definition sig_forcing : list param :=
  [("filename", None, Plain); ("extra_forcing", Some CNull, FalsyTo (CList []))].
Definition sig_release : list param :=
  [("release_file", None, Plain); ("names", Some CNull, Plain); ("continuous", Some (CBool false), Plain);
   ("release_frequency", Some (CInt 0), Plain); ("warm_start_file", Some CNull, Plain)].
Definition sig_tracker : list param :=
  [("advection", Some (CStr ""), Plain); ("diffusion", Some (CFloat 0 1), AsFloat);
   ("vertdiff", Some (CFloat 0 1), AsFloat); ("vertical_advection", Some (CBool false), Plain)].
Definition sig_ibm : list param := [].
Definition sig_output : list param :=
  [("filename", None, Plain); ("output_period", None, Plain); ("instance_variables", None, Plain);
   ("particle_variables", Some CNull, FalsyTo (CDict [])); ("layout", Some (CStr "sparse"), Plain);
   ("numrec", Some (CInt 0), Plain); ("skip_initial", Some (CBool false), Plain);
   ("global_attributes", Some CNull, FalsyTo (CDict []))].

Definition known_args (sg : list param) (d : dict) : dict :=
  flat_map (fun p : param =>
              let '(k, dflt, co) := p in
              match aget d k with
              | Some v => [(k, coerce co v)]
              | None => match dflt with Some v => [(k, coerce co v)] | None => [] end
              end) sg.
Definition other_args (sg : list param) (drop : list string) (d : dict) : dict :=
  filter (fun kv : string * cv =>
            negb (mem (fst kv) ("module" :: drop ++ map (fun p : param => fst (fst p)) sg))) d.

(** one section: module name (init_module's default when absent), then the constructor's
    parameters in signature order with defaults and coercions, then the remaining arguments *)
Definition norm_section (defmod : string) (sg : list param) (drop : list string) (sec : cv) : res cv :=
  match sec with
  | CDict d =>
      Ok (CDict (("module", match aget d "module" with Some m => m | None => CStr defmod end)
                 :: known_args sg d ++ other_args sg drop d))
  | _ => Err EAttr
  end.

(** Model.__init__: the eight modules in construction order, then the warm start section *)
Definition normalize (c : cv) : res cv :=
  st <- getitem c "state" ;; st <- norm_section "ladim.state" sig_state [] st ;;
  tm <- getitem c "time" ;; tm <- norm_section "ladim.timekeeper" sig_time [] tm ;;
  gr <- getitem c "grid" ;; gr <- norm_section "ladim.ROMS" sig_grid [] gr ;;
  fo <- getitem c "forcing" ;; fo <- norm_section "ladim.ROMS" sig_forcing [] fo ;;
  rl <- getitem c "release" ;; rl <- norm_section "ladim.release" sig_release [] rl ;;
  tr <- getitem c "tracker" ;; tr <- norm_section "ladim.tracker" sig_tracker [] tr ;;
  ib <- getitem c "ibm" ;; ib <- norm_section "ladim.ibm" sig_ibm [] ib ;;
  ou <- getitem c "output" ;; ou <- norm_section "ladim.out_netcdf" sig_output ["ncargs"] ou ;;
  ws <- getitem c "warm_start" ;;
  Ok (CDict [("state", st); ("time", tm); ("grid", gr); ("forcing", fo); ("release", rl);
             ("tracker", tr); ("ibm", ib); ("output", ou); ("warm_start", ws)]).
Definition normalize_res (r : res cv) : res cv := c <- r ;; normalize c.

(** * Abstract description of a simulation in the version-1 vocabulary, and its spellings *)
Record outvar := { ov_name : string; ov_fmt : cv; ov_attrs : dict }.
(** the grid/forcing module: the built-in ROMS module (a v1 file may use the legacy name), or a
    module of the user *)
Inductive gfmod := GRoms (legacy_name : bool) | GCustom (name : string).
(** spelling freedom of a v1 file that does not change its meaning *)
Record spelling := {
  sp_files : bool;       (* input_file / gridfile written in the files section, not in gridforce *)
  sp_ibm_legacy : bool;  (* "ibm_module" instead of "module" *)
  sp_rtype : bool;       (* a discrete release says "release_type: discrete" *)
  sp_min : bool;         (* empty optional parts left out (ibm section, ibm variables, particle_variables) *)
  sp_version : bool      (* the file carries an explicit version key *)
}.
Record sim := {
  s_start : cv; s_stop : cv; s_dt : cv; s_reference : option cv;
  s_module : gfmod; s_forcing_file : string; s_grid_file : option string;
  s_subgrid : option cv; s_extra_forcing : option cv;
  s_advection : cv; s_diffusion : option cv;
  s_release_file : cv; s_names : list string; s_continuous : bool; s_frequency : option cv;
  s_converters : dict;              (* column name -> type name, for columns that are not float *)
  s_particle_vars : list string;    (* columns that are time-independent particle variables *)
  s_ibm_module : option cv; s_ibm_opts : dict; s_ibm_vars : list string;
  s_out_file : cv; s_out_period : cv; s_out_format : option cv;
  s_out_instance : list outvar; s_out_particle : list outvar;
  s_spell : spelling
}.

Definition opt_entry (k : string) (o : option cv) : dict :=
  match o with Some v => [(k, v)] | None => [] end.
Definition strs (l : list string) : cv := CList (map CStr l).

(** ** version 1 spelling *)
Definition v1_module_name (m : gfmod) : cv :=
  match m with
  | GRoms true => CStr "ladim1.gridforce.ROMS"
  | GRoms false => CStr "ladim.ROMS"
  | GCustom n => CStr n
  end.
Definition v1_outvar_entry (o : outvar) : string * cv :=
  (ov_name o, CDict (("ncformat", ov_fmt o) :: ov_attrs o)).
Definition ibm_absent (S : sim) : bool :=
  match s_ibm_module S, s_ibm_opts S, s_ibm_vars S with None, [], [] => true | _, _, _ => false end.

Definition render_v1 (S : sim) : cv :=
  let sp := s_spell S in
  let file_entries : dict :=
    ([("input_file", CStr (s_forcing_file S))]
     ++ opt_entry "gridfile" (option_map CStr (s_grid_file S)))%list in
  CDict (
    [("time_control", CDict ([("start_time", s_start S); ("stop_time", s_stop S)]
                             ++ opt_entry "reference_time" (s_reference S)));
     ("files", CDict ([("particle_release_file", s_release_file S); ("output_file", s_out_file S)]
                      ++ (if sp_files sp then file_entries else [])));
     ("gridforce", CDict ([("module", v1_module_name (s_module S))]
                          ++ (if sp_files sp then [] else file_entries)
                          ++ opt_entry "subgrid" (s_subgrid S)
                          ++ opt_entry "extra_forcing" (s_extra_forcing S)));
     ("numerics", CDict [("dt", s_dt S); ("advection", s_advection S);
                         ("diffusion", match s_diffusion S with Some d => d | None => CFloat 0 1 end)]);
     ("particle_release",
      CDict ([("variables", strs (s_names S))]
             ++ (if s_continuous S then [("release_type", CStr "continuous")]
                 else if sp_rtype sp then [("release_type", CStr "discrete")] else [])
             ++ opt_entry "release_frequency" (s_frequency S)
             ++ (match s_particle_vars S with
                 | [] => if sp_min sp then [] else [("particle_variables", strs [])]
                 | l => [("particle_variables", strs l)]
                 end)
             ++ s_converters S));
     ("output_variables",
      CDict (opt_entry "format" (s_out_format S)
             ++ [("outper", s_out_period S);
                 ("particle", strs (map ov_name (s_out_particle S)));
                 ("instance", strs (map ov_name (s_out_instance S)))]
             ++ map v1_outvar_entry (s_out_instance S ++ s_out_particle S)))]
    ++ (if sp_version sp then [("version", CInt 1)] else [])
    ++ (if sp_min sp && ibm_absent S then []
        else [("ibm", CDict (opt_entry (if sp_ibm_legacy sp then "ibm_module" else "module") (s_ibm_module S)
                             ++ (match s_ibm_vars S with
                                 | [] => if sp_min sp then [] else [("variables", strs [])]
                                 | l => [("variables", strs l)]
                                 end)
                             ++ s_ibm_opts S))])).

(** ** version 2 spelling (YAML and TOML parse to the same tree) *)
Definition v2_module_name (m : gfmod) : cv :=
  match m with GRoms _ => CStr "ladim.ROMS" | GCustom n => CStr n end.
(** state variables a v1 description stands for: the IBM's variables and lon/lat columns, float,
    initial value 0; the declared particle-variable columns with their converter type *)
Definition inst_names (S : sim) : list string :=
  uniq (s_ibm_vars S ++ filter lonlat (s_names S)).
Definition part_names (S : sim) : list string :=
  uniq (filter (fun v => negb (ignored v) && mem v (s_particle_vars S)) (s_names S)).
Definition conv (S : sim) (v : string) : cv :=
  match aget (s_converters S) v with Some t => t | None => CStr "float" end.
Definition state_tree (S : sim) : dict :=
  [("instance_variables", CDict (map (fun v => (v, CStr "float")) (inst_names S)));
   ("particle_variables", CDict (map (fun v => (v, conv S v)) (part_names S)));
   ("default_values", CDict (map (fun v => (v, CInt 0)) (inst_names S)))].
Definition state_empty (S : sim) : bool :=
  match inst_names S, part_names S with [], [] => true | _, _ => false end.
Definition v2_outvar_entry (o : outvar) : string * cv :=
  (ov_name o, CDict [("encoding", CDict [("datatype", ov_fmt o)]); ("attributes", CDict (ov_attrs o))]).

(** [omit] = optional sections and keys are left out wherever the description allows it *)
Definition render_v2 (S : sim) (omit : bool) : cv :=
  let grid_entries : dict :=
    (opt_entry "filename" (option_map CStr (s_grid_file S)) ++ opt_entry "subgrid" (s_subgrid S))%list in
  CDict (
    [("time", CDict ([("start", s_start S); ("stop", s_stop S); ("dt", s_dt S)]
                     ++ opt_entry "reference" (s_reference S)));
     ("forcing", CDict ([("module", v2_module_name (s_module S)); ("filename", CStr (s_forcing_file S))]
                        ++ opt_entry "extra_forcing" (s_extra_forcing S)));
     ("release", CDict ([("release_file", s_release_file S); ("names", strs (s_names S))]
                        ++ (if s_continuous S
                            then [("continuous", CBool true)] ++ opt_entry "release_frequency" (s_frequency S)
                            else [])));
     ("tracker", CDict ([("advection", s_advection S)] ++ opt_entry "diffusion" (s_diffusion S)));
     ("output", CDict ([("filename", s_out_file S); ("output_period", s_out_period S);
                        ("instance_variables", CDict (map v2_outvar_entry (s_out_instance S)))]
                       ++ (match s_out_particle S with
                           | [] => if omit then [] else [("particle_variables", CDict [])]
                           | l => [("particle_variables", CDict (map v2_outvar_entry l))]
                           end)))]
    ++ (if sp_version (s_spell S) then [("version", CInt 2)] else [])
    ++ (if omit && state_empty S then [] else [("state", CDict (state_tree S))])
    ++ (if omit then match grid_entries with [] => [] | l => [("grid", CDict l)] end
        else [("grid", CDict (("module", v2_module_name (s_module S)) :: grid_entries))])
    ++ (if omit && (match s_ibm_module S, s_ibm_opts S with None, [] => true | _, _ => false end) then []
        else [("ibm", CDict (opt_entry "module" (s_ibm_module S) ++ s_ibm_opts S))])
    ++ (if omit then [] else [("warm_start", CDict [])])).

(** ** "expressible in the version-1 vocabulary": the side conditions of a description *)
Definition reserved_release : list string :=
  ["variables"; "release_type"; "release_frequency"; "particle_variables"].
Definition reserved_output : list string := ["format"; "outper"; "particle"; "instance"].
Definition reserved_ibm : list string := ["ibm_module"; "module"; "variables"].
Definition is_num (v : cv) : bool :=
  match v with
  | CInt _ => true
  | CFloat n d => negb (Z.eqb n 0) || Z.eqb d 1
  | _ => false
  end.
Definition disjoint (a b : list string) : bool := forallb (fun x => negb (mem x b)) a.

Definition wf_sim (S : sim) : bool :=
  (* file names: a forcing file is named; an explicit grid file name is not empty *)
  negb (String.eqb (s_forcing_file S) "")
  && match s_grid_file S with Some g => negb (String.eqb g "") | None => true end
  (* a user module is not called like the legacy ROMS module *)
  && match s_module S with GCustom n => negb (substr_in "ladim1.gridforce.ROMS" n) | GRoms _ => true end
  (* the diffusion coefficient is a number *)
  && match s_diffusion S with Some d => is_num d | None => true end
  (* a continuous release has a frequency *)
  && (if s_continuous S then match s_frequency S with Some _ => true | None => false end else true)
  (* the sections of a v1 file are name spaces shared by fixed keys and user names *)
  && disjoint (akeys (s_converters S)) reserved_release
  && disjoint (part_names S) reserved_release
  && disjoint (akeys (s_ibm_opts S)) reserved_ibm
  && nodupb (akeys (s_ibm_opts S))
  && disjoint (map ov_name (s_out_instance S ++ s_out_particle S)) reserved_output
  && nodupb (map ov_name (s_out_instance S ++ s_out_particle S))
  && forallb (fun o => negb (ahas (ov_attrs o) "ncformat")) (s_out_instance S ++ s_out_particle S).
(** an omitted grid file with a wildcard forcing name needs at least one matching file *)
Definition wf_glob (glob : string -> list string) (S : sim) : bool :=
  match s_grid_file S with
  | Some _ => true
  | None => if has_wild (s_forcing_file S) then match glob (s_forcing_file S) with [] => false | _ => true end
            else true
  end.
