(** Executable binary64 model of the interpolation kernel [ladim.ROMS.trilinear] (C02, float level).

    The kernel (numba-compiled, float64, /repo/ladim/ROMS.py):

        i, j = int(X[n]), int(Y[n])
        p, q = X[n] - i, Y[n] - j
        k, a = K[n], A[n]
        f00 = a * F[k - 1, j, i]         + (1 - a) * F[k, j, i]
        f01 = a * F[k - 1, j + 1, i]     + (1 - a) * F[k, j + 1, i]
        f10 = a * F[k - 1, j, i + 1]     + (1 - a) * F[k, j, i + 1]
        f11 = a * F[k - 1, j + 1, i + 1] + (1 - a) * F[k, j + 1, i + 1]
        R[n] = (1 - p) * (1 - q) * f00 + p * (1 - q) * f10 + (1 - p) * q * f01 + p * q * f11

    Everything here is over Coq's primitive floats ([PrimFloat]: IEEE-754 binary64, round to nearest even,
    one rounding per operation, no fused multiply-add), with EXACTLY the kernel's operation order:
    products left to right, the four terms summed left to right, ((T1 + T2) + T3) + T4.

    Naming of the eight node values: [dXY] is the value on level k-1 ("down", weight a), [uXY] the value on
    level k ("up", weight 1-a); X is the offset in i (0 or 1), Y the offset in j -- the same two digits as the
    kernel's f00, f01, f10, f11 (so f01 is the corner (i, j+1) and f10 the corner (i+1, j)).

    No proofs here except computational sanity examples; the theorems are in Proofs/TrilinearFloatProofs.v. *)
From Coq Require Import ZArith Floats Uint63 List.
Import ListNotations.
Open Scope float_scope.

(** a signed integer as a float, the way the kernel's [sitofp] does it (exact below 2^53 in magnitude) *)
Definition float_of_Z (i : Z) : float :=
  if (i <? 0)%Z then - of_uint63 (Uint63.of_Z (- i)) else of_uint63 (Uint63.of_Z i).

(** p = X - i: the cell index [i] is an input; its relation to x ([float_of_Z i <= x < float_of_Z (i+1)]) is a
    checkable side condition ([in_cell]) *)
Definition frac_f (x : float) (i : Z) : float := x - float_of_Z i.

Definition in_cell (x : float) (i : Z) : bool :=
  (float_of_Z i <=? x) && (x <? float_of_Z (i + 1)).

(** vertical interpolation between level k-1 (value [d], weight [a]) and level k (value [u], weight [1 - a]) *)
Definition lerp_f (a d u : float) : float := a * d + (1 - a) * u.

(** horizontal combination of the four vertically interpolated corner values; parsed exactly like the Python
    expression: [*] and [+] are left associative, [*] binds tighter *)
Definition bilin_f (p q f00 f01 f10 f11 : float) : float :=
  (1 - p) * (1 - q) * f00 + p * (1 - q) * f10 + (1 - p) * q * f01 + p * q * f11.

Definition trilinear_f (a p q d00 u00 d01 u01 d10 u10 d11 u11 : float) : float :=
  let f00 := lerp_f a d00 u00 in
  let f01 := lerp_f a d01 u01 in
  let f10 := lerp_f a d10 u10 in
  let f11 := lerp_f a d11 u11 in
  bilin_f p q f00 f01 f10 f11.

(** the whole kernel for one particle: positions X, Y with their cell indices, weight a, eight node values *)
Definition kernel_f (X : float) (i : Z) (Y : float) (j : Z) (a d00 u00 d01 u01 d10 u10 d11 u11 : float) : float :=
  trilinear_f a (frac_f X i) (frac_f Y j) d00 u00 d01 u01 d10 u10 d11 u11.

(** ** Computable side conditions (the hypotheses of the theorems in Proofs/TrilinearFloatProofs.v as booleans) *)
Definition two1000 : float := Z.ldexp 1 1000.
Definition two52 : float := Z.ldexp 1 52.
(** a weight: finite and in [0, 1] *)
Definition unit_ok (x : float) : bool := is_finite x && (0 <=? x) && (x <=? 1).
(** a node value: finite and bounded by [m] in absolute value *)
Definition val_ok (m x : float) : bool := is_finite x && (abs x <=? m).
Definition hyps_ok (a p q d00 u00 d01 u01 d10 u10 d11 u11 m : float) : bool :=
  unit_ok a && unit_ok p && unit_ok q &&
  val_ok m d00 && val_ok m u00 && val_ok m d01 && val_ok m u01 &&
  val_ok m d10 && val_ok m u10 && val_ok m d11 && val_ok m u11 &&
  is_finite m && (m <=? two1000).
(** a position and its cell index: finite, 0 <= x < 2^52, i <= x < i + 1 *)
Definition frac_ok (x : float) (i : Z) : bool :=
  is_finite x && (0 <=? x) && (x <? two52) && in_cell x i && (0 <=? i)%Z && (i <? 2 ^ 53 - 1)%Z.
Definition kernel_ok (X : float) (i : Z) (Y : float) (j : Z) (a d00 u00 d01 u01 d10 u10 d11 u11 m : float) : bool :=
  frac_ok X i && frac_ok Y j && unit_ok a &&
  val_ok m d00 && val_ok m u00 && val_ok m d01 && val_ok m u01 &&
  val_ok m d10 && val_ok m u10 && val_ok m d11 && val_ok m u11 &&
  is_finite m && (m <=? two1000).

(** ** IEEE-754 binary64 bit patterns

    A pattern is a non-negative integer below 2^64: sign (1 bit), biased exponent (11 bits), fraction (52 bits).
    [sf_of_bits] decodes it into Coq's specification-level float (with bit operations and literal
    constants, so that it is fast under [vm_compute]), [float_of_bits] turns that into a primitive
    float with [SF2Prim] (one [of_uint63], one [ldexp], one optional negation).  All NaN patterns give [nan]. *)
Definition sf_of_bits (z : Z) : spec_float :=
  let s := (9223372036854775808 <=? z)%Z in                       (* 2^63 <= z *)
  let m := Z.land z 4503599627370495 in                          (* z mod 2^52 *)
  let e := Z.land (Z.shiftr z 52) 2047 in                        (* (z / 2^52) mod 2^11 *)
  if (e =? 0)%Z then
    match m with
    | Zpos pm => S754_finite s pm (-1074)
    | _ => S754_zero s
    end
  else if (e =? 2047)%Z then
    match m with
    | Z0 => S754_infinity s
    | _ => S754_nan
    end
  else
    match (m + 4503599627370496)%Z with                           (* the implicit leading bit 2^52 *)
    | Zpos pm => S754_finite s pm (e - 1075)
    | _ => S754_nan
    end.

Definition float_of_bits (z : Z) : float := SF2Prim (sf_of_bits z).

(** the inverse: the bit pattern of a primitive float (the canonical quiet NaN for [nan]) *)
Definition bits_of_sf (x : spec_float) : Z :=
  let sb (s : bool) := if s then 9223372036854775808%Z else 0%Z in          (* 2^63 *)
  match x with
  | S754_zero s => sb s
  | S754_infinity s => (sb s + 9218868437227405312)%Z                         (* 2047 * 2^52 *)
  | S754_nan => 9221120237041090560%Z                                         (* 2047 * 2^52 + 2^51 *)
  | S754_finite s m e =>
      if (4503599627370496 <=? Zpos m)%Z then (sb s + (e + 1075) * 4503599627370496 + (Zpos m - 4503599627370496))%Z
      else (sb s + Zpos m)%Z
  end.

Definition bits_of_float (x : float) : Z := bits_of_sf (Prim2SF x).

(** bit-for-bit equality of two floats: same class, same sign, same mantissa and exponent (so +0 and -0 differ);
    NaN equals NaN *)
Definition sf_same (x y : spec_float) : bool :=
  match x, y with
  | S754_zero s, S754_zero t => Bool.eqb s t
  | S754_infinity s, S754_infinity t => Bool.eqb s t
  | S754_nan, S754_nan => true
  | S754_finite s m e, S754_finite t n f => Bool.eqb s t && Pos.eqb m n && Z.eqb e f
  | _, _ => false
  end.

Definition same_bits (x y : float) : bool := sf_same (Prim2SF x) (Prim2SF y).

(** ** Sanity examples (hexadecimal patterns written in decimal)
    0x3FF0000000000000 = 1.0, 0x3FE0000000000000 = 0.5, 0x4008000000000000 = 3.0, 0x8000000000000000 = -0.0,
    1 = 2^-1074 (smallest subnormal), 0x7FEFFFFFFFFFFFFF = largest finite, 0x7FF0000000000000 = +inf *)
Example bits_one : same_bits (float_of_bits 4607182418800017408) 1 = true. Proof. vm_compute. reflexivity. Qed.
Example bits_half : same_bits (float_of_bits 4602678819172646912) 0.5 = true. Proof. vm_compute. reflexivity. Qed.
Example bits_three : same_bits (float_of_bits 4613937818241073152) 3 = true. Proof. vm_compute. reflexivity. Qed.
Example bits_negzero : same_bits (float_of_bits 9223372036854775808) (-0) = true. Proof. vm_compute. reflexivity. Qed.
Example bits_negzero_differs : same_bits (float_of_bits 9223372036854775808) 0 = false. Proof. vm_compute. reflexivity. Qed.
Example bits_tiny : same_bits (float_of_bits 1) (Z.ldexp 1 (-1074)) = true. Proof. vm_compute. reflexivity. Qed.
Example bits_inf : same_bits (float_of_bits 9218868437227405312) infinity = true. Proof. vm_compute. reflexivity. Qed.
Example bits_round_trip :
  List.map (fun z => bits_of_float (float_of_bits z))
    (0 :: 1 :: 4503599627370495 :: 4503599627370496 :: 4607182418800017408 :: 9218868437227405311 ::
     9218868437227405312 :: 9223372036854775808 :: 13830554455654793216 :: 18442240474082181119 :: nil)%Z
  = (0 :: 1 :: 4503599627370495 :: 4503599627370496 :: 4607182418800017408 :: 9218868437227405311 ::
     9218868437227405312 :: 9223372036854775808 :: 13830554455654793216 :: 18442240474082181119 :: nil)%Z.
Proof. vm_compute. reflexivity. Qed.

(** the middle of a cell of a field that is 1 on level k-1 and 3 on level k, a = 1/4: 0.25 * 1 + 0.75 * 3 = 2.5 *)
Example trilinear_mid :
  same_bits (trilinear_f 0.25 0.5 0.5 1 3 1 3 1 3 1 3) 2.5 = true.
Proof. vm_compute. reflexivity. Qed.
#[local] Set Warnings "-inexact-float".
(** one rounding per operation: 0.1 * 0.3 + 0.9 * 0.7 in binary64 *)
Example lerp_rounds : bits_of_float (lerp_f 0.1 0.3 0.7) = 4604119971053405471%Z.
Proof. vm_compute. reflexivity. Qed.
Example frac_example : same_bits (frac_f 3.75 3) 0.75 = true /\ in_cell 3.75 3 = true /\ in_cell 3.75 4 = false.
Proof. vm_compute. repeat split. Qed.
