(** Model/ForcingTime.v — ladim/ROMS.py: Forcing.__init__ / update / _read_velocity / _read_field /
    velocity(fractional_step) / force_particles sign, and forcing_steps (step tables).

    Steps and indices are [Z], field values are [Q] (one number stands for the whole, spatially uniform,
    field; float rounding is not modelled).  A frame is (model step, file, index in that file).  The
    disk maps (file, index) to the pair (u value, scalar value) stored there, so a read from the wrong
    open file returns another frame's value or fails.  A failing read / lookup (KeyError, IndexError)
    is [None].  [rlog] is a ghost log of every read: (requested step, file actually read, index). *)
From Coq Require Import ZArith QArith List Bool.
From Ladim Require Import Base.Num Model.Time.
Import ListNotations.
Open Scope Z_scope.

Record frame := { fstep : Z; ffile : Z; fidx : Z }.
Definition disk := Z -> Z -> option (Q * Q).

(** * Step tables (Forcing.__init__ head, forcing_steps) *)

(** [file_idx] / [frame_idx]: dicts keyed by step, filled in file order; a later entry overwrites *)
Fixpoint lookup (d : list frame) (s : Z) : option frame :=
  match d with
  | [] => None
  | fr :: r =>
      match lookup r s with
      | Some x => Some x
      | None => if fstep fr =? s then Some fr else None
      end
  end.

(** [steps.sort()] *)
Fixpoint insert (x : Z) (l : list Z) : list Z :=
  match l with
  | [] => [x]
  | y :: r => if x <=? y then x :: l else y :: insert x r
  end.
Fixpoint isort (l : list Z) : list Z :=
  match l with [] => [] | x :: r => insert x (isort r) end.
(** [np.diff] *)
Fixpoint diff (l : list Z) : list Z :=
  match l with
  | a :: r => match r with b :: _ => (b - a) :: diff r | [] => [] end
  | [] => []
  end.
(** [list.index] (first occurrence; ValueError = None) and [in] *)
Fixpoint index_of (x : Z) (l : list Z) : option nat :=
  match l with
  | [] => None
  | y :: r => if y =? x then Some O else match index_of x r with Some i => Some (S i) | None => None end
  end.
Definition memb (x : Z) (l : list Z) : bool := existsb (Z.eqb x) l.

Record tables := { steps : list Z; stepdiff : list Z; dict : list frame }.
(** [raw] = the frames in file order as forcing_steps enumerates them *)
Definition mk_tables (raw : list frame) : tables :=
  let st := isort (map fstep raw) in
  {| steps := st; stepdiff := diff st; dict := raw |}.

(** forcing_steps / scan_file_times: a file is the list of its records (time, u, scalar) *)
Definition record := (Z * Q * Q)%type.
Fixpoint scan_file (t : tk) (k i : Z) (recs : list record) : list frame :=
  match recs with
  | [] => []
  | (time, _, _) :: r => {| fstep := time2step t time; ffile := k; fidx := i |} :: scan_file t k (i + 1) r
  end.
Fixpoint scan_files (t : tk) (k : Z) (files : list (list record)) : list frame :=
  match files with
  | [] => []
  | f :: r => scan_file t k 0 f ++ scan_files t (k + 1) r
  end.
Definition scan (t : tk) (files : list (list record)) : list frame := scan_files t 0 files.
Definition disk_of (files : list (list record)) : disk := fun k i =>
  match znth_opt files k with
  | Some f => match znth_opt f i with Some (_, uv, sv) => Some (uv, sv) | None => None end
  | None => None
  end.

(** * Machine state *)
Record fstate := {
  u : Q;                      (* fields["u"] *)
  u_new : Q;                  (* fields["u_new"] *)
  dU : Q;                     (* fields["dU"] *)
  scal : Q;                   (* fields[name] of the extra forcing *)
  open_file : option Z;       (* _open_file; None = _first_read *)
  rlog : list (Z * Z * Z)     (* ghost: reads so far, newest first *)
}.
Definition st0 : fstate := {| u := 0; u_new := 0; dU := 0; scal := 0; open_file := None; rlog := [] |}.

(** [_read_velocity]: opens the file of the frame when it is not the open one, reads at frame_idx *)
Definition read_velocity (T : tables) (D : disk) (st : fstate) (s : Z) : option (Q * fstate) :=
  match lookup (dict T) s with
  | None => None
  | Some fr =>
      let opened :=
        match open_file st with
        | None => ffile fr                                    (* first read: open_forcing_file *)
        | Some g => if negb (ffile fr =? g) then ffile fr else g
        end in
      match D opened (fidx fr) with
      | None => None
      | Some (uv, _) =>
          Some (uv, {| u := u st; u_new := u_new st; dU := dU st; scal := scal st;
                       open_file := Some opened; rlog := (s, opened, fidx fr) :: rlog st |})
      end
  end.

(** [_read_field]: reads from the CURRENTLY OPEN file at frame_idx[step] *)
Definition read_field (T : tables) (D : disk) (st : fstate) (s : Z) : option (Q * fstate) :=
  match lookup (dict T) s, open_file st with
  | Some fr, Some g =>
      match D g (fidx fr) with
      | None => None
      | Some (_, sv) =>
          Some (sv, {| u := u st; u_new := u_new st; dU := dU st; scal := scal st;
                       open_file := open_file st; rlog := (s, g, fidx fr) :: rlog st |})
      end
  | _, _ => None
  end.
(** the loop over extra_forcing: [hs] = an extra scalar field is configured *)
Definition read_scalars (hs : bool) (T : tables) (D : disk) (st : fstate) (s : Z) : option (Q * fstate) :=
  if hs then read_field T D st s else Some (scal st, st).

(** [prestep = max(V) if V else 0] with V the negative steps *)
Definition prestep_of (S : list Z) : Z :=
  match filter (fun s => s <? 0) S with
  | [] => 0
  | v :: r => fold_left Z.max r v
  end.

(** * Forcing.__init__ (after the tables) *)
Definition forcing_init (T : tables) (D : disk) (hs : bool) : option fstate :=
  let prestep := prestep_of (steps T) in
  match index_of prestep (steps T) with
  | None => None
  | Some i =>
  match nth_opt (stepdiff T) i, nth_opt (steps T) (S i) with
  | Some stepdiff0, Some nextstep =>
  match read_velocity T D st0 prestep with
  | None => None
  | Some (u0, st1) =>
  match read_scalars hs T D st1 prestep with
  | None => None
  | Some (sc, st2) =>
      if prestep =? 0 then
        Some {| u := u0; u_new := u0; dU := 0 * u0; scal := sc;
                open_file := open_file st2; rlog := rlog st2 |}
      else
        match read_velocity T D st2 nextstep with
        | None => None
        | Some (u1, st3) =>
            let d := ((u1 - u0) / inject_Z stepdiff0)%Q in
            Some {| u := (u0 - inject_Z (prestep + 1) * d)%Q; u_new := u1; dU := d; scal := sc;
                    open_file := open_file st3; rlog := rlog st3 |}
        end
  end end
  | _, _ => None
  end end.

(** * Forcing.update at model step [step] *)
Definition forcing_update (T : tables) (D : disk) (hs : bool) (st : fstate) (step : Z) : option fstate :=
  if memb step (steps T) then
    let ucur := u_new st in
    match read_scalars hs T D st step with
    | None => None
    | Some (sc, st2) =>
    match index_of step (steps T) with
    | None => None
    | Some i =>
        if Nat.ltb (i + 1) (length (steps T)) then
          match nth_opt (steps T) (i + 1), nth_opt (stepdiff T) i with
          | Some nextstep, Some sd =>
              match read_velocity T D st2 nextstep with
              | None => None
              | Some (u1, st3) =>
                  Some {| u := ucur; u_new := u1; dU := ((u1 - ucur) / inject_Z sd)%Q; scal := sc;
                          open_file := open_file st3; rlog := rlog st3 |}
              end
          | _, _ => None
          end
        else
          Some {| u := ucur; u_new := u_new st; dU := (0 * ucur)%Q; scal := sc;
                  open_file := open_file st2; rlog := rlog st2 |}
    end end
  else
    Some {| u := (u st + dU st)%Q; u_new := u_new st; dU := dU st; scal := scal st;
            open_file := open_file st; rlog := rlog st |}.

(** state after [k] updates (model steps 0 .. k-1); the state in force at model step n is
    [after_updates (n+1)] *)
Fixpoint after_updates (T : tables) (D : disk) (hs : bool) (k : nat) : option fstate :=
  match k with
  | O => forcing_init T D hs
  | S j =>
      match after_updates T D hs j with
      | None => None
      | Some st => forcing_update T D hs st (Z.of_nat j)
      end
  end.
Definition state_at (T : tables) (D : disk) (hs : bool) (n : Z) : option fstate :=
  after_updates T D hs (Z.to_nat (n + 1)).

(** * Observations *)
(** [velocity(X, Y, Z, fractional_step = f)] on the uniform field *)
Definition velocity_frac (rv : bool) (st : fstate) (f : Q) : Q :=
  let U := if Qlt_bool f (1 # 1000) then u st else (u st + f * dU st)%Q in
  if rv then (- U)%Q else U.
(** [variables["u"]] set by force_particles *)
Definition particle_u (rv : bool) (st : fstate) : Q := if rv then (- u st)%Q else u st.

(** * Specification vocabulary *)
(** value of the frame with step [s], read from ITS file *)
Definition frame_val (raw : list frame) (D : disk) (s : Z) : Q * Q :=
  match lookup raw s with
  | Some fr => match D (ffile fr) (fidx fr) with Some p => p | None => (0, 0)%Q end
  | None => (0, 0)%Q
  end.
(** the file that holds the frame with step [s] (file_idx[s]) *)
Definition file_of (raw : list frame) (s : Z) : Z :=
  match lookup raw s with Some fr => ffile fr | None => 0 end.
Definition uval raw D s : Q := fst (frame_val raw D s).
Definition sval raw D s : Q := snd (frame_val raw D s).
Definition upts (raw : list frame) (D : disk) : list (Z * Q) :=
  map (fun s => (s, uval raw D s)) (steps (mk_tables raw)).
Definition spts (raw : list frame) (D : disk) : list (Z * Q) :=
  map (fun s => (s, sval raw D s)) (steps (mk_tables raw)).

(** linear interpolation in step space between the first pair of consecutive frames that brackets [x]
    (the frame value itself when [x] is the single/last frame) *)
Fixpoint lerp_spec (pts : list (Z * Q)) (x : Q) : option Q :=
  match pts with
  | [] => None
  | (a, fa) :: r =>
      match r with
      | [] => if Qeq_bool x (inject_Z a) then Some fa else None
      | (b, fb) :: _ =>
          if Qle_bool (inject_Z a) x && Qle_bool x (inject_Z b)
          then Some (lerp (inject_Z a) fa (inject_Z b) fb x)
          else lerp_spec r x
      end
  end.
(** value of the last frame with step <= n (frames sorted by step) *)
Fixpoint latest_spec (pts : list (Z * Q)) (n : Z) : option Q :=
  match pts with
  | [] => None
  | (a, sa) :: r =>
      if a <=? n then match latest_spec r n with Some v => Some v | None => Some sa end
      else None
  end.

(** hypotheses of the theorems, decidable *)
Fixpoint nodupb (l : list Z) : bool :=
  match l with [] => true | x :: r => negb (memb x r) && nodupb r end.
Definition readable (raw : list frame) (D : disk) : bool :=
  forallb (fun fr => match D (ffile fr) (fidx fr) with Some _ => true | None => false end) raw.
(** a frame at or before step 0 and a frame after step n *)
Definition covers (raw : list frame) (n : Z) : bool :=
  existsb (fun s => s <=? 0) (map fstep raw) && existsb (fun s => n <? s) (map fstep raw).
(** physical layouts: the times of all frames in file order; all on the model time grid *)
Definition layout_times (files : list (list record)) : list Z :=
  map (fun r : record => fst (fst r)) (concat files).
Definition on_grid (t : tk) (files : list (list record)) : bool :=
  forallb (fun x => (x - start t) mod dt t =? 0) (layout_times files).
(** every logged read hit the file and index that the tables give for the requested step *)
Definition log_ok (raw : list frame) (l : list (Z * Z * Z)) : Prop :=
  Forall (fun e => match e with (s, f, i) =>
            lookup raw s = Some {| fstep := s; ffile := f; fidx := i |} end) l.

(** * The code before the repairs (commit f121242), kept for the [_old_defect] examples:
    u_new/dU are refreshed one step AFTER a frame step, never at it *)
Definition forcing_update_old (T : tables) (D : disk) (hs : bool) (st : fstate) (step : Z) : option fstate :=
  if memb step (steps T) then
    match read_scalars hs T D st step with
    | None => None
    | Some (sc, st2) =>
        Some {| u := u_new st; u_new := u_new st; dU := dU st; scal := sc;
                open_file := open_file st2; rlog := rlog st2 |}
    end
  else
    match (if memb (step - 1) (steps T) then
             match index_of (step - 1) (steps T) with
             | None => None
             | Some i =>
                 match nth_opt (steps T) (i + 1), nth_opt (stepdiff T) i with
                 | Some nextstep, Some sd =>
                     match read_velocity T D st nextstep with
                     | None => None
                     | Some (u1, st3) =>
                         Some {| u := u st; u_new := u1; dU := ((u1 - u st) / inject_Z sd)%Q; scal := scal st;
                                 open_file := open_file st3; rlog := rlog st3 |}
                     end
                 | _, _ => None
                 end
             end
           else Some st) with
    | None => None
    | Some s1 =>
        Some {| u := (u s1 + dU s1)%Q; u_new := u_new s1; dU := dU s1; scal := scal s1;
                open_file := open_file s1; rlog := rlog s1 |}
    end.
Fixpoint after_updates_old (T : tables) (D : disk) (hs : bool) (k : nat) : option fstate :=
  match k with
  | O => forcing_init T D hs
  | S j =>
      match after_updates_old T D hs j with
      | None => None
      | Some st => forcing_update_old T D hs st (Z.of_nat j)
      end
  end.
