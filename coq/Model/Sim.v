(** Model/Sim.v — the whole simulation step (ladim/model.py Model.update, ladim/main.py loop,
    Model.__init__ warm-start branch) over abstract per-particle physics.

    The component models establish what is assumed of the physics here: the release schedule is a
    function of the step (C04), the forcing in force is a function of the step (C03), the tracker and
    the IBM act on one particle at a time (C09/C01/C15) — BUT the per-particle arrays the forcing caches
    in Forcing.update (vertical level K, weight A, sampled variables) are kept here as a separate list
    addressed BY POSITION, exactly as in the code, so that anything that changes the particle list
    between Forcing.update and Tracker.update misaligns them in the model as it does in the code. *)
From Coq Require Import ZArith List Bool.
From Ladim Require Import Base.Num.
Import ListNotations.
Open Scope Z_scope.

Section Sim.
  Variable V : Type.        (* instance values of one particle (position, depth, IBM state, ...) *)
  Variable C : Type.        (* what Forcing.update caches for one particle (K, A, sampled fields) *)

  Record part := { tag : Z;          (* ghost: release row and copy number — never read by the run *)
                   ppid : Z; pval : V; palive : bool }.

  (** environment, indexed by model step (the component models compile a set-up into these) *)
  Variable release_at : Z -> list (Z * V).    (* (tag, initial values) of the particles due at a step *)
  Variable forcef : Z -> V -> V.              (* forcing-derived variables stored into the state *)
  Variable cachef : Z -> V -> C.              (* per-particle cache computed by Forcing.update *)
  Variable trackf : Z -> V -> C -> V * bool.  (* Tracker.update on one particle: new values, still alive *)
  Variable ibmf : Z -> V -> V * bool.         (* IBM.update on one particle *)
  Variable due : Z -> bool.                   (* Output.update writes at this step *)

  Record rec := { rstep : Z; rrows : list (Z * Z * V) (* pid, tag, values *) }.
  Record sim := { parts : list part; npid : Z; cache : list C; recs : list rec; crashed : bool }.

  Definition compactify (ps : list part) : list part := filter palive ps.
  Fixpoint mk_new (pid0 : Z) (l : list (Z * V)) : list part :=
    match l with
    | [] => []
    | (t, v) :: r => {| tag := t; ppid := pid0; pval := v; palive := true |} :: mk_new (pid0 + 1) r
    end.
  Definition snapshot (n : Z) (ps : list part) : rec :=
    {| rstep := n; rrows := map (fun p => (ppid p, tag p, pval p)) ps |}.

  (** tracker and IBM on the particle at position i with the cache entry at position i;
      a length mismatch is the shape error numpy raises *)
  Fixpoint move_all (n : Z) (ps : list part) (cs : list C) : option (list part) :=
    match ps, cs with
    | [], [] => Some []
    | p :: ps', c :: cs' =>
        match move_all n ps' cs' with
        | None => None
        | Some r =>
            let '(v1, a1) := trackf n (pval p) c in
            let '(v2, a2) := ibmf n v1 in
            Some ({| tag := tag p; ppid := ppid p; pval := v2; palive := palive p && a1 && a2 |} :: r)
        end
    | _, _ => None
    end.

  (** Model.update at step n; [skip_release] is the warm-start skip of the rows at the start time *)
  Definition sim_step_gen (do_output : bool) (skip_release : bool) (s : sim) (n : Z) : sim :=
    if crashed s then s else
    let ps0 := compactify (parts s) in                                   (* state.compactify() *)
    let new := if skip_release then [] else release_at n in
    let ps1 := ps0 ++ mk_new (npid s) new in                             (* release.update() *)
    let np := npid s + Z.of_nat (length new) in
    let ps2 := map (fun p => {| tag := tag p; ppid := ppid p; pval := forcef n (pval p); palive := palive p |}) ps1 in
    let ch := map (fun p => cachef n (pval p)) ps2 in                    (* force.update() *)
    let '(ps3, rs) := if do_output && due n
                      then (compactify ps2, recs s ++ [snapshot n (compactify ps2)])   (* output.update(), sparse *)
                      else (ps2, recs s) in
    match move_all n ps3 ch with                                         (* tracker.update(); ibm.update() *)
    | Some ps4 => {| parts := ps4; npid := np; cache := ch; recs := rs; crashed := false |}
    | None => {| parts := ps3; npid := np; cache := ch; recs := rs; crashed := true |}
    end.
  Definition sim_step := sim_step_gen true false.

  Definition sim_init : sim := {| parts := []; npid := 0; cache := []; recs := []; crashed := false |}.
  (** cold run: main.py's loop over steps 0 .. N-1 *)
  Definition cold_run (nsteps : Z) : sim := fold_left sim_step (zrange 0 nsteps) sim_init.

  (** warm start from the record written at step r (restore_state: the particles of that record, all
      alive; npid restored as [np]); Model.__init__ then takes step r without release of the rows at the
      start time and without output, and main.py's loop continues with steps r+1 .. N-1 *)
  Definition restore (r : rec) (np : Z) : sim :=
    {| parts := map (fun x => let '(pid, t, v) := x in {| tag := t; ppid := pid; pval := v; palive := true |}) (rrows r);
       npid := np; cache := []; recs := []; crashed := false |}.
  Definition warm_run (r : rec) (np : Z) (nsteps : Z) : sim :=
    fold_left sim_step (zrange (rstep r + 1) nsteps) (sim_step_gen false true (restore r np) (rstep r)).

  (** the per-particle composite of one step: what happens to the values of a particle from the record
      of step n to the record of step n+1 *)
  Definition phys (n : Z) (v : V) : V * bool :=
    let v0 := forcef n v in
    let '(v1, a1) := trackf n v0 (cachef n v0) in
    let '(v2, a2) := ibmf n v1 in (v2, a1 && a2).
End Sim.
Arguments tag {V}. Arguments ppid {V}. Arguments pval {V}. Arguments palive {V}.
Arguments parts {V C}. Arguments npid {V C}. Arguments cache {V C}. Arguments recs {V C}. Arguments crashed {V C}.
Arguments rstep {V}. Arguments rrows {V}.
