(** Model/VStretch.v — the ROMS stretching curves of ladim/ROMS.py [s_stretch] as real functions
    of the unstretched coordinate s (Coq's Reals: sinh, cosh, tanh, exp).  Definitions only.
    [s_stretch(N, theta_s, theta_b, stagger, Vstretching)[k]] is [Cs Vstretching theta_s theta_b (S k)]
    with S the rho or w abscissa. *)
From Coq Require Import Reals ZArith.
Open Scope R_scope.

(** abscissae: rho [S = -1.0 + (0.5 + np.arange(N)) / N]; w [S = np.linspace(-1.0, 0.0, N + 1)] *)
Definition Sr_rho (N k : Z) : R := -1 + (1/2 + IZR k) / IZR N.
Definition Sr_w (N k : Z) : R := -1 + IZR k / IZR N.

(** Vstretching 1 (Song & Haidvogel 1994):
    [cff1 = 1.0/sinh(theta_s); cff2 = 0.5/tanh(0.5*theta_s);
     (1.0 - theta_b)*cff1*sinh(theta_s*S) + theta_b*(cff2*tanh(theta_s*(S + 0.5)) - 0.5)] *)
Definition Cs1 (ts tb s : R) : R :=
  let cff1 := 1 / sinh ts in
  let cff2 := (1/2) / tanh ((1/2) * ts) in
  (1 - tb) * cff1 * sinh (ts * s) + tb * (cff2 * tanh (ts * (s + 1/2)) - 1/2).

(** surface and bottom curves shared by Vstretching 2 and 4 *)
Definition Csur (ts s : R) : R := (1 - cosh (ts * s)) / (cosh ts - 1).
Definition Cbot (tb s : R) : R := sinh (tb * (s + 1)) / sinh tb - 1.
(** [mu = (S + 1)**a * (1 + (a/b)*(1 - (S + 1)**b))] with a = b = 1 *)
Definition mu (s : R) : R := (s + 1) * (1 + (1 / 1) * (1 - (s + 1))).

(** Vstretching 2 (Shchepetkin 2005): [mu*Csur + (1 - mu)*Cbot] *)
Definition Cs2 (ts tb s : R) : R := mu s * Csur ts s + (1 - mu s) * Cbot tb s.

(** Vstretching 4 (Shchepetkin 2010): [C = Csur; (exp(theta_b*C) - 1)/(1 - exp(-theta_b))] *)
Definition Cs4 (ts tb s : R) : R := (exp (tb * Csur ts s) - 1) / (1 - exp (- tb)).

Definition Cs (vs : Z) (ts tb s : R) : R :=
  if (vs =? 1)%Z then Cs1 ts tb s else if (vs =? 2)%Z then Cs2 ts tb s else Cs4 ts tb s.

(** parameter ranges of the property: theta_s > 0; theta_b in [0,1] (Vstretching 1), > 0 (2 and 4) *)
Definition stretch_params (vs : Z) (ts tb : R) : Prop :=
  0 < ts /\ ((vs = 1%Z /\ 0 <= tb <= 1) \/ ((vs = 2%Z \/ vs = 4%Z) /\ 0 < tb)).

(** strictly increasing on [a, b] *)
Definition strictly_increasing_on (f : R -> R) (a b : R) : Prop :=
  forall x y, a <= x -> x < y -> y <= b -> f x < f y.
