(** Model/Tracker.v — ladim/tracker.py and the parts of ROMS.Grid the tracker uses.
    Positions/velocities are Q (exact rationals); a non-finite candidate (NaN/inf) is [None]. *)
From Coq Require Import ZArith QArith List Bool.
From Ladim Require Import Base.Num.
Import ListNotations.
Open Scope Q_scope.

(** * the grid as the tracker sees it (ROMS.Grid: ingrid, atsea, depth, metric) *)
Record grid := {
  gi0 : Z; gi1 : Z; gj0 : Z; gj1 : Z;          (* subgrid limits, python style *)
  gM : list (list Z);                          (* sliced land mask  M[J - j0][I - i0], 1 = sea *)
  gH : list (list Q);                          (* sliced bottom depth *)
  gDX : list (list Q)                          (* sliced grid spacing (metric is conformal: dy = dx) *)
}.
Definition gxmin (g : grid) : Q := inject_Z (gi0 g).
Definition gxmax (g : grid) : Q := inject_Z (gi1 g - 1).
Definition gymin (g : grid) : Q := inject_Z (gj0 g).
Definition gymax (g : grid) : Q := inject_Z (gj1 g - 1).

Definition ingrid (g : grid) (x y : Q) : bool :=
  Qlt_bool (gxmin g + (1#2)) x && Qlt_bool x (gxmax g - (1#2)) &&
  Qlt_bool (gymin g + (1#2)) y && Qlt_bool y (gymax g - (1#2)).

Definition lookup2 {A} (m : list (list A)) (j i : Z) : option A :=
  match znth_opt m j with Some row => znth_opt row i | None => None end.
(** cell of a position: I = round(X) - i0, J = round(Y) - j0 (round half to even) *)
Definition cellI (g : grid) (x : Q) : Z := (qround x - gi0 g)%Z.
Definition cellJ (g : grid) (y : Q) : Z := (qround y - gj0 g)%Z.
Definition atsea (g : grid) (x y : Q) : bool :=
  match lookup2 (gM g) (cellJ g y) (cellI g x) with Some v => (0 <? v)%Z | None => false end.
Definition depth (g : grid) (x y : Q) : option Q := lookup2 (gH g) (cellJ g y) (cellI g x).
Definition metric (g : grid) (x y : Q) : option Q := lookup2 (gDX g) (cellJ g y) (cellI g x).

(** * horizontal move: candidate, out-of-grid kill, inactive restore, land cancel — in this order *)
Record particle := { px : Q; py : Q; alive : bool; active : bool }.

Definition move (g : grid) (p : particle) (cand : option (Q * Q)) : particle :=
  let ing := match cand with Some (x, y) => ingrid g x y | None => false end in
  let alive' := alive p && ing in
  let active' := active p && ing in
  let '(x1, y1) := match cand with
                   | Some (x, y) => if active' then (x, y) else (px p, py p)
                   | None => (px p, py p)
                   end in
  let onland := negb (atsea g x1 y1) in
  {| px := if onland then px p else x1; py := if onland then py p else y1;
     alive := alive'; active := active' |}.

Definition valid (g : grid) (p : particle) : Prop :=
  alive p = true -> ingrid g (px p) (py p) = true /\ atsea g (px p) (py p) = true.

(** a whole step on a list of particles with arbitrary candidates, then removal of the dead
    (start of the next step) and release of new particles *)
Fixpoint move_all (g : grid) (ps : list particle) (cs : list (option (Q * Q))) : list particle :=
  match ps, cs with
  | p :: ps', c :: cs' => move g p c :: move_all g ps' cs'
  | _, _ => []
  end.
Record stepin := { cands : list (option (Q * Q)); released : list particle }.
Definition track_step (g : grid) (ps : list particle) (s : stepin) : list particle :=
  move_all g (filter alive ps ++ released s) (cands s).
Definition track (g : grid) (ps : list particle) (steps : list stepin) : list particle :=
  fold_left (track_step g) steps ps.

(** * advection schemes over an abstract velocity oracle
    [vel f x y] = velocity (u, v) the forcing supplies at fractional step f and position (x, y)
    for THIS particle (its depth level is fixed during the step). *)
Definition clipq (lo hi x : Q) : Q := Qmax' (Qmin' x hi) lo.

Section Advect.
  Variable vel : Q -> Q -> Q -> Q * Q.
  Variables dtdx dtdy : Q.                 (* dt/dx, dt/dy at the particle's cell *)
  Variables xlo xhi ylo yhi : Q.           (* clip box: xmin+0.01 ... *)

  Definition rkstep (x y u v frac : Q) : Q * Q := (x + frac * u * dtdx, y + frac * v * dtdy).
  Definition clip2 (p : Q * Q) : Q * Q := (clipq xlo xhi (fst p), clipq ylo yhi (snd p)).

  Definition EF (x y : Q) : Q * Q := vel 0 x y.
  Definition RK2 (x y : Q) : Q * Q :=
    let '(u, v) := vel 0 x y in
    let '(x1, y1) := clip2 (rkstep x y u v (1#2)) in
    vel (1#2) x1 y1.
  Definition rk4avg (a b c d : Q) : Q := (a + 2 * b + 2 * c + d) / 6.
  Definition RK4 (x y : Q) : Q * Q :=
    let '(u1, v1) := vel 0 x y in
    let '(x1, y1) := clip2 (rkstep x y u1 v1 (1#2)) in
    let '(u2, v2) := vel (1#2) x1 y1 in
    let '(x2, y2) := clip2 (rkstep x y u2 v2 (1#2)) in
    let '(u3, v3) := vel (1#2) x2 y2 in
    let '(x3, y3) := clip2 (rkstep x y u3 v3 1) in
    let '(u4, v4) := vel 1 x3 y3 in
    (rk4avg u1 u2 u3 u4, rk4avg v1 v2 v3 v4).

  (** candidate position: X + U*dt/dx *)
  Definition candidate (scheme : Q -> Q -> Q * Q) (x y : Q) : Q * Q :=
    let '(u, v) := scheme x y in (x + u * dtdx, y + v * dtdy).
End Advect.

(** * explicit Runge-Kutta step with a Butcher tableau, for dX/dt = u/dx, dY/dt = v/dy
    (time measured in steps: t in [0,1], h = 1; right-hand side f(t,x,y) = (u*dt/dx, v*dt/dy)) *)
Record tableau := { tc : list Q; ta : list (list Q); tb : list Q }.
Definition tab_EF : tableau := {| tc := [0]; ta := [[]]; tb := [1] |}.
Definition tab_RK2 : tableau := {| tc := [0; 1#2]; ta := [[]; [1#2]]; tb := [0; 1] |}.   (* midpoint, as coded *)
Definition tab_RK4 : tableau :=
  {| tc := [0; 1#2; 1#2; 1]; ta := [[]; [1#2]; [0; 1#2]; [0; 0; 1]]; tb := [1#6; 1#3; 1#3; 1#6] |}.

Fixpoint dot (a : list Q) (k : list Q) : Q :=
  match a, k with x :: a', y :: k' => x * y + dot a' k' | _, _ => 0 end.

Section Generic.
  Variable vel : Q -> Q -> Q -> Q * Q.
  Variables dtdx dtdy : Q.
  (** stages computed in order; ks accumulates (kx, ky) lists *)
  Fixpoint stages (cs : list Q) (as_ : list (list Q)) (x y : Q) (kx ky : list Q) : list Q * list Q :=
    match cs, as_ with
    | c :: cs', a :: as' =>
        let '(u, v) := vel c (x + dot a kx) (y + dot a ky) in
        stages cs' as' x y (kx ++ [u * dtdx]) (ky ++ [v * dtdy])
    | _, _ => (kx, ky)
    end.
  Definition rk_generic (t : tableau) (x y : Q) : Q * Q :=
    let '(kx, ky) := stages (tc t) (ta t) x y [] [] in
    (x + dot (tb t) kx, y + dot (tb t) ky).
End Generic.

(** * vertical movement: displacement, surface reflection, then bottom reflection *)
Definition reflect (h z d : Q) : Q :=
  let z1 := z + d in
  let z2 := if Qlt_bool z1 0 then - z1 else z1 in
  if Qlt_bool h z2 then 2 * h - z2 else z2.
(** [wdiff] = diffusive velocity (None when vertical diffusion is off), [wadv] = vertical advection *)
Definition vertical (h : Q) (dt z : Q) (wdiff wadv : option Q) : Q :=
  match wdiff, wadv with
  | None, None => z
  | _, _ => reflect h z ((match wdiff with Some w => w * dt | None => 0 end)
                         + (match wadv with Some w => w * dt | None => 0 end))
  end.

(** * ladim/analytical.py: velocity samplers for analytically defined fields *)
Section Analytical.
  Variable sample : Q -> Q -> Q * Q.
  Variable dt : Q.
  Definition get_velocity1 (x y : Q) : Q * Q := sample x y.
  Definition get_velocity2 (s : Q) (x y : Q) : Q * Q :=
    let m := 1 / (2 * s) in
    let '(u0, v0) := sample x y in
    let '(u1, v1) := sample (x + s * dt * u0) (y + s * dt * v0) in
    ((1 - m) * u0 + m * u1, (1 - m) * v0 + m * v1).
  Definition get_velocity4 (x y : Q) : Q * Q :=
    let '(u0, v0) := sample x y in
    let '(u1, v1) := sample (x + (1#2) * dt * u0) (y + (1#2) * dt * v0) in
    let '(u2, v2) := sample (x + (1#2) * dt * u1) (y + (1#2) * dt * v1) in
    let '(u3, v3) := sample (x + dt * u2) (y + dt * v2) in
    ((u0 + 2 * u1 + 2 * u2 + u3) / 6, (v0 + 2 * v1 + 2 * v2 + v3) / 6).
End Analytical.
