(** Model/Output.v — ladim/out_netcdf.py: record/instance cursors, file roll-over, file naming,
    ragged (sparse) and dense layout.  The cursor machine is generic in the record payload. *)
From Coq Require Import ZArith List Bool.
From Ladim Require Import Base.Num Model.State.
Import ListNotations.
Open Scope Z_scope.

Section Machine.
  Variables R P : Type.      (* payload of one record / of the particle variables of a file *)

  Record file := { fno : Z; recs : list R; pv : option P; closed : bool }.
  Record ost := {
    total : Z;    (* num_records *)
    nr : Z;       (* numrec (999999 when not multi-file) *)
    rc : Z;       (* record_count *)
    lrc : Z;      (* local_record_count *)
    lnr : Z;      (* local_num_records *)
    cur : file;   (* self.nc *)
    done : list file;
    err : bool    (* a write on a closed file: "NetCDF: Not a valid ID" *)
  }.
  Definition new_file (n : Z) : file := {| fno := n; recs := []; pv := None; closed := false |}.

  (** Output.__init__ + create_netcdf for the first file *)
  Definition out_init (nsteps p numrec : Z) (skip_initial : bool) : ost :=
    let tot := cdiv nsteps p - (if skip_initial then 1 else 0) in
    let n := if numrec =? 0 then 999999 else numrec in
    {| total := tot; nr := n; rc := 0; lrc := 0; lnr := Z.min n (tot - 0);
       cur := new_file 0; done := []; err := false |}.

  (** Output.write *)
  Definition write (s : ost) (r : R) (pvars : P) : ost :=
    if closed (cur s) then
      {| total := total s; nr := nr s; rc := rc s; lrc := lrc s; lnr := lnr s; cur := cur s; done := done s; err := true |}
    else
      let c1 := {| fno := fno (cur s); recs := recs (cur s) ++ [r]; pv := pv (cur s); closed := false |} in
      let rc1 := rc s + 1 in
      let lrc1 := lrc s + 1 in
      if lrc1 =? lnr s then
        let cc := {| fno := fno c1; recs := recs c1; pv := Some pvars; closed := true |} in
        if rc1 <? total s then
          {| total := total s; nr := nr s; rc := rc1; lrc := 0; lnr := Z.min (nr s) (total s - rc1);
             cur := new_file (fno cc + 1); done := done s ++ [cc]; err := err s |}
        else
          {| total := total s; nr := nr s; rc := rc1; lrc := lrc1; lnr := lnr s; cur := cc; done := done s; err := err s |}
      else
        {| total := total s; nr := nr s; rc := rc1; lrc := lrc1; lnr := lnr s; cur := c1; done := done s; err := err s |}.

  (** Output.close *)
  Definition finish (s : ost) : ost :=
    if closed (cur s) then s
    else {| total := total s; nr := nr s; rc := rc s; lrc := lrc s; lnr := lnr s;
            cur := {| fno := fno (cur s); recs := recs (cur s); pv := pv (cur s); closed := true |};
            done := done s; err := err s |}.

  Variable snap : Z -> R.     (* the record written at a step *)
  Variable pvs : Z -> P.      (* the particle variables as of a step *)

  (** Output.update at a given step *)
  Definition out_update (p : Z) (s : ost) (step : Z) : ost :=
    if step mod p =? 0 then write s (snap step) (pvs step) else s.
  Definition out_run (nsteps p numrec : Z) : ost :=
    finish (fold_left (out_update p) (zrange 0 nsteps) (out_init nsteps p numrec false)).

  Definition files (s : ost) : list file := done s ++ [cur s].
  Definition all_records (s : ost) : list R := concat (map recs (files s)).
End Machine.
Arguments fno {R P}. Arguments recs {R P}. Arguments pv {R P}. Arguments closed {R P}.
Arguments total {R P}. Arguments nr {R P}. Arguments rc {R P}. Arguments lrc {R P}. Arguments lnr {R P}.
Arguments cur {R P}. Arguments done {R P}. Arguments err {R P}.
Arguments files {R P}. Arguments all_records {R P}.

(** steps at which a record falls due *)
Definition due (nsteps p : Z) : list Z := filter (fun n => n mod p =? 0) (zrange 0 nsteps).

(** * file naming (filename_generator): prototype stem = prefix ++ optional "_" digits *)
(** [proto_number] = Some (start, width) when the stem ends in _ddd, None otherwise *)
Fixpoint ndigits_aux (fuel : nat) (n : Z) : Z :=
  match fuel with O => 1 | S f => if n <? 10 then 1 else 1 + ndigits_aux f (n / 10) end.
Definition ndigits (n : Z) : Z := ndigits_aux 30 n.
(** number and printed width ("{:0<width>d}" never truncates) of the i-th file *)
Definition file_number (proto : option (Z * Z)) (i : Z) : Z * Z :=
  match proto with
  | Some (start, width) => (start + i, Z.max width (ndigits (start + i)))
  | None => (i, Z.max 3 (ndigits i))
  end.

(** * sparse (contiguous ragged) layout of one file: counts and one flat array per variable *)
Record sparse := { counts : list Z; flat : list (list Z) (* per variable *); stimes : list Z }.
Fixpoint write_at {A} (start : nat) (vals : list A) (arr : list A) : list A :=
  match start with
  | O => vals ++ skipn (length vals) arr
  | S k => match arr with [] => vals (* beyond the end: netCDF extends; unreachable under the invariant *)
           | x :: r => x :: write_at k vals r end
  end.
(** one record: the time value and, per variable, the column of the living particles *)
Record snapshot := { stime : Z; cols : list (list Z) }.
Definition snap_count (r : snapshot) : Z := Z.of_nat (length (hd [] (cols r))).
Fixpoint map2l {A B C} (f : A -> B -> C) (l1 : list A) (l2 : list B) : list C :=
  match l1, l2 with x :: r1, y :: r2 => f x y :: map2l f r1 r2 | _, _ => [] end.
(** Output.write, sparse branch: [lic] = local_instance_count *)
Definition sparse_write (f : sparse) (lic : Z) (r : snapshot) : sparse * Z :=
  ({| counts := counts f ++ [snap_count r];
      flat := map2l (fun arr col => write_at (Z.to_nat lic) col arr) (flat f) (cols r);
      stimes := stimes f ++ [stime r] |},
   lic + snap_count r).
(** retrieval as the format documentation prescribes: start = sum(count[:k]), count[k] *)
Definition retrieve (f : sparse) (k : nat) : list (list Z) :=
  let start := Z.to_nat (zsum (firstn k (counts f))) in
  let cnt := Z.to_nat (nth k (counts f) 0) in
  map (fun arr => firstn cnt (skipn start arr)) (flat f).
Definition sparse_run (nvars : nat) (rs : list snapshot) : sparse * Z :=
  fold_left (fun acc r => sparse_write (fst acc) (snd acc) r) rs
            ({| counts := []; flat := repeat [] nvars; stimes := [] |}, 0).

(** * dense (orthogonal) layout: row k holds the value at index pid for the living particles of
    record k, the fill value elsewhere *)
Definition dense_row := list (Z * Z).        (* (pid, value) entries written in one record *)
Definition dense_write (pids : list Z) (alive : list bool) (vals : list Z) : dense_row :=
  combine (fmask alive pids) (fmask alive vals).
Fixpoint dense_get (row : dense_row) (pid : Z) : option Z :=   (* None = fill value *)
  match row with
  | [] => None
  | (p, v) :: r => if p =? pid then Some v else dense_get r pid
  end.

(** write_particle_variables: var[:npart] = state[var][:npart] with npart = state.npid *)
Definition write_pvars (s : state) : list (list Z) := map (firstn (Z.to_nat (npid s))) (pvar s).
