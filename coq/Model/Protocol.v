(** Model/Protocol.v — the call protocol of a whole run (C19).

    Follows ladim/model.py (Model.__init__, Model.update, Model.finish, init_module, load_module),
    ladim/main.py (the time loop) and ladim/out_netcdf.py (Output.update) line by line, recording every
    call that one module makes on another as an element of a trace.  Definitions only; the theorems are
    in Proofs/ProtocolProofs.v. *)
From Coq Require Import ZArith String Ascii List Bool.
From Ladim Require Import Base.Num Model.Sim.
Import ListNotations.
Open Scope Z_scope.

(** the eight modules of Model.modules *)
Inductive modname := MState | MTime | MGrid | MForcing | MRelease | MTracker | MIbm | MOutput.

Inductive call :=
| Construct (m : modname)        (* init_module(name, ...): MainClass(modules=..., **conf) *)
| WarmStart                      (* warm_start(filename, variables, state) *)
| TimerUpdate                    (* timer.update() *)
| Compactify                     (* state.compactify() *)
| ReleaseUpdate                  (* release.update() *)
| ForceUpdate                    (* force.update() *)
| OutputUpdate (writes : bool)   (* output.update(); [writes]: it wrote a record *)
| TrackerUpdate                  (* tracker.update() *)
| IbmUpdate                      (* ibm.update() *)
| Close (m : modname).           (* module.close() *)

Definition modname_eqb (a b : modname) : bool :=
  match a, b with
  | MState, MState | MTime, MTime | MGrid, MGrid | MForcing, MForcing
  | MRelease, MRelease | MTracker, MTracker | MIbm, MIbm | MOutput, MOutput => true
  | _, _ => false
  end.

(** model.py:36-47  module_names = [...]; for name in module_names: self.modules[name] = init_module(...) *)
Definition module_names : list modname :=
  [MState; MTime; MGrid; MForcing; MRelease; MTracker; MIbm; MOutput].

(** timekeeper.py:95  self.step = -1  (step before start) *)
Definition step_after_construction : Z := -1.

(** model.py:60-69  the warm-start branch: warm_start(...); timer.step = 0;
    release.update(); force.update(); tracker.update(); ibm.update() *)
Definition warm_branch : list call := [WarmStart; ReleaseUpdate; ForceUpdate; TrackerUpdate; IbmUpdate].

(** Model.__init__: the trace and the value of timer.step it leaves behind *)
Definition init_trace (warm : bool) : list call :=
  map Construct module_names ++ (if warm then warm_branch else []).
Definition init_step (warm : bool) : Z := if warm then 0 else step_after_construction.

(** Model.update entered with timer.step = [step0]:
      timer.update()  (step += 1);  step = timer.step
      state.compactify(); release.update(); force.update()
      if step >= 0: output.update()      -- Output.update writes iff step % output_period_step == 0
      tracker.update(); ibm.update() *)
Definition update_trace (due : Z -> bool) (step0 : Z) : list call :=
  let step := step0 + 1 in
  [TimerUpdate; Compactify; ReleaseUpdate; ForceUpdate]
  ++ (if 0 <=? step then [OutputUpdate (due step)] else [])
  ++ [TrackerUpdate; IbmUpdate].

(** main.py:109  for _step in range(model.timer.step + 1, model.timer.Nsteps): model.update()
    The loop variable is not used; the clock advances inside update.  [iters] is the range. *)
Fixpoint loop_trace (due : Z -> bool) (iters : list Z) (step : Z) : list call :=
  match iters with
  | [] => []
  | _ :: rest => update_trace due step ++ loop_trace due rest (step + 1)
  end.

(** model.py:94-100  Model.finish: for name in [grid, forcing, release, tracker, ibm, output]:
    if hasattr(module, "close") and callable(module.close): module.close() *)
Definition finish_names : list modname := [MGrid; MForcing; MRelease; MTracker; MIbm; MOutput].
Definition finish_trace (has_close : modname -> bool) : list call :=
  map Close (filter has_close finish_names).

(** main.py: model = Model(config); the loop; model.finish() *)
Definition run_trace (warm : bool) (nsteps : Z) (due : Z -> bool) (has_close : modname -> bool) : list call :=
  init_trace warm
  ++ loop_trace due (zrange (init_step warm + 1) nsteps) (init_step warm)
  ++ finish_trace has_close.

(** Output.update (out_netcdf.py:137-141): writes iff step % output_period_step == 0 *)
Definition due_period (p : Z) (step : Z) : bool := step mod p =? 0.

(** * load_module (model.py:143-171) *)
Inductive load_result :=
| LoadFile (path : string)   (* spec_from_file_location("ladim_custom_" + stem, path); exec_module *)
| Import (name : string)     (* importlib.import_module(name) *)
| Exit.                      (* SystemExit *)

Definition dot_py : string := ".py".

(** str.removesuffix(suf) for a non-empty suffix *)
Fixpoint removesuffix (suf s : string) : string :=
  if String.eqb s suf then EmptyString
  else match s with
       | EmptyString => EmptyString
       | String c r => String c (removesuffix suf r)
       end.

Definition load_module (file_exists importable : string -> bool) (module_name : string) : load_result :=
  let name := removesuffix dot_py module_name in          (* module_name.removesuffix(".py") *)
  let file_name := (name ++ dot_py)%string in              (* Path(module_name + ".py") *)
  if file_exists file_name then LoadFile file_name         (* first try to load the module from a file *)
  else if importable name then Import name                 (* secondly, ordinary import from sys.path *)
  else Exit.                                               (* nothing worked *)

(** the name the file module is given: "ladim_custom_" + Path(file_name).stem
    (last path component without the final ".py") *)
Fixpoint basename_aux (s acc : string) : string :=
  match s with
  | EmptyString => acc
  | String c r => if Ascii.eqb c "/"%char then basename_aux r EmptyString
                  else basename_aux r (acc ++ String c EmptyString)%string
  end.
Definition basename (s : string) : string := basename_aux s EmptyString.
Definition internal_name (file_name : string) : string :=
  ("ladim_custom_" ++ removesuffix dot_py (basename file_name))%string.

(** * What each call does to the particles (the operations Model/Sim.v fuses into one step)

    [exec] interprets one call on (timer.step, sim): the clock advance increments the step, the five
    per-step calls act on the particle list exactly as the corresponding lines of Sim.sim_step_gen, with
    tracker and IBM as two separate passes over the state.  Constructors and closes do not touch the
    particles.  Used to show that the step of Model/Sim.v IS the trace of Model.update executed in order. *)
Section Exec.
  Variables V C : Type.
  Variable release_at : Z -> list (Z * V).
  Variable forcef : Z -> V -> V.
  Variable cachef : Z -> V -> C.
  Variable trackf : Z -> V -> C -> V * bool.
  Variable ibmf : Z -> V -> V * bool.

  Definition with_parts (s : sim V C) (ps : list (part V)) : sim V C :=
    {| parts := ps; npid := npid s; cache := cache s; recs := recs s; crashed := crashed s |}.

  (** Tracker.update: particle i with cache entry i; a length mismatch is numpy's shape error *)
  Fixpoint track_all (n : Z) (ps : list (part V)) (cs : list C) : option (list (part V)) :=
    match ps, cs with
    | [], [] => Some []
    | p :: ps', c :: cs' =>
        match track_all n ps' cs' with
        | None => None
        | Some r => let '(v1, a1) := trackf n (pval p) c in
                    Some ({| tag := tag p; ppid := ppid p; pval := v1; palive := palive p && a1 |} :: r)
        end
    | _, _ => None
    end.
  (** IBM.update *)
  Definition ibm_all (n : Z) (ps : list (part V)) : list (part V) :=
    map (fun p => let '(v2, a2) := ibmf n (pval p) in
                  {| tag := tag p; ppid := ppid p; pval := v2; palive := palive p && a2 |}) ps.

  Definition exec (st : Z * sim V C) (c : call) : Z * sim V C :=
    let '(n, s) := st in
    if crashed s then st else
    match c with
    | TimerUpdate => (n + 1, s)
    | Compactify => (n, with_parts s (compactify V (parts s)))
    | ReleaseUpdate =>
        (n, {| parts := parts s ++ mk_new V (npid s) (release_at n);
               npid := npid s + Z.of_nat (List.length (release_at n));
               cache := cache s; recs := recs s; crashed := false |})
    | ForceUpdate =>
        let ps2 := map (fun p => {| tag := tag p; ppid := ppid p; pval := forcef n (pval p); palive := palive p |}) (parts s) in
        (n, {| parts := ps2; npid := npid s; cache := map (fun p => cachef n (pval p)) ps2;
               recs := recs s; crashed := false |})
    | OutputUpdate true =>
        let ps := compactify V (parts s) in
        (n, {| parts := ps; npid := npid s; cache := cache s; recs := recs s ++ [snapshot V n ps]; crashed := false |})
    | OutputUpdate false => st
    | TrackerUpdate =>
        match track_all n (parts s) (cache s) with
        | Some ps => (n, with_parts s ps)
        | None => (n, {| parts := parts s; npid := npid s; cache := cache s; recs := recs s; crashed := true |})
        end
    | IbmUpdate => (n, with_parts s (ibm_all n (parts s)))
    | Construct _ | Close _ | WarmStart => st
    end.
End Exec.
