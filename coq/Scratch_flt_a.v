From Coq Require Import ZArith Reals Floats Lra Lia Psatz Bool.
From Flocq Require Import Core BinarySingleNaN Relative Plus_error Sterbenz.
From Flocq Require IEEE754.PrimFloat IEEE754.Binary IEEE754.Bits.
From Ladim Require Import Model.TrilinearFloat.
Import Flocq.IEEE754.PrimFloat.
Open Scope R_scope.

#[local] Existing Instance Hprec.
#[local] Existing Instance Hmax.
Notation bf := (binary_float prec emax).
Notation pfloat := Coq.Floats.PrimFloat.float.
Definition fexp64 := FLT_exp (-1074) 53.
Definition rnd (x : R) : R := round radix2 fexp64 ZnearestE x.
Definition fmt (x : R) : Prop := generic_format radix2 fexp64 x.
Definition FR (x : pfloat) : R := B2R (Prim2B x).
Definition fin (x : pfloat) : Prop := is_finite (Prim2B x) = true.

Lemma Prim2B_one : Prim2B 1%float = Bone.
Proof. rewrite <- (Prim2B_B2Prim Bone). exact (f_equal Prim2B one_equiv). Qed.

(* T1 *)
Definition Bm (x y : bf) : bf := Bmult mode_NE x y.
Definition Bp (x y : bf) : bf := Bplus mode_NE x y.
Definition Bs (x y : bf) : bf := Bminus mode_NE x y.
Definition lerp_B (a d u : bf) : bf := Bp (Bm a d) (Bm (Bs Bone a) u).
Definition bilin_B (p q f00 f01 f10 f11 : bf) : bf :=
  Bp (Bp (Bp (Bm (Bm (Bs Bone p) (Bs Bone q)) f00) (Bm (Bm p (Bs Bone q)) f10))
         (Bm (Bm (Bs Bone p) q) f01))
     (Bm (Bm p q) f11).
Definition trilinear_B (a p q d00 u00 d01 u01 d10 u10 d11 u11 : bf) : bf :=
  bilin_B p q (lerp_B a d00 u00) (lerp_B a d01 u01) (lerp_B a d10 u10) (lerp_B a d11 u11).

Theorem trilinear_f_is_IEEE : forall a p q d00 u00 d01 u01 d10 u10 d11 u11,
  Prim2B (trilinear_f a p q d00 u00 d01 u01 d10 u10 d11 u11) =
  trilinear_B (Prim2B a) (Prim2B p) (Prim2B q) (Prim2B d00) (Prim2B u00) (Prim2B d01) (Prim2B u01)
              (Prim2B d10) (Prim2B u10) (Prim2B d11) (Prim2B u11).
Proof.
  intros. unfold trilinear_f, bilin_f, lerp_f, trilinear_B, bilin_B, lerp_B, Bm, Bp, Bs.
  repeat (rewrite ?add_equiv, ?mul_equiv, ?sub_equiv, ?Prim2B_one). reflexivity.
Qed.

(* ---- basic facts about rnd ---- *)
#[local] Instance fexp64_valid : Valid_exp fexp64.
Proof. unfold fexp64. apply FLT_exp_valid. reflexivity. Qed.
Lemma fexp64_eq : fexp prec emax = fexp64. Proof. reflexivity. Qed.

Lemma fmt_FR : forall x, fmt (FR x).
Proof. intros x. unfold fmt, FR. rewrite <- fexp64_eq. apply generic_format_B2R. Qed.
Lemma fmt_rnd : forall x, fmt (rnd x).
Proof. intros. apply generic_format_round; auto with typeclass_instances. Qed.
Lemma fmt_bpow : forall k, (-1074 <= k)%Z -> fmt (bpow radix2 k).
Proof. intros. apply generic_format_bpow. unfold fexp64, FLT_exp. lia. Qed.
Lemma fmt_1 : fmt 1.
Proof. change 1 with (bpow radix2 0). apply fmt_bpow. lia. Qed.
Lemma rnd_id : forall x, fmt x -> rnd x = x.
Proof. intros. apply round_generic; auto with typeclass_instances. Qed.
Lemma rnd_le : forall x y, x <= y -> rnd x <= rnd y.
Proof. intros. apply round_le; auto with typeclass_instances. Qed.
Lemma rnd_0 : rnd 0 = 0.
Proof. apply round_0. auto with typeclass_instances. Qed.
Lemma rnd_abs_le : forall x y, fmt y -> Rabs x <= y -> Rabs (rnd x) <= y.
Proof. intros. apply abs_round_le_generic; auto with typeclass_instances. Qed.

(* ---- single operations ---- *)
Definition fb (x : pfloat) (k : Z) : Prop := fin x /\ Rabs (FR x) <= bpow radix2 k.

Lemma no_ovf : forall x k, (-1074 <= k < 1024)%Z -> Rabs x <= bpow radix2 k ->
  Rabs (rnd x) <= bpow radix2 k /\
  Rlt_bool (Rabs (round radix2 (fexp prec emax) (round_mode mode_NE) x)) (bpow radix2 emax) = true.
Proof.
  intros x k Hk Hx.
  assert (H : Rabs (rnd x) <= bpow radix2 k) by (apply rnd_abs_le; [apply fmt_bpow; lia | exact Hx]).
  split; [exact H|]. apply Rlt_bool_true. change (Rabs (rnd x) < bpow radix2 1024).
  eapply Rle_lt_trans; [exact H|]. apply bpow_lt. lia.
Qed.

Lemma mul_fb : forall x y kx ky, fb x kx -> fb y ky -> (-1074 <= kx + ky < 1024)%Z ->
  fb (x * y)%float (kx + ky) /\ FR (x * y)%float = rnd (FR x * FR y).
Proof.
  intros x y kx ky [Fx Bx] [Fy By] Hk. unfold fb, fin, FR in *. rewrite mul_equiv.
  assert (Hxy : Rabs (B2R (Prim2B x) * B2R (Prim2B y)) <= bpow radix2 (kx + ky)).
  { rewrite Rabs_mult, bpow_plus. apply Rmult_le_compat; auto using Rabs_pos. }
  destruct (no_ovf _ _ Hk Hxy) as [Hb Ho].
  generalize (Bmult_correct prec emax Hprec Hmax mode_NE (Prim2B x) (Prim2B y)). rewrite Ho.
  intros [H1 [H2 _]]. rewrite H1, H2, Fx, Fy. repeat split; auto.
Qed.

Lemma add_fb : forall x y kx ky, fb x kx -> fb y ky -> (-1074 <= Z.max kx ky + 1 < 1024)%Z ->
  fb (x + y)%float (Z.max kx ky + 1) /\ FR (x + y)%float = rnd (FR x + FR y).
Proof.
  intros x y kx ky [Fx Bx] [Fy By] Hk. unfold fb, fin, FR in *. rewrite add_equiv.
  assert (Hxy : Rabs (B2R (Prim2B x) + B2R (Prim2B y)) <= bpow radix2 (Z.max kx ky + 1)).
  { eapply Rle_trans; [apply Rabs_triang|]. rewrite bpow_plus. change (bpow radix2 1) with 2.
    assert (bpow radix2 kx <= bpow radix2 (Z.max kx ky)) by (apply bpow_le; lia).
    assert (bpow radix2 ky <= bpow radix2 (Z.max kx ky)) by (apply bpow_le; lia). lra. }
  destruct (no_ovf _ _ Hk Hxy) as [Hb Ho].
  generalize (Bplus_correct prec emax Hprec Hmax mode_NE (Prim2B x) (Prim2B y) Fx Fy). rewrite Ho.
  intros [H1 [H2 _]]. rewrite H1, H2. repeat split; auto.
Qed.

Lemma sub_fb : forall x y kx ky, fb x kx -> fb y ky -> (-1074 <= Z.max kx ky + 1 < 1024)%Z ->
  fb (x - y)%float (Z.max kx ky + 1) /\ FR (x - y)%float = rnd (FR x - FR y).
Proof.
  intros x y kx ky [Fx Bx] [Fy By] Hk. unfold fb, fin, FR in *. rewrite sub_equiv.
  assert (Hxy : Rabs (B2R (Prim2B x) - B2R (Prim2B y)) <= bpow radix2 (Z.max kx ky + 1)).
  { unfold Rminus. eapply Rle_trans; [apply Rabs_triang|]. rewrite Rabs_Ropp. rewrite bpow_plus. change (bpow radix2 1) with 2.
    assert (bpow radix2 kx <= bpow radix2 (Z.max kx ky)) by (apply bpow_le; lia).
    assert (bpow radix2 ky <= bpow radix2 (Z.max kx ky)) by (apply bpow_le; lia). lra. }
  destruct (no_ovf _ _ Hk Hxy) as [Hb Ho].
  generalize (Bminus_correct prec emax Hprec Hmax mode_NE (Prim2B x) (Prim2B y) Fx Fy). rewrite Ho.
  intros [H1 [H2 _]]. rewrite H1, H2. repeat split; auto.
Qed.

Lemma fb_one : fb 1%float 0 /\ FR 1%float = 1.
Proof. unfold fb, fin, FR. rewrite Prim2B_one, Bone_correct, is_finite_Bone, Rabs_R1. simpl. repeat split; lra. Qed.

(* ---- the rounded real computation ---- *)
Definition lerp_r (a d u : R) : R := rnd (rnd (a * d) + rnd (rnd (1 - a) * u)).
Definition bilin_r (p q f00 f01 f10 f11 : R) : R :=
  rnd (rnd (rnd (rnd (rnd (rnd (1 - p) * rnd (1 - q)) * f00) + rnd (rnd (p * rnd (1 - q)) * f10))
            + rnd (rnd (rnd (1 - p) * q) * f01))
       + rnd (rnd (p * q) * f11)).
Definition trilinear_r (a p q d00 u00 d01 u01 d10 u10 d11 u11 : R) : R :=
  bilin_r p q (lerp_r a d00 u00) (lerp_r a d01 u01) (lerp_r a d10 u10) (lerp_r a d11 u11).

Lemma lerp_fb : forall a d u, fb a 0 -> fb d 1000 -> fb u 1000 ->
  fb (lerp_f a d u) 1002 /\ FR (lerp_f a d u) = lerp_r (FR a) (FR d) (FR u).
Proof.
  intros a d u Ha Hd Hu. unfold lerp_f, lerp_r.
  destruct fb_one as [H1 E1].
  destruct (sub_fb 1 a 0 0 H1 Ha) as [Hs Es]; [simpl; lia|]. simpl in Hs.
  destruct (mul_fb a d 0 1000 Ha Hd) as [Hm1 Em1]; [lia|]. simpl in Hm1.
  destruct (mul_fb _ u 1 1000 Hs Hu) as [Hm2 Em2]; [lia|]. simpl in Hm2.
  destruct (add_fb _ _ _ _ Hm1 Hm2) as [Hp Ep]; [simpl; lia|]. simpl in Hp.
  split; [exact Hp|]. rewrite Ep, Em1, Em2, Es, E1. reflexivity.
Qed.

Lemma bilin_fb : forall p q f00 f01 f10 f11, fb p 0 -> fb q 0 ->
  fb f00 1002 -> fb f01 1002 -> fb f10 1002 -> fb f11 1002 ->
  fb (bilin_f p q f00 f01 f10 f11) 1007 /\
  FR (bilin_f p q f00 f01 f10 f11) = bilin_r (FR p) (FR q) (FR f00) (FR f01) (FR f10) (FR f11).
Proof.
  intros p q f00 f01 f10 f11 Hp Hq H00 H01 H10 H11. unfold bilin_f, bilin_r.
  destruct fb_one as [H1 E1].
  destruct (sub_fb 1 p 0 0 H1 Hp) as [Hsp Esp]; [simpl; lia|]. simpl in Hsp.
  destruct (sub_fb 1 q 0 0 H1 Hq) as [Hsq Esq]; [simpl; lia|]. simpl in Hsq.
  destruct (mul_fb _ _ _ _ Hsp Hsq) as [Hw00 Ew00]; [lia|]. simpl in Hw00.
  destruct (mul_fb _ _ _ _ Hp Hsq) as [Hw10 Ew10]; [lia|]. simpl in Hw10.
  destruct (mul_fb _ _ _ _ Hsp Hq) as [Hw01 Ew01]; [lia|]. simpl in Hw01.
  destruct (mul_fb _ _ _ _ Hp Hq) as [Hw11 Ew11]; [lia|]. simpl in Hw11.
  destruct (mul_fb _ _ _ _ Hw00 H00) as [Ht00 Et00]; [lia|]. simpl in Ht00.
  destruct (mul_fb _ _ _ _ Hw10 H10) as [Ht10 Et10]; [lia|]. simpl in Ht10.
  destruct (mul_fb _ _ _ _ Hw01 H01) as [Ht01 Et01]; [lia|]. simpl in Ht01.
  destruct (mul_fb _ _ _ _ Hw11 H11) as [Ht11 Et11]; [lia|]. simpl in Ht11.
  destruct (add_fb _ _ _ _ Ht00 Ht10) as [Hs1 Es1]; [simpl; lia|]. simpl in Hs1.
  destruct (add_fb _ _ _ _ Hs1 Ht01) as [Hs2 Es2]; [simpl; lia|]. simpl in Hs2.
  destruct (add_fb _ _ _ _ Hs2 Ht11) as [Hs3 Es3]; [simpl; lia|]. simpl in Hs3.
  split; [exact Hs3|].
  rewrite Es3, Es2, Es1, Et00, Et10, Et01, Et11, Ew00, Ew10, Ew01, Ew11, Esp, Esq, E1. reflexivity.
Qed.

Theorem trilinear_f_rounded : forall a p q d00 u00 d01 u01 d10 u10 d11 u11,
  fb a 0 -> fb p 0 -> fb q 0 ->
  fb d00 1000 -> fb u00 1000 -> fb d01 1000 -> fb u01 1000 ->
  fb d10 1000 -> fb u10 1000 -> fb d11 1000 -> fb u11 1000 ->
  fin (trilinear_f a p q d00 u00 d01 u01 d10 u10 d11 u11) /\
  FR (trilinear_f a p q d00 u00 d01 u01 d10 u10 d11 u11) =
  trilinear_r (FR a) (FR p) (FR q) (FR d00) (FR u00) (FR d01) (FR u01) (FR d10) (FR u10) (FR d11) (FR u11).
Proof.
  intros. unfold trilinear_f, trilinear_r.
  destruct (lerp_fb a d00 u00) as [F00 E00]; auto.
  destruct (lerp_fb a d01 u01) as [F01 E01]; auto.
  destruct (lerp_fb a d10 u10) as [F10 E10]; auto.
  destruct (lerp_fb a d11 u11) as [F11 E11]; auto.
  destruct (bilin_fb p q _ _ _ _ H0 H1 F00 F01 F10 F11) as [[Fr _] Er].
  split; [exact Fr|]. rewrite Er, E00, E01, E10, E11. reflexivity.
Qed.
