(** Props/C17.v — "Compiled sampling kernels never read outside the forcing arrays".
    Only the property theorems (each proved by a lemma of Proofs/InterpProofs.v) and examples.
    Model: Model/Interp.v; every kernel returns the list of index triples (k, j, i) it reads; an index is
    inside an array of shape (n, jn, im) iff [in_shape n jn im (k,j,i) = true], i.e. 0 <= k < n,
    0 <= j < jn, 0 <= i < im — a negative index is a violation (numpy would wrap it around silently).
    Positions: [in_clip_range ext x] is 0.01 <= x <= ext - 1.01 in subgrid-local coordinates
    (x = X - i0), i.e. xmin + 0.01 <= X <= xmax - 0.01: the box to which tracker.clip confines every
    Runge-Kutta stage position; it contains the valid region 0.5 < x < ext - 1.5 of living particles.
    The theorems quantify over ARBITRARY rationals in that box, hence also over whatever floating-point
    value the stage computation produced.  The level index K is an input with 1 <= K <= N - 1 (that range
    is property C12; it needs N >= 2).  The theorems hold for every extent for which the box is
    non-empty (imax, jmax >= 2; a non-empty valid region needs >= 3).
    What a theorem cannot show is the effect of an out-of-range read in compiled code; the tie runs the
    kernels' Python bodies on index-recording arrays and whole simulations under NUMBA_BOUNDSCHECK=1. *)
From Coq Require Import ZArith QArith List Bool.
From Ladim Require Import Base.Num Model.Interp Proofs.InterpProofs.
Import ListNotations.
Open Scope Q_scope.

(** T1: shapes as Grid/Forcing produce them — u: (N, jmax, imax+1), v: (N, jmax+1, imax) — any position of
    the clip box, both methods: every triple read through sample3DUV is inside its array. *)
Theorem C17_T1_kernel_reads_in_bounds : forall U V imax jmax x y k a m,
  a_j U = jmax -> a_i U = (imax + 1)%Z -> a_j V = (jmax + 1)%Z -> a_i V = imax -> a_n V = a_n U ->
  (1 <= k <= a_n U - 1)%Z -> in_clip_range imax x -> in_clip_range jmax y ->
  forallb (in_shape (a_n U) jmax (imax + 1)) (snd (fst (sample3DUV U V x y k a m))) = true /\
  forallb (in_shape (a_n U) (jmax + 1) imax) (snd (snd (sample3DUV U V x y k a m))) = true.
Proof. exact sample3DUV_reads_in_bounds. Qed.
Print Assumptions C17_T1_kernel_reads_in_bounds.

(** T1, scalar fields (N, jmax, imax), nearest sampler (level 0 <= k <= N-1). *)
Theorem C17_T1_nearest_reads_in_bounds : forall F imax jmax x y k,
  (0 <= k <= a_n F - 1)%Z -> in_clip_range imax x -> in_clip_range jmax y ->
  forallb (in_shape (a_n F) jmax imax) (snd (nearest F x y k)) = true.
Proof. exact nearest_reads_in_bounds. Qed.
Print Assumptions C17_T1_nearest_reads_in_bounds.

(** T2: the positions the model can produce are in the box: every clipped stage position (for whatever
    unclipped value, when the subgrid has at least two columns/rows) and every valid-region position. *)
Theorem C17_T2_clipped_stage_in_range : forall g X Y,
  ((2 <= g_imax g)%Z -> in_clip_range (g_imax g) (clip_x g X - inject_Z (g_i0 g))) /\
  ((2 <= g_jmax g)%Z -> in_clip_range (g_jmax g) (clip_y g Y - inject_Z (g_j0 g))).
Proof. intros g X Y. exact (conj (clip_x_local g X) (clip_y_local g Y)). Qed.
Print Assumptions C17_T2_clipped_stage_in_range.

Theorem C17_T2_valid_position_in_range : forall g X Y, in_valid g X Y = true ->
  in_clip_range (g_imax g) (X - inject_Z (g_i0 g)) /\ in_clip_range (g_jmax g) (Y - inject_Z (g_j0 g)).
Proof. exact valid_in_clip_range. Qed.
Print Assumptions C17_T2_valid_position_in_range.

(** T3: Forcing.velocity on the arrays of a grid (global position, offsets subtracted inside). *)
Theorem C17_T3_velocity_reads_in_bounds : forall gr U V X Y K A m,
  let g := gr_sub gr in
  a_j U = g_jmax g -> a_i U = (g_imax g + 1)%Z -> a_j V = (g_jmax g + 1)%Z -> a_i V = g_imax g -> a_n V = a_n U ->
  (1 <= K <= a_n U - 1)%Z ->
  in_clip_range (g_imax g) (X - inject_Z (g_i0 g)) -> in_clip_range (g_jmax g) (Y - inject_Z (g_j0 g)) ->
  forallb (in_shape (a_n U) (a_j U) (a_i U)) (snd (fst (velocity gr U V X Y K A m))) = true /\
  forallb (in_shape (a_n V) (a_j V) (a_i V)) (snd (snd (velocity gr U V X Y K A m))) = true.
Proof. exact velocity_reads_in_bounds. Qed.
Print Assumptions C17_T3_velocity_reads_in_bounds.

(** ... and _read_velocity / _read_field do produce those shapes, for every sub-rectangle. *)
Theorem C17_T3_shapes_as_read : forall mask fu fv ff pu pv pf g,
  (let U := fst (read_velocity (grid_of mask g) fu fv pu pv) in
   let V := snd (read_velocity (grid_of mask g) fu fv pu pv) in
   (a_n U = a_n fu /\ a_j U = g_jmax g /\ a_i U = g_imax g + 1 /\
    a_n V = a_n fv /\ a_j V = g_jmax g + 1 /\ a_i V = g_imax g)%Z) /\
  (let F := read_field (grid_of mask g) ff pf in (a_n F = a_n ff /\ a_j F = g_jmax g /\ a_i F = g_imax g)%Z).
Proof.
  intros mask fu fv ff pu pv pf g.
  exact (conj (read_velocity_shapes mask fu fv pu pv g) (read_field_shape mask ff pf g)).
Qed.
Print Assumptions C17_T3_shapes_as_read.

(** T3, scalar forcing of a valid-region particle: the single read (K, round(Y)-j0, round(X)-i0) is inside. *)
Theorem C17_T3_scalar_read_in_bounds : forall mask ff pf g X Y K A,
  in_valid g X Y = true -> (0 <= K < a_n ff)%Z ->
  snd (file_scalar mask ff pf g X Y K A) = [(K, fst (level_cell g X Y), snd (level_cell g X Y))] /\
  (0 <= fst (level_cell g X Y) < g_jmax g)%Z /\ (0 <= snd (level_cell g X Y) < g_imax g)%Z.
Proof. intros mask ff pf g X Y K A Hv HK. exact (proj2 (file_scalar_own_cell mask ff pf g X Y K A Hv HK)). Qed.
Print Assumptions C17_T3_scalar_read_in_bounds.

(** T4: consequently the model's lookup never answers "out of bounds" ([None]) on a well-formed array. *)
Theorem C17_T4_in_bounds_reads_succeed : forall F x y k a,
  wf3 F -> forallb (in_shape (a_n F) (a_j F) (a_i F)) (tri_idx x y k) = true ->
  exists r, fst (trilinear F x y k a) = Some r.
Proof. exact trilinear_total. Qed.
Print Assumptions C17_T4_in_bounds_reads_succeed.

(** * Non-vacuity and the edges of the hypotheses *)
Open Scope Z_scope.
(* the extremes of the box, 5 columns x 4 rows, N = 3, K = 2: all sixteen reads inside *)
Example ex_extremes :
  forallb (in_shape 3 4 6) (tri_idx ((1#100) + (1#2)) (299#100) 2) = true /\
  forallb (in_shape 3 4 6) (tri_idx ((399#100) + (1#2)) (1#100) 2) = true /\
  forallb (in_shape 3 5 5) (tri_idx (399#100) ((299#100) + (1#2)) 1) = true.
Proof. vm_compute. repeat split. Qed.
(* an unclipped stage position just beyond xmax (local x = imax - 1 + 0.3) leaves the v-array *)
Example ex_unclipped_leaves_v :
  forallb (in_shape 3 5 5) (tri_idx (43#10) (2#1) 1) = false.
Proof. vm_compute. reflexivity. Qed.
(* clipping brings any stage position back: X = 1000 on sub-rectangle (2, 8, 1, 6) *)
Example ex_clip :
  let g := {| g_i0 := 2; g_i1 := 8; g_j0 := 1; g_j1 := 6 |} in
  Qeq_bool (clip_x g 1000) (699#100) && Qeq_bool (clip_x g (-5)) (201#100) && Qeq_bool (clip_x g (7#2)) (7#2) = true.
Proof. vm_compute. reflexivity. Qed.
(* edge of the hypothesis on K: a one-level file (N = 1) gives K = 1, whose read is outside *)
Example ex_one_level_outside : in_shape 1 4 5 (1, 2, 2) = false.
Proof. vm_compute. reflexivity. Qed.
(* edge of the hypothesis 2 <= imax: on a legal one-column sub-rectangle the clip box is empty, the clipped
   position is local 0.01 and the v-kernel's column i+1 = 1 is outside the one-column array *)
Example ex_one_column_subgrid :
  let g := {| g_i0 := 3; g_i1 := 4; g_j0 := 1; g_j1 := 6 |} in
  legal 9 8 g = true /\
  forallb (in_shape 3 6 1) (tri_idx (clip_x g (7#2) - inject_Z (g_i0 g))%Q ((2#1) + (1#2))%Q 1) = false.
Proof. vm_compute. split; reflexivity. Qed.
