(** C11 — Random-walk diffusion has the configured variance and no bias.
    Property theorems only; each closed by [exact] of a lemma from Proofs/DiffusionProofs.v.

    WHAT IS PROVED (about the model coq/Model/Diffusion.v of ladim/tracker.py):
      T1  the displacement per unit draw is c with c^2 = 2*D*dt/dx^2 (grid units), 2*Dz*dt (depth):
          the algebra of  sqrt(2*D/dt) * dt/dx  over the reals, and, without square roots, that the
          model's displacement is  advective + c*xi  — linear in its draw, no constant offset (no bias);
      T2  every (step, particle, direction) uses its own position of the draw stream;
      T3  with the draws an orthonormal family (constructed, not postulated: unit coefficient vectors
          over the draw indices, inner product = sum of products), the accumulated displacement of m
          steps has squared norm m*c^2 (so 2*D*t/dx^2) and displacements of different particles,
          directions or steps are orthogonal;
      T4  with D <= 0 and Dz <= 0 no draw is consumed and the step is the advective one.
    WHAT IS TRUSTED, NOT PROVED: that [numpy.random.Generator.normal] returns independent standard
      normal variates, i.e. that E[xi_i * xi_j] = (i = j ? 1 : 0) and E[xi_i] = 0.  Under that contract
      the inner product [ip] of two coefficient vectors IS the covariance of the random variables they
      stand for, and T3 reads "independent between particles, steps and directions, zero mean, variance
      2*D*dt per step and 2*D*t in total".  The harness checks it statistically (a test, not a proof).
      Float rounding is not modelled; the square root is handled as stated at each theorem.
    AXIOMS: the theorems over R (T1 real forms, C11_cloud_variance_partial) depend on the standard library's
      axioms of the real numbers (shown by Print Assumptions); all others are closed under the global
      context. *)
From Coq Require Import ZArith QArith List Bool Reals Qreals.
From Ladim Require Import Base.Num Model.Diffusion Proofs.DiffusionProofs.
Import ListNotations.
Open Scope Z_scope.

(** ** T1 — coefficients *)

(** T1 (horizontal, clause "variance 2*D*dt/dx^2 in grid units"): for all real D >= 0, dt, dx > 0 *)
Theorem C11_coefficient_identity : forall D dt dx : R, (0 <= D)%R -> (0 < dt)%R -> (0 < dx)%R ->
  ((sqrt (2 * D / dt) * dt / dx) ^ 2 = 2 * D * dt / dx ^ 2)%R.
Proof. exact coeff_sq_R. Qed.
Print Assumptions C11_coefficient_identity.

(** T1 (vertical, clause "2*Dz*dt in depth") *)
Theorem C11_coefficient_identity_vertical : forall Dz dt : R, (0 <= Dz)%R -> (0 < dt)%R ->
  ((sqrt (2 * Dz / dt) * dt) ^ 2 = 2 * Dz * dt)%R.
Proof. exact coeff_sq_z_R. Qed.
Print Assumptions C11_coefficient_identity_vertical.

(** T1 for the model's rational coefficients [cx2], [cz2]: the real coefficient is their square root *)
Theorem C11_horizontal_coefficient : forall D dt dx : Q, (0 <= D)%Q -> (0 < dt)%Q -> (0 < dx)%Q ->
  let c := (sqrt (2 * Q2R D / Q2R dt) * Q2R dt / Q2R dx)%R in
  (c ^ 2 = Q2R (cx2 D dt dx) /\ 0 <= c /\ c = sqrt (Q2R (cx2 D dt dx)))%R.
Proof. exact horizontal_coefficient_lemma. Qed.
Print Assumptions C11_horizontal_coefficient.
Theorem C11_vertical_coefficient : forall Dz dt : Q, (0 <= Dz)%Q -> (0 < dt)%Q ->
  let c := (sqrt (2 * Q2R Dz / Q2R dt) * Q2R dt)%R in
  (c ^ 2 = Q2R (cz2 Dz dt) /\ 0 <= c /\ c = sqrt (Q2R (cz2 Dz dt)))%R.
Proof. exact vertical_coefficient_lemma. Qed.
Print Assumptions C11_vertical_coefficient.

(** the square-root-free relation [disp_exact] (checked, with a tolerance, by the correspondence)
    says exactly  d = sqrt(c2) * x *)
Theorem C11_squared_form_determines_displacement : forall c2 x d : R, (0 <= c2)%R ->
  ((d * d = c2 * (x * x) /\ 0 <= d * x) <-> d = sqrt c2 * x)%R.
Proof. exact sqrt_form_unique. Qed.
Print Assumptions C11_squared_form_determines_displacement.
(** ... and the displacement computed with the real standard deviation satisfies it *)
Theorem C11_real_displacement : forall (D dt dx : Q) (x : R), (0 <= D)%Q -> (0 < dt)%Q -> (0 < dx)%Q ->
  let d := (sqrt (2 * Q2R D / Q2R dt) * x * Q2R dt / Q2R dx)%R in
  (d * d = Q2R (cx2 D dt dx) * (x * x) /\ 0 <= d * x)%R.
Proof. exact real_displacement_relation. Qed.
Print Assumptions C11_real_displacement.

(** T1 in Q, no axioms: the executable model, given any number [sd >= 0] with sd^2 = 2*D/dt as its
    standard deviation, displaces a particle by  advective + c*xi_i  with c^2 = cx2 (resp. cz2) *)
Theorem C11_model_displacement : forall xi D Dz dt dx sd sdz i j u w vadv,
  (0 < dt)%Q -> (0 < dx)%Q -> (0 <= sd)%Q -> (sd * sd == sd2 D dt)%Q ->
  (0 <= sdz)%Q -> (sdz * sdz == sd2 Dz dt)%Q ->
  disp_exact (cx2 D dt dx) (xi i) (hdisp xi sd (Some i) u dt dx - u * dt / dx)%Q /\
  disp_exact (cz2 Dz dt) (xi j) (vdisp xi sdz (Some j) vadv w dt - (if vadv then w * dt else 0))%Q.
Proof. exact model_displacement_lemma. Qed.
Print Assumptions C11_model_displacement.
(** clause "no bias": the displacement is the advective one plus a multiple of the draw, for every sd *)
Theorem C11_displacement_linear_in_draw : forall xi sd oi u dt dx,
  (hdisp xi sd oi u dt dx == u * dt / dx + (sd * dt / dx) * match oi with Some i => xi i | None => 0 end)%Q.
Proof. exact hdisp_affine. Qed.
Print Assumptions C11_displacement_linear_in_draw.
Theorem C11_displacement_linear_in_draw_vertical : forall xi sdz oi vadv w dt,
  (vdisp xi sdz oi vadv w dt ==
   (if vadv then w * dt else 0) + (sdz * dt) * match oi with Some i => xi i | None => 0 end)%Q.
Proof. exact vdisp_affine. Qed.
Print Assumptions C11_displacement_linear_in_draw_vertical.
(** the tolerance check of the correspondence accepts every exact displacement (it is not stricter
    than the theorem) *)
Theorem C11_check_accepts_exact : forall tol m c2 x d, (0 <= tol)%Q -> (0 <= m)%Q ->
  disp_exact c2 x d -> disp_close tol m c2 x d = true.
Proof. exact disp_exact_close. Qed.
Print Assumptions C11_check_accepts_exact.

(** ** T2 — draw discipline (clause "independent between particles, steps and directions":
       no draw is shared).  [ns] = particles per step, any length, any non-negative numbers;
       [hon]/[von] the two switches; [k] the position of the generator before the first step. *)
Theorem C11_draws_are_disjoint : forall hon von ns k s d p s' d' p' i,
  nonneg_all ns = true ->
  draw_index hon von k ns s d p = Some i -> draw_index hon von k ns s' d' p' = Some i ->
  s = s' /\ d = d' /\ p = p'.
Proof. exact draws_disjoint. Qed.
Print Assumptions C11_draws_are_disjoint.
(** every draw used lies in the part of the stream consumed by the run *)
Theorem C11_draws_in_consumed_range : forall hon von ns k s d p i,
  nonneg_all ns = true -> draw_index hon von k ns s d p = Some i ->
  k <= i < cursor_after hon von k ns.
Proof. exact draw_index_range. Qed.
Print Assumptions C11_draws_in_consumed_range.
(** number of draws consumed: 2 per particle and step for horizontal, 1 for vertical diffusion *)
Theorem C11_draws_consumed : forall hon von ns k,
  cursor_after hon von k ns = k + ((if hon then 2 else 0) + (if von then 1 else 0)) * zsum ns.
Proof. exact cursor_after_total. Qed.
Print Assumptions C11_draws_consumed.
(** the layout: U uses [k', k'+n), V [k'+n, k'+2n), W the next n, k' = cursor at the start of step s *)
Theorem C11_draw_layout : forall hon von k n d p i,
  step_index hon von k n d p = Some i <->
  0 <= p < n /\
  match d with
  | DX => hon = true /\ i = k + p
  | DY => hon = true /\ i = k + n + p
  | DZ => von = true /\ i = k + (if hon then 2 * n else 0) + p
  end.
Proof. exact step_index_spec. Qed.
Print Assumptions C11_draw_layout.
Theorem C11_draw_index_is_step_index : forall hon von ns k s d p, (s < length ns)%nat ->
  draw_index hon von k ns s d p =
  step_index hon von (cursor_after hon von k (firstn s ns)) (nth s ns 0) d p.
Proof. exact draw_index_step. Qed.
Print Assumptions C11_draw_index_is_step_index.

(** ** T3 — variance adds (L2 content of "independent, zero mean, variance 2*D*t").
    FULL STATEMENT OF THE CLAUSE (not provable here, kept for reference):
      on a probability space carrying the draws xi_0, xi_1, ... as independent N(0,1) random variables,
      the diffusive displacements  dX(s,p,d) = c(s,p,d) * xi_{draw_index s d p}  are mutually
      independent, E[dX(s,p,d)] = 0, Var[dX(s,p,d)] = c(s,p,d)^2 = 2*D*dt/dx^2 (2*Dz*dt in depth), and
      Var[sum_{s<m} dX(s,p,d)] = 2*D*(m*dt)/dx^2.
    PROVED (the theorems below, suffix _partial on the two headline ones): the same with
      "E[xi_i*xi_j] = (i=j ? 1 : 0)" built into the inner product [ip] of coefficient vectors — i.e.
      second moments / uncorrelatedness for every family of draws that is orthonormal in L2 —
      together with T2 (different displacements read different draws; functions of disjoint sets of
      independent variables are independent) and the linearity theorems of T1 (no constant term, so
      zero mean).
    MISSING: the probability space itself and the fact that numpy's generator realises such a family
      (trusted; sampled statistically by the harness oracle). *)
(** the draws are an orthonormal family for [ip] *)
Theorem C11_draws_orthonormal : forall N i j, in_range N i = true -> in_range N j = true ->
  (ip N (draw i) (draw j) == if i =? j then 1 else 0)%Q.
Proof. exact draws_orthonormal. Qed.
Print Assumptions C11_draws_orthonormal.
(** squared norm of the accumulated displacement of particle p, direction d over the first m steps
    (the particle is present and the direction switched on in each of them), coefficient [cf s] in
    step s, any N bounding the consumed part of the stream *)
Theorem C11_variance_adds_partial : forall hon von k ns d p (cf : nat -> Q) m N,
  nonneg_all ns = true -> 0 <= k -> cursor_after hon von k ns <= Z.of_nat N ->
  (forall s, (s < m)%nat -> exists i, draw_index hon von k ns s d p = Some i) ->
  (ip N (walk_vec hon von k ns d p cf m) (walk_vec hon von k ns d p cf m) == qsum (fun s => cf s * cf s) m)%Q.
Proof. exact variance_adds_lemma. Qed.
Print Assumptions C11_variance_adds_partial.
(** constant coefficient: m * c^2 *)
Theorem C11_variance_adds_const : forall hon von k ns d p (c : Q) m N,
  nonneg_all ns = true -> 0 <= k -> cursor_after hon von k ns <= Z.of_nat N ->
  (forall s, (s < m)%nat -> exists i, draw_index hon von k ns s d p = Some i) ->
  (ip N (walk_vec hon von k ns d p (fun _ => c) m) (walk_vec hon von k ns d p (fun _ => c) m)
   == inject_Z (Z.of_nat m) * (c * c))%Q.
Proof. exact variance_adds_const. Qed.
Print Assumptions C11_variance_adds_const.
(** m steps of length dt spread like one step of length m*dt: variance 2*D*t *)
Theorem C11_variance_linear_in_time : forall D dt dx (m : Z), ~ (dx == 0)%Q ->
  (inject_Z m * cx2 D dt dx == cx2 D (inject_Z m * dt) dx)%Q /\
  (inject_Z m * cz2 D dt == cz2 D (inject_Z m * dt))%Q.
Proof. intros D dt dx m H; exact (conj (cx2_time_linear D dt dx m H) (cz2_time_linear D dt m)). Qed.
Print Assumptions C11_variance_linear_in_time.
(** displacements of different (step, direction, particle) are orthogonal *)
Theorem C11_displacements_orthogonal : forall hon von k ns s d p s' d' p' (c c' : Q) N,
  nonneg_all ns = true -> (s, d, p) <> (s', d', p') ->
  (ip N (disp_vec c (draw_index hon von k ns s d p)) (disp_vec c' (draw_index hon von k ns s' d' p')) == 0)%Q.
Proof. exact disps_orthogonal. Qed.
Print Assumptions C11_displacements_orthogonal.
(** accumulated displacements of different particles or directions are orthogonal (any two windows) *)
Theorem C11_walks_orthogonal : forall hon von k ns d p d' p' (cf cf' : nat -> Q) m m' N,
  nonneg_all ns = true -> (d, p) <> (d', p') ->
  (ip N (walk_vec hon von k ns d p cf m) (walk_vec hon von k ns d' p' cf' m') == 0)%Q.
Proof. exact walks_orthogonal. Qed.
Print Assumptions C11_walks_orthogonal.
(** the vectors are the model's displacements: on any concrete stream the walk vector evaluates to the
    sum of the diffusive displacements the model computes *)
Theorem C11_walk_is_model_displacement : forall xi N (idx : nat -> option Z) (cf : nat -> Q) m,
  (forall s, (s < m)%nat -> match idx s with Some i => in_range N i = true | None => True end) ->
  (realize xi N (vsum (fun s => disp_vec (cf s) (idx s)) m) == qsum (fun s => diffusive xi (cf s) (idx s)) m)%Q.
Proof. exact realize_walk. Qed.
Print Assumptions C11_walk_is_model_displacement.
(** T1 + T3 (real axioms): with W the plain sum of the draws particle p uses in direction d over m
    steps, the displacement c*W has squared norm c^2*|W|^2 = 2*D*(m*dt)/dx^2 *)
Theorem C11_cloud_variance_partial : forall hon von k ns d p m N (D dt dx : Q),
  (0 <= D)%Q -> (0 < dt)%Q -> (0 < dx)%Q ->
  nonneg_all ns = true -> 0 <= k -> cursor_after hon von k ns <= Z.of_nat N ->
  (forall s, (s < m)%nat -> exists i, draw_index hon von k ns s d p = Some i) ->
  let c := (sqrt (2 * Q2R D / Q2R dt) * Q2R dt / Q2R dx)%R in
  let W := walk_vec hon von k ns d p (fun _ => 1%Q) m in
  (c ^ 2 * Q2R (ip N W W) = 2 * Q2R D * (INR m * Q2R dt) / (Q2R dx) ^ 2)%R.
Proof. exact cloud_variance_lemma. Qed.
Print Assumptions C11_cloud_variance_partial.
(** the hypothesis "particle present, direction on" of T3 is met by every particle of every step *)
Theorem C11_every_particle_has_a_draw : forall hon von ns k s d p,
  (s < length ns)%nat -> 0 <= p < nth s ns 0 ->
  (match d with DZ => von | _ => hon end) = true ->
  exists i, draw_index hon von k ns s d p = Some i.
Proof. exact draw_index_some. Qed.
Print Assumptions C11_every_particle_has_a_draw.

(** ** T4 — clause "with the coefficients at zero the tracker is deterministic" *)
(** the switch is exactly D > 0: any positive coefficient, however small, is on *)
Theorem C11_switch_on_iff_positive : forall D, switch D = true <-> (0 < D)%Q.
Proof. exact switch_true. Qed.
Print Assumptions C11_switch_on_iff_positive.
(** D <= 0 and Dz <= 0 (in particular D == 0, Dz == 0): for every stream [xi] and whatever numbers
    [sd], [sdz] are, the displacement is the advective one, the step consumes no draw, the generator
    position never moves and no (step, direction, particle) reads a draw *)
Theorem C11_no_draws_when_off : forall xi D Dz dt sd sdz vadv k ns n p dx dy u v w,
  (D <= 0)%Q -> (Dz <= 0)%Q ->
  let r := update_disp xi D Dz dt sd sdz vadv k n p dx dy u v w in
  (dX r == u * dt / dx /\ dY r == v * dt / dy /\ dZ r == (if vadv then w * dt else 0))%Q /\
  step_draws (switch D) (switch Dz) n = 0 /\
  cursor_after (switch D) (switch Dz) k ns = k /\
  (forall s d q, draw_index (switch D) (switch Dz) k ns s d q = None).
Proof. exact no_draws_when_off_lemma. Qed.
Print Assumptions C11_no_draws_when_off.

(** ** non-vacuity: concrete instances satisfying the hypotheses *)
(** three steps with 3, 2, 4 particles, both switches on: step 0 uses draws 0..8, in step 1 particle 1
    reads draw 14 for Z; 27 draws in all *)
Example C11_ex_layout :
  nonneg_all [3; 2; 4] = true /\ draw_index true true 0 [3; 2; 4] 1 DZ 1 = Some 14 /\
  draw_index true true 0 [3; 2; 4] 2 DY 3 = Some 22 /\ cursor_after true true 0 [3; 2; 4] = 27 /\
  draw_index true true 0 [3; 2; 4] 1 DX 2 = None /\ draw_index false true 5 [3; 2; 4] 1 DZ 1 = Some 9.
Proof. vm_compute. repeat split. Qed.
(** T3 hypotheses: particle 1, direction X, three steps of three particles, c = 2: squared norm 3*4 *)
Example C11_ex_variance :
  let W := walk_vec true true 0 [3; 3; 3] DX 1 (fun _ => 2%Q) 3 in
  Qeq_bool (ip 27 W W) 12 = true /\
  Qeq_bool (ip 27 W (walk_vec true true 0 [3; 3; 3] DY 1 (fun _ => 2%Q) 3)) 0 = true /\
  cursor_after true true 0 [3; 3; 3] <= Z.of_nat 27.
Proof. vm_compute. repeat split; discriminate. Qed.
(** T1 in Q: D = 2, dt = 1, dx = 1/2: sd = 2 has sd^2 = 2*D/dt; cx2 = 16; vertical Dz = 8, sdz = 4 *)
Example C11_ex_model_displacement :
  (0 < 1)%Q /\ (0 < 1 # 2)%Q /\ (2 * 2 == sd2 2 1)%Q /\ (4 * 4 == sd2 8 1)%Q /\
  (cx2 2 1 (1 # 2) == 16)%Q /\
  (hdisp (fun i => inject_Z i - 3) 2 (Some 1%Z) (1 # 4) 1 (1 # 2) == (1 # 2) + 4 * (-2))%Q.
Proof. vm_compute. repeat split; discriminate. Qed.
(** T4: zero (and only non-positive) coefficients are off; 1e-12 is on *)
Example C11_ex_switch : switch 0 = false /\ switch (1 # 1000000000000) = true /\ (0 <= 0)%Q.
Proof. vm_compute. repeat split. discriminate. Qed.
