(** Props/C02.v — "Particles feel the interpolated C-grid forcing at their own position".
    Only the property theorems (each proved by a lemma of Proofs/InterpProofs.v) and examples of
    non-vacuity.  Model: Model/Interp.v (exact rational arithmetic; float rounding is not modelled).
    The level search (K, A) is property C12: here K and A are inputs with 1 <= K <= N-1, 0 <= A <= 1,
    which is what C12 establishes (clause T5 "held constant above the top and below the bottom level"
    is C12's clamp identity composed with T2 below, whose right-hand side is A*level(K-1) + (1-A)*level(K)).
    Notation of the lemmas: [gU mask fu pu k J I] is the unpacked, land-masked u at the FILE's u-point
    (J, I) (the face between rho-cells (J, I) and (J, I+1), at global grid coordinates (I + 1/2, J));
    [gV ... k J I] the v-point between rho-cells (J, I) and (J+1, I) at (I, J + 1/2);
    [mt mask J I] the integer land mask of rho-cell (J, I). *)
From Coq Require Import ZArith QArith List Bool.
From Ladim Require Import Base.Num Model.VGrid Model.Interp Proofs.InterpProofs Proofs.VerticalComposeProofs.
Import ListNotations.
Open Scope Q_scope.

(** T1 (convex combination of the eight surrounding nodes).  A successful kernel call read exactly the
    eight nodes [tri_idx]; its result is sum_c w_c * F[node_c] with the explicit weights [tri_weights];
    the weights sum to 1; for 0 <= a <= 1 and a non-negative position they are >= 0 and the result lies
    between any bounds of the eight node values. *)
Theorem C02_T1_trilinear_weights : forall F x y k a r,
  fst (trilinear F x y k a) = Some r ->
  exists vs, map (get_idx F) (tri_idx x y k) = map Some vs /\
    r == qdot (tri_weights a (fracx x) (fracx y)) vs /\
    qsum (tri_weights a (fracx x) (fracx y)) == 1 /\
    (0 <= a <= 1 -> 0 <= x -> 0 <= y ->
       Forall (fun w => 0 <= w) (tri_weights a (fracx x) (fracx y)) /\
       forall lo hi, Forall (fun v => lo <= v <= hi) vs -> lo <= r <= hi).
Proof. exact trilinear_convex. Qed.
Print Assumptions C02_T1_trilinear_weights.

(** T1 on the whole path file -> particle: for every subgrid and every particle of its valid region the
    velocity exists and lies between the extremes of the eight surrounding masked u- (v-) values of the file. *)
Theorem C02_T1_velocity_between_nodes : forall mask fu fv pu pv g X Y K A lo hi,
  (1 <= a_n mask)%Z -> a_n fv = a_n fu -> in_valid g X Y = true -> (1 <= K <= a_n fu - 1)%Z ->
  0 <= A <= 1 ->
  (forall k J I, (K - 1 <= k <= K)%Z -> (qfloor Y <= J <= qfloor Y + 1)%Z ->
     (qfloor (X + (1#2)) - 1 <= I <= qfloor (X + (1#2)))%Z -> lo <= gU mask fu pu k J I <= hi) ->
  (forall k J I, (K - 1 <= k <= K)%Z -> (qfloor (Y + (1#2)) - 1 <= J <= qfloor (Y + (1#2)))%Z ->
     (qfloor X <= I <= qfloor X + 1)%Z -> lo <= gV mask fv pu pv k J I <= hi) ->
  exists u v,
    fst (fst (file_velocity mask fu fv pu pv g X Y K A)) = Some u /\
    fst (snd (file_velocity mask fu fv pu pv g X Y K A)) = Some v /\
    lo <= u <= hi /\ lo <= v <= hi.
Proof. exact file_velocity_convex. Qed.
Print Assumptions C02_T1_velocity_between_nodes.

(** T2 (exactness), kernel: if F equals al_k + be*i + ga*j at the eight nodes around (x, y) the result is
    a*(al_{k-1} + be*x + ga*y) + (1-a)*(al_k + be*x + ga*y). *)
Theorem C02_T2_trilinear_exact_on_linear : forall F x y k a al0 al1 be ga,
  let i := qtrunc x in let j := qtrunc y in
  (forall dj di, (dj = 0 \/ dj = 1)%Z -> (di = 0 \/ di = 1)%Z ->
     reads_as F (k - 1) (j + dj) (i + di) (al0 + be * inject_Z (i + di) + ga * inject_Z (j + dj)) /\
     reads_as F k (j + dj) (i + di) (al1 + be * inject_Z (i + di) + ga * inject_Z (j + dj))) ->
  exists r, fst (trilinear F x y k a) = Some r /\
            r == a * (al0 + be * x + ga * y) + (1 - a) * (al1 + be * x + ga * y).
Proof. exact trilinear_exact_on_linear. Qed.
Print Assumptions C02_T2_trilinear_exact_on_linear.

(** T5 (vertical clause: "linear in depth between the two s-levels that bracket the particle in its own
    grid cell, held constant above the top and below the bottom level", exact "in depth over a flat bottom"):
    the level search of C12 composed with the kernel — for ANY particle depth Zp (above the surface, inside,
    below the bottom level) a field equal to c0 + c1*z_level + be*i + ga*j at the nodes is sampled as
    c0 + c1*clamp(-Zp, z_bottom_level, z_top_level) + be*x + ga*y *)
Theorem C02_T5_vertical_clamped_linear : forall (F : arr3) (zr : list Q) (Zp x y c0 c1 be ga : Q),
  increasing zr = true -> (2 <= Z.of_nat (length zr))%Z ->
  let KA := z2s_kernel zr Zp in
  let i := qtrunc x in let j := qtrunc y in
  (forall dj di, (dj = 0 \/ dj = 1)%Z -> (di = 0 \/ di = 1)%Z ->
     reads_as F (fst KA - 1) (j + dj) (i + di)
              (c0 + c1 * nthQ zr (fst KA - 1) + be * inject_Z (i + di) + ga * inject_Z (j + dj)) /\
     reads_as F (fst KA) (j + dj) (i + di)
              (c0 + c1 * nthQ zr (fst KA) + be * inject_Z (i + di) + ga * inject_Z (j + dj))) ->
  exists r, fst (trilinear F x y (fst KA) (snd KA)) = Some r /\
            r == c0 + c1 * clamped_depth zr Zp + be * x + ga * y.
Proof. exact vertical_clamped_linear. Qed.
Print Assumptions C02_T5_vertical_clamped_linear.

(** T2, staggered, subgrid-local coordinates: the u-node with local index (j, i) sits at (i - 1/2, j), the
    v-node at (i, j - 1/2); fields linear at their own points are reproduced by [sample3DUV] at (x, y). *)
Theorem C02_T2_sample_uv_exact_on_linear : forall U V x y k a au0 au1 bu gu av0 av1 bv gv,
  let iu := qtrunc (x + (1#2)) in let ju := qtrunc y in
  let iv := qtrunc x in let jv := qtrunc (y + (1#2)) in
  (forall dj di, (dj = 0 \/ dj = 1)%Z -> (di = 0 \/ di = 1)%Z ->
     reads_as U (k - 1) (ju + dj) (iu + di) (au0 + bu * (inject_Z (iu + di) - (1#2)) + gu * inject_Z (ju + dj)) /\
     reads_as U k (ju + dj) (iu + di) (au1 + bu * (inject_Z (iu + di) - (1#2)) + gu * inject_Z (ju + dj))) ->
  (forall dj di, (dj = 0 \/ dj = 1)%Z -> (di = 0 \/ di = 1)%Z ->
     reads_as V (k - 1) (jv + dj) (iv + di) (av0 + bv * inject_Z (iv + di) + gv * (inject_Z (jv + dj) - (1#2))) /\
     reads_as V k (jv + dj) (iv + di) (av1 + bv * inject_Z (iv + di) + gv * (inject_Z (jv + dj) - (1#2)))) ->
  exists ru rv,
    fst (fst (sample3DUV U V x y k a Bilinear)) = Some ru /\
    fst (snd (sample3DUV U V x y k a Bilinear)) = Some rv /\
    ru == a * (au0 + bu * x + gu * y) + (1 - a) * (au1 + bu * x + gu * y) /\
    rv == a * (av0 + bv * x + gv * y) + (1 - a) * (av1 + bv * x + gv * y).
Proof. exact sample3DUV_exact_on_linear. Qed.
Print Assumptions C02_T2_sample_uv_exact_on_linear.

(** T2, the whole path, EVERY legal subgrid: the file's u (after unpacking) equals alu_k + bu*X + gu*Y at
    its own points (I + 1/2, J) in GLOBAL grid coordinates, v equals alv_k + bv*X + gv*Y at (I, J + 1/2),
    the domain is sea; then a particle at global (X, Y) in the valid region of the loaded sub-rectangle
    feels A*(al_{K-1} + b*X + g*Y) + (1-A)*(al_K + b*X + g*Y).  This fixes the 1/2-stagger, the Iu/Jv
    slices and the X - i0 / Y - j0 offsets for all 1 <= i0 < i1 <= imax0-1, 1 <= j0 < j1 <= jmax0-1. *)
Theorem C02_T2_file_velocity_exact_on_linear :
  forall mask fu fv pu pv imax0 jmax0 g X Y K A (alu alv : Z -> Q) bu gu bv gv,
  (1 <= a_n mask)%Z -> a_n fv = a_n fu ->
  legal imax0 jmax0 g = true -> in_valid g X Y = true -> (1 <= K <= a_n fu - 1)%Z ->
  (forall J I, (0 <= J < jmax0)%Z -> (0 <= I < imax0)%Z -> mt mask J I == 1) ->
  (forall k J I, (0 <= k < a_n fu)%Z -> (0 <= J < jmax0)%Z -> (0 <= I < imax0 - 1)%Z ->
     sc_u pu (getd fu k J I) == alu k + bu * (inject_Z I + (1#2)) + gu * inject_Z J) ->
  (forall k J I, (0 <= k < a_n fu)%Z -> (0 <= J < jmax0 - 1)%Z -> (0 <= I < imax0)%Z ->
     sc_v pu pv (getd fv k J I) == alv k + bv * inject_Z I + gv * (inject_Z J + (1#2))) ->
  exists ru rv,
    fst (fst (file_velocity mask fu fv pu pv g X Y K A)) = Some ru /\
    fst (snd (file_velocity mask fu fv pu pv g X Y K A)) = Some rv /\
    ru == A * (alu (K - 1)%Z + bu * X + gu * Y) + (1 - A) * (alu K + bu * X + gu * Y) /\
    rv == A * (alv (K - 1)%Z + bv * X + gv * Y) + (1 - A) * (alv K + bv * X + gv * Y).
Proof. exact file_velocity_exact_on_linear. Qed.
Print Assumptions C02_T2_file_velocity_exact_on_linear.

(** T3 (independent of the loaded sub-rectangle), index shift: an interior u-face (1 <= i <= imax-1) of
    the sliced+unpacked+masked array equals the file's face with global indices, its mask being the
    product of the two adjacent rho-cells whatever the slicing; same for v and for scalar fields. *)
Theorem C02_T3_index_shift : forall mask fu fv ff pu pv pf g k j i,
  (1 <= a_n mask)%Z ->
  ((0 <= k < a_n fu)%Z -> (0 <= j < g_jmax g)%Z -> (1 <= i <= g_imax g - 1)%Z ->
     get3 (fst (read_velocity (grid_of mask g) fu fv pu pv)) k j i
     = Some (gU mask fu pu k (j + g_j0 g) (i + g_i0 g - 1))) /\
  ((0 <= k < a_n fv)%Z -> (1 <= j <= g_jmax g - 1)%Z -> (0 <= i < g_imax g)%Z ->
     get3 (snd (read_velocity (grid_of mask g) fu fv pu pv)) k j i
     = Some (gV mask fv pu pv k (j + g_j0 g - 1) (i + g_i0 g))) /\
  ((0 <= k < a_n ff)%Z -> (0 <= j < g_jmax g)%Z -> (0 <= i < g_imax g)%Z ->
     get3 (read_field (grid_of mask g) ff pf) k j i = Some (sc_f pf (getd ff k (j + g_j0 g) (i + g_i0 g)))).
Proof.
  intros mask fu fv ff pu pv pf g k j i Hn.
  exact (conj (read_u_interior mask fu fv pu pv g k j i Hn)
        (conj (read_v_interior mask fu fv pu pv g k j i Hn) (read_field_local mask ff pf g k j i))).
Qed.
Print Assumptions C02_T3_index_shift.

(** T3, boundary faces DO depend on the slicing (they carry the mask of the single loaded neighbour) —
    which is why the statement is about the valid region, from where they are never read. *)
Theorem C02_T3_boundary_faces_differ : forall mask g j,
  (1 <= a_n mask)%Z -> (0 <= j < g_jmax g)%Z -> (1 <= g_imax g)%Z ->
  getd (mask_Mu (mask_M mask g)) 0 j 0 = mt mask (j + g_j0 g) (g_i0 g) /\
  getd (mask_Mu (mask_M mask g)) 0 j (g_imax g) = mt mask (j + g_j0 g) (g_i1 g - 1).
Proof. exact Mu_boundary. Qed.
Print Assumptions C02_T3_boundary_faces_differ.

(** T3, velocity: two sub-rectangles whose valid regions contain the particle give the same u and v. *)
Theorem C02_T3_subgrid_independent_velocity : forall mask fu fv pu pv g1 g2 X Y K A,
  (1 <= a_n mask)%Z -> a_n fv = a_n fu ->
  in_valid g1 X Y = true -> in_valid g2 X Y = true -> (1 <= K <= a_n fu - 1)%Z ->
  exists u1 v1 u2 v2,
    fst (fst (file_velocity mask fu fv pu pv g1 X Y K A)) = Some u1 /\
    fst (snd (file_velocity mask fu fv pu pv g1 X Y K A)) = Some v1 /\
    fst (fst (file_velocity mask fu fv pu pv g2 X Y K A)) = Some u2 /\
    fst (snd (file_velocity mask fu fv pu pv g2 X Y K A)) = Some v2 /\
    u1 == u2 /\ v1 == v2.
Proof. exact subgrid_independent_velocity. Qed.
Print Assumptions C02_T3_subgrid_independent_velocity.

(** T3, scalar forcing and the water column used for the level search: same under both sub-rectangles
    (cell edges included: the cell is round(X) - i0, rounded before the shift). *)
Theorem C02_T3_subgrid_independent_scalar : forall mask ff pf g1 g2 X Y K A,
  in_valid g1 X Y = true -> in_valid g2 X Y = true -> (0 <= K < a_n ff)%Z ->
  fst (file_scalar mask ff pf g1 X Y K A) = fst (file_scalar mask ff pf g2 X Y K A) /\
  fst (file_scalar mask ff pf g1 X Y K A) <> None.
Proof. exact subgrid_independent_scalar. Qed.
Print Assumptions C02_T3_subgrid_independent_scalar.

Theorem C02_T3_level_cell_global : forall g X Y,
  (fst (level_cell g X Y) + g_j0 g = qround Y /\ snd (level_cell g X Y) + g_i0 g = qround X)%Z.
Proof. exact level_cell_global. Qed.
Print Assumptions C02_T3_level_cell_global.

(** T4 (zero velocity through land faces): a face one of whose two rho-cells is land has value 0 on
    every level (so it contributes w_c * 0 to T1's sum); all four faces of a land cell are closed; a
    particle whose two u-faces border a land column on both rows feels u = 0. *)
Theorem C02_T4_land_face_zero : forall mask fu fv pu pv k J I,
  (mt mask J I == 0 \/ mt mask J (I + 1) == 0 -> gU mask fu pu k J I == 0) /\
  (mt mask J I == 0 \/ mt mask (J + 1) I == 0 -> gV mask fv pu pv k J I == 0) /\
  (mt mask J I == 0 ->
     gU mask fu pu k J (I - 1) == 0 /\ gU mask fu pu k J I == 0 /\
     gV mask fv pu pv k (J - 1) I == 0 /\ gV mask fv pu pv k J I == 0).
Proof.
  intros mask fu fv pu pv k J I.
  exact (conj (land_face_u mask fu pu k J I)
        (conj (land_face_v mask fv pu pv k J I) (land_cell_faces mask fu fv pu pv k J I))).
Qed.
Print Assumptions C02_T4_land_face_zero.

Theorem C02_T4_u_zero_between_land : forall mask fu fv pu pv g X Y K A,
  (1 <= a_n mask)%Z -> in_valid g X Y = true -> (1 <= K <= a_n fu - 1)%Z ->
  mt mask (qfloor Y) (qfloor (X + (1#2))) == 0 -> mt mask (qfloor Y + 1) (qfloor (X + (1#2))) == 0 ->
  exists r, fst (fst (file_velocity mask fu fv pu pv g X Y K A)) = Some r /\ r == 0.
Proof. exact u_zero_between_land. Qed.
Print Assumptions C02_T4_u_zero_between_land.

(** T6 (scalar forcing is the value of the particle's own cell at level K): kernel and whole path. *)
Theorem C02_T6_nearest_is_cell_value : forall F x y k,
  nearest F x y k = (get3 F k (qround y) (qround x), [(k, qround y, qround x)]).
Proof. exact nearest_value. Qed.
Print Assumptions C02_T6_nearest_is_cell_value.

Theorem C02_T6_scalar_is_own_cell : forall mask ff pf g X Y K A,
  in_valid g X Y = true -> (0 <= K < a_n ff)%Z ->
  fst (file_scalar mask ff pf g X Y K A) = Some (sc_f pf (getd ff K (qround Y) (qround X))) /\
  snd (file_scalar mask ff pf g X Y K A) = [(K, fst (level_cell g X Y), snd (level_cell g X Y))] /\
  (0 <= fst (level_cell g X Y) < g_jmax g)%Z /\ (0 <= snd (level_cell g X Y) < g_imax g)%Z.
Proof. exact file_scalar_own_cell. Qed.
Print Assumptions C02_T6_scalar_is_own_cell.

(** T7 (packed storage): the value is scale_factor * stored, then mask; the velocity felt from a packed
    file is scale_factor times the one from the same stored numbers taken at face value. *)
Theorem C02_T7_packed_scaling : forall mask fu fv pu pv g X Y K A,
  (1 <= a_n mask)%Z -> a_n fv = a_n fu -> in_valid g X Y = true -> (1 <= K <= a_n fu - 1)%Z ->
  scaled pu = true ->
  exists u v u0 v0,
    fst (fst (file_velocity mask fu fv pu pv g X Y K A)) = Some u /\
    fst (snd (file_velocity mask fu fv pu pv g X Y K A)) = Some v /\
    fst (fst (file_velocity mask fu fv unpacked unpacked g X Y K A)) = Some u0 /\
    fst (snd (file_velocity mask fu fv unpacked unpacked g X Y K A)) = Some v0 /\
    u == scale_factor pu * u0 /\ v == scale_factor pv * v0.
Proof. exact packed_scaling. Qed.
Print Assumptions C02_T7_packed_scaling.

Theorem C02_T7_packed_face_value : forall mask fu pu k J I,
  gU mask fu pu k J I ==
  (if scaled pu then scale_factor pu * getd fu k J I else getd fu k J I) * (mt mask J I * mt mask J (I + 1)).
Proof. exact packed_face_value. Qed.
Print Assumptions C02_T7_packed_face_value.

(** * Non-vacuity: a 9 x 8 x 3 file, u = 10 k + 2 X + 3 Y stored packed with scale 1/4, v = k - X + 5 Y,
    an island at rho-cell (J, I) = (2, 6), sub-rectangles (2, 8, 1, 6) and (1, 7, 2, 7). *)
Open Scope Z_scope.
Definition ex_mask : arr3 := mk3 1 8 9 (fun _ J I => if (J =? 2) && (I =? 6) then 0%Q else 1%Q).
Definition ex_sea : arr3 := mk3 1 8 9 (fun _ _ _ => 1%Q).
(* stored integers: 4 * (10 k + 2 (I + 1/2) + 3 J) *)
Definition ex_fu : arr3 := mk3 3 8 8 (fun k J I => inject_Z (4 * (10 * k + 2 * I + 1 + 3 * J))).
(* 2 * (k - I + 5 (J + 1/2)) *)
Definition ex_fv : arr3 := mk3 3 7 9 (fun k J I => inject_Z (2 * k - 2 * I + 10 * J + 5)).
Definition ex_ff : arr3 := mk3 3 8 9 (fun k J I => inject_Z (100 * k + 10 * J + I)).
Definition ex_pu : packing := {| scaled := true; scale_factor := 1#4; add_offset := 0 |}.
Definition ex_pv : packing := {| scaled := true; scale_factor := 1#2; add_offset := 0 |}.
Definition ex_g1 : subgrid := {| g_i0 := 2; g_i1 := 8; g_j0 := 1; g_j1 := 6 |}.
Definition ex_g2 : subgrid := {| g_i0 := 1; g_i1 := 7; g_j0 := 2; g_j1 := 7 |}.
Definition ovalue (r : option Q * list idx) (v : Q) : bool :=
  match fst r with Some w => Qeq_bool w v | None => false end.

(* hypotheses of T2/T3 are satisfiable: both sub-rectangles legal, particle (15/4, 7/2) valid in both *)
Example ex_hyps :
  legal 9 8 ex_g1 = true /\ legal 9 8 ex_g2 = true /\
  in_valid ex_g1 (15#4) (7#2) = true /\ in_valid ex_g2 (15#4) (7#2) = true.
Proof. vm_compute. repeat split. Qed.
(* linear field over open sea reproduced: u = A*(10*0 + 2X + 3Y) + (1-A)*(10 + 2X + 3Y) with A = 1/4, K = 1 *)
Example ex_linear_exact :
  let r := file_velocity ex_sea ex_fu ex_fv ex_pu ex_pv ex_g1 (15#4) (7#2) 1 (1#4) in
  ovalue (fst r) ((1#4) * (2 * (15#4) + 3 * (7#2)) + (3#4) * (10 + 2 * (15#4) + 3 * (7#2)))%Q = true /\
  ovalue (snd r) ((1#4) * (0 - (15#4) + 5 * (7#2)) + (3#4) * (1 - (15#4) + 5 * (7#2)))%Q = true.
Proof. vm_compute. split; reflexivity. Qed.
(* with the island: same value under both sub-rectangles, different from the open-sea value *)
Example ex_subgrid_independent :
  let r1 := file_velocity ex_mask ex_fu ex_fv ex_pu ex_pv ex_g1 (21#4) (11#4) 2 (1#3) in
  let r2 := file_velocity ex_mask ex_fu ex_fv ex_pu ex_pv ex_g2 (21#4) (11#4) 2 (1#3) in
  let r0 := file_velocity ex_sea ex_fu ex_fv ex_pu ex_pv ex_g1 (21#4) (11#4) 2 (1#3) in
  in_valid ex_g1 (21#4) (11#4) = true /\ in_valid ex_g2 (21#4) (11#4) = true /\
  match fst (fst r1), fst (fst r2), fst (fst r0) with
  | Some a, Some b, Some c => Qeq_bool a b && negb (Qeq_bool a c)
  | _, _, _ => false
  end = true.
Proof. vm_compute. repeat split. Qed.
(* scalar = own cell, also exactly on a cell edge (X = 9/2 rounds to 4 under both offsets) *)
Example ex_scalar_own_cell :
  ovalue (file_scalar ex_mask ex_ff unpacked ex_g1 (9#2) (16#5) 1 (1#2)) 134 = true /\
  ovalue (file_scalar ex_mask ex_ff unpacked ex_g2 (9#2) (16#5) 1 (1#2)) 134 = true.
Proof. vm_compute. split; reflexivity. Qed.
(* regression example for the repaired defect: the OLD formula around(X - i0) picked cell 5 under the odd
   offset i0 = 1 and cell 4 under the even offset i0 = 2 *)
Example ex_scalar_old_defect :
  ovalue (file_scalar_old ex_mask ex_ff unpacked ex_g1 (9#2) (16#5) 1 (1#2)) 134 = true /\
  ovalue (file_scalar_old ex_mask ex_ff unpacked ex_g2 (9#2) (16#5) 1 (1#2)) 135 = true.
Proof. vm_compute. split; reflexivity. Qed.

(** * T7 — the FLOATING-POINT kernel.  Model/TrilinearFloat.v is an executable model of ROMS.trilinear over Coq's
    primitive binary64 floats with exactly the kernel's operation order (one rounding per operation, no fused
    multiply-add — established bit for bit against the compiled kernel by Corr/C02F.v on every run).  Proved with
    Flocq through Prim2B: the model IS the IEEE-754 computation; its result differs from the exact convex combination
    of the eight node values by at most delta M = 11 * 2^-53 * M + 7 * 2^-1075 (M = largest node magnitude, no
    overflow: M <= 2^1000; underflow included), hence lies in [min - delta, max + delta]: the convex-combination
    clause holds for the arithmetic the code really performs, up to delta; the fractional parts p = X - int(X) the
    kernel forms are EXACT (Sterbenz) and in [0, 1); the bit-pattern decoder of the correspondence agrees with Flocq's
    b64_of_bits; and a case accepted by the checker satisfies all of this (check_case_sound).  Depends on Coq's
    primitive floats / integers and their standard-library specification (FloatAxioms, Uint63) in addition to the
    real-number axioms. *)
From Coq Require Import ZArith Reals.
From Coq Require Floats.
From Flocq Require Import Core BinarySingleNaN.
From Flocq Require IEEE754.PrimFloat IEEE754.Binary IEEE754.Bits.
From Ladim Require Import Model.TrilinearFloat Proofs.TrilinearFloatProofs Proofs.C02FSound.
Import Flocq.IEEE754.PrimFloat.
Section T7.
Local Open Scope R_scope.
Theorem C02_trilinear_f_is_IEEE :
  forall a p q d00 u00 d01 u01 d10 u10 d11 u11 : pfloat,
  Prim2B (trilinear_f a p q d00 u00 d01 u01 d10 u10 d11 u11) =
  trilinear_B (Prim2B a) (Prim2B p) (Prim2B q) (Prim2B d00) (Prim2B u00) (Prim2B d01) 
    (Prim2B u01) (Prim2B d10) (Prim2B u10) (Prim2B d11) (Prim2B u11).
Proof. exact trilinear_f_is_IEEE. Qed.
Print Assumptions C02_trilinear_f_is_IEEE.

Theorem C02_trilinear_f_error :
  forall (a p q d00 u00 d01 u01 d10 u10 d11 u11 : pfloat) (M : R),
  fin a ->
  fin p ->
  fin q ->
  fin d00 ->
  fin u00 ->
  fin d01 ->
  fin u01 ->
  fin d10 ->
  fin u10 ->
  fin d11 ->
  fin u11 ->
  0 <= FR a <= 1 ->
  0 <= FR p <= 1 ->
  0 <= FR q <= 1 ->
  Rabs (FR d00) <= M ->
  Rabs (FR u00) <= M ->
  Rabs (FR d01) <= M ->
  Rabs (FR u01) <= M ->
  Rabs (FR d10) <= M ->
  Rabs (FR u10) <= M ->
  Rabs (FR d11) <= M ->
  Rabs (FR u11) <= M ->
  M <= bpow radix2 1000 ->
  fin (trilinear_f a p q d00 u00 d01 u01 d10 u10 d11 u11) /\
  Rabs
    (FR (trilinear_f a p q d00 u00 d01 u01 d10 u10 d11 u11) -
     trilinear_R (FR a) (FR p) (FR q) (FR d00) (FR u00) (FR d01) (FR u01) (FR d10) (FR u10) (FR d11) (FR u11)) <=
  delta M.
Proof. exact trilinear_f_error. Qed.
Print Assumptions C02_trilinear_f_error.

Theorem C02_trilinear_f_within_min_max :
  forall a p q d00 u00 d01 u01 d10 u10 d11 u11 : pfloat,
  fin a ->
  fin p ->
  fin q ->
  fin d00 ->
  fin u00 ->
  fin d01 ->
  fin u01 ->
  fin d10 ->
  fin u10 ->
  fin d11 ->
  fin u11 ->
  0 <= FR a <= 1 ->
  0 <= FR p <= 1 ->
  0 <= FR q <= 1 ->
  let M := maxabs8 (FR d00) (FR u00) (FR d01) (FR u01) (FR d10) (FR u10) (FR d11) (FR u11) in
  M <= bpow radix2 1000 ->
  fin (trilinear_f a p q d00 u00 d01 u01 d10 u10 d11 u11) /\
  min8 (FR d00) (FR u00) (FR d01) (FR u01) (FR d10) (FR u10) (FR d11) (FR u11) - delta M <=
  FR (trilinear_f a p q d00 u00 d01 u01 d10 u10 d11 u11) <=
  max8 (FR d00) (FR u00) (FR d01) (FR u01) (FR d10) (FR u10) (FR d11) (FR u11) + delta M.
Proof. exact trilinear_f_within_min_max. Qed.
Print Assumptions C02_trilinear_f_within_min_max.

Theorem C02_frac_f_exact :
  forall (x : pfloat) (i : Z),
  fin x ->
  0 <= FR x < bpow radix2 52 ->
  IZR i <= FR x < IZR i + 1 -> fin (frac_f x i) /\ FR (frac_f x i) = FR x - IZR i /\ 0 <= FR (frac_f x i) < 1.
Proof. exact frac_f_exact. Qed.
Print Assumptions C02_frac_f_exact.

Theorem C02_float_of_bits_correct :
  forall z : Z, (0 <= z < 2 ^ 64)%Z -> Prim2B (float_of_bits z) = Flocq.IEEE754.Binary.B2BSN 53 1024 (Bits.b64_of_bits z).
Proof. exact float_of_bits_correct. Qed.
Print Assumptions C02_float_of_bits_correct.

Theorem C02_kernel_f_error_checked :
  forall (X : pfloat) (i : Z) (Y : pfloat) (j : Z) (a d00 u00 d01 u01 d10 u10 d11 u11 m : pfloat),
  kernel_ok X i Y j a d00 u00 d01 u01 d10 u10 d11 u11 m = true ->
  let r := kernel_f X i Y j a d00 u00 d01 u01 d10 u10 d11 u11 in
  fin r /\
  Rabs
    (FR r -
     trilinear_R (FR a) (FR X - IZR i) (FR Y - IZR j) (FR d00) (FR u00) (FR d01) (FR u01) 
       (FR d10) (FR u10) (FR d11) (FR u11)) <= delta (FR m) /\
  min8 (FR d00) (FR u00) (FR d01) (FR u01) (FR d10) (FR u10) (FR d11) (FR u11) - delta (FR m) <= 
  FR r <= max8 (FR d00) (FR u00) (FR d01) (FR u01) (FR d10) (FR u10) (FR d11) (FR u11) + delta (FR m).
Proof. exact kernel_f_error_checked. Qed.
Print Assumptions C02_kernel_f_error_checked.

Theorem C02_check_case_sound :
  forall xb i yb j ab d00 u00 d01 u01 d10 u10 d11 u11 mb rb : Z,
  C02F.check_case
    (xb :: i :: yb :: j :: ab :: d00 :: u00 :: d01 :: u01 :: d10 :: u10 :: d11 :: u11 :: mb :: rb :: nil) =
  true ->
  let X := float_of_bits xb in
  let Y := float_of_bits yb in
  let A := float_of_bits ab in
  let D00 := float_of_bits d00 in
  let U00 := float_of_bits u00 in
  let D01 := float_of_bits d01 in
  let U01 := float_of_bits u01 in
  let D10 := float_of_bits d10 in
  let U10 := float_of_bits u10 in
  let D11 := float_of_bits d11 in
  let U11 := float_of_bits u11 in
  let M := float_of_bits mb in
  let observed := float_of_bits rb in
  observed = kernel_f X i Y j A D00 U00 D01 U01 D10 U10 D11 U11 /\
  fin observed /\
  Rabs
    (FR observed -
     trilinear_R (FR A) (FR X - IZR i) (FR Y - IZR j) (FR D00) (FR U00) (FR D01) (FR U01) 
       (FR D10) (FR U10) (FR D11) (FR U11)) <= delta (FR M) /\
  min8 (FR D00) (FR U00) (FR D01) (FR U01) (FR D10) (FR U10) (FR D11) (FR U11) - delta (FR M) <=
  FR observed <= max8 (FR D00) (FR U00) (FR D01) (FR U01) (FR D10) (FR U10) (FR D11) (FR U11) + delta (FR M).
Proof. exact check_case_sound. Qed.
Print Assumptions C02_check_case_sound.

End T7.
