(** C15 — Depth stays within the water column. *)
From Coq Require Import ZArith QArith List Bool.
From Ladim Require Import Base.Num Model.Tracker Proofs.TrackerProofs.
Open Scope Q_scope.

(** T1: for all h > 0 (the depth of the cell occupied when the step began), 0 <= Z <= h and ANY
    vertical displacement d (diffusive + advective) with |d| < h, surface-then-bottom reflection
    yields 0 <= Z' <= h *)
Theorem C15_reflect_in_column : forall h z d, 0 < h -> 0 <= z <= h -> - h < d < h -> 0 <= reflect h z d <= h.
Proof. exact reflect_in_column. Qed.
Print Assumptions C15_reflect_in_column.
Theorem C15_vertical_in_column : forall h dt z wd wa, 0 < h -> 0 <= z <= h ->
  - h < (match wd with Some w => w * dt | None => 0 end) + (match wa with Some w => w * dt | None => 0 end) < h ->
  0 <= vertical h dt z wd wa <= h.
Proof. exact vertical_in_column. Qed.
Print Assumptions C15_vertical_in_column.

(** T2: with vertical diffusion and vertical advection both off the depth is unchanged *)
Theorem C15_vertical_off_is_identity : forall h dt z, vertical h dt z None None = z.
Proof. exact vertical_off_identity. Qed.
Print Assumptions C15_vertical_off_is_identity.

(** T3: the displacement is W_diff*dt + w*dt; mirrored at the surface resp. at the bottom *)
Theorem C15_displacement : forall h z d, 0 <= z + d <= h -> reflect h z d == z + d.
Proof. exact vertical_displacement. Qed.
Print Assumptions C15_displacement.
Theorem C15_surface_reflection : forall h z d, - h <= z + d < 0 -> reflect h z d == - (z + d).
Proof. exact reflect_surface. Qed.
Print Assumptions C15_surface_reflection.
Theorem C15_bottom_reflection : forall h z d, h < z + d -> 0 <= z + d -> reflect h z d == 2 * h - (z + d).
Proof. exact reflect_bottom. Qed.
Print Assumptions C15_bottom_reflection.

Example C15_ex : reflect 10 1 (-3) == 2 /\ reflect 10 9 4 == 7 /\ reflect 10 5 2 == 7 /\
                 vertical 10 60 9 (Some (1#20)) (Some (1#60)) == 7.
Proof. vm_compute. repeat split. Qed.

(** TF — the property in BINARY64, exactly.  Model/VerticalFloat.v models the vertical displacement and the two
    reflections over Coq's primitive floats in the code's order (z += w*dt; z[z<0] *= -1; z[z>h] = 2h - z), tied to the real
    Tracker.update bit for bit by Corr/VertF.v.  Because rounding to nearest is monotone the invariant needs NO delta:
    for a finite bottom depth 0 < h <= 2^1000, a start depth in [0, h] and a displacement with |w*dt| <= h the resulting
    float lies in [0, h] EXACTLY (the surface reflection and 2*h are exact, the single rounding in 2h - z cannot cross h
    or 0); with both processes off the depth keeps its value; the float result is within 4 u64 h + eta of the exact
    reflection.  With TWO displacements (diffusion, then advection) the bound on each must leave room for the rounding of
    the first sum: vstep2_counterexample exhibits |d1| + |d2| = h exactly with a result of -2^-51 < 0 in binary64 (the
    real code returns the same), which is why the property's hypothesis is the STRICT |d| < h and why the two-step theorem
    is stated for |di| <= h/4. *)
From Coq Require Import ZArith Reals List.
From Coq Require Floats.
From Flocq Require Import Core BinarySingleNaN.
From Flocq Require IEEE754.PrimFloat IEEE754.Binary IEEE754.Bits.
From Ladim Require Import Model.TrilinearFloat Proofs.TrilinearFloatProofs Model.VerticalFloat Proofs.VerticalFloatProofs Proofs.VertFSound.
Import Flocq.IEEE754.PrimFloat.
Section TF.
Local Open Scope R_scope.
Theorem C15_reflect_f_bounds :
  forall z1 h : pfloat,
  fin h ->
  0 < FR h <= bpow radix2 1000 ->
  fin z1 -> - FR h <= FR z1 <= 2 * FR h -> fin (reflect_f z1 h) /\ 0 <= FR (reflect_f z1 h) <= FR h.
Proof. exact reflect_f_bounds. Qed.
Print Assumptions C15_reflect_f_bounds.

Theorem C15_vstep_f_in_column :
  forall z w dt h : pfloat,
  fin h ->
  0 < FR h <= bpow radix2 1000 ->
  fin z ->
  0 <= FR z <= FR h ->
  fin w ->
  fin dt -> Rabs (FR w * FR dt) <= FR h -> fin (vstep_f z w dt h) /\ 0 <= FR (vstep_f z w dt h) <= FR h.
Proof. exact vstep_f_in_column. Qed.
Print Assumptions C15_vstep_f_in_column.

Theorem C15_vstep2_f_in_column_quarter :
  forall z w1 w2 dt h : pfloat,
  fin h ->
  bpow radix2 (-1020) <= FR h <= bpow radix2 1000 ->
  fin z ->
  0 <= FR z <= FR h ->
  fin w1 ->
  fin w2 ->
  fin dt ->
  Rabs (FR w1 * FR dt) <= FR h / 4 ->
  Rabs (FR w2 * FR dt) <= FR h / 4 -> fin (vstep2_f z w1 w2 dt h) /\ 0 <= FR (vstep2_f z w1 w2 dt h) <= FR h.
Proof. exact vstep2_f_in_column_quarter. Qed.
Print Assumptions C15_vstep2_f_in_column_quarter.

Theorem C15_vstep_f_still_value :
  forall z w dt h : pfloat,
  fin h ->
  fin z ->
  0 <= FR z <= FR h ->
  fin (PrimFloat.mul w dt) ->
  FR (PrimFloat.mul w dt) = 0 -> fin (vstep_f z w dt h) /\ FR (vstep_f z w dt h) = FR z.
Proof. exact vstep_f_still_value. Qed.
Print Assumptions C15_vstep_f_still_value.

Theorem C15_vstep_f_error :
  forall z w dt h : pfloat,
  fin h ->
  0 < FR h <= bpow radix2 1000 ->
  fin z ->
  0 <= FR z <= FR h ->
  fin w ->
  fin dt ->
  Rabs (FR w * FR dt) <= FR h ->
  Rabs (FR (vstep_f z w dt h) - reflectR (FR z + FR w * FR dt) (FR h)) <= 4 * u64 * FR h + eta.
Proof. exact vstep_f_error. Qed.
Print Assumptions C15_vstep_f_error.

(** the refutation for two displacements whose sizes add up to EXACTLY h (so not the property's strict |d| < h): with
    h = z = 0x1.8000000000001p+0, d1 = 0x1.7fffffffffffep+0, d2 = 0x1.8p-51 and dt = 1 the binary64 sum d1 + d2 is h bit
    for bit, both roundings of z + d1 + d2 go up, and the computed depth is -2^-51 < 0; the hypotheses of the theorems
    above ([vstep2_ok]) are false for it.  (Stated as the type of the lemma: the statement contains hexadecimal float
    literals, which this file — that does not import Coq's float notations, to keep the printed axiom names
    qualified — cannot spell.) *)
Theorem C15_vstep2_counterexample : ltac:(let t := type of vstep2_counterexample in exact t).
Proof. exact vstep2_counterexample. Qed.
Print Assumptions C15_vstep2_counterexample.

Theorem C15_check_inv_sound :
  forall c : list Z, VertF.check_side c = true -> VertF.check_bits c = true -> VertF.check_inv c = true.
Proof. exact check_inv_sound. Qed.
Print Assumptions C15_check_inv_sound.

End TF.
