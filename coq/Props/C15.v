(** C15 — Depth stays within the water column. *)
From Coq Require Import ZArith QArith List Bool.
From Ladim Require Import Base.Num Model.Tracker Proofs.TrackerProofs.
Open Scope Q_scope.

(** T1: for all h > 0 (the depth of the cell occupied when the step began), 0 <= Z <= h and ANY
    vertical displacement d (diffusive + advective) with |d| < h, surface-then-bottom reflection
    yields 0 <= Z' <= h *)
Theorem C15_reflect_in_column : forall h z d, 0 < h -> 0 <= z <= h -> - h < d < h -> 0 <= reflect h z d <= h.
Proof. exact reflect_in_column. Qed.
Print Assumptions C15_reflect_in_column.
Theorem C15_vertical_in_column : forall h dt z wd wa, 0 < h -> 0 <= z <= h ->
  - h < (match wd with Some w => w * dt | None => 0 end) + (match wa with Some w => w * dt | None => 0 end) < h ->
  0 <= vertical h dt z wd wa <= h.
Proof. exact vertical_in_column. Qed.
Print Assumptions C15_vertical_in_column.

(** T2: with vertical diffusion and vertical advection both off the depth is unchanged *)
Theorem C15_vertical_off_is_identity : forall h dt z, vertical h dt z None None = z.
Proof. exact vertical_off_identity. Qed.
Print Assumptions C15_vertical_off_is_identity.

(** T3: the displacement is W_diff*dt + w*dt; mirrored at the surface resp. at the bottom *)
Theorem C15_displacement : forall h z d, 0 <= z + d <= h -> reflect h z d == z + d.
Proof. exact vertical_displacement. Qed.
Print Assumptions C15_displacement.
Theorem C15_surface_reflection : forall h z d, - h <= z + d < 0 -> reflect h z d == - (z + d).
Proof. exact reflect_surface. Qed.
Print Assumptions C15_surface_reflection.
Theorem C15_bottom_reflection : forall h z d, h < z + d -> 0 <= z + d -> reflect h z d == 2 * h - (z + d).
Proof. exact reflect_bottom. Qed.
Print Assumptions C15_bottom_reflection.

Example C15_ex : reflect 10 1 (-3) == 2 /\ reflect 10 9 4 == 7 /\ reflect 10 5 2 == 7 /\
                 vertical 10 60 9 (Some (1#20)) (Some (1#60)) == 7.
Proof. vm_compute. repeat split. Qed.
