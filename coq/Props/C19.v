(** C19 — Step protocol: release, forcing, output, move, IBM; once per step in that order.
    Property theorems only; each closed by [exact] of a lemma from Proofs/ProtocolProofs.v or
    Proofs/SimProofs.v.  The trace model is Model/Protocol.v (Model.__init__, Model.update, Model.finish,
    main's loop, load_module); the state model is Model/Sim.v. *)
From Coq Require Import ZArith String Ascii List Bool.
From Ladim Require Import Base.Num Model.Sim Model.Protocol Proofs.SimProofs Proofs.ProtocolProofs.
Import ListNotations.
Open Scope Z_scope.

(** * T1 step_trace — the call trace of a run, all run lengths N (also N <= 0), any output schedule [due],
    any set of modules with a close, cold ([warm = false]) and warm start.  [wz warm] = 1 for warm, else 0. *)

(** T1(b) "in every step new particles are released first, forcing is then evaluated, the record (if due)
    is written, then particles are moved and finally the IBM is called once": wherever the clock advances
    in the trace, what follows is exactly compactify, release, forcing, output, tracker, IBM — each once,
    in this order — and then either the next advance of the clock or the closes; the step number k of that
    advance is the number of earlier advances (+1 after a warm start, whose catch-up was step 0), it is
    below N, and the output writes iff a record is due at k. *)
Theorem C19_step_trace_sequence : forall warm N due has_close pre post,
  run_trace warm N due has_close = pre ++ TimerUpdate :: post ->
  let k := count is_timer pre + wz warm in
  wz warm <= k < N /\
  exists rest,
    post = [Compactify; ReleaseUpdate; ForceUpdate; OutputUpdate (due k); TrackerUpdate; IbmUpdate] ++ rest /\
    (rest = finish_trace has_close \/ exists rest', rest = TimerUpdate :: rest').
Proof. exact step_sequence. Qed.
Print Assumptions C19_step_trace_sequence.

(** T1(a) "once per step": release, forcing, tracker and IBM are each called N times in a cold run of
    N >= 0 steps and in a warm run of N >= 1 steps (catch-up + N-1 loop steps); in general
    wz + max 0 (N - wz) times *)
Theorem C19_step_trace_counts_moves : forall warm N due has_close,
  count is_release (run_trace warm N due has_close) = wz warm + Z.max 0 (N - wz warm) /\
  count is_force (run_trace warm N due has_close) = wz warm + Z.max 0 (N - wz warm) /\
  count is_tracker (run_trace warm N due has_close) = wz warm + Z.max 0 (N - wz warm) /\
  count is_ibm (run_trace warm N due has_close) = wz warm + Z.max 0 (N - wz warm).
Proof. exact count_moves. Qed.
Print Assumptions C19_step_trace_counts_moves.

(** ... while the clock, the compactification and the output module are called once per loop step only:
    N times cold, N-1 times warm; the state is restored from the restart file once iff warm *)
Theorem C19_step_trace_counts_clock : forall warm N due has_close,
  count is_timer (run_trace warm N due has_close) = Z.max 0 (N - wz warm) /\
  count is_compactify (run_trace warm N due has_close) = Z.max 0 (N - wz warm) /\
  count is_output (run_trace warm N due has_close) = Z.max 0 (N - wz warm) /\
  count is_warm (run_trace warm N due has_close) = wz warm.
Proof. exact count_clock. Qed.
Print Assumptions C19_step_trace_counts_clock.

(** T1(d) + warm start: the trace begins with the eight constructors in the order state, time, grid,
    forcing, release, tracker, ibm, output; a warm start then inserts restore, release, forcing, tracker,
    IBM — no output and no compactification — and nothing else happens before the first advance of the
    clock (or the closes when there is no step); no constructor and no restore later on *)
Theorem C19_step_trace_head : forall warm N due has_close,
  exists rest,
    run_trace warm N due has_close =
      map Construct [MState; MTime; MGrid; MForcing; MRelease; MTracker; MIbm; MOutput]
      ++ (if warm then [WarmStart; ReleaseUpdate; ForceUpdate; TrackerUpdate; IbmUpdate] else [])
      ++ rest /\
    none is_construct rest /\ none is_warm rest /\
    (rest = finish_trace has_close \/ exists rest', rest = TimerUpdate :: rest').
Proof. exact run_trace_head. Qed.
Print Assumptions C19_step_trace_head.

(** T1(d) as facts about positions: whatever precedes a constructor is a constructor; the output module is
    the eighth and last to be constructed (so a refusal by any other constructor leaves no output file);
    every module is constructed exactly once *)
Theorem C19_constructors_first : forall warm N due has_close pre m post,
  run_trace warm N due has_close = pre ++ Construct m :: post -> all is_construct pre.
Proof. exact constructors_first. Qed.
Print Assumptions C19_constructors_first.
Theorem C19_output_constructed_last : forall warm N due has_close pre post,
  run_trace warm N due has_close = pre ++ Construct MOutput :: post ->
  none is_construct post /\ length pre = 7%nat.
Proof. exact output_constructed_last. Qed.
Print Assumptions C19_output_constructed_last.
Theorem C19_constructed_once : forall m warm N due has_close,
  count (is_construct_of m) (run_trace warm N due has_close) = 1.
Proof. exact count_construct. Qed.
Print Assumptions C19_constructed_once.

(** T1(c) "at the end every module's close is called once": exactly once for each of grid, forcing, release,
    tracker, ibm, output that has a callable close, never for one that has none (nor for state and time);
    everything after a close is a close (so all updates precede all closes); the closes come in the order
    grid, forcing, release, tracker, ibm, output *)
Theorem C19_close_once : forall m warm N due has_close,
  count (is_close_of m) (run_trace warm N due has_close) = if has_close m && in_finish m then 1 else 0.
Proof. exact count_close. Qed.
Print Assumptions C19_close_once.
Theorem C19_closes_are_last : forall warm N due has_close pre m post,
  run_trace warm N due has_close = pre ++ Close m :: post -> all is_close post.
Proof. exact closes_are_last. Qed.
Print Assumptions C19_closes_are_last.
Theorem C19_closes_in_order : forall warm N due has_close,
  filter is_close (run_trace warm N due has_close) =
  map Close (filter has_close [MGrid; MForcing; MRelease; MTracker; MIbm; MOutput]).
Proof. exact closes_in_order. Qed.
Print Assumptions C19_closes_in_order.

(** Link between the two models: executing the calls of the trace one by one — clock, compactify, release
    (append the rows due), forcing (store forcing-derived variables, fill the per-particle cache), output
    (snapshot if due), tracker (one pass, cache entry i for particle i), IBM (a second pass) — gives the
    step of Model/Sim.v, and the whole trace of a cold run gives Sim.cold_run.  Hence T2-T4 below are
    consequences of the order of calls established by T1. *)
Theorem C19_update_is_sim_step : forall V C release_at forcef cachef trackf ibmf due (s : sim V C) n,
  crashed s = false -> 0 <= n + 1 ->
  fold_left (exec V C release_at forcef cachef trackf ibmf) (update_trace due n) (n, s) =
  (n + 1, sim_step V C release_at forcef cachef trackf ibmf due s (n + 1)).
Proof. exact update_is_sim_step. Qed.
Print Assumptions C19_update_is_sim_step.
Theorem C19_run_trace_is_cold_run : forall V C release_at forcef cachef trackf ibmf due N has_close, 0 <= N ->
  fold_left (exec V C release_at forcef cachef trackf ibmf) (run_trace false N due has_close)
            (step_after_construction, sim_init V C) =
  (N - 1, cold_run V C release_at forcef cachef trackf ibmf due N).
Proof. exact run_trace_is_cold_run. Qed.
Print Assumptions C19_run_trace_is_cold_run.

(** * T2 record_is_consistent — "a record at time t shows positions and forcing-derived variables that are
    both valid at t": when a record is due at step n it is appended as the snapshot of [after_release s n]
    = the living particles of the previous step followed by the particles released at n, each with the
    forcing-derived variables of step n ([forced n]) at its position of step n; the move of step n
    ([moved n]: tracker then IBM, with the particle's own cache entry) is applied to that same list only
    afterwards. *)
Theorem C19_record_is_consistent : forall V C release_at forcef cachef trackf ibmf due (s : sim V C) n,
  crashed s = false -> due n = true ->
  recs (sim_step V C release_at forcef cachef trackf ibmf due s n) =
    recs s ++ [snapshot V n (after_release V C release_at forcef s false n)] /\
  parts (sim_step V C release_at forcef cachef trackf ibmf due s n) =
    map (moved V C cachef trackf ibmf n) (after_release V C release_at forcef s false n).
Proof. exact record_is_consistent. Qed.
Print Assumptions C19_record_is_consistent.
(** what [after_release] is (definition unfolded, so that T2 can be read on its own) *)
Theorem C19_after_release_is : forall V C release_at forcef (s : sim V C) n,
  after_release V C release_at forcef s false n =
  map (forced V forcef n) (filter palive (parts s) ++ mk_new V (npid s) (release_at n)).
Proof. intros; reflexivity. Qed.
Print Assumptions C19_after_release_is.

(** * T3 ibm_sees_all_once — "an IBM sees every living particle once per step after it has moved": the state
    after step n consists of exactly one moved copy ([moved n p] = IBM applied to the tracker's result) of
    every particle p living at step n incl. the new ones, in the same order — none skipped, none twice. *)
Theorem C19_ibm_sees_all_once : forall V C release_at forcef cachef trackf ibmf due (s : sim V C) n,
  crashed s = false ->
  map tag (parts (sim_step V C release_at forcef cachef trackf ibmf due s n)) =
    map tag (after_release V C release_at forcef s false n) /\
  length (parts (sim_step V C release_at forcef cachef trackf ibmf due s n)) =
    length (after_release V C release_at forcef s false n).
Proof. exact ibm_sees_all_once. Qed.
Print Assumptions C19_ibm_sees_all_once.
(** and no run of the model ever hits the shape error of a misaligned forcing cache *)
Theorem C19_cold_run_not_crashed : forall V C release_at forcef cachef trackf ibmf due N,
  crashed (cold_run V C release_at forcef cachef trackf ibmf due N) = false.
Proof. exact cold_run_not_crashed. Qed.
Print Assumptions C19_cold_run_not_crashed.

(** * T4 kills_effective_next_record — "its kills take effect from the next record on": a particle living
    at step n on which the IBM of step n answers "dead" is gone after the step (first theorem); a particle
    living at step n and gone after it is in the record of step n if one is due, and in no record and
    among no living particles of any later step, for any continuation [l] of the run (second theorem). *)
Theorem C19_ibm_kill_gone : forall V C release_at forcef cachef trackf ibmf due (s : sim V C) n p,
  crashed s = false -> pids_ok V C s ->
  In p (after_release V C release_at forcef s false n) ->
  snd (ibmf n (ibm_input V C cachef trackf n p)) = false ->
  gone V C (ppid p) (sim_step V C release_at forcef cachef trackf ibmf due s n).
Proof. exact ibm_kill_gone. Qed.
Print Assumptions C19_ibm_kill_gone.
Theorem C19_kills_effective_next_record : forall V C release_at forcef cachef trackf ibmf due (s : sim V C) n l q,
  crashed s = false -> pids_ok V C s ->
  In q (map ppid (after_release V C release_at forcef s false n)) ->
  gone V C q (sim_step V C release_at forcef cachef trackf ibmf due s n) ->
  (due n = true -> exists r, recs (sim_step V C release_at forcef cachef trackf ibmf due s n) = recs s ++ [r] /\
                             rstep r = n /\ In q (rec_pids V r)) /\
  (exists X, recs (fold_left (sim_step V C release_at forcef cachef trackf ibmf due) l
                     (sim_step V C release_at forcef cachef trackf ibmf due s n)) =
             recs (sim_step V C release_at forcef cachef trackf ibmf due s n) ++ X /\
             Forall (fun r => ~ In q (rec_pids V r)) X) /\
  ~ In q (map ppid (filter palive (parts (fold_left (sim_step V C release_at forcef cachef trackf ibmf due) l
                                            (sim_step V C release_at forcef cachef trackf ibmf due s n))))).
Proof. exact kills_effective_next_record. Qed.
Print Assumptions C19_kills_effective_next_record.

(** * T5 path_module_wins — "user modules given by path are the ones that run": when <name>.py exists it is
    the file that is loaded, whatever is importable under that name, and whether the name was given with
    or without the .py suffix; without a file the importable module is used, else the run exits *)
Theorem C19_path_module_wins : forall file_exists importable name,
  file_exists (name ++ ".py")%string = true ->
  load_module file_exists importable (name ++ ".py") = LoadFile (name ++ ".py") /\
  (ends_py name = false -> load_module file_exists importable name = LoadFile (name ++ ".py")).
Proof. exact path_module_wins. Qed.
Print Assumptions C19_path_module_wins.
Theorem C19_suffix_irrelevant : forall file_exists importable name, ends_py name = false ->
  load_module file_exists importable name = load_module file_exists importable (name ++ ".py").
Proof. exact load_module_bare. Qed.
Print Assumptions C19_suffix_irrelevant.
Theorem C19_no_file_then_import : forall file_exists importable name,
  file_exists (name ++ ".py")%string = false ->
  load_module file_exists importable (name ++ ".py") = if importable name then Import name else Exit.
Proof. exact load_module_no_file. Qed.
Print Assumptions C19_no_file_then_import.

(** * non-vacuity: concrete instances *)
Example C19_ex_cold :
  run_trace false 2 (due_period 2) (fun m => match m with MForcing | MIbm | MOutput => true | _ => false end) =
  map Construct module_names ++
  [TimerUpdate; Compactify; ReleaseUpdate; ForceUpdate; OutputUpdate true; TrackerUpdate; IbmUpdate;
   TimerUpdate; Compactify; ReleaseUpdate; ForceUpdate; OutputUpdate false; TrackerUpdate; IbmUpdate;
   Close MForcing; Close MIbm; Close MOutput].
Proof. vm_compute. reflexivity. Qed.
Example C19_ex_warm :
  run_trace true 2 (due_period 1) (fun _ => true) =
  map Construct module_names ++
  [WarmStart; ReleaseUpdate; ForceUpdate; TrackerUpdate; IbmUpdate;
   TimerUpdate; Compactify; ReleaseUpdate; ForceUpdate; OutputUpdate true; TrackerUpdate; IbmUpdate] ++
  map Close finish_names.
Proof. vm_compute. reflexivity. Qed.
Example C19_ex_load :
  let fe := fun s => String.eqb s "plug/my_ibm.py" in
  load_module fe (fun _ => true) "plug/my_ibm" = LoadFile "plug/my_ibm.py" /\
  load_module fe (fun _ => true) "plug/my_ibm.py" = LoadFile "plug/my_ibm.py" /\
  load_module fe (fun s => String.eqb s "ladim.ibm") "ladim.ibm" = Import "ladim.ibm" /\
  load_module fe (fun _ => false) "nowhere" = Exit /\
  internal_name "plug/my_ibm.py" = "ladim_custom_my_ibm"%string.
Proof. vm_compute. repeat split. Qed.
(** a two-step run of the state model in which the IBM kills pid 0 at step 0: it is in the record of step 0
    and neither in the record of step 1 nor in the final state (V = position, forcing leaves it, the tracker
    adds 1, the IBM kills what reaches 1 at step 0) *)
Example C19_ex_kill :
  let rel := fun n => if n =? 0 then [(0, 0); (1, 5)] else [] in
  let s := cold_run Z unit rel (fun _ v => v) (fun _ _ => tt) (fun _ v _ => (v + 1, true))
                    (fun n v => (v, negb ((n =? 0) && (v =? 1)))) (fun _ => true) 2 in
  map (rec_pids Z) (recs s) = [[0; 1]; [1]] /\ map ppid (parts s) = [1] /\ crashed s = false.
Proof. vm_compute. repeat split. Qed.

(** * T5 warm starts — the trace-to-state link for WARM runs.  [exec] of Model/Protocol.v treats WarmStart as the
    identity and always releases the rows of the step; Proofs/ProtocolWarmProofs.v extends it to [exec_w]
    (WarmStart restores the particles and the pid counter of the restart record and sets the clock to step 0; the
    catch-up release of step 0 releases nothing, as release.py drops the rows at the start time on a warm start),
    proves that [exec_w] IS [exec] on every trace without WarmStart (so the cold link transfers), and that
    executing the warm trace call by call yields exactly Sim.warm_run — in the restart's own step numbering and,
    relabelled, in the numbering of the uninterrupted run; the records of the warm run are the snapshots at the
    due steps after the restart step; composed with C08's restart theorem: executing the trace of the restarted
    run continues the cold run record for record. *)
From Ladim Require Import Proofs.SimShiftProofs Proofs.ProtocolWarmProofs.
Theorem C19_warm_trace_is_warm_run :
  forall (V C : Type) (release_at : Z -> list (Z * V)) (forcef : Z -> V -> V) (cachef : Z -> V -> C)
    (trackf : Z -> V -> C -> V * bool) (ibmf : Z -> V -> V * bool) (due : Z -> bool) 
    (r : rec V) (np N : Z) (hc : modname -> bool) (w0 : bool) (n0 : Z) (s0 : sim V C),
  crashed s0 = false ->
  fold_left (exec_w V C release_at forcef cachef trackf ibmf r np) (run_trace true N due hc) (w0, (n0, s0)) =
  (true, (Z.max 0 (N - 1), warm_run V C release_at forcef cachef trackf ibmf due (rec0 V r) np N)).
Proof. exact run_trace_is_warm_run. Qed.
Print Assumptions C19_warm_trace_is_warm_run.

Theorem C19_cold_trace_under_exec_w :
  forall (V C : Type) (release_at : Z -> list (Z * V)) (forcef : Z -> V -> V) (cachef : Z -> V -> C)
    (trackf : Z -> V -> C -> V * bool) (ibmf : Z -> V -> V * bool) (due : Z -> bool) 
    (r : rec V) (np N : Z) (hc : modname -> bool),
  0 <= N ->
  fold_left (exec_w V C release_at forcef cachef trackf ibmf r np) (run_trace false N due hc)
    (false, (step_after_construction, sim_init V C)) =
  (false, (N - 1, cold_run V C release_at forcef cachef trackf ibmf due N)).
Proof. exact run_trace_is_cold_run_w. Qed.
Print Assumptions C19_cold_trace_under_exec_w.

Theorem C19_exec_w_is_exec_without_warmstart :
  forall (V C : Type) (release_at : Z -> list (Z * V)) (forcef : Z -> V -> V) (cachef : Z -> V -> C)
    (trackf : Z -> V -> C -> V * bool) (ibmf : Z -> V -> V * bool) (r : rec V) (np : Z) 
    (l : list call),
  none is_warm l ->
  forall st : Z * sim V C,
  fold_left (exec_w V C release_at forcef cachef trackf ibmf r np) l (false, st) =
  (false, fold_left (exec V C release_at forcef cachef trackf ibmf) l st).
Proof. exact fold_exec_w_cold. Qed.
Print Assumptions C19_exec_w_is_exec_without_warmstart.

Theorem C19_warm_trace_is_warm_run_abs :
  forall (V C : Type) (rel : Z -> list (Z * V)) (ff : Z -> V -> V) (cf : Z -> V -> C)
    (tf : Z -> V -> C -> V * bool) (bf : Z -> V -> V * bool) (du : Z -> bool) (rel' : Z -> list (Z * V))
    (ff' : Z -> V -> V) (cf' : Z -> V -> C) (tf' : Z -> V -> C -> V * bool) (bf' : Z -> V -> V * bool)
    (du' : Z -> bool) (r : rec V) (np N : Z),
  (forall n : Z, 0 < n < N -> rel' n = rel (n + rstep r)) ->
  (forall (n : Z) (v : V), 0 <= n -> ff' n v = ff (n + rstep r) v) ->
  (forall (n : Z) (v : V), 0 <= n -> cf' n v = cf (n + rstep r) v) ->
  (forall (n : Z) (v : V) (c : C), 0 <= n -> tf' n v c = tf (n + rstep r) v c) ->
  (forall (n : Z) (v : V), 0 <= n -> bf' n v = bf (n + rstep r) v) ->
  (forall n : Z, 0 <= n -> du' n = du (n + rstep r)) ->
  forall (hc : modname -> bool) (w0 : bool) (n0 : Z) (s0 : sim V C),
  crashed s0 = false ->
  let fin := fold_left (exec_w V C rel' ff' cf' tf' bf' r np) (run_trace true N du' hc) (w0, (n0, s0)) in
  fst fin = true /\
  fst (snd fin) = Z.max 0 (N - 1) /\
  relabel V C (rstep r) (snd (snd fin)) = warm_run V C rel ff cf tf bf du r np (N + rstep r).
Proof. exact run_trace_is_warm_run_abs. Qed.
Print Assumptions C19_warm_trace_is_warm_run_abs.

Theorem C19_warm_trace_records :
  forall (V C : Type) (release_at : Z -> list (Z * V)) (forcef : Z -> V -> V) (cachef : Z -> V -> C)
    (trackf : Z -> V -> C -> V * bool) (ibmf : Z -> V -> V * bool) (due : Z -> bool) 
    (r : rec V) (np N : Z) (hc : modname -> bool) (w0 : bool) (n0 : Z) (s0 : sim V C),
  crashed s0 = false ->
  let W :=
    snd
      (snd
         (fold_left (exec_w V C release_at forcef cachef trackf ibmf r np) (run_trace true N due hc)
            (w0, (n0, s0)))) in
  recs W = map (rec_at V C release_at forcef cachef trackf ibmf due np (rec0 V r)) (filter due (zrange 1 N)) /\
  map rstep (recs W) = filter due (zrange 1 N) /\ crashed W = false.
Proof. exact warm_trace_records. Qed.
Print Assumptions C19_warm_trace_records.

Theorem C19_warm_trace_continues_cold_run :
  forall (V C : Type) (rel : Z -> list (Z * V)) (ff : Z -> V -> V) (cf : Z -> V -> C)
    (tf : Z -> V -> C -> V * bool) (bf : Z -> V -> V * bool) (du : Z -> bool),
  (forall (n : Z) (v : V), ff n (ff n v) = ff n v) ->
  forall (N R : Z) (hc : modname -> bool),
  0 <= R < N ->
  du R = true ->
  let step := sim_step V C rel ff cf tf bf du in
  let before := fold_left step (zrange 0 R) (sim_init V C) in
  let rec_R := snapshot V R (after_release V C rel ff before false R) in
  let npR := npid before + Z.of_nat (Datatypes.length (rel R)) in
  let cold := cold_run V C rel ff cf tf bf du N in
  let fin :=
    fold_left
      (exec_w V C (shift_env R rel) (shift_env R ff) (shift_env R cf) (shift_env R tf) 
         (shift_env R bf) rec_R npR) (run_trace true (N - R) (shift_env R du) hc)
      (false, (step_after_construction, sim_init V C)) in
  let W := snd (snd fin) in
  fst fin = true /\
  fst (snd fin) = N - R - 1 /\
  recs cold = recs before ++ [rec_R] ++ map (relabel_rec V R) (recs W) /\
  parts cold = parts W /\ npid cold = npid W /\ crashed W = false.
Proof. exact warm_trace_continues_cold_run. Qed.
Print Assumptions C19_warm_trace_continues_cold_run.

(** non-vacuity: a warm run of 4 steps from a two-particle restart record (V = C = Z, rows at steps 0 (never
    released), 1 and 3, output due except at step 1): both sides compute to the same non-trivial state *)
Example C19_warm_trace_ex :
  Ex.fin = (true, (Z.max 0 (4 - 1), warm_run Z Z Ex.rel Ex.ff Ex.cf Ex.tf Ex.bf Ex.du Ex.r0 4 4)) /\
  map (fun r => (rstep r, length (rrows r))) (recs (snd (snd Ex.fin))) = [(2, 3%nat); (3, 4%nat)].
Proof. split; [exact Ex.ex_link_by_theorem | vm_compute; reflexivity]. Qed.
