(** C16 — longitude/latitude and grid coordinates are mutually consistent.
    Property theorems only; each closed by [exact] of a lemma from Proofs/GeoProofs.v.
    Model: Model/Geo.v (exact rationals; float rounding is not modelled; one particle per call). *)
From Coq Require Import ZArith QArith List Bool.
From Ladim Require Import Base.Num Model.Geo Proofs.GeoProofs.
Import ListNotations.
Open Scope Q_scope.

(** ** The 2-D sampling utility *)

(** T1 "exact on bilinear fields": if F[j,i] = a + b i + c j + d i j at every node, then at every
    inside position (0 <= x < imax-1, 0 <= y < jmax-1) the sample is a + b x + c y + d x y,
    whatever undef_value / outside_value are. *)
Theorem C16_sample2D_bilinear_exact : forall F a b c d undef outv x y,
  bilinear_arr F a b c d -> outside F x y = false ->
  exists v, sample2D F None undef outv x y = SVal v /\ v == a + b * x + c * y + d * x * y.
Proof. exact sample2D_bilinear_exact. Qed.
Print Assumptions C16_sample2D_bilinear_exact.

(** T2 "a convex combination of the corner values otherwise": without mask the sample at an inside
    position lies between the minimum and the maximum of the four nodes of the containing cell. *)
Theorem C16_sample2D_convex : forall F undef outv x y,
  wf_arr F = true -> outside F x y = false ->
  exists k v, corners F (qtrunc y) (qtrunc x) = Some k /\
              sample2D F None undef outv x y = SVal v /\ qmin4 k <= v <= qmax4 k.
Proof. exact sample2D_convex. Qed.
Print Assumptions C16_sample2D_convex.
(** consequence used for lon/lat: bounds of the field are bounds of every sample *)
Theorem C16_sample2D_between : forall F undef outv x y lo hi,
  wf_arr F = true -> outside F x y = false ->
  (forall r c v, aget F r c = Some v -> lo <= v <= hi) ->
  exists v, sample2D F None undef outv x y = SVal v /\ lo <= v <= hi.
Proof. exact sample2D_between. Qed.
Print Assumptions C16_sample2D_between.

(** T3 "ignores masked nodes".  (a) with a 0/1 mask the value is the weighted mean of the nodes with the
    masked weights (masked node: weight 0), renormalised by their sum [msw]; weight sum 0 => undef_value *)
Theorem C16_sample2D_mask_value : forall F M undef outv x y,
  wf_arr F = true -> wf_arr M = true -> same_shape M F = true -> mask_arr01 M -> outside F x y = false ->
  exists k m v, corners F (qtrunc y) (qtrunc x) = Some k /\ corners M (qtrunc y) (qtrunc x) = Some m /\
    mask01 m /\ sample2D F (Some M) undef outv x y = SVal v /\
    0 <= msw m (frac x) (frac y) /\
    (msw m (frac x) (frac y) == 0 -> v = undef) /\
    (0 < msw m (frac x) (frac y) -> v == mnum m k (frac x) (frac y) / msw m (frac x) (frac y)).
Proof. exact sample2D_mask_value. Qed.
Print Assumptions C16_sample2D_mask_value.
(** (b) all four nodes of the cell masked => undef_value *)
Theorem C16_sample2D_all_masked : forall F M undef outv x y m,
  wf_arr F = true -> same_shape M F = true -> outside F x y = false ->
  corners M (qtrunc y) (qtrunc x) = Some m ->
  n00 m == 0 -> n01 m == 0 -> n10 m == 0 -> n11 m == 0 ->
  sample2D F (Some M) undef outv x y = SVal undef.
Proof. exact sample2D_all_masked. Qed.
Print Assumptions C16_sample2D_all_masked.
(** (c) the values at masked nodes have no influence: fields agreeing on the unmasked nodes sample alike *)
Theorem C16_sample2D_ignores_masked : forall F F' M undef outv x y,
  wf_arr F = true -> wf_arr F' = true -> wf_arr M = true ->
  same_shape M F = true -> same_shape M F' = true -> agree_unmasked M F F' -> outside F x y = false ->
  sres_eq (sample2D F (Some M) undef outv x y) (sample2D F' (Some M) undef outv x y).
Proof. exact sample2D_ignores_masked. Qed.
Print Assumptions C16_sample2D_ignores_masked.
(** (d) the masked sample is a convex combination of the unmasked nodes (or undef_value) *)
Theorem C16_sample2D_mask_between : forall F M undef outv x y lo hi,
  wf_arr F = true -> wf_arr M = true -> same_shape M F = true -> mask_arr01 M -> outside F x y = false ->
  (forall r c mv v, aget M r c = Some mv -> aget F r c = Some v -> mv == 0 \/ lo <= v <= hi) ->
  lo <= undef <= hi ->
  exists v, sample2D F (Some M) undef outv x y = SVal v /\ lo <= v <= hi.
Proof. exact sample2D_mask_between. Qed.
Print Assumptions C16_sample2D_mask_between.
(** (e) a mask of ones is the same as no mask *)
Theorem C16_sample2D_mask_ones : forall F M undef outv x y,
  wf_arr F = true -> wf_arr M = true -> same_shape M F = true -> outside F x y = false ->
  (forall r c v, aget M r c = Some v -> v == 1) ->
  sres_eq (sample2D F (Some M) undef outv x y) (sample2D F None undef outv x y).
Proof. exact sample2D_mask_ones. Qed.
Print Assumptions C16_sample2D_mask_ones.

(** T4 "returns the requested substitute value outside the grid": for EVERY outside_value [ov]
    (0 included: there is no condition on [ov]), with or without mask; no substitute => ValueError;
    inside points are not affected by the substitute value. *)
Theorem C16_sample2D_outside_value : forall F mask undef ov x y,
  wf_arr F = true -> (2 <= nrow F)%Z -> (2 <= ncol F)%Z -> mask_ok F mask = true ->
  outside F x y = true -> sample2D F mask undef (Some ov) x y = SVal ov.
Proof. exact sample2D_outside_value. Qed.
Print Assumptions C16_sample2D_outside_value.
Theorem C16_sample2D_outside_raises : forall F mask undef x y,
  match mask with None => true | Some M => same_shape M F end = true ->
  outside F x y = true -> sample2D F mask undef None x y = SOutside.
Proof. exact sample2D_outside_raises. Qed.
Print Assumptions C16_sample2D_outside_raises.
Theorem C16_sample2D_inside_unaffected : forall F mask undef ov x y,
  outside F x y = false -> sample2D F mask undef (Some ov) x y = sample2D F mask undef None x y.
Proof. exact sample2D_inside_unaffected. Qed.
Print Assumptions C16_sample2D_inside_unaffected.

(** ** Inverse interpolation *)

(** every array read of the iteration is in bounds, for ANY iterate (x, y) — the cell index is clipped
    to [0, n-2] — so the conversion cannot fail with an IndexError nor read a wrapped-around node *)
Theorem C16_bilin_inv_reads_in_bounds : forall F G x y,
  wf_arr F = true -> wf_arr G = true -> same_shape G F = true -> (2 <= nrow F)%Z -> (2 <= ncol F)%Z ->
  let i := cell_index (nrow F) x in let j := cell_index (ncol F) y in
  in_range F i j = true /\ in_range F (i + 1) j = true /\ in_range F i (j + 1) = true /\
  in_range F (i + 1) (j + 1) = true /\
  (exists kf, corners F i j = Some kf) /\ (exists kg, corners G i j = Some kg).
Proof. exact bilin_step_reads_in_bounds. Qed.
Print Assumptions C16_bilin_inv_reads_in_bounds.
Theorem C16_bilin_inv_never_leaves : forall f g F G maxiter tol bx b_y,
  wf_arr F = true -> wf_arr G = true -> (2 <= nrow F)%Z -> (2 <= ncol F)%Z ->
  bilin_inv f g F G maxiter tol <> BLeft bx b_y.
Proof. exact bilin_inv_never_left. Qed.
Print Assumptions C16_bilin_inv_never_leaves.

(** T5 post-condition: if the iteration stops by its convergence test, the returned point satisfies
    (F(x,y)-f)^2 + (G(x,y)-g)^2 < tol, F(x,y), G(x,y) being the bilinear estimates at that point. *)
Theorem C16_bilin_inv_post : forall f g F G maxiter tol x y,
  bilin_inv f g F G maxiter tol = BDone x y true ->
  exists Fs Gs, bil_at F x y = Some Fs /\ bil_at G x y = Some Gs /\ resid2 Fs f Gs g < tol.
Proof. exact bilin_inv_post. Qed.
Print Assumptions C16_bilin_inv_post.
(** ... and inside the array that estimate is what sample2D (hence xy2ll) returns there, axes exchanged *)
Theorem C16_bil_at_is_sample2D : forall A undef outv x y v,
  bil_at A x y = Some v -> outside A y x = false ->
  exists v', sample2D A None undef outv y x = SVal v' /\ v' == v.
Proof. exact bil_at_sample2D. Qed.
Print Assumptions C16_bil_at_is_sample2D.

(** "a release given by longitude/latitude starts at the grid position whose interpolated
    longitude/latitude are the given ones" — FULL clause: for every conformal grid of realistic resolution
    and every lon/lat inside it, [release_position g lon lat = BDone X Y true] with (X, Y) inside.
    PROVED (partial): whenever the conversion returns through its convergence test a position inside the
    loaded grid, xy2ll of that position is within the solver tolerance (squared residual < 1e-7 deg^2) of
    the requested lon/lat.
    MISSING: that the 7-pass Newton iteration from the array centre always reaches the test on such grids
    (needs a quantitative bound on the bilinear cross-term of polar-stereographic / rotated cells); covered
    by the correspondence on generated grids instead. *)
Theorem C16_release_position_partial : forall g lon lat X Y,
  release_position g lon lat = BDone X Y true -> same_shape (glat g) (glon g) = true ->
  outside (glon g) (X - inject_Z (gi0 g)) (Y - inject_Z (gj0 g)) = false ->
  exists lo la, xy2ll g X Y = (SVal lo, SVal la) /\ resid2 lo lon la lat < default_tol.
Proof. exact ll2xy_post. Qed.
Print Assumptions C16_release_position_partial.

(** T6: on an affine non-degenerate coordinate pair one Newton pass from ANY iterate (inside the array
    or beyond its edges) either stops (test already met) or lands exactly on the pre-image (xs, ys) *)
Theorem C16_newton_affine_exact : forall F G a0 a1 a2 b0 b1 b2 f g tol x y xs ys,
  affine_arr F a0 a1 a2 -> affine_arr G b0 b1 b2 -> same_shape G F = true ->
  ~ a1 * b2 - a2 * b1 == 0 -> (2 <= nrow F)%Z -> (2 <= ncol F)%Z ->
  f == a0 + a1 * xs + a2 * ys -> g == b0 + b1 * xs + b2 * ys ->
  bilin_step f g F G tol x y = StStop \/
  exists x' y', bilin_step f g F G tol x y = StNext x' y' /\ x' == xs /\ y' == ys.
Proof. exact newton_affine_step. Qed.
Print Assumptions C16_newton_affine_exact.
(** hence the whole function returns the exact pre-image of any (f, g), or the centre when the test is
    already met there *)
Theorem C16_bilin_inv_affine_exact : forall F G a0 a1 a2 b0 b1 b2 f g tol maxiter xs ys,
  affine_arr F a0 a1 a2 -> affine_arr G b0 b1 b2 -> same_shape G F = true ->
  ~ a1 * b2 - a2 * b1 == 0 -> 0 < tol -> (2 <= nrow F)%Z -> (2 <= ncol F)%Z -> (2 <= maxiter)%Z ->
  f == a0 + a1 * xs + a2 * ys -> g == b0 + b1 * xs + b2 * ys ->
  exists x' y', bilin_inv f g F G maxiter tol = BDone x' y' true /\
                ((x' == xs /\ y' == ys) \/ (x' = fst (bilin_start F) /\ y' = snd (bilin_start F))).
Proof. exact bilin_inv_affine. Qed.
Print Assumptions C16_bilin_inv_affine_exact.

(** "converting a position inside the grid to longitude/latitude and back reproduces it to the solver
    tolerance" — FULL clause: for all conformal grids, all subgrids, all positions in the valid region.
    PROVED (partial): on grids whose lon/lat are affine in the grid indices (non-degenerate, at least 2x2
    nodes) the round trip ll2xy (xy2ll p) returns p EXACTLY, for every p inside and every offset i0, j0;
    the only exception is when p's lon/lat already meet the test at the initial guess, then the array
    centre is returned (within the solver tolerance by the previous theorem).
    MISSING: convergence on curved (non-affine) conformal grids, see above. *)
Theorem C16_roundtrip_affine_partial : forall g a0 a1 a2 b0 b1 b2 X Y,
  affine_arr (glon g) a0 a1 a2 -> affine_arr (glat g) b0 b1 b2 -> same_shape (glat g) (glon g) = true ->
  ~ a1 * b2 - a2 * b1 == 0 -> (2 <= nrow (glon g))%Z -> (2 <= ncol (glon g))%Z ->
  outside (glon g) (X - inject_Z (gi0 g)) (Y - inject_Z (gj0 g)) = false ->
  exists lo la X' Y',
    xy2ll g X Y = (SVal lo, SVal la) /\ ll2xy g lo la = BDone X' Y' true /\
    ((X' == X /\ Y' == Y) \/
     (X' = snd (bilin_start (glon g)) + inject_Z (gi0 g) /\ Y' = fst (bilin_start (glon g)) + inject_Z (gj0 g))).
Proof. exact ll2xy_xy2ll_affine. Qed.
Print Assumptions C16_roundtrip_affine_partial.

(** ** Composition *)

(** T7 "longitude/latitude written to the output are the bilinear interpolation of the grid's
    coordinates at the particle position of the same record": the output module writes
    [xy2ll (X, Y)] of the record's own X, Y (definition of [output_lonlat]), and for every subgrid
    [i0:i1, j0:j1] of the file's arrays this equals sampling the FULL lon_rho / lat_rho arrays at (X, Y):
    the offsets i0 (for X) and j0 (for Y) cancel. *)
Theorem C16_xy2ll_full_arrays : forall LON LAT i0 i1 j0 j1 X Y,
  wf_arr LON = true -> wf_arr LAT = true -> same_shape LAT LON = true ->
  (0 <= i0)%Z -> (i1 <= ncol LON)%Z -> (0 <= j0)%Z -> (j1 <= nrow LON)%Z ->
  inject_Z i0 <= X -> X < inject_Z (i1 - 1) -> inject_Z j0 <= Y -> Y < inject_Z (j1 - 1) ->
  sres_eq (fst (xy2ll (load_grid LON LAT i0 i1 j0 j1) X Y)) (sample2D LON None 0 None X Y) /\
  sres_eq (snd (xy2ll (load_grid LON LAT i0 i1 j0 j1) X Y)) (sample2D LAT None 0 None X Y).
Proof. exact xy2ll_full_arrays. Qed.
Print Assumptions C16_xy2ll_full_arrays.
Theorem C16_output_lonlat_same_record : forall g XY,
  output_lonlat g XY = map (fun p => xy2ll g (fst p) (snd p)) XY.
Proof. intros; exact eq_refl. Qed.
Print Assumptions C16_output_lonlat_same_record.

(** ** Non-vacuity: concrete instances satisfying the hypotheses *)
Definition exF : arr2 :=      (* F[j,i] = 1 + 2 i + 3 j + (1/2) i j on 4 rows x 5 columns *)
  atab 4 5 (fun r cc => 1 + 2 * inject_Z cc + 3 * inject_Z r + (1 # 2) * inject_Z cc * inject_Z r).
Example C16_ex_bilinear_hyp : bilinear_arr exF 1 2 3 (1 # 2) /\ wf_arr exF = true.
Proof. split; [apply atab_bilinear|reflexivity]. Qed.
Example C16_ex_T1 :   (* x = 5/2, y = 3/2: 1 + 5 + 9/2 + 15/8 = 99/8 *)
  outside exF (5 # 2) (3 # 2) = false /\
  match sample2D exF None 0 None (5 # 2) (3 # 2) with SVal v => Qeq_bool v (99 # 8) | _ => false end = true.
Proof. vm_compute. split; reflexivity. Qed.
Definition exM : arr2 := mkArr 4 5 [1;1;1;1;1; 1;1;0;0;1; 1;1;0;0;1; 1;1;1;1;1].
Example C16_ex_T3 :   (* cell (row 1, col 2) has all four nodes masked; cell (1,1) has two *)
  wf_arr exM = true /\ same_shape exM exF = true /\
  sample2D exF (Some exM) (-7) None (5 # 2) (3 # 2) = SVal (-7) /\
  match sample2D exF (Some exM) (-7) None (3 # 2) (3 # 2) with
  | SVal v => Qeq_bool v (33 # 4)   (* mean of the two unmasked nodes F[1,1] = 13/2 and F[2,1] = 10 *)
  | _ => false end = true.
Proof. vm_compute. repeat split. Qed.
Example C16_ex_T4 :   (* -1 < x < 0 is outside; the substitute 0 is returned; None raises *)
  outside exF (- (1 # 2)) 1 = true /\
  sample2D exF None 5 (Some 0) (- (1 # 2)) 1 = SVal 0 /\
  sample2D exF (Some exM) 5 (Some 0) 4 1 = SVal 0 /\
  sample2D exF None 5 None (- (1 # 2)) 1 = SOutside.
Proof. vm_compute. repeat split. Qed.

(** an affine grid: lon = 5 + (1/100) j + (3/100) i, lat = 60 + (1/50) j - (1/200) i, offsets i0=2, j0=5 *)
Definition exG : grid :=
  mkGrid 2 5 (atab 6 7 (fun r c => 5 + (1 # 100) * inject_Z r + (3 # 100) * inject_Z c))
             (atab 6 7 (fun r c => 60 + (1 # 50) * inject_Z r + - (1 # 200) * inject_Z c)).
Example C16_ex_T6_hyp :
  affine_arr (glon exG) 5 (1 # 100) (3 # 100) /\ affine_arr (glat exG) 60 (1 # 50) (- (1 # 200)) /\
  ~ (1 # 100) * - (1 # 200) - (3 # 100) * (1 # 50) == 0 /\
  outside (glon exG) ((33 # 8) - inject_Z (gi0 exG)) ((29 # 4) - inject_Z (gj0 exG)) = false.
Proof. repeat split; try apply atab_affine. intro H; discriminate H. Qed.
Example C16_ex_T6 :
  match xy2ll exG (33 # 8) (29 # 4) with
  | (SVal lo, SVal la) =>
      match ll2xy exG lo la with
      | BDone X Y true => Qeq_bool X (33 # 8) && Qeq_bool Y (29 # 4)
      | _ => false
      end
  | _ => false
  end = true.
Proof. vm_compute. reflexivity. Qed.
(** a curved grid (bilinear cross term) on which ll2xy returns through its test: hypothesis of T5 holds *)
Definition exC : grid :=
  mkGrid 1 1 (atab 6 7 (fun r c => 5 + (1 # 100) * inject_Z r + (3 # 100) * inject_Z c + (1 # 2000) * inject_Z r * inject_Z c))
             (atab 6 7 (fun r c => 60 + (1 # 50) * inject_Z r + - (1 # 200) * inject_Z c + (1 # 4000) * inject_Z r * inject_Z c)).
Example C16_ex_T5 :
  same_shape (glat exC) (glon exC) = true /\
  match ll2xy exC (5117 # 1000) (60041 # 1000) with
  | BDone X Y t => t && negb (outside (glon exC) (X - inject_Z (gi0 exC)) (Y - inject_Z (gj0 exC)))
  | _ => false end = true.
Proof. vm_compute. split; reflexivity. Qed.
(** an iterate far outside the array still reads the edge cell *)
Example C16_ex_clip : cell_index 6 (- (7 # 2)) = 0%Z /\ cell_index 6 (123 # 10) = 4%Z /\ cell_index 6 (5 # 2) = 2%Z.
Proof. vm_compute. repeat split. Qed.
(** a legal subgrid of a full 8 x 9 array: positions with i0 <= X < i1 - 1, j0 <= Y < j1 - 1 *)
Definition exLON : arr2 := atab 8 9 (fun r c => 5 + (3 # 100) * inject_Z c + (1 # 3000) * inject_Z r * inject_Z r).
Definition exLAT : arr2 := atab 8 9 (fun r c => 60 + (1 # 50) * inject_Z r + (1 # 7000) * inject_Z c * inject_Z c).
Example C16_ex_T7 :
  wf_arr exLON = true /\ wf_arr exLAT = true /\ same_shape exLAT exLON = true /\
  match xy2ll (load_grid exLON exLAT 2 8 1 6) (17 # 4) (10 # 3), sample2D exLON None 0 None (17 # 4) (10 # 3) with
  | (SVal a, SVal _), SVal b => Qeq_bool a b
  | _, _ => false
  end = true.
Proof. vm_compute. repeat split. Qed.

(** * Newton inside one cell: local QUADRATIC convergence on genuinely curved (bilinear, non-affine) cells
    (Proofs/NewtonCellProofs.v; over Q, closed under the global context).

    Inside a cell the two coordinate fields are exactly bilinear, [bval A x y = c0 + c1 x + c2 y + c3 x y].
    [bilin_step]'s update IS the Newton step of that cell map ([C16_step_is_newton_cell]); its error satisfies an
    exact identity whose only source is the cross term c3, hence the quadratic bound with an explicit constant
    ([C16_newton_quadratic]); and from any start within a ball around the root that lies in the cell and satisfies
    kappa * e0 <= 1 (kappa = Sb * max|c3| / dmin from uniform bounds on the cell) all iterates stay in the cell and
    the error after n steps is at most (kappa e0)^(2^n - 1) e0 ([C16_newton_cell_convergence]).
    Still open (stated, not proved): iterates that leave the cell (the code clips the index and continues with the
    neighbour's map), the start at the array centre, whether 7 iterations suffice on a given grid, float rounding. *)
From Ladim Require Import Proofs.NewtonCellProofs.
Theorem C16_step_is_newton_cell : forall (f g : Q) (F G : arr2) (tol x y x' y' : Q) (kf kg : quad),
  let i := cell_index (nrow F) x in
  let j := cell_index (ncol F) y in
  corners F i j = Some kf -> corners G i j = Some kg ->
  bilin_step f g F G tol x y = StNext x' y' ->
  ~ ndet (cell_of_quad kf) (cell_of_quad kg) (x - inject_Z i) (y - inject_Z j) == 0 /\
  x' - inject_Z i == newton_x (cell_of_quad kf) (cell_of_quad kg) f g (x - inject_Z i) (y - inject_Z j) /\
  y' - inject_Z j == newton_y (cell_of_quad kf) (cell_of_quad kg) f g (x - inject_Z i) (y - inject_Z j).
Proof. exact bilin_step_is_newton_cell. Qed.
Print Assumptions C16_step_is_newton_cell.
Theorem C16_newton_quadratic : forall (A B : bcell) (f g x y xs ys : Q),
  bval A xs ys == f -> bval B xs ys == g -> ~ ndet A B x y == 0 ->
  err xs ys (newton_x A B f g x y) (newton_y A B f g x y) <=
  csum A B x y * curv A B / Qabs.Qabs (ndet A B x y) * (err xs ys x y * err xs ys x y).
Proof. exact newton_quadratic_sharp. Qed.
Print Assumptions C16_newton_quadratic.
Theorem C16_newton_cell_convergence : forall (A B : bcell) (f g dmin Sb xs ys x0 y0 : Q),
  cell_ok A B dmin Sb -> 0 < dmin -> bval A xs ys == f -> bval B xs ys == g ->
  let e0 := err xs ys x0 y0 in
  0 <= xs - e0 -> xs + e0 <= 1 -> 0 <= ys - e0 -> ys + e0 <= 1 -> kappa A B dmin Sb * e0 <= 1 ->
  forall n : nat,
  err_it A B f g xs ys x0 y0 n <= e0 /\
  (in01 (fst (newton_it A B f g n x0 y0)) /\ in01 (snd (newton_it A B f g n x0 y0))) /\
  err_it A B f g xs ys x0 y0 n <= qpow (kappa A B dmin Sb * e0) (2 ^ n - 1) * e0 /\
  err_it A B f g xs ys x0 y0 n <= qpow (kappa A B dmin Sb * e0) n * e0.
Proof. exact newton_cell_convergence_ball. Qed.
Print Assumptions C16_newton_cell_convergence.
(** non-vacuity: a concrete curved cell; the model's bilin_inv takes two steps and stops by tolerance at the error the theorem allows *)
Example C16_newton_ex :
  bilin_inv exf exg exF exG default_maxiter default_tol = BDone (2590594681 # 5181179840) (1295300549 # 5181179840) true /\
  err (1 # 2) (1 # 4) (2590594681 # 5181179840) (1295300549 # 5181179840) == 5589 # 5181179840.
Proof. exact ex_model_inv. Qed.
