(** C06 — Output records are faithful snapshots in a well-formed ragged or dense file. *)
From Coq Require Import ZArith List Bool.
From Ladim Require Import Base.Num Model.State Model.Output Proofs.StateProofs Proofs.LayoutProofs.
Import ListNotations.
Open Scope Z_scope.

(** T1 (sparse layout): after ANY sequence of records (each with its own number of particles, zero
    included), the k-th record retrieved as the format documentation prescribes
    (start = sum(count[:k]), count[k]) is exactly the k-th snapshot, for every variable; the time
    coordinate of record k is that snapshot's time; particle_count is the list of snapshot sizes and
    sums to the length of every instance array (T4: records with zero particles are well-formed). *)
Theorem C06_sparse_record_faithful : forall nvars rs k i,
  Forall (wf_snap nvars) rs -> (k < length rs)%nat -> (i < nvars)%nat ->
  let f := fst (sparse_run nvars rs) in
  nth i (retrieve f k) [] = nth i (cols (nth k rs {| stime := 0; cols := [] |})) [] /\
  nth k (stimes f) 0 = stime (nth k rs {| stime := 0; cols := [] |}) /\
  counts f = map snap_count rs /\
  Forall (fun arr => Z.of_nat (length arr) = zsum (counts f)) (flat f).
Proof. exact sparse_record_faithful. Qed.
Print Assumptions C06_sparse_record_faithful.

(** T2: when a file is finished the particle variables hold, at index pid, the value of particle pid
    for EVERY particle released so far (0 <= pid < npid), dead ones included *)
Theorem C06_particle_vars_at_pid : forall s c p, State.Inv s -> (c < length (pvar s))%nat -> 0 <= p < npid s ->
  znth_opt (nth c (write_pvars s) []) p = pval s c p /\ pval s c p <> None.
Proof. exact particle_vars_at_pid. Qed.
Print Assumptions C06_particle_vars_at_pid.

(** T3 (dense layout): the row of a record has the particle's own value at index pid iff the particle is
    present and alive at that record, the fill value ([None]) before release and after death *)
Theorem C06_dense_record_faithful : forall s c p, State.Inv s -> (c < length (inst s))%nat ->
  dense_get (dense_write (pid s) (alive_mask s) (nth c (inst s) [])) p =
  if is_alive s p then ival s c p else None.
Proof. exact dense_record_faithful. Qed.
Print Assumptions C06_dense_record_faithful.

(** the snapshot a sparse record takes is the compactified state (C05): exactly the living particles *)
Theorem C06_snapshot_is_living_particles : forall s, State.Inv s ->
  pid (step s Compactify) = fmask (alive_mask s) (pid s).
Proof. exact compactify_pids. Qed.
Print Assumptions C06_snapshot_is_living_particles.

(** T1 for SPLIT output (numrec >= 1), composed with the output machine of C07: record k of the simulation is
    record (k mod numrec) of file (k / numrec) — that file exists, carries that number and is closed — and is
    retrieved there with THAT FILE'S OWN cumulative particle_count (the instance arrays of every file start at
    zero): columns, time coordinate, counts of exactly the records of that file, counts summing to the instance
    dimension of that file.  Snapshots need to be well-formed only at the due steps. *)
From Ladim Require Import Proofs.SplitLayoutProofs.
Theorem C06_split_record_retrievable : forall (P : Type) (snap : Z -> snapshot) (pvs : Z -> P) (nvars : nat)
    (nsteps p numrec : Z) (k i : nat),
  0 <= nsteps -> 1 <= p -> 1 <= numrec ->
  (forall step : Z, In step (due nsteps p) -> wf_snap nvars (snap step)) ->
  (k < length (due nsteps p))%nat -> (i < nvars)%nat ->
  let s := out_run snapshot P snap pvs nsteps p numrec in
  let n := Z.to_nat numrec in
  let a := (k / n)%nat in
  let j := (k mod n)%nat in
  let file_a := nth a (files s) (new_file snapshot P 0) in
  let fa := fst (sparse_run nvars (recs file_a)) in
  (a < length (files s))%nat /\ fno file_a = Z.of_nat a /\ closed file_a = true /\
  (j < length (recs file_a))%nat /\
  nth i (retrieve fa j) [] = nth i (cols (snap (nth k (due nsteps p) 0))) [] /\
  nth j (stimes fa) 0 = stime (snap (nth k (due nsteps p) 0)) /\
  counts fa = map snap_count (firstn n (skipn (a * n) (map snap (due nsteps p)))) /\
  Forall (fun arr : list Z => Z.of_nat (length arr) = zsum (counts fa)) (flat fa).
Proof. exact split_record_retrievable. Qed.
Print Assumptions C06_split_record_retrievable.
(** ... and what is retrieved from the split files is what is retrieved from the unsplit file *)
Theorem C06_split_retrieval_equals_unsplit : forall (P : Type) (snap : Z -> snapshot) (pvs : Z -> P) (nvars : nat)
    (nsteps p numrec : Z) (k i : nat),
  0 <= nsteps -> 1 <= p -> 1 <= numrec ->
  (forall step : Z, In step (due nsteps p) -> wf_snap nvars (snap step)) ->
  (k < length (due nsteps p))%nat -> (i < nvars)%nat ->
  let s := out_run snapshot P snap pvs nsteps p numrec in
  let n := Z.to_nat numrec in
  let fa := fst (sparse_run nvars (recs (nth (k / n) (files s) (new_file snapshot P 0)))) in
  let f1 := fst (sparse_run nvars (map snap (due nsteps p))) in
  nth i (retrieve fa (k mod n)) [] = nth i (retrieve f1 k) [] /\
  nth (k mod n) (stimes fa) 0 = nth k (stimes f1) 0.
Proof. exact split_retrieval_equals_unsplit. Qed.
Print Assumptions C06_split_retrieval_equals_unsplit.
Example C06_ex :
  let rs := [ {| stime := 0; cols := [[0; 1]; [10; 11]] |}; {| stime := 600; cols := [[]; []] |};
              {| stime := 1200; cols := [[1; 2; 3]; [21; 22; 23]] |} ] in
  let f := fst (sparse_run 2 rs) in
  counts f = [2; 0; 3] /\ flat f = [[0; 1; 1; 2; 3]; [10; 11; 21; 22; 23]] /\
  retrieve f 2 = [[1; 2; 3]; [21; 22; 23]] /\ retrieve f 1 = [[]; []] /\ Forall (wf_snap 2) rs.
Proof. repeat split; try (vm_compute; reflexivity). repeat constructor. Qed.
