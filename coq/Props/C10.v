(** C10 — Backward tracking = forward tracking in the time-mirrored, sign-flipped flow. *)
From Coq Require Import ZArith QArith List Bool.
From Ladim Require Import Base.Num Model.Time Model.Sim Proofs.TimeProofs Proofs.SimProofs Proofs.SymmetryProofs Model.Release Proofs.MirrorReleaseProofs Model.ForcingTime Proofs.MirrorForcingProofs.
From Ladim Require Import Model.Setup Proofs.SimRelProofs Proofs.SetupProofs Proofs.SetupSymProofs.
Import ListNotations.
Open Scope Z_scope.

(** T1: the reversed clock (and hence the output time coordinate, C13) reads S, S-dt, S-2dt, ... *)
Theorem C10_clock_reversed : forall t n, rev t = true -> step2time t n = start t - n * dt t.
Proof. exact clock_reversed. Qed.
Print Assumptions C10_clock_reversed.
Theorem C10_running_clock_reversed : forall t n, 0 <= n -> rev t = true ->
  ctime (clock_after t (Z.to_nat (n + 1))) = start t - n * dt t.
Proof. intros t n Hn R. destruct (clock_at_step t n Hn) as [_ B]. cbv zeta in B. rewrite R in B. exact B. Qed.
Print Assumptions C10_running_clock_reversed.

(** T2: with the mirror x |-> 2S - x, every time (forcing frame, release row, window end) has the same
    step number in the reversed set-up as its mirror image has in the forward set-up over the mirrored
    axis; the step times are mirror images; the run lengths agree; the windows correspond *)
Theorem C10_mirror_steps : forall t x n,
  time2step (mirror_tk t) (mirror_time t x) = time2step t x /\
  step2time (mirror_tk t) n = mirror_time t (step2time t n) /\ nsteps (mirror_tk t) = nsteps t.
Proof. intros t x n. exact (conj (time2step_mirror t x) (conj (step2time_mirror t n) (nsteps_mirror t))). Qed.
Print Assumptions C10_mirror_steps.
Theorem C10_mirror_window : forall t x, rev t = true ->
  (stop t < x <= start t) <-> (start (mirror_tk t) <= mirror_time t x < stop (mirror_tk t)).
Proof. exact window_mirror. Qed.
Print Assumptions C10_mirror_window.

(** T3: the sign flip of the reversed run equals interpolating the sign-flipped frames *)
Theorem C10_lerp_sign_flip : forall a fa b fb x, (~ b - a == 0 -> lerp a (- fa) b (- fb) x == - lerp a fa b fb x)%Q.
Proof. exact lerp_neg. Qed.
Print Assumptions C10_lerp_sign_flip.

(** T3 at the level of C03's specification: whatever the frame layout, interpolating the sign-flipped frames
    gives the sign-flipped field at every (fractional) time — with C03 (the machine's velocity is the
    interpolation, sign-flipped under reversal) the reversed run and the mirrored forward run feel the same velocity *)
Theorem C10_forcing_sign_flip : forall pts x,
  opt_rel (fun v w => (w == - v)%Q) (lerp_spec pts x) (lerp_spec (neg_pts pts) x).
Proof. exact lerp_spec_neg. Qed.
Print Assumptions C10_forcing_sign_flip.

(** T2 for the releaser (discrete release, cold or warm start): with every release time mirrored, the
    forward set-up over the mirrored axis is refused iff the reversed one is, keeps the (mirrored) rows in
    the same groups in the same order, and computes the SAME list of release steps — so with C04 each row
    is released at its stated time in both, at the same step *)
Theorem C10_release_schedule_mirror : forall t warm tab,
  rel_init (mirror_tk t) None warm (map (mirror_row t) tab) = mirror_res t (rel_init t None warm tab).
Proof. exact rel_init_mirror. Qed.
Print Assumptions C10_release_schedule_mirror.

(** T4 (bisimulation): the two set-ups compile to the same step-indexed environment (T2, T3 with C03 and
    C04), and runs with equal environments are equal state for state and record for record *)
Theorem C10_mirror_bisimulation : forall (V C : Type) rel rel' ff ff' cf cf' tf tf' bf bf' du du',
  (forall n, rel n = rel' n) -> (forall n v, ff n v = ff' n v) -> (forall n v, cf n v = cf' n v) ->
  (forall n v c, tf n v c = tf' n v c) -> (forall n v, bf n v = bf' n v) -> (forall n, du n = du' n) ->
  forall N, cold_run V C rel ff cf tf bf du N = cold_run V C rel' ff' cf' tf' bf' du' N.
Proof. exact cold_run_ext. Qed.
Print Assumptions C10_mirror_bisimulation.

(** T5 CLOSED, about whole set-ups (Model/Setup.v; the run is compiled from the files and tables by the
    component machines): replace the clock by the clock of the opposite direction over the mirrored time axis
    x |-> 2*start - x, put every frame of every forcing file and every release row at its mirror time and
    flip the sign of every velocity.  The mirrored set-up is well-formed and its run equals the original run
    particle for particle and record for record — for a reversed set-up: backward tracking = forward
    tracking in the time-mirrored, sign-flipped flow, for every frame/file layout and release table.
    [srel pv pv Z pv_eq r1 r2] (Proofs/SimRelProofs.v) says: neither run crashed; after the last step both hold
    the same particles in the same order — same release row (tag), same pid, same liveness, values equal up
    to == on the rationals (position, depth class, age, scalar) —; the same number of particles was released;
    and the two runs wrote the same number of records, each at the same step with the same (pid, row, values).
    The releaser of the set-up works in either mode ([s_cont]): discrete release of the table rows at their
    times, or continuous release (discretize() on the frequency grid; tables satisfying C04's [cont_ok]).
    The physics of the set-up includes LAND cells along the particle line ([s_land]): u-faces next to land
    masked to zero, moves onto land cancelled, death outside the valid interval (stated in Props/C09.v).
    The ADVECTION SCHEME of the tracker is inside the set-up model ([s_adv]: EF, RK2 = midpoint, RK4 = classical,
    with Forcing.velocity's fractional-step sampling u + f dU at f = 0, 1/2, 1/2, 1 and the masked-face
    interpolation at every stage position): the theorem covers the three schemes — the
    reversed clock at step n, stage fraction f, reads the physical time S - (n + f) dt, the mirrored forward clock
    reads its mirror image, and the sign flip of the frames cancels the negation of the reversed run.  Well-formedness ([setup_ok])
    includes [no_clip]: no frame moves a particle by more than 98/100 (RK2) / 49/100 (RK4) of a cell per step, so
    that the clip of the stage positions in tracker.py — not modelled — is the identity ([C14_stages_never_clipped]
    in Props/C14.v); set-ups with a faster flow under RK2 / RK4 are EXCLUDED. *)
Theorem C10_closed_mirror : forall s, setup_ok s = true ->
  setup_ok (mirror_setup s) = true /\ srel pv pv Z pv_eq (m_run s) (m_run (mirror_setup s)).
Proof. exact mirror_invariance. Qed.
Print Assumptions C10_closed_mirror.

Example C10_closed_ex :
  rev (s_tk ex_setup) = true /\ setup_ok ex_setup = true /\ setup_ok (mirror_setup ex_setup) = true /\
  s_tk (mirror_setup ex_setup) = {| start := 3600; stop := 7200; dt := 600; ref := 0; rev := false |} /\
  map (map (fun r : record => fst (fst r))) (s_files (mirror_setup ex_setup)) = [[7200; 6000]; [4800; 3600]] /\
  show_run (m_run (mirror_setup ex_setup)) = show_run (m_run ex_setup) /\
  length (recs (m_run ex_setup)) = 3%nat.
Proof. vm_compute. repeat split. Qed.

(** non-vacuity, LAND: the reversed set-up [ex_setup_land] (land in cell 4: masked u-face, two cancelled moves of
    the particle released at x = 5 — its position in the first four records) and its forward mirror image *)
Example C10_closed_land_ex :
  s_land (mirror_setup ex_setup_land) = [4] /\ setup_ok ex_setup_land = true /\ setup_ok (mirror_setup ex_setup_land) = true /\
  rev (s_tk (mirror_setup ex_setup_land)) = false /\
  show_run (m_run (mirror_setup ex_setup_land)) = show_run (m_run ex_setup_land) /\
  map (fun x : rec pv => map (fun y : Z * Z * pv => Qred (vx (snd y))) (firstn 1 (rrows x))) (firstn 4 (recs (m_run ex_setup_land))) =
    [[5%Q]; [5%Q]; [5%Q]; [(73 # 16)%Q]].
Proof. vm_compute. repeat split. Qed.

(** non-vacuity, continuous release: the forward set-up [ex_setup_cont] (release every 1200 s) and its mirror
    image, a reversed set-up whose releaser discretizes with the negative frequency *)
Example C10_closed_cont_ex :
  s_cont ex_setup_cont = Some 1200 /\ setup_ok ex_setup_cont = true /\ setup_ok (mirror_setup ex_setup_cont) = true /\
  s_tk (mirror_setup ex_setup_cont) = {| start := 0; stop := -3600; dt := 600; ref := 0; rev := true |} /\
  map rt (s_tab (mirror_setup ex_setup_cont)) = [0; -2400; -2400; -3600] /\
  show_run (m_run (mirror_setup ex_setup_cont)) = show_run (m_run ex_setup_cont) /\
  map (fun r : rec pv => (rstep r, length (rrows r))) (recs (m_run ex_setup_cont)) = [(0, 1%nat); (2, 2%nat); (4, 5%nat)].
Proof. vm_compute. repeat split. Qed.

(** non-vacuity, RK2 / RK4: the reversed set-ups [ex_setup_rk2] (RK2), [ex_setup_rk4] (RK4), [ex_setup_land_rk2] and
    [ex_setup_land_rk4] (land in cell 4: the stage positions matter) of Model/Setup.v and their forward mirror
    images: all well-formed; the mirrored forward run feels the same flow at the stage fractions 0, 1/2, 1 of a
    step and writes the same records; the particles move otherwise than under EF *)
Example C10_mirror_ex_rk2 :
  s_adv (mirror_setup ex_setup_rk2) = 1 /\ rev (s_tk ex_setup_rk2) = true /\ rev (s_tk (mirror_setup ex_setup_rk2)) = false /\
  setup_ok ex_setup_rk2 = true /\ setup_ok (mirror_setup ex_setup_rk2) = true /\
  map Qred [m_uf ex_setup_rk2 0 0; m_uf ex_setup_rk2 0 (1 # 2); m_uf ex_setup_rk2 0 1] = [(-15)%Q; (-13)%Q; (-11)%Q] /\
  map Qred [m_uf (mirror_setup ex_setup_rk2) 0 0; m_uf (mirror_setup ex_setup_rk2) 0 (1 # 2); m_uf (mirror_setup ex_setup_rk2) 0 1] =
    [(-15)%Q; (-13)%Q; (-11)%Q] /\
  show_run (m_run (mirror_setup ex_setup_rk2)) = show_run (m_run ex_setup_rk2) /\
  map (fun x : rec pv => map (fun y : Z * Z * pv => Qred (vx (snd y))) (rrows x)) (recs (m_run ex_setup_rk2)) =
    [[5%Q]; [(29 # 8)%Q; 6%Q; 6%Q]; [3%Q; (91 # 16)%Q; (91 # 16)%Q]] /\
  map (fun x : rec pv => map (fun y : Z * Z * pv => Qred (vx (snd y))) (rrows x)) (recs (m_run (with_adv ex_setup_rk2 0))) =
    [[5%Q]; [(27 # 8)%Q; 6%Q; 6%Q]; [(21 # 8)%Q; (45 # 8)%Q; (45 # 8)%Q]] /\
  setup_ok ex_setup_land_rk2 = true /\ setup_ok (mirror_setup ex_setup_land_rk2) = true /\
  show_run (m_run (mirror_setup ex_setup_land_rk2)) = show_run (m_run ex_setup_land_rk2).
Proof. vm_compute. repeat split. Qed.
Example C10_mirror_ex_rk4 :
  s_adv (mirror_setup ex_setup_rk4) = 2 /\ rev (s_tk ex_setup_rk4) = true /\ rev (s_tk (mirror_setup ex_setup_rk4)) = false /\
  setup_ok ex_setup_rk4 = true /\ setup_ok (mirror_setup ex_setup_rk4) = true /\
  show_run (m_run (mirror_setup ex_setup_rk4)) = show_run (m_run ex_setup_rk4) /\
  map (fun x : rec pv => map (fun y : Z * Z * pv => Qred (vx (snd y))) (rrows x)) (recs (m_run ex_setup_rk4)) =
    [[5%Q]; [(69 # 16)%Q; 6%Q; 6%Q]; [4%Q; (187 # 32)%Q; (187 # 32)%Q]] /\
  map (fun x : rec pv => map (fun y : Z * Z * pv => Qred (vx (snd y))) (rrows x)) (recs (m_run (with_adv ex_setup_rk4 0))) =
    [[5%Q]; [(67 # 16)%Q; 6%Q; 6%Q]; [(61 # 16)%Q; (93 # 16)%Q; (93 # 16)%Q]] /\
  setup_ok ex_setup_land_rk4 = true /\ setup_ok (mirror_setup ex_setup_land_rk4) = true /\
  show_run (m_run (mirror_setup ex_setup_land_rk4)) = show_run (m_run ex_setup_land_rk4) /\
  map (fun x : rec pv => map (fun y : Z * Z * pv => Qred (vx (snd y))) (firstn 1 (rrows x))) (firstn 3 (recs (m_run ex_setup_land_rk4))) =
    [[5%Q]; [(243257965 # 50331648)%Q]; [(2006116605294515 # 422212465065984)%Q]] /\
  map (fun x : rec pv => map (fun y : Z * Z * pv => Qred (vx (snd y))) (firstn 1 (rrows x))) (firstn 3 (recs (m_run (with_adv ex_setup_land_rk4 1)))) =
    [[5%Q]; [(19843 # 4096)%Q]; [(39965417 # 8388608)%Q]].
Proof. vm_compute. repeat split. Qed.

Example C10_ex :
  let t := {| start := 3600; stop := 0; dt := 600; ref := 0; rev := true |} in
  step2time t 2 = 2400 /\ time2step t 2400 = 2 /\ time2step (mirror_tk t) (mirror_time t 2400) = 2 /\
  stop (mirror_tk t) = 7200 /\ step2time (mirror_tk t) 2 = 4800.
Proof. vm_compute. repeat split. Qed.
