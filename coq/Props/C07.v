(** C07 — Every scheduled output time is written for any duration, period, file split. *)
From Coq Require Import ZArith List Bool.
From Ladim Require Import Base.Num Model.Output Proofs.OutputProofs.
Import ListNotations.
Open Scope Z_scope.

(** T1: for ALL numbers of steps N >= 0, periods p >= 1 (in steps) and records-per-file numrec >= 0,
    whatever the records contain ([snap], [pvs] arbitrary): the run never writes to a closed file,
    every file is closed at the end, the records over all files in order are exactly those of the steps
    k*p < N, every file but the last holds numrec records (and has its particle variables), the last at
    most numrec (at least one, with particle variables, when any record is due), files are numbered 0,1,2,... *)
Theorem C07_all_records_written : forall (R P : Type) (snap : Z -> R) (pvs : Z -> P) nsteps p numrec,
  0 <= nsteps -> 1 <= p -> 0 <= numrec -> (numrec = 0 -> cdiv nsteps p <= 999999) ->
  let s := out_run R P snap pvs nsteps p numrec in
  let n := if numrec =? 0 then 999999 else numrec in
  err s = false /\
  Forall (fun f : file R P => closed f = true) (files s) /\
  all_records s = map snap (due nsteps p) /\
  Forall (fun f : file R P => Z.of_nat (length (recs f)) = n /\ pv f <> None) (done s) /\
  Z.of_nat (length (recs (cur s))) <= n /\
  (0 < cdiv nsteps p -> 0 < Z.of_nat (length (recs (cur s))) /\ pv (cur s) <> None) /\
  map fno (files s) = zrange_aux 0 (length (files s)).
Proof. exact all_records_written. Qed.
Print Assumptions C07_all_records_written.

(** T2: concatenating the split files gives the records of the unsplit run *)
Theorem C07_split_equals_unsplit : forall (R P : Type) (snap : Z -> R) (pvs : Z -> P) nsteps p numrec,
  0 <= nsteps -> 1 <= p -> 0 <= numrec -> cdiv nsteps p <= 999999 ->
  all_records (out_run R P snap pvs nsteps p numrec) = all_records (out_run R P snap pvs nsteps p 0).
Proof. exact split_equals_unsplit. Qed.
Print Assumptions C07_split_equals_unsplit.

(** the number of records is ceil(N / p) *)
Theorem C07_record_count : forall nsteps p, 0 <= nsteps -> 0 < p ->
  Z.of_nat (length (due nsteps p)) = cdiv nsteps p.
Proof. exact due_length. Qed.
Print Assumptions C07_record_count.

(** T2 sharpened: the files ARE the blocks of numrec consecutive records (no empty trailing file when the last
    one is exactly full; a run of zero steps leaves one empty closed file) *)
From Ladim Require Import Proofs.SplitLayoutProofs.
Theorem C07_files_are_chunks : forall (R P : Type) (snap : Z -> R) (pvs : Z -> P) (nsteps p numrec : Z),
  0 <= nsteps -> 1 <= p -> 1 <= numrec ->
  map (recs (R:=R) (P:=P)) (files (out_run R P snap pvs nsteps p numrec)) =
  (if nsteps =? 0 then [[]] else chunk (Z.to_nat numrec) (map snap (due nsteps p))).
Proof. exact split_files_all_cases. Qed.
Print Assumptions C07_files_are_chunks.
Example C07_chunk_ex : chunk 3 [1; 2; 3; 4; 5; 6; 7] = [[1; 2; 3]; [4; 5; 6]; [7]] /\ chunk 3 [1; 2; 3; 4; 5; 6] = [[1; 2; 3]; [4; 5; 6]].
Proof. vm_compute. split; reflexivity. Qed.

(** non-vacuity: N = 7, p = 3, numrec = 2 gives files (0: steps 0, 3) (1: step 6); and the historical
    defect (num_records = floor) is what a total of 2 would do: an error on the third write *)
Example C07_ex :
  let s := out_run Z unit (fun n => n) (fun _ => tt) 7 3 2 in
  err s = false /\ map (fun f => (fno f, recs f, closed f)) (files s) = [(0, [0; 3], true); (1, [6], true)].
Proof. vm_compute. repeat split. Qed.
Example C07_old_defect :
  let s0 := out_init Z unit 6 3 0 false in   (* total = 2, as floor(7/3) was *)
  err (fold_left (out_update Z unit (fun n => n) (fun _ => tt) 3) (zrange 0 7) s0) = true.
Proof. vm_compute. reflexivity. Qed.
