(** C18 — placeholder while the correspondence is being developed *)
From Coq Require Import ZArith List Bool String.
From Ladim Require Import Model.Config.
Theorem C18_stub : forall c : cv, c = c.
Proof. intros; reflexivity. Qed.
Print Assumptions C18_stub.
