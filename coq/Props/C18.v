(** C18 — One simulation, three spellings: YAML v2, TOML v2 and legacy v1 give the same run.

    The YAML and TOML parsers are outside the model: both version-2 files parse to the same tree
    (checked on every run by the correspondence, Corr/C18.v), so there is one v2 renderer.
    [normalize] = what the eight module constructors finally receive (init_module's default module
    names, the constructors' defaults, their treatment of falsy arguments, 0 = 0.0 for float
    arguments) with the v1-only storage option [ncargs] dropped (netCDF4.Dataset ignores
    [data_model] and the code forces format NETCDF4). *)
From Coq Require Import ZArith List Bool String Ascii.
From Ladim Require Import Model.Config Proofs.ConfigProofs.
Import ListNotations.
Open Scope string_scope.

(** * T1 — the v1 spelling and the v2 spelling of a description give the same module arguments.
    For EVERY description S (all 26 components arbitrary), every directory listing [glob], both
    ways of writing the v2 file (optional sections written out / left out wherever possible):
    hypotheses [wf_sim] ("S is expressible in the v1 vocabulary": a forcing file is named; a user
    module is not called like the legacy ROMS module; the diffusion coefficient is a number; a
    continuous release has a frequency; user names do not collide with the fixed keys that share
    their section in a v1 file; output variables are named once) and [wf_glob] (an omitted grid file
    with a wildcard forcing name has at least one match).  Each of these is necessary — see the
    [..._refuted] examples below. *)
Theorem C18_v1_equals_v2 : forall (glob : string -> list string) (wst : option cv) (S : sim) (omit : bool),
  wf_sim S = true -> wf_glob glob S = true ->
  normalize_res (configure_v1 glob (render_v1 S)) =
  normalize_res (configure_v2 glob wst (render_v2 S omit)).
Proof. exact v1_equals_v2. Qed.
Print Assumptions C18_v1_equals_v2.

(** the same through the entry point [configure] (version dispatch included: the v1 file with or
    without an explicit [version: 1], the v2 file with or without [version: 2]) *)
Theorem C18_three_spellings : forall (glob : string -> list string) (wst : option cv) (S : sim) (omit : bool),
  wf_sim S = true -> wf_glob glob S = true ->
  normalize_res (configure glob wst (render_v1 S)) =
  normalize_res (configure glob wst (render_v2 S omit)).
Proof. exact three_spellings. Qed.
Print Assumptions C18_three_spellings.

(** what the legacy reader returns for the v1 file, in closed form (it is accepted) *)
Theorem C18_v1_accepted : forall (glob : string -> list string) (S : sim),
  wf_sim S = true -> wf_glob glob S = true ->
  configure_v1 glob (render_v1 S) = Ok (v1_result glob S).
Proof. exact configure_v1_render. Qed.
Print Assumptions C18_v1_accepted.

(** * T2 — defaults of the version-2 reader *)
(** a state / grid / ibm / warm_start section that is omitted, or present without content (null:
    YAML "grid:" with nothing after it), behaves as an empty one — for EVERY configuration
    dictionary, also one that is then refused: same exception, or dictionaries with the same
    bindings ([rsame]; only the position of the added key can differ) *)
Theorem C18_omitted_section_is_empty : forall (glob : string -> list string) (wst : option cv) (d : dict) (k : string),
  optional_section k = true -> absent_or_null d k = true ->
  rsame (configure_v2 glob wst (CDict d)) (configure_v2 glob wst (CDict (aset d k (CDict [])))).
Proof. exact omitted_is_empty. Qed.
Print Assumptions C18_omitted_section_is_empty.
(** ... null and omitted are the same thing *)
Theorem C18_null_section_is_omitted : forall (glob : string -> list string) (wst : option cv) (d : dict) (k : string),
  optional_section k = true -> aget d k = None ->
  rsame (configure_v2 glob wst (CDict d)) (configure_v2 glob wst (CDict (aset d k CNull))).
Proof. exact null_is_omitted. Qed.
Print Assumptions C18_null_section_is_omitted.
(** ... hence the modules receive the same arguments *)
Theorem C18_omitted_section_same_modules : forall (glob : string -> list string) (wst : option cv) (d : dict) (k : string),
  optional_section k = true -> absent_or_null d k = true ->
  normalize_res (configure_v2 glob wst (CDict d)) =
  normalize_res (configure_v2 glob wst (CDict (aset d k (CDict [])))).
Proof. exact omitted_same_modules. Qed.
Print Assumptions C18_omitted_section_same_modules.
(** the reader looks sections up by name only: the order of the keys of the file is irrelevant *)
Theorem C18_key_order_irrelevant : forall (glob : string -> list string) (wst : option cv) (d1 d2 : dict),
  (forall k, aget d1 k = aget d2 k) ->
  rsame (configure_v2 glob wst (CDict d1)) (configure_v2 glob wst (CDict d2)).
Proof. exact key_order_irrelevant. Qed.
Print Assumptions C18_key_order_irrelevant.

(** grid defaults: in an accepted configuration without warm start, whose grid section [g] is
    omitted ([sec_or_empty] = empty) or incomplete, the grid module is the forcing module and the
    grid file is the first file the forcing name stands for; everything else is untouched *)
Theorem C18_grid_defaults : forall (glob : string -> list string) (wst : option cv)
    (d : dict) (tr tm rl out : cv) (f : dict) (m : cv) (p : string) (g w : dict),
  aget d "tracker" = Some tr -> is_null tr = false ->
  aget d "time" = Some tm ->
  aget d "release" = Some rl -> is_null rl = false ->
  aget d "output" = Some out ->
  aget d "forcing" = Some (CDict f) -> aget f "module" = Some m -> aget f "filename" = Some (CStr p) ->
  sec_or_empty d "grid" = CDict g ->
  sec_or_empty d "warm_start" = CDict w -> aget w "filename" = None ->
  exists d' g',
    configure_v2 glob wst (CDict d) = Ok (CDict d') /\ aget d' "grid" = Some (CDict g') /\
    aget g' "module" = Some (match aget g "module" with Some x => x | None => m end) /\
    aget g' "filename" = Some (match aget g "filename" with Some x => x | None => CStr (first_file_v2 glob p) end) /\
    (forall k, String.eqb "module" k = false -> String.eqb "filename" k = false -> aget g' k = aget g k) /\
    (forall k, String.eqb "grid" k = false -> aget d' k = aget (e4 d) k).
Proof. exact grid_defaults. Qed.
Print Assumptions C18_grid_defaults.
(** "the first file": the name itself without wildcard; the first of the sorted expansion when
    the name contains [*] or [?]; the name itself when nothing matches *)
Theorem C18_wildcard_is_star_or_question : forall s,
  has_wild s = true <-> In "*"%char (list_ascii_of_string s) \/ In "?"%char (list_ascii_of_string s).
Proof. exact has_wild_spec. Qed.
Print Assumptions C18_wildcard_is_star_or_question.
Theorem C18_first_file : forall (glob : string -> list string) (p : string),
  (has_wild p = false -> first_file_v2 glob p = p) /\
  (forall f r, has_wild p = true -> glob p = f :: r -> first_file_v2 glob p = f) /\
  (has_wild p = true -> glob p = [] -> first_file_v2 glob p = p).
Proof. exact first_file_cases. Qed.
Print Assumptions C18_first_file.

(** * T3 — version dispatch of [configure] *)
(** explicit [version]: the first character of [str(version)] decides ("2", 2, 2.0, "2.1" ...);
    a KeyError of the v2 reader becomes SystemExit(3) *)
Theorem C18_version_2_explicit : forall (glob : string -> list string) (wst : option cv) (c v : cv) (rest : string),
  getdef c "version" (CStr "0") = Ok v -> str_of_cv v = String "2" rest ->
  configure glob wst c = keyerror_to_exit (configure_v2 glob wst c).
Proof. exact configure_v2_explicit. Qed.
Print Assumptions C18_version_2_explicit.
Theorem C18_version_1_explicit : forall (glob : string -> list string) (wst : option cv) (c v : cv) (rest : string),
  getdef c "version" (CStr "0") = Ok v -> str_of_cv v = String "1" rest ->
  configure glob wst c = configure_v1 glob c.
Proof. exact configure_v1_explicit. Qed.
Print Assumptions C18_version_1_explicit.
(** no [version]: a [time_control] section means version 1, otherwise version 2 *)
Theorem C18_version_inferred : forall (glob : string -> list string) (wst : option cv) (d : dict),
  aget d "version" = None ->
  configure glob wst (CDict d) =
  if ahas d "time_control" then configure_v1 glob (CDict d)
  else keyerror_to_exit (configure_v2 glob wst (CDict d)).
Proof. exact configure_inferred. Qed.
Print Assumptions C18_version_inferred.
(** anything else is refused with SystemExit(3) *)
Theorem C18_version_refused : forall (glob : string -> list string) (wst : option cv) (c v : cv) (ch : ascii) (rest : string),
  getdef c "version" (CStr "0") = Ok v -> str_of_cv v = String ch rest ->
  String.eqb (String ch rest) "0" = false -> Ascii.eqb ch "2" = false -> Ascii.eqb ch "1" = false ->
  configure glob wst c = Err (EExit 3).
Proof. exact configure_refused. Qed.
Print Assumptions C18_version_refused.
(** a version-2 file never ends in a bare KeyError *)
Theorem C18_v2_no_bare_keyerror : forall r : res cv, keyerror_to_exit r <> Err EKey.
Proof. exact keyerror_to_exit_no_key. Qed.
Print Assumptions C18_v2_no_bare_keyerror.

(** * Examples: non-vacuity, and the hypotheses are necessary *)
Definition ovar (n f : string) (a : dict) : outvar := {| ov_name := n; ov_fmt := CStr f; ov_attrs := a |}.
Definition Sx (m : gfmod) (ff : string) (cont : bool) (fq : option cv) (dif : option cv) : sim :=
  {| s_start := CStr "2000-01-01T00:00:00"; s_stop := CStr "2000-01-01T02:00:00"; s_dt := CInt 600;
     s_reference := None;
     s_module := m; s_forcing_file := ff; s_grid_file := None;
     s_subgrid := Some (CList [CInt 1; CInt 11; CInt 1; CInt 9]); s_extra_forcing := None;
     s_advection := CStr "RK4"; s_diffusion := dif;
     s_release_file := CStr "release.rls";
     s_names := ["mult"; "release_time"; "X"; "Y"; "Z"; "farmid"; "lon"; "lat"];
     s_continuous := cont; s_frequency := fq;
     s_converters := [("release_time", CStr "time"); ("farmid", CStr "int")];
     s_particle_vars := ["release_time"; "farmid"];
     s_ibm_module := Some (CStr "myibm"); s_ibm_opts := [("salinity_model", CStr "new")];
     s_ibm_vars := ["age"; "lon"];
     s_out_file := CStr "out.nc"; s_out_period := CInt 1800; s_out_format := Some (CStr "NETCDF3_CLASSIC");
     s_out_instance := [ovar "pid" "i4" [("long_name", CStr "particle identifier")]; ovar "X" "f4" [];
                        ovar "age" "f4" [("units", CStr "days")]];
     s_out_particle := [ovar "release_time" "f8" [("units", CStr "seconds since reference_time")]];
     s_spell := {| sp_files := false; sp_ibm_legacy := true; sp_rtype := false; sp_min := true; sp_version := false |} |}.
Definition S0 : sim := Sx (GRoms true) "f_?.nc" true (Some (CList [CInt 1; CStr "h"])) (Some (CInt 0)).
Definition glob0 (p : string) : list string := ["f_1.nc"; "f_2.nc"].
Definition lookup2 (r : res cv) (a b : string) : res cv := c <- r ;; s <- getitem c a ;; getitem s b.

(** a description inside the hypotheses: continuous release, extra particle-variable column with
    converter, lon/lat columns, IBM variables, "?" wildcard with the grid section omitted *)
Example C18_ex :
  wf_sim S0 = true /\ wf_glob glob0 S0 = true /\
  lookup2 (configure glob0 None (render_v2 S0 true)) "grid" "filename" = Ok (CStr "f_1.nc") /\
  lookup2 (configure glob0 None (render_v2 S0 true)) "grid" "module" = Ok (CStr "ladim.ROMS") /\
  lookup2 (configure glob0 None (render_v1 S0)) "grid" "filename" = Ok (CStr "f_1.nc") /\
  lookup2 (configure glob0 None (render_v1 S0)) "release" "continuous" = Ok (CBool true) /\
  lookup2 (configure glob0 None (render_v1 S0)) "state" "instance_variables"
    = Ok (CDict [("age", CStr "float"); ("lon", CStr "float"); ("lat", CStr "float")]) /\
  lookup2 (configure glob0 None (render_v1 S0)) "state" "particle_variables"
    = Ok (CDict [("release_time", CStr "time"); ("farmid", CStr "int")]) /\
  (exists t, normalize_res (configure glob0 None (render_v1 S0)) = Ok t) /\
  normalize_res (configure glob0 None (render_v1 S0)) = normalize_res (configure glob0 None (render_v2 S0 true)) /\
  normalize_res (configure glob0 None (render_v1 S0)) = normalize_res (configure glob0 None (render_v2 S0 false)).
Proof. vm_compute. repeat split; eexists; reflexivity. Qed.

(** a discrete release whose v1 file still carries [release_frequency]: not continuous *)
Example C18_ex_discrete_with_frequency :
  let S := Sx (GRoms false) "forcing.nc" false (Some (CInt 3600)) None in
  wf_sim S = true /\
  lookup2 (normalize_res (configure glob0 None (render_v1 S))) "release" "continuous" = Ok (CBool false) /\
  normalize_res (configure glob0 None (render_v1 S)) = normalize_res (configure glob0 None (render_v2 S true)).
Proof. vm_compute. repeat split. Qed.

(** necessity of the hypotheses *)
(** a user module whose name contains the legacy ROMS name is replaced by ladim.ROMS by the v1
    reader only *)
Example C18_legacy_name_refuted :
  let S := Sx (GCustom "my.ladim1.gridforce.ROMS") "f_?.nc" false None None in
  wf_sim S = false /\
  lookup2 (configure glob0 None (render_v1 S)) "forcing" "module" = Ok (CStr "ladim.ROMS") /\
  lookup2 (configure glob0 None (render_v2 S true)) "forcing" "module" = Ok (CStr "my.ladim1.gridforce.ROMS").
Proof. vm_compute. repeat split. Qed.
(** a wildcard that matches nothing: IndexError in the v1 reader, the pattern itself as grid file
    in the v2 reader (both runs stop, differently) *)
Example C18_empty_expansion_refuted :
  let S := Sx (GRoms true) "f_?.nc" false None None in
  wf_sim S = true /\ wf_glob (fun _ => []) S = false /\
  configure (fun _ => []) None (render_v1 S) = Err EIndex /\
  lookup2 (configure (fun _ => []) None (render_v2 S true)) "grid" "filename" = Ok (CStr "f_?.nc").
Proof. vm_compute. repeat split. Qed.
(** a continuous release without frequency: KeyError in the v1 reader, accepted by the v2 reader *)
Example C18_continuous_without_frequency_refuted :
  let S := Sx (GRoms true) "forcing.nc" true None None in
  wf_sim S = false /\ configure glob0 None (render_v1 S) = Err EKey /\
  exists t, configure glob0 None (render_v2 S true) = Ok t.
Proof. vm_compute. repeat split. eexists; reflexivity. Qed.
(** a diffusion coefficient that is not a number and is falsy: dropped by the v1 reader, passed on
    by the v2 reader *)
Example C18_non_numeric_diffusion_refuted :
  let S := Sx (GRoms true) "forcing.nc" false None (Some (CStr "")) in
  wf_sim S = false /\
  normalize_res (configure glob0 None (render_v1 S)) <> normalize_res (configure glob0 None (render_v2 S true)).
Proof. vm_compute. split; [reflexivity|discriminate]. Qed.

(** differences of the real code that lie outside the description (a v1 FILE the renderer never
    writes); reported as findings *)
Definition numerics_without_diffusion (c : cv) : cv :=
  match c with
  | CDict d => CDict (aset d "numerics" (CDict [("dt", CInt 600); ("advection", CStr "RK4")]))
  | _ => c
  end.
(** F-a: the v1 reader needs numerics.diffusion (bare KeyError); the v2 tracker section does not *)
Example C18_v1_requires_diffusion_key :
  let S := Sx (GRoms true) "forcing.nc" false None None in
  configure glob0 None (numerics_without_diffusion (render_v1 S)) = Err EKey /\
  exists t, configure glob0 None (render_v2 S true) = Ok t.
Proof. vm_compute. split; [reflexivity|eexists; reflexivity]. Qed.
(** F-b: a v1 file with a warm_start section: the section is dropped and the result has NO
    warm_start key at all, which Model.__init__ then misses (KeyError) *)
Example C18_v1_warm_start_lost :
  let S := Sx (GRoms true) "forcing.nc" false None None in
  let c := match render_v1 S with
           | CDict d => CDict (aset d "warm_start" (CDict [("filename", CStr "restart.nc")]))
           | x => x end in
  lookup2 (configure glob0 None c) "time" "start" = Ok (CStr "2000-01-01T00:00:00") /\
  (c' <- configure glob0 None c ;; contains c' "warm_start") = Ok false /\
  normalize_res (configure glob0 None c) = Err EKey.
Proof. vm_compute. repeat split. Qed.
(** null optional sections (YAML "grid:" with nothing after it) give the same module arguments as
    omitted ones *)
Example C18_ex_null_sections :
  let S := Sx (GRoms true) "forcing.nc" false None None in
  let put k v := match render_v2 S true with CDict d => CDict (aset d k v) | x => x end in
  let same k := normalize_res (configure glob0 None (put k CNull)) = normalize_res (configure glob0 None (put k (CDict []))) in
  same "grid" /\ same "warm_start" /\ same "state" /\ same "ibm" /\
  lookup2 (configure glob0 None (put "grid" CNull)) "grid" "filename" = Ok (CStr "forcing.nc") /\
  exists t, normalize_res (configure glob0 None (put "state" CNull)) = Ok t.
Proof. vm_compute. repeat split. eexists; reflexivity. Qed.
(** the reader before commit 0922df7 ([if section not in config: config[section] = dict()]): a null
    grid or warm_start section was a TypeError, a null state or ibm section reached init_module
    (AttributeError).  Kept as the witness of the repaired defect. *)
Definition ensure_old (c : cv) (k : string) : res cv :=
  h <- contains c k ;; if h then Ok c else setitem c k (CDict []).
Definition configure_v2_old (glob : string -> list string) (wst : option cv) (c : cv) : res cv :=
  c <- ensure_old c "state" ;; c <- ensure_old c "grid" ;; c <- ensure_old c "ibm" ;;
  c <- ensure_old c "warm_start" ;; cfg2_rest glob wst c.
Example C18_null_section_old_defect :
  let S := Sx (GRoms true) "forcing.nc" false None None in
  let with_null k := match render_v2 S true with CDict d => CDict (aset d k CNull) | x => x end in
  configure_v2_old glob0 None (with_null "grid") = Err EType /\
  configure_v2_old glob0 None (with_null "warm_start") = Err EType /\
  normalize_res (configure_v2_old glob0 None (with_null "state")) = Err EAttr /\
  normalize_res (configure_v2_old glob0 None (with_null "ibm")) = Err EAttr /\
  configure_v2_old glob0 None (render_v2 S true) = configure_v2 glob0 None (render_v2 S true).
Proof. vm_compute. repeat split. Qed.

(** version dispatch on concrete spellings *)
Example C18_ex_versions :
  let S := Sx (GRoms true) "forcing.nc" false None None in
  let ver v c := match c with CDict d => CDict (aset d "version" v) | x => x end in
  decide_version (ver (CStr "2.0") (render_v2 S true)) = Ok (Some V2) /\
  decide_version (ver (CFloat 2 1) (render_v2 S true)) = Ok (Some V2) /\
  decide_version (ver (CInt 1) (render_v2 S true)) = Ok (Some V1) /\
  decide_version (ver (CStr "1.3") (render_v1 S)) = Ok (Some V1) /\
  decide_version (ver (CInt 0) (render_v1 S)) = Ok (Some V1) /\
  decide_version (ver (CInt 0) (render_v2 S true)) = Ok (Some V2) /\
  decide_version (ver (CInt 3) (render_v2 S true)) = Ok None /\
  decide_version (ver (CStr "x") (render_v2 S true)) = Ok None /\
  decide_version (ver CNull (render_v2 S true)) = Ok None /\
  decide_version (ver (CStr "") (render_v2 S true)) = Err EIndex /\
  configure glob0 None (ver (CInt 2) (render_v1 S)) = Err (EExit 3).
Proof. vm_compute. repeat split. Qed.
