(** C01 — Advection integrates the velocity field with the scheme's order of accuracy.

    Full statement of the property's second sentence (NOT proved here, see C01_order_partial):
      for every smooth velocity field the end point of a trajectory computed with EF / RK2 / RK4
      converges to the exact flow map with order 1 / 2 / 4 when the time step is refined.
    That needs Butcher's theorem (order conditions => local error O(h^(p+1))) and a Gronwall argument
    for arbitrary C^(p+1) vector fields, which are not available in the installed libraries.
    What is proved: T1 the step IS the Runge-Kutta step of the scheme's Butcher tableau with the stage
    velocities taken at the stage positions and fractional times (first sentence of the property,
    exactly); T2 the tableaux satisfy all order conditions through order 1 / 2 / 4; T3 exactness to
    order p on linear fields; T4 exactness as quadrature rules in time (degree 0 / 1 / 3);
    T5 the same for ladim.analytical.get_velocity1/2/4 (get_velocity2 for every s <> 0);
    T6 convergence with order p (explicit error constant) on every linear field. *)
From Coq Require Import ZArith QArith List Bool Reals Qreals.
From Ladim Require Import Base.Num Model.Tracker Proofs.TrackerProofs Proofs.SchemeProofs Proofs.ConvergenceProofs Model.ForcingTime Proofs.ComposeTimeProofs.
Import ListNotations.
Open Scope Q_scope.

(** T1 — for every velocity oracle (respecting equality of rationals), position, metric (dt/dx, dt/dy)
    such that the stage positions lie in the clip box *)
Theorem C01_ef_is_tableau_step : forall vel,
  (forall c x x' y y', x == x' -> y == y' -> peq (vel c x y) (vel c x' y')) ->
  forall dtdx dtdy x y, peq (candidate dtdx dtdy (EF vel) x y) (rk_generic vel dtdx dtdy tab_EF x y).
Proof. exact ef_is_tableau. Qed.
Print Assumptions C01_ef_is_tableau_step.
Theorem C01_rk2_is_tableau_step : forall vel,
  (forall c x x' y y', x == x' -> y == y' -> peq (vel c x y) (vel c x' y')) ->
  forall dtdx dtdy xlo xhi ylo yhi x y,
  in_box xlo xhi ylo yhi (rk2_stage1 vel dtdx dtdy x y) ->
  peq (candidate dtdx dtdy (RK2 vel dtdx dtdy xlo xhi ylo yhi) x y) (rk_generic vel dtdx dtdy tab_RK2 x y).
Proof. exact rk2_is_tableau. Qed.
Print Assumptions C01_rk2_is_tableau_step.
Theorem C01_rk4_is_tableau_step : forall vel,
  (forall c x x' y y', x == x' -> y == y' -> peq (vel c x y) (vel c x' y')) ->
  forall dtdx dtdy xlo xhi ylo yhi x y,
  in_box xlo xhi ylo yhi (rk4_stage1 vel dtdx dtdy x y) ->
  in_box xlo xhi ylo yhi (rk4_stage2 vel dtdx dtdy xlo xhi ylo yhi x y) ->
  in_box xlo xhi ylo yhi (rk4_stage3 vel dtdx dtdy xlo xhi ylo yhi x y) ->
  peq (candidate dtdx dtdy (RK4 vel dtdx dtdy xlo xhi ylo yhi) x y) (rk_generic vel dtdx dtdy tab_RK4 x y).
Proof. exact rk4_is_tableau. Qed.
Print Assumptions C01_rk4_is_tableau_step.
(** near the open boundary the stage positions are clipped: the velocity is never sampled outside the box *)
Theorem C01_stage_positions_clipped : forall xlo xhi ylo yhi p, xlo <= xhi -> ylo <= yhi ->
  in_box xlo xhi ylo yhi (clip2 xlo xhi ylo yhi p).
Proof. exact clip2_in_box. Qed.
Print Assumptions C01_stage_positions_clipped.

(** T2 — order conditions: EF exactly order 1, RK2 (midpoint, as coded) exactly order 2, RK4 order 4 *)
Theorem C01_tableau_orders :
  order1 tab_EF = true /\ order2 tab_EF = false /\ order2 tab_RK2 = true /\ order3 tab_RK2 = false /\
  order4 tab_RK4 = true.
Proof. exact tableau_orders. Qed.
Print Assumptions C01_tableau_orders.

(** T3 — linear field u = lam*x + mu: degree-p Taylor polynomial of the exact solution, z = lam*dt/dx *)
Theorem C01_rk_linear_exact_to_order : forall lam mu dtdx dtdy x y,
  fst (rk_generic (vlin lam mu) dtdx dtdy tab_EF x y) == x + (lam * x + mu) * dtdx /\
  fst (rk_generic (vlin lam mu) dtdx dtdy tab_RK2 x y) == x + (lam * x + mu) * dtdx * (1 + lam * dtdx / 2) /\
  fst (rk_generic (vlin lam mu) dtdx dtdy tab_RK4 x y) ==
    x + (lam * x + mu) * dtdx * (1 + lam * dtdx / 2 + (lam * dtdx) * (lam * dtdx) / 6
                                 + (lam * dtdx) * (lam * dtdx) * (lam * dtdx) / 24).
Proof.
  intros lam mu dtdx dtdy x y.
  exact (conj (ef_linear lam mu dtdx dtdy x y) (conj (rk2_linear lam mu dtdx dtdy x y) (rk4_linear lam mu dtdx dtdy x y))).
Qed.
Print Assumptions C01_rk_linear_exact_to_order.

(** T4 — time-dependent field u(f), f the fraction of the step: exact integrals *)
Theorem C01_rk_quadrature_exact : forall a b c d dtdx dtdy x y,
  fst (rk_generic (vt0 a) dtdx dtdy tab_EF x y) == x + a * dtdx /\
  fst (rk_generic (vt1 a b) dtdx dtdy tab_RK2 x y) == x + (a + b / 2) * dtdx /\
  fst (rk_generic (vt3 a b c d) dtdx dtdy tab_RK4 x y) == x + (a + b / 2 + c / 3 + d / 4) * dtdx.
Proof.
  intros a b c d dtdx dtdy x y.
  exact (conj (ef_quadrature a dtdx dtdy x y) (conj (rk2_quadrature a b dtdx dtdy x y) (rk4_quadrature a b c d dtdx dtdy x y))).
Qed.
Print Assumptions C01_rk_quadrature_exact.

(** T5 — ladim.analytical: order conditions of the get_velocity2 family for every s <> 0, and the
    Taylor polynomials on linear fields *)
Theorem C01_analytical_gv2_order2 : forall s, ~ s == 0 ->
  qsum (tb (tab_gv2 s)) == 1 /\ dot (tb (tab_gv2 s)) (tc (tab_gv2 s)) == 1#2.
Proof. exact gv2_order2. Qed.
Print Assumptions C01_analytical_gv2_order2.
Theorem C01_analytical_linear : forall lam mu dt x y,
  fst (get_velocity1 (slin lam mu) x y) == lam * x + mu /\
  (forall s, ~ s == 0 -> fst (get_velocity2 (slin lam mu) dt s x y) == (lam * x + mu) * (1 + lam * dt / 2)) /\
  fst (get_velocity4 (slin lam mu) dt x y) ==
    (lam * x + mu) * (1 + lam * dt / 2 + (lam * dt) * (lam * dt) / 6 + (lam * dt) * (lam * dt) * (lam * dt) / 24).
Proof.
  intros lam mu dt x y.
  exact (conj (gv1_linear lam mu x y) (conj (fun s H => gv2_linear lam mu dt s x y H) (gv4_linear lam mu dt x y))).
Qed.
Print Assumptions C01_analytical_linear.

(** T6 — convergence with order p on every LINEAR field u = lam*x + mu (lam <> 0): n steps of the model's
    Runge-Kutta step with dt/dx = T/n, compared with the exact solution of dx/dt = lam*x + mu at time T;
    the end-point error is bounded by C/n^p with the explicit constant C = |x0 + mu/lam| |lam T|^(p+1) e^|lam T| / (p+1)!.
    (Real-number axioms of the standard library appear in Print Assumptions.)  At the level of the stability
    polynomials the bound holds for every order p ([C01_conv_order]). *)
Theorem C01_linear_convergence_EF : forall (lam mu T dtdy x0 y0 : Q) (n : nat),
  ~ lam == 0 -> (1 <= n)%nat ->
  (Rabs (Q2R (fst (rk_iter (vlin lam mu) (T / inject_Z (Z.of_nat n)) dtdy tab_EF n x0 y0)) - exact_end lam mu T x0)
   <= Rabs (Q2R x0 + Q2R mu / Q2R lam) *
      (Rabs (Q2R lam * Q2R T) ^ 2 * exp (Rabs (Q2R lam * Q2R T)) / 2 / INR n ^ 1))%R.
Proof. exact model_conv_EF. Qed.
Print Assumptions C01_linear_convergence_EF.
Theorem C01_linear_convergence_RK2 : forall (lam mu T dtdy x0 y0 : Q) (n : nat),
  ~ lam == 0 -> (1 <= n)%nat ->
  (Rabs (Q2R (fst (rk_iter (vlin lam mu) (T / inject_Z (Z.of_nat n)) dtdy tab_RK2 n x0 y0)) - exact_end lam mu T x0)
   <= Rabs (Q2R x0 + Q2R mu / Q2R lam) *
      (Rabs (Q2R lam * Q2R T) ^ 3 * exp (Rabs (Q2R lam * Q2R T)) / 6 / INR n ^ 2))%R.
Proof. exact model_conv_RK2. Qed.
Print Assumptions C01_linear_convergence_RK2.
Theorem C01_linear_convergence_RK4 : forall (lam mu T dtdy x0 y0 : Q) (n : nat),
  ~ lam == 0 -> (1 <= n)%nat ->
  (Rabs (Q2R (fst (rk_iter (vlin lam mu) (T / inject_Z (Z.of_nat n)) dtdy tab_RK4 n x0 y0)) - exact_end lam mu T x0)
   <= Rabs (Q2R x0 + Q2R mu / Q2R lam) *
      (Rabs (Q2R lam * Q2R T) ^ 5 * exp (Rabs (Q2R lam * Q2R T)) / 120 / INR n ^ 4))%R.
Proof. exact model_conv_RK4. Qed.
Print Assumptions C01_linear_convergence_RK4.
Theorem C01_conv_order : forall p z n, (1 <= n)%nat ->
  (Rabs (Tp p (z / INR n) ^ n - exp z) <= Cconv p z / INR n ^ p)%R.
Proof. exact conv_order. Qed.
Print Assumptions C01_conv_order.

(** T1 composed with C03 ("using the velocity the forcing supplies at the intermediate ... fractional times of
    that scheme"): for EVERY frame layout, file split, run length and direction covered by C03 and a spatially
    uniform field, with the velocity the forcing machine supplies at fractions 0, 1/2, 1 the EF displacement of
    step n is v(n)*dt/dx and the RK2 and RK4 displacements are the EXACT time integral of the time-interpolated
    forcing over the step, (v(n) + v(n+1))/2 * dt/dx (sign flipped under time reversal) *)
Theorem C01_C03_exact_time_integral : forall (raw : list frame) (D : disk) (hs rv : bool) (n : Z)
    (dtdx dtdy xlo xhi ylo yhi x y : Q),
  nodupb (map fstep raw) = true -> readable raw D = true -> covers raw n = true -> (0 <= n)%Z ->
  exists st v0 v1,
    state_at (mk_tables raw) D hs n = Some st /\
    lerp_spec (upts raw D) (inject_Z n + 0) = Some v0 /\ lerp_spec (upts raw D) (inject_Z n + 1) = Some v1 /\
    let s := (if rv then -1 else 1) in
    fst (candidate dtdx dtdy (EF (fvel st rv)) x y) == x + s * v0 * dtdx /\
    fst (candidate dtdx dtdy (RK2 (fvel st rv) dtdx dtdy xlo xhi ylo yhi) x y) == x + s * ((v0 + v1) / 2) * dtdx /\
    fst (candidate dtdx dtdy (RK4 (fvel st rv) dtdx dtdy xlo xhi ylo yhi) x y) == x + s * ((v0 + v1) / 2) * dtdx.
Proof. exact rk_exact_time_integral. Qed.
Print Assumptions C01_C03_exact_time_integral.

(** the conjunction that stands for the property; the convergence clause for arbitrary smooth fields
    is the missing part (see the header) *)
Definition C01_order_partial := (C01_rk4_is_tableau_step, C01_tableau_orders, C01_rk_linear_exact_to_order,
                                 C01_rk_quadrature_exact).

(** non-vacuity: u = x/5 - 1 (grid units per step), one RK4 step from x = 7 is 7 + 2*(z + z^2/2 + z^3/6 + z^4/24), z = 1/5 *)
Example C01_ex :
  fst (candidate 1 1 (RK4 (vlin (1#5) (-1)) 1 1 0 100 0 100) 7 4) == 7 + 2 * ((1#5) + (1#50) + (1#750) + (1#15000)).
Proof. vm_compute. reflexivity. Qed.
