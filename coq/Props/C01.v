(** C01 — Advection integrates the velocity field with the scheme's order of accuracy.

    Full statement of the property's second sentence:
      for every smooth velocity field the end point of a trajectory computed with EF / RK2 / RK4
      converges to the exact flow map with order 1 / 2 / 4 when the time step is refined.
    Status: PROVED for Euler forward (T7, C01_EF_converges_general, and in two dimensions
    C01_EF_converges_general_2d: every field Lipschitz in space, every twice differentiable solution, explicit
    constant) and for RK2 (T8, C01_RK2_converges_general: every time-dependent scalar field with bounded partial
    derivatives up to order two; the local truncation bound is derived) and for RK4 on autonomous scalar fields
    with four bounded derivatives and on position-independent fields (T9, C01_RK4_converges_autonomous,
    C01_RK4_quadrature_converges; local truncation bound derived).  For RK4 on general TIME-DEPENDENT
    position-dependent fields, and for RK2/RK4 in two dimensions, the stability half and the Lax-type theorem
    are proved and the order follows from ONE remaining hypothesis, the local truncation bound of the scheme
    along the exact solution (C01_RK_converges_general_partial, C01_general_convergence_2d).  In general that
    bound needs Butcher's theorem (order
    conditions => local error O(h^(p+1)) for arbitrary C^(p+1) fields), which is not available in the installed
    libraries; it is proved here for linear fields and for pure time quadrature.
    What is proved: T1 the step IS the Runge-Kutta step of the scheme's Butcher tableau with the stage
    velocities taken at the stage positions and fractional times (first sentence of the property,
    exactly); T2 the tableaux satisfy all order conditions through order 1 / 2 / 4; T3 exactness to
    order p on linear fields; T4 exactness as quadrature rules in time (degree 0 / 1 / 3);
    T5 the same for ladim.analytical.get_velocity1/2/4 (get_velocity2 for every s <> 0);
    T6 convergence with order p (explicit error constant) on every linear field;
    T7 consistency + stability => convergence for arbitrary Lipschitz fields (scalar case). *)
From Coq Require Import ZArith QArith List Bool Reals Qreals.
From Ladim Require Import Base.Num Model.Tracker Proofs.TrackerProofs Proofs.SchemeProofs Proofs.ConvergenceProofs Model.ForcingTime Proofs.ComposeTimeProofs.
Import ListNotations.
Open Scope Q_scope.

(** T1 — for every velocity oracle (respecting equality of rationals), position, metric (dt/dx, dt/dy)
    such that the stage positions lie in the clip box *)
Theorem C01_ef_is_tableau_step : forall vel,
  (forall c x x' y y', x == x' -> y == y' -> peq (vel c x y) (vel c x' y')) ->
  forall dtdx dtdy x y, peq (candidate dtdx dtdy (EF vel) x y) (rk_generic vel dtdx dtdy tab_EF x y).
Proof. exact ef_is_tableau. Qed.
Print Assumptions C01_ef_is_tableau_step.
Theorem C01_rk2_is_tableau_step : forall vel,
  (forall c x x' y y', x == x' -> y == y' -> peq (vel c x y) (vel c x' y')) ->
  forall dtdx dtdy xlo xhi ylo yhi x y,
  in_box xlo xhi ylo yhi (rk2_stage1 vel dtdx dtdy x y) ->
  peq (candidate dtdx dtdy (RK2 vel dtdx dtdy xlo xhi ylo yhi) x y) (rk_generic vel dtdx dtdy tab_RK2 x y).
Proof. exact rk2_is_tableau. Qed.
Print Assumptions C01_rk2_is_tableau_step.
Theorem C01_rk4_is_tableau_step : forall vel,
  (forall c x x' y y', x == x' -> y == y' -> peq (vel c x y) (vel c x' y')) ->
  forall dtdx dtdy xlo xhi ylo yhi x y,
  in_box xlo xhi ylo yhi (rk4_stage1 vel dtdx dtdy x y) ->
  in_box xlo xhi ylo yhi (rk4_stage2 vel dtdx dtdy xlo xhi ylo yhi x y) ->
  in_box xlo xhi ylo yhi (rk4_stage3 vel dtdx dtdy xlo xhi ylo yhi x y) ->
  peq (candidate dtdx dtdy (RK4 vel dtdx dtdy xlo xhi ylo yhi) x y) (rk_generic vel dtdx dtdy tab_RK4 x y).
Proof. exact rk4_is_tableau. Qed.
Print Assumptions C01_rk4_is_tableau_step.
(** near the open boundary the stage positions are clipped: the velocity is never sampled outside the box *)
Theorem C01_stage_positions_clipped : forall xlo xhi ylo yhi p, xlo <= xhi -> ylo <= yhi ->
  in_box xlo xhi ylo yhi (clip2 xlo xhi ylo yhi p).
Proof. exact clip2_in_box. Qed.
Print Assumptions C01_stage_positions_clipped.

(** T2 — order conditions: EF exactly order 1, RK2 (midpoint, as coded) exactly order 2, RK4 order 4 *)
Theorem C01_tableau_orders :
  order1 tab_EF = true /\ order2 tab_EF = false /\ order2 tab_RK2 = true /\ order3 tab_RK2 = false /\
  order4 tab_RK4 = true.
Proof. exact tableau_orders. Qed.
Print Assumptions C01_tableau_orders.

(** T3 — linear field u = lam*x + mu: degree-p Taylor polynomial of the exact solution, z = lam*dt/dx *)
Theorem C01_rk_linear_exact_to_order : forall lam mu dtdx dtdy x y,
  fst (rk_generic (vlin lam mu) dtdx dtdy tab_EF x y) == x + (lam * x + mu) * dtdx /\
  fst (rk_generic (vlin lam mu) dtdx dtdy tab_RK2 x y) == x + (lam * x + mu) * dtdx * (1 + lam * dtdx / 2) /\
  fst (rk_generic (vlin lam mu) dtdx dtdy tab_RK4 x y) ==
    x + (lam * x + mu) * dtdx * (1 + lam * dtdx / 2 + (lam * dtdx) * (lam * dtdx) / 6
                                 + (lam * dtdx) * (lam * dtdx) * (lam * dtdx) / 24).
Proof.
  intros lam mu dtdx dtdy x y.
  exact (conj (ef_linear lam mu dtdx dtdy x y) (conj (rk2_linear lam mu dtdx dtdy x y) (rk4_linear lam mu dtdx dtdy x y))).
Qed.
Print Assumptions C01_rk_linear_exact_to_order.

(** T4 — time-dependent field u(f), f the fraction of the step: exact integrals *)
Theorem C01_rk_quadrature_exact : forall a b c d dtdx dtdy x y,
  fst (rk_generic (vt0 a) dtdx dtdy tab_EF x y) == x + a * dtdx /\
  fst (rk_generic (vt1 a b) dtdx dtdy tab_RK2 x y) == x + (a + b / 2) * dtdx /\
  fst (rk_generic (vt3 a b c d) dtdx dtdy tab_RK4 x y) == x + (a + b / 2 + c / 3 + d / 4) * dtdx.
Proof.
  intros a b c d dtdx dtdy x y.
  exact (conj (ef_quadrature a dtdx dtdy x y) (conj (rk2_quadrature a b dtdx dtdy x y) (rk4_quadrature a b c d dtdx dtdy x y))).
Qed.
Print Assumptions C01_rk_quadrature_exact.

(** T5 — ladim.analytical: order conditions of the get_velocity2 family for every s <> 0, and the
    Taylor polynomials on linear fields *)
Theorem C01_analytical_gv2_order2 : forall s, ~ s == 0 ->
  qsum (tb (tab_gv2 s)) == 1 /\ dot (tb (tab_gv2 s)) (tc (tab_gv2 s)) == 1#2.
Proof. exact gv2_order2. Qed.
Print Assumptions C01_analytical_gv2_order2.
Theorem C01_analytical_linear : forall lam mu dt x y,
  fst (get_velocity1 (slin lam mu) x y) == lam * x + mu /\
  (forall s, ~ s == 0 -> fst (get_velocity2 (slin lam mu) dt s x y) == (lam * x + mu) * (1 + lam * dt / 2)) /\
  fst (get_velocity4 (slin lam mu) dt x y) ==
    (lam * x + mu) * (1 + lam * dt / 2 + (lam * dt) * (lam * dt) / 6 + (lam * dt) * (lam * dt) * (lam * dt) / 24).
Proof.
  intros lam mu dt x y.
  exact (conj (gv1_linear lam mu x y) (conj (fun s H => gv2_linear lam mu dt s x y H) (gv4_linear lam mu dt x y))).
Qed.
Print Assumptions C01_analytical_linear.

(** T6 — convergence with order p on every LINEAR field u = lam*x + mu (lam <> 0): n steps of the model's
    Runge-Kutta step with dt/dx = T/n, compared with the exact solution of dx/dt = lam*x + mu at time T;
    the end-point error is bounded by C/n^p with the explicit constant C = |x0 + mu/lam| |lam T|^(p+1) e^|lam T| / (p+1)!.
    (Real-number axioms of the standard library appear in Print Assumptions.)  At the level of the stability
    polynomials the bound holds for every order p ([C01_conv_order]). *)
Theorem C01_linear_convergence_EF : forall (lam mu T dtdy x0 y0 : Q) (n : nat),
  ~ lam == 0 -> (1 <= n)%nat ->
  (Rabs (Q2R (fst (rk_iter (vlin lam mu) (T / inject_Z (Z.of_nat n)) dtdy tab_EF n x0 y0)) - exact_end lam mu T x0)
   <= Rabs (Q2R x0 + Q2R mu / Q2R lam) *
      (Rabs (Q2R lam * Q2R T) ^ 2 * exp (Rabs (Q2R lam * Q2R T)) / 2 / INR n ^ 1))%R.
Proof. exact model_conv_EF. Qed.
Print Assumptions C01_linear_convergence_EF.
Theorem C01_linear_convergence_RK2 : forall (lam mu T dtdy x0 y0 : Q) (n : nat),
  ~ lam == 0 -> (1 <= n)%nat ->
  (Rabs (Q2R (fst (rk_iter (vlin lam mu) (T / inject_Z (Z.of_nat n)) dtdy tab_RK2 n x0 y0)) - exact_end lam mu T x0)
   <= Rabs (Q2R x0 + Q2R mu / Q2R lam) *
      (Rabs (Q2R lam * Q2R T) ^ 3 * exp (Rabs (Q2R lam * Q2R T)) / 6 / INR n ^ 2))%R.
Proof. exact model_conv_RK2. Qed.
Print Assumptions C01_linear_convergence_RK2.
Theorem C01_linear_convergence_RK4 : forall (lam mu T dtdy x0 y0 : Q) (n : nat),
  ~ lam == 0 -> (1 <= n)%nat ->
  (Rabs (Q2R (fst (rk_iter (vlin lam mu) (T / inject_Z (Z.of_nat n)) dtdy tab_RK4 n x0 y0)) - exact_end lam mu T x0)
   <= Rabs (Q2R x0 + Q2R mu / Q2R lam) *
      (Rabs (Q2R lam * Q2R T) ^ 5 * exp (Rabs (Q2R lam * Q2R T)) / 120 / INR n ^ 4))%R.
Proof. exact model_conv_RK4. Qed.
Print Assumptions C01_linear_convergence_RK4.
Theorem C01_conv_order : forall p z n, (1 <= n)%nat ->
  (Rabs (Tp p (z / INR n) ^ n - exp z) <= Cconv p z / INR n ^ p)%R.
Proof. exact conv_order. Qed.
Print Assumptions C01_conv_order.

(** T1 composed with C03 ("using the velocity the forcing supplies at the intermediate ... fractional times of
    that scheme"): for EVERY frame layout, file split, run length and direction covered by C03 and a spatially
    uniform field, with the velocity the forcing machine supplies at fractions 0, 1/2, 1 the EF displacement of
    step n is v(n)*dt/dx and the RK2 and RK4 displacements are the EXACT time integral of the time-interpolated
    forcing over the step, (v(n) + v(n+1))/2 * dt/dx (sign flipped under time reversal) *)
Theorem C01_C03_exact_time_integral : forall (raw : list frame) (D : disk) (hs rv : bool) (n : Z)
    (dtdx dtdy xlo xhi ylo yhi x y : Q),
  nodupb (map fstep raw) = true -> readable raw D = true -> covers raw n = true -> (0 <= n)%Z ->
  exists st v0 v1,
    state_at (mk_tables raw) D hs n = Some st /\
    lerp_spec (upts raw D) (inject_Z n + 0) = Some v0 /\ lerp_spec (upts raw D) (inject_Z n + 1) = Some v1 /\
    let s := (if rv then -1 else 1) in
    fst (candidate dtdx dtdy (EF (fvel st rv)) x y) == x + s * v0 * dtdx /\
    fst (candidate dtdx dtdy (RK2 (fvel st rv) dtdx dtdy xlo xhi ylo yhi) x y) == x + s * ((v0 + v1) / 2) * dtdx /\
    fst (candidate dtdx dtdy (RK4 (fvel st rv) dtdx dtdy xlo xhi ylo yhi) x y) == x + s * ((v0 + v1) / 2) * dtdx.
Proof. exact rk_exact_time_integral. Qed.
Print Assumptions C01_C03_exact_time_integral.

(** the conjunction that stands for the property; the convergence clause for arbitrary smooth fields
    is the missing part (see the header) *)
Definition C01_order_partial := (C01_rk4_is_tableau_step, C01_tableau_orders, C01_rk_linear_exact_to_order,
                                 C01_rk_quadrature_exact).

(** non-vacuity: u = x/5 - 1 (grid units per step), one RK4 step from x = 7 is 7 + 2*(z + z^2/2 + z^3/6 + z^4/24), z = 1/5 *)
Example C01_ex :
  fst (candidate 1 1 (RK4 (vlin (1#5) (-1)) 1 1 0 100 0 100) 7 4) == 7 + 2 * ((1#5) + (1#50) + (1#750) + (1#15000)).
Proof. vm_compute. reflexivity. Qed.

(** * T7 — convergence for ARBITRARY (non-linear, time-dependent) fields, Lipschitz in space (scalar case)

    Proofs/GeneralConvergenceProofs.v: the classical "consistency + stability => convergence" theorem.
    [one_step_iter Phi h t0 n x0] iterates x_{k+1} = x_k + h * Phi (t0 + k h) x_k; [Phi_EF], [Phi_RK2],
    [Phi_RK4] are the increment functions of the three schemes over R, and the model's step IS such a step
    ([C01_model_steps_are_real_steps]).  Real-number axioms of the standard library / Coquelicot appear in
    Print Assumptions. *)
From Coq Require Import Reals Qreals.
From Coquelicot Require Import Coquelicot.
From Ladim Require Import Proofs.GeneralConvergenceProofs.

(** stability: the increment functions of RK2 and RK4 are Lipschitz in x with explicit constants
    L (1 + hL/2) and L (1 + hL/2 + (hL)^2/6 + (hL)^3/24) whenever the field is L-Lipschitz *)
Theorem C01_general_stability : forall (f : R -> R -> R) (h L : R), (0 <= h)%R -> (0 <= L)%R ->
  (forall t x x' : R, Rabs (f t x - f t x') <= L * Rabs (x - x'))%R ->
  forall t x x' : R,
    (Rabs (Phi_RK2 f h t x - Phi_RK2 f h t x') <= Lip_RK2 h L * Rabs (x - x'))%R /\
    (Rabs (Phi_RK4 f h t x - Phi_RK4 f h t x') <= Lip_RK4 h L * Rabs (x - x'))%R.
Proof.
  intros f h L Hh HL Hf t x x'.
  exact (conj (Phi_RK2_lipschitz f h L Hh HL Hf t x x') (Phi_RK4_lipschitz f h L Hh HL Hf t x x')).
Qed.
Print Assumptions C01_general_stability.

(** consistency + stability => convergence with the order of the local error, for any one-step method *)
Theorem C01_general_convergence : forall (Phi : R -> R -> R) (h Lam t0 : R) (y : R -> R),
  (0 < h)%R -> (0 <= Lam)%R ->
  (forall t x x' : R, Rabs (Phi t x - Phi t x') <= Lam * Rabs (x - x'))%R ->
  forall (n p : nat) (C T x0 : R), (0 <= C)%R -> x0 = y t0 -> (INR n * h = T)%R ->
  (forall k : nat, (k < n)%nat ->
     Rabs (y (t0 + INR (S k) * h) - y (t0 + INR k * h) - h * Phi (t0 + INR k * h) (y (t0 + INR k * h))) <= C * h ^ S p)%R ->
  (Rabs (one_step_iter Phi h t0 n x0 - y (t0 + T)) <= exp (T * Lam) * T * C * h ^ p)%R.
Proof. exact generic_order_p. Qed.
Print Assumptions C01_general_convergence.

(** Euler forward, COMPLETE: for every field L-Lipschitz in x and every twice differentiable solution y of
    y' = f(t, y) with |y''| <= M on [t0, t0+T], n steps of size h = T/n end within exp(TL) T M/2 * h of y(t0+T):
    first order, with an explicit constant; the bound is attained ([C01_EF_general_ex]) *)
Theorem C01_EF_converges_general : forall (f : R -> R -> R) (y : R -> R) (h L M t0 T : R) (n : nat),
  (0 < h)%R -> (0 <= L)%R -> (INR n * h = T)%R ->
  (forall t x x' : R, Rabs (f t x - f t x') <= L * Rabs (x - x'))%R ->
  (forall t : R, (t0 <= t <= t0 + T)%R -> Derive.ex_derive y t) ->
  (forall t : R, (t0 <= t <= t0 + T)%R -> Derive.ex_derive (Derive.Derive y) t) ->
  (forall t : R, (t0 <= t <= t0 + T)%R -> Derive.Derive y t = f t (y t)) ->
  (forall t : R, (t0 <= t <= t0 + T)%R -> (Rabs (Derive.Derive_n y 2 t) <= M)%R) ->
  (Rabs (one_step_iter (Phi_EF f) h t0 n (y t0) - y (t0 + T)) <= exp (T * L) * T * (M / 2) * h)%R.
Proof. exact EF_converges_order1. Qed.
Print Assumptions C01_EF_converges_general.
Example C01_EF_general_ex : forall (n : nat) (h T : R), (0 < h)%R -> (INR n * h = T)%R ->
  (Rabs (one_step_iter (Phi_EF (fun t _ : R => t)) h 0 n 0 - T ^ 2 / 2) <= T * / 2 * h)%R.
Proof. exact EF_example. Qed.

(** RK2 and RK4, PARTIAL: orders 2 and 4 for every L-Lipschitz field GIVEN the local truncation bound
    C h^3 resp. C h^5 of the scheme along the exact solution.  That bound is what Taylor's theorem gives for
    sufficiently smooth fields (the tableaux satisfy the order conditions, C01_tableau_orders); it is not
    derived here for general f — it is proved for linear fields (C01_linear_convergence_EF, _RK2, _RK4) and as exact
    quadrature (C01_rk_quadrature_exact).  Missing for the full statement: Butcher's theorem. *)
Theorem C01_RK_converges_general_partial : forall (f : R -> R -> R) (y : R -> R) (h L C t0 T : R) (n : nat),
  (0 < h)%R -> (0 <= L)%R -> (0 <= C)%R -> (INR n * h = T)%R ->
  (forall t x x' : R, Rabs (f t x - f t x') <= L * Rabs (x - x'))%R ->
  ((forall k : nat, (k < n)%nat ->
      Rabs (y (t0 + INR (S k) * h) - y (t0 + INR k * h) - h * Phi_RK2 f h (t0 + INR k * h) (y (t0 + INR k * h))) <= C * h ^ 3)%R ->
   (Rabs (one_step_iter (Phi_RK2 f h) h t0 n (y t0) - y (t0 + T)) <= exp (T * Lip_RK2 h L) * T * C * h ^ 2)%R) /\
  ((forall k : nat, (k < n)%nat ->
      Rabs (y (t0 + INR (S k) * h) - y (t0 + INR k * h) - h * Phi_RK4 f h (t0 + INR k * h) (y (t0 + INR k * h))) <= C * h ^ 5)%R ->
   (Rabs (one_step_iter (Phi_RK4 f h) h t0 n (y t0) - y (t0 + T)) <= exp (T * Lip_RK4 h L) * T * C * h ^ 4)%R).
Proof.
  intros f y h L C t0 T n Hh HL HC HT Hf. split; intro H.
  - exact (RK2_converges_order2 f y h L C t0 T n Hh HL HC HT Hf H).
  - exact (RK4_converges_order4 f y h L C t0 T n Hh HL HC HT Hf H).
Qed.
Print Assumptions C01_RK_converges_general_partial.

(** the rational model's steps ARE these real steps: for a velocity oracle whose x-component agrees through
    Q2R with the real field at the fractional times of the scheme *)
Theorem C01_model_steps_are_real_steps : forall (vel : Q -> Q -> Q -> Q * Q) (dtdx dtdy : Q) (f : R -> R -> R) (tk : R),
  (forall s x y : Q, Q2R (fst (vel s x y)) = f (tk + Q2R s * Q2R dtdx)%R (Q2R x)) ->
  forall x y : Q,
    Q2R (fst (rk_generic vel dtdx dtdy tab_EF x y)) = (Q2R x + Q2R dtdx * Phi_EF f tk (Q2R x))%R /\
    Q2R (fst (rk_generic vel dtdx dtdy tab_RK2 x y)) = (Q2R x + Q2R dtdx * Phi_RK2 f (Q2R dtdx) tk (Q2R x))%R /\
    Q2R (fst (rk_generic vel dtdx dtdy tab_RK4 x y)) = (Q2R x + Q2R dtdx * Phi_RK4 f (Q2R dtdx) tk (Q2R x))%R.
Proof.
  intros vel dtdx dtdy f tk H x y.
  exact (conj (model_EF_step vel dtdx dtdy f tk H x y)
              (conj (model_RK2_step vel dtdx dtdy f tk H x y) (model_RK4_step vel dtdx dtdy f tk H x y))).
Qed.
Print Assumptions C01_model_steps_are_real_steps.

(** ... and n Euler-forward steps of the MODEL converge with order 1 to the exact solution *)
Theorem C01_model_EF_converges_general : forall (vel : Q -> Q -> Q -> Q * Q) (dtdx dtdy x0 y0 : Q) (f : R -> R -> R)
    (y : R -> R) (L t0 T : R) (n : nat),
  (0 < Q2R dtdx)%R -> (0 <= L)%R -> (INR n * Q2R dtdx = T)%R ->
  (forall t x x' : R, Rabs (f t x - f t x') <= L * Rabs (x - x'))%R ->
  (forall (k : nat) (s x y1 : Q), Q2R (fst (vel s x y1)) = f (t0 + INR k * Q2R dtdx + Q2R s * Q2R dtdx)%R (Q2R x)) ->
  Q2R x0 = y t0 ->
  forall M : R,
  (forall t : R, (t0 <= t <= t0 + T)%R -> Derive.ex_derive y t) ->
  (forall t : R, (t0 <= t <= t0 + T)%R -> Derive.ex_derive (Derive.Derive y) t) ->
  (forall t : R, (t0 <= t <= t0 + T)%R -> Derive.Derive y t = f t (y t)) ->
  (forall t : R, (t0 <= t <= t0 + T)%R -> (Rabs (Derive.Derive_n y 2 t) <= M)%R) ->
  (Rabs (Q2R (fst (rk_iter vel dtdx dtdy tab_EF n x0 y0)) - y (t0 + T)) <= exp (T * L) * T * (M / 2) * Q2R dtdx)%R.
Proof. exact model_EF_converges_order1. Qed.
Print Assumptions C01_model_EF_converges_general.

(** * T8 — RK2 (explicit midpoint) COMPLETE for smooth fields, and the two-dimensional versions of T7
    (Proofs/RK2TruncationProofs.v, Proofs/GeneralConvergence2DProofs.v) *)
From Ladim Require Import Proofs.RK2TruncationProofs Proofs.GeneralConvergence2DProofs.

(** RK2, COMPLETE (scalar, time-dependent field): for every field with bounded partial derivatives up to the
    second order and every solution y of y' = f(t, y) on [t0, t0+T], n midpoint steps of size h = T/n end within
    exp(T * Lip_RK2 h Bx) * T * C * h^2 of y(t0+T), with the explicit constant C = C_RK2n(bounds).  The local
    truncation bound C h^3 is DERIVED here (Taylor-Lagrange on y to second order and on f to first order); no
    hypothesis on the scheme remains.  Non-vacuity: [C01_RK2_general_ex], f t x = 1 + sin (x - t). *)
Theorem C01_RK2_converges_general : forall (f ft fx ftt ftx fxt fxx : R -> R -> R) (B0 Bt Bx Btt Btx Bxt Bxx : R),
  (forall t x : R, differentiable_pt_lim f t x (ft t x) (fx t x)) ->
  (forall t x : R, differentiable_pt_lim ft t x (ftt t x) (ftx t x)) ->
  (forall t x : R, differentiable_pt_lim fx t x (fxt t x) (fxx t x)) ->
  (forall t x : R, Rabs (f t x) <= B0)%R -> (forall t x : R, Rabs (ft t x) <= Bt)%R ->
  (forall t x : R, Rabs (fx t x) <= Bx)%R -> (forall t x : R, Rabs (ftt t x) <= Btt)%R ->
  (forall t x : R, Rabs (ftx t x) <= Btx)%R -> (forall t x : R, Rabs (fxt t x) <= Bxt)%R ->
  (forall t x : R, Rabs (fxx t x) <= Bxx)%R ->
  forall (y : R -> R) (h t0 T : R) (n : nat), (0 < h)%R -> (INR n * h = T)%R ->
  (forall t : R, (t0 <= t <= t0 + T)%R -> is_derive y t (f t (y t))) ->
  (Rabs (one_step_iter (Phi_RK2 f h) h t0 n (y t0) - y (t0 + T)) <=
   exp (T * Lip_RK2 h Bx) * T * C_RK2n B0 Bt Bx Btt Btx Bxt Bxx * h ^ 2)%R.
Proof. exact RK2_nonautonomous_converges_order2. Qed.
Print Assumptions C01_RK2_converges_general.
Example C01_RK2_general_ex : forall (n : nat) (h T : R), (0 < h)%R -> (INR n * h = T)%R ->
  (Rabs (one_step_iter (Phi_RK2 (fun t x : R => 1 + sin (x - t)) h) h 0 n (PI / 2) - (T + 2 * atan (exp T))) <=
   exp (T * Lip_RK2 h 1) * T * (25 / 8) * h ^ 2)%R.
Proof. exact RK2_shift_example. Qed.

(** ... at the level of the rational MODEL (autonomous fields, for which one oracle serves all steps) *)
Theorem C01_model_RK2_converges : forall (g : R -> R) (B0 B1 B2 : R),
  (forall x : R, ex_derive g x) -> (forall x : R, ex_derive (Derive g) x) ->
  (forall x : R, Rabs (g x) <= B0)%R -> (forall x : R, Rabs (Derive g x) <= B1)%R ->
  (forall x : R, Rabs (Derive_n g 2 x) <= B2)%R ->
  forall (vel : Q -> Q -> Q -> Q * Q) (dtdx dtdy x0 y0 : Q) (y : R -> R) (t0 T : R) (n : nat),
  (0 < Q2R dtdx)%R -> (INR n * Q2R dtdx = T)%R ->
  (forall s x y' : Q, Q2R (fst (vel s x y')) = g (Q2R x)) -> Q2R x0 = y t0 ->
  (forall t : R, (t0 <= t <= t0 + T)%R -> is_derive y t (g (y t))) ->
  (Rabs (Q2R (fst (rk_iter vel dtdx dtdy tab_RK2 n x0 y0)) - y (t0 + T)) <=
   exp (T * Lip_RK2 (Q2R dtdx) B1) * T * C_RK2 B0 B1 B2 * Q2R dtdx ^ 2)%R.
Proof. exact model_RK2_autonomous_converges_order2. Qed.
Print Assumptions C01_model_RK2_converges.

(** TWO space dimensions (the model's actual state), max-norm, separate metric factors hx = dt/dx, hy = dt/dy:
    stability of the three increment functions, the Lax-type theorem, and Euler forward complete *)
Theorem C01_general_stability_2d : forall (f : R -> pt -> pt) (hx hy ht L : R), (0 <= hx)%R -> (0 <= hy)%R -> (0 <= L)%R ->
  (forall (t : R) (p q : pt), norm2 (psub (f t p) (f t q)) <= L * norm2 (psub p q))%R ->
  forall (t : R) (p q : pt),
    (norm2 (psub (Phi_RK2_2d f hx hy ht t p) (Phi_RK2_2d f hx hy ht t q)) <= Lip_RK2 (Rmax hx hy) L * norm2 (psub p q))%R /\
    (norm2 (psub (Phi_RK4_2d f hx hy ht t p) (Phi_RK4_2d f hx hy ht t q)) <= Lip_RK4 (Rmax hx hy) L * norm2 (psub p q))%R.
Proof.
  intros f hx hy ht L Hx Hy HL Hf t p q.
  exact (conj (Phi_RK2_2d_lipschitz f hx hy ht L Hx Hy HL Hf t p q) (Phi_RK4_2d_lipschitz f hx hy ht L Hx Hy HL Hf t p q)).
Qed.
Print Assumptions C01_general_stability_2d.
Theorem C01_general_convergence_2d : forall (Phi : R -> pt -> pt) (hx hy ht Lam t0 : R) (y : R -> pt),
  (0 < hx)%R -> (0 < hy)%R -> (0 <= Lam)%R ->
  (forall (t : R) (p q : pt), norm2 (psub (Phi t p) (Phi t q)) <= Lam * norm2 (psub p q))%R ->
  forall (n p : nat) (C T : R) (p0 : pt), (0 < ht)%R -> (0 <= C)%R -> p0 = y t0 -> (INR n * ht = T)%R ->
  (forall k : nat, (k < n)%nat -> norm2 (local_err2 Phi hx hy ht t0 y k) <= C * ht ^ S p)%R ->
  (norm2 (psub (one_step_iter2 Phi hx hy ht t0 n p0) (y (t0 + T))) <= exp (T * (Rmax hx hy / ht * Lam)) * T * C * ht ^ p)%R.
Proof. exact generic_order_p_2d. Qed.
Print Assumptions C01_general_convergence_2d.
Theorem C01_EF_converges_general_2d : forall (f : R -> pt -> pt) (y : R -> pt) (hx hy ht L M t0 T : R) (n : nat),
  (0 < hx)%R -> (0 < hy)%R -> (0 < ht)%R -> (0 <= L)%R -> (INR n * ht = T)%R ->
  (forall (t : R) (p q : pt), norm2 (psub (f t p) (f t q)) <= L * norm2 (psub p q))%R ->
  (forall t : R, (t0 <= t <= t0 + T)%R -> ex_derive (fun s : R => fst (y s)) t) ->
  (forall t : R, (t0 <= t <= t0 + T)%R -> ex_derive (fun s : R => snd (y s)) t) ->
  (forall t : R, (t0 <= t <= t0 + T)%R -> ex_derive (Derive (fun s : R => fst (y s))) t) ->
  (forall t : R, (t0 <= t <= t0 + T)%R -> ex_derive (Derive (fun s : R => snd (y s))) t) ->
  (forall t : R, (t0 <= t <= t0 + T)%R -> Derive (fun s : R => fst (y s)) t = (hx / ht * fst (f t (y t)))%R) ->
  (forall t : R, (t0 <= t <= t0 + T)%R -> Derive (fun s : R => snd (y s)) t = (hy / ht * snd (f t (y t)))%R) ->
  (forall t : R, (t0 <= t <= t0 + T)%R -> (Rabs (Derive_n (fun s : R => fst (y s)) 2 t) <= M)%R) ->
  (forall t : R, (t0 <= t <= t0 + T)%R -> (Rabs (Derive_n (fun s : R => snd (y s)) 2 t) <= M)%R) ->
  (norm2 (psub (one_step_iter2 (Phi_EF2 f) hx hy ht t0 n (y t0)) (y (t0 + T))) <=
   exp (T * (Rmax hx hy / ht * L)) * T * (M / 2) * ht)%R.
Proof. exact EF2_converges_order1. Qed.
Print Assumptions C01_EF_converges_general_2d.
(** the model's 2-D steps ARE these real 2-D steps (RK4 shown; EF and RK2 likewise in the proofs file) *)
Theorem C01_model_step_is_real_step_2d : forall (vel : Q -> Q -> Q -> Q * Q) (dtdx dtdy : Q) (f : R -> pt -> pt) (tk ht : R),
  (forall s x y : Q, Q2R (fst (vel s x y)) = fst (f (tk + Q2R s * ht)%R (Q2R x, Q2R y))) ->
  (forall s x y : Q, Q2R (snd (vel s x y)) = snd (f (tk + Q2R s * ht)%R (Q2R x, Q2R y))) ->
  forall x y : Q,
  Q2R2 (rk_generic vel dtdx dtdy tab_RK4 x y) =
  padd (Q2R x, Q2R y) (pscale2 (Q2R dtdx) (Q2R dtdy) (Phi_RK4_2d f (Q2R dtdx) (Q2R dtdy) ht tk (Q2R x, Q2R y))).
Proof. exact model_RK4_step2. Qed.
Print Assumptions C01_model_step_is_real_step_2d.

(** * T9 — RK4 COMPLETE for smooth autonomous fields and for pure quadrature (Proofs/RK4TruncationProofs.v) *)
From Ladim Require Import Proofs.RK4TruncationProofs.

(** classical RK4, COMPLETE (scalar, autonomous field g whose derivatives up to the fourth are globally bounded
    by B0..B4): for every solution y of y' = g(y) on [t0, t0+T], n steps of size h = T/n end within
    exp(T * Lip_RK4 h B1) * T * C_RK4a(B0..B4) * h^4 of y(t0+T).  The local truncation bound C h^5 is DERIVED:
    y is expanded to fourth order with Lagrange remainder (its derivatives are the elementary differentials of g),
    every stage is expanded in its increment, and ONE polynomial identity — where the order conditions of the
    tableau enter — cancels the terms through h^4.  No hypothesis on the scheme remains.
    Non-vacuity: [C01_RK4_general_ex], g = sin, y = 2 atan(exp t). *)
Theorem C01_RK4_converges_autonomous : forall (g g1 g2 g3 g4 : R -> R) (B0 B1 B2 B3 B4 : R),
  (forall x, is_derive g x (g1 x)) -> (forall x, is_derive g1 x (g2 x)) ->
  (forall x, is_derive g2 x (g3 x)) -> (forall x, is_derive g3 x (g4 x)) ->
  (forall x : R, Rabs (g x) <= B0)%R -> (forall x : R, Rabs (g1 x) <= B1)%R -> (forall x : R, Rabs (g2 x) <= B2)%R ->
  (forall x : R, Rabs (g3 x) <= B3)%R -> (forall x : R, Rabs (g4 x) <= B4)%R ->
  forall (y : R -> R) (h t0 T : R) (n : nat), (0 < h)%R -> (INR n * h)%R = T ->
  (forall t : R, (t0 <= t <= t0 + T)%R -> is_derive y t (g (y t))) ->
  (Rabs (one_step_iter (Phi_RK4 (fun _ x : R => g x) h) h t0 n (y t0) - y (t0 + T)) <=
   exp (T * Lip_RK4 h B1) * T * C_RK4a B0 B1 B2 B3 B4 * h ^ 4)%R.
Proof. exact RK4_autonomous_converges_order4. Qed.
Print Assumptions C01_RK4_converges_autonomous.
Example C01_RK4_general_ex : forall (n : nat) (h T : R), (0 < h)%R -> (INR n * h)%R = T ->
  (Rabs (one_step_iter (Phi_RK4 (fun _ x : R => sin x) h) h 0 n (PI / 2) - 2 * atan (exp T)) <=
   exp (T * Lip_RK4 h 1) * T * (129 / 320) * h ^ 4)%R.
Proof. exact RK4_sin_example. Qed.

(** ... at the level of the rational MODEL *)
Theorem C01_model_RK4_converges : forall (g : R -> R) (B0 B1 B2 B3 B4 : R),
  (forall (k : nat) (x : R), (k <= 4)%nat -> ex_derive_n g k x) ->
  (forall x : R, Rabs (g x) <= B0)%R -> (forall x : R, Rabs (Derive_n g 1 x) <= B1)%R ->
  (forall x : R, Rabs (Derive_n g 2 x) <= B2)%R -> (forall x : R, Rabs (Derive_n g 3 x) <= B3)%R ->
  (forall x : R, Rabs (Derive_n g 4 x) <= B4)%R ->
  forall (vel : Q -> Q -> Q -> Q * Q) (dtdx dtdy x0 y0 : Q) (y : R -> R) (t0 T : R) (n : nat),
  (0 < Q2R dtdx)%R -> (INR n * Q2R dtdx)%R = T ->
  (forall s x y' : Q, Q2R (fst (vel s x y')) = g (Q2R x)) -> Q2R x0 = y t0 ->
  (forall t : R, (t0 <= t <= t0 + T)%R -> is_derive y t (g (y t))) ->
  (Rabs (Q2R (fst (rk_iter vel dtdx dtdy tab_RK4 n x0 y0)) - y (t0 + T)) <=
   exp (T * Lip_RK4 (Q2R dtdx) B1) * T * C_RK4a B0 B1 B2 B3 B4 * Q2R dtdx ^ 4)%R.
Proof. exact model_RK4_autonomous_converges_order4. Qed.
Print Assumptions C01_model_RK4_converges.

(** RK4 on fields that do not depend on the position (Simpson's rule), COMPLETE: fourth order with constant 49/2880 B4 *)
Theorem C01_RK4_quadrature_converges : forall (q : R -> R) (B4 : R),
  (forall (k : nat) (x : R), (k <= 4)%nat -> ex_derive_n q k x) -> (forall x : R, Rabs (Derive_n q 4 x) <= B4)%R ->
  forall (y : R -> R) (h t0 T : R) (n : nat), (0 < h)%R -> (INR n * h)%R = T ->
  (forall t : R, (t0 <= t <= t0 + T)%R -> is_derive y t (q t)) ->
  (Rabs (one_step_iter (Phi_RK4 (fun t _ : R => q t) h) h t0 n (y t0) - y (t0 + T)) <= T * C_Simpson B4 * h ^ 4)%R.
Proof. exact RK4_quadrature_converges_order4. Qed.
Print Assumptions C01_RK4_quadrature_converges.

(** T10 — the remaining gaps closed: RK4 for general TIME-DEPENDENT, position-dependent scalar fields (all partial
    derivatives up to total order 4 bounded on the strip: local truncation bound C h^5 DERIVED, constant explicit,
    hence order 4 with no truncation hypothesis), for the class the tracker's interpolated field belongs to inside a
    cell and a time bracket (f t x = p t + q t * x, unbounded in x), and RK2 in TWO dimensions for arbitrary
    time-dependent C2 fields (local bound C h^3 derived, fed into the 2-D Lax-type theorem), also at the level of
    the rational model's 2-D step.  Each with a closed example (explicit exact solution) showing that the
    hypotheses are satisfiable.  Remaining hypothesis everywhere: the exact solution is given, not constructed.
    RK4 in two dimensions stays conditional on its local truncation bound (C01_general_convergence_2d). *)
From Ladim Require Import Proofs.RK4NonAutonomousProofs Proofs.RK2Truncation2DProofs.
Section T10.
Local Open Scope R_scope.
Theorem C01_RK4_local_truncation_nonautonomous :
  forall (F : nat -> nat -> R -> R -> R) (B0 B1 B2 B3 B4 t0 T : R),
  (forall (i j : nat) (t x : R),
   (i + j < 4)%nat -> t0 <= t <= t0 + T -> differentiable_pt_lim (F i j) t x (F (S i) j t x) (F i (S j) t x)) ->
  (forall (i j : nat) (t x : R),
   (i + j <= 4)%nat -> t0 <= t <= t0 + T -> Rabs (F i j t x) <= nBd B0 B1 B2 B3 B4 (i + j)) ->
  forall y : R -> R,
  (forall t : R, t0 <= t <= t0 + T -> is_derive y t (F 0%nat 0%nat t (y t))) ->
  forall s h : R,
  0 < h ->
  t0 <= s ->
  s + h <= t0 + T ->
  Rabs (y (s + h) - y s - h * Phi_RK4 (F 0%nat 0%nat) h s (y s)) <= C_RK4n B0 B1 B2 B3 B4 * h ^ 5.
Proof. exact RK4_local_truncation_nonautonomous. Qed.
Print Assumptions C01_RK4_local_truncation_nonautonomous.

Theorem C01_RK4_converges_nonautonomous :
  forall (F : nat -> nat -> R -> R -> R) (B0 B1 B2 B3 B4 t0 T : R),
  (forall (i j : nat) (t x : R),
   (i + j < 4)%nat -> t0 <= t <= t0 + T -> differentiable_pt_lim (F i j) t x (F (S i) j t x) (F i (S j) t x)) ->
  (forall (i j : nat) (t x : R),
   (i + j <= 4)%nat -> t0 <= t <= t0 + T -> Rabs (F i j t x) <= nBd B0 B1 B2 B3 B4 (i + j)) ->
  forall y : R -> R,
  (forall t : R, t0 <= t <= t0 + T -> is_derive y t (F 0%nat 0%nat t (y t))) ->
  forall (n : nat) (h : R),
  0 < h ->
  INR n * h = T ->
  Rabs (one_step_iter (Phi_RK4 (F 0%nat 0%nat) h) h t0 n (y t0) - y (t0 + T)) <=
  exp (T * Lip_RK4 h B1) * T * C_RK4n B0 B1 B2 B3 B4 * h ^ 4.
Proof. exact RK4_converges_nonautonomous. Qed.
Print Assumptions C01_RK4_converges_nonautonomous.

Theorem C01_RK4_converges_affine :
  forall (P Q : nat -> R -> R) (Pm Qm Ym t0 T : R),
  (forall (k : nat) (t : R), (k < 4)%nat -> t0 <= t <= t0 + T -> is_derive (P k) t (P (S k) t)) ->
  (forall (k : nat) (t : R), (k < 4)%nat -> t0 <= t <= t0 + T -> is_derive (Q k) t (Q (S k) t)) ->
  (forall (k : nat) (t : R), (k <= 4)%nat -> t0 <= t <= t0 + T -> Rabs (P k t) <= Pm) ->
  (forall (k : nat) (t : R), (k <= 4)%nat -> t0 <= t <= t0 + T -> Rabs (Q k t) <= Qm) ->
  forall (y : R -> R) (h : R) (n : nat),
  0 < h ->
  INR n * h = T ->
  h * B_aff Pm Qm Ym <= 1 ->
  (forall t : R, t0 <= t <= t0 + T -> is_derive y t (P 0%nat t + Q 0%nat t * y t)) ->
  (forall t : R, t0 <= t <= t0 + T -> Rabs (y t) <= Ym) ->
  Rabs (one_step_iter (Phi_RK4 (fun t x : R => P 0%nat t + Q 0%nat t * x) h) h t0 n (y t0) - y (t0 + T)) <=
  exp (T * Lip_RK4 h Qm) * T *
  C_RK4n (B_aff Pm Qm Ym) (B_aff Pm Qm Ym) (B_aff Pm Qm Ym) (B_aff Pm Qm Ym) (B_aff Pm Qm Ym) * 
  h ^ 4.
Proof. exact RK4_converges_affine. Qed.
Print Assumptions C01_RK4_converges_affine.

Theorem C01_RK4_cos_sin_example :
  forall (n : nat) (h T : R),
  0 < h ->
  INR n * h = T ->
  Rabs (one_step_iter (Phi_RK4 (fun t x : R => cos t * sin x) h) h 0 n (PI / 2) - 2 * atan (exp (sin T))) <=
  exp (T * Lip_RK4 h 1) * T * (91 / 36) * h ^ 4.
Proof. exact RK4_cos_sin_example. Qed.
Print Assumptions C01_RK4_cos_sin_example.

Theorem C01_RK4_cos_x_example :
  forall (n : nat) (h T : R),
  0 < h ->
  h <= / 6 ->
  INR n * h = T ->
  Rabs (one_step_iter (Phi_RK4 (fun t x : R => 0 + cos t * x) h) h 0 n 1 - exp (sin T)) <=
  exp (T * Lip_RK4 h 1) * T * (445445 / 96) * h ^ 4.
Proof. exact RK4_cos_x_example. Qed.
Print Assumptions C01_RK4_cos_x_example.

Theorem C01_RK2_local_truncation_2d :
  forall
    (u ut ux uy utt utx uty uxt uxx uxy uyt uyx uyy v vt vx vy vtt vtx vty vxt vxx vxy vyt vyx
     vyy : R -> R -> R -> R)
    (A0 At Ax Ay Att Atx Aty Axt Axx Axy Ayt Ayx Ayy B0 Bt Bx By Btt Btx Bty Bxt Bxx Bxy Byt Byx Byy : R),
  (forall t x y : R, D3 u t x y (ut t x y) (ux t x y) (uy t x y)) ->
  (forall t x y : R, D3 ut t x y (utt t x y) (utx t x y) (uty t x y)) ->
  (forall t x y : R, D3 ux t x y (uxt t x y) (uxx t x y) (uxy t x y)) ->
  (forall t x y : R, D3 uy t x y (uyt t x y) (uyx t x y) (uyy t x y)) ->
  (forall t x y : R, D3 v t x y (vt t x y) (vx t x y) (vy t x y)) ->
  (forall t x y : R, D3 vt t x y (vtt t x y) (vtx t x y) (vty t x y)) ->
  (forall t x y : R, D3 vx t x y (vxt t x y) (vxx t x y) (vxy t x y)) ->
  (forall t x y : R, D3 vy t x y (vyt t x y) (vyx t x y) (vyy t x y)) ->
  (forall t x y : R, Rabs (u t x y) <= A0) ->
  (forall t x y : R, Rabs (ut t x y) <= At) ->
  (forall t x y : R, Rabs (ux t x y) <= Ax) ->
  (forall t x y : R, Rabs (uy t x y) <= Ay) ->
  (forall t x y : R, Rabs (utt t x y) <= Att) ->
  (forall t x y : R, Rabs (utx t x y) <= Atx) ->
  (forall t x y : R, Rabs (uty t x y) <= Aty) ->
  (forall t x y : R, Rabs (uxt t x y) <= Axt) ->
  (forall t x y : R, Rabs (uxx t x y) <= Axx) ->
  (forall t x y : R, Rabs (uxy t x y) <= Axy) ->
  (forall t x y : R, Rabs (uyt t x y) <= Ayt) ->
  (forall t x y : R, Rabs (uyx t x y) <= Ayx) ->
  (forall t x y : R, Rabs (uyy t x y) <= Ayy) ->
  (forall t x y : R, Rabs (v t x y) <= B0) ->
  (forall t x y : R, Rabs (vt t x y) <= Bt) ->
  (forall t x y : R, Rabs (vx t x y) <= Bx) ->
  (forall t x y : R, Rabs (vy t x y) <= By) ->
  (forall t x y : R, Rabs (vtt t x y) <= Btt) ->
  (forall t x y : R, Rabs (vtx t x y) <= Btx) ->
  (forall t x y : R, Rabs (vty t x y) <= Bty) ->
  (forall t x y : R, Rabs (vxt t x y) <= Bxt) ->
  (forall t x y : R, Rabs (vxx t x y) <= Bxx) ->
  (forall t x y : R, Rabs (vxy t x y) <= Bxy) ->
  (forall t x y : R, Rabs (vyt t x y) <= Byt) ->
  (forall t x y : R, Rabs (vyx t x y) <= Byx) ->
  (forall t x y : R, Rabs (vyy t x y) <= Byy) ->
  forall (sol : R -> pt) (h t0 T : R),
  0 < h ->
  (forall t : R,
   t0 <= t <= t0 + T -> is_derive (fun r : R_AbsRing => fst (sol r)) t (u t (fst (sol t)) (snd (sol t)))) ->
  (forall t : R,
   t0 <= t <= t0 + T -> is_derive (fun r : R_AbsRing => snd (sol r)) t (v t (fst (sol t)) (snd (sol t)))) ->
  forall s : R,
  t0 <= s ->
  s + h <= t0 + T ->
  norm2 (psub (psub (sol (s + h)) (sol s)) (pscale2 h h (Phi_RK2_2d (field2 u v) h h h s (sol s)))) <=
  C_RK2_2d A0 At Ax Ay B0 Bt Bx By Att Atx Aty Axt Axx Axy Ayt Ayx Ayy Btt Btx Bty Bxt Bxx Bxy Byt Byx Byy *
  h ^ 3.
Proof. exact RK2_local_truncation_2d. Qed.
Print Assumptions C01_RK2_local_truncation_2d.

Theorem C01_RK2_converges_general_2d :
  forall
    (u ut ux uy utt utx uty uxt uxx uxy uyt uyx uyy v vt vx vy vtt vtx vty vxt vxx vxy vyt vyx
     vyy : R -> R -> R -> R)
    (A0 At Ax Ay Att Atx Aty Axt Axx Axy Ayt Ayx Ayy B0 Bt Bx By Btt Btx Bty Bxt Bxx Bxy Byt Byx Byy : R),
  (forall t x y : R, D3 u t x y (ut t x y) (ux t x y) (uy t x y)) ->
  (forall t x y : R, D3 ut t x y (utt t x y) (utx t x y) (uty t x y)) ->
  (forall t x y : R, D3 ux t x y (uxt t x y) (uxx t x y) (uxy t x y)) ->
  (forall t x y : R, D3 uy t x y (uyt t x y) (uyx t x y) (uyy t x y)) ->
  (forall t x y : R, D3 v t x y (vt t x y) (vx t x y) (vy t x y)) ->
  (forall t x y : R, D3 vt t x y (vtt t x y) (vtx t x y) (vty t x y)) ->
  (forall t x y : R, D3 vx t x y (vxt t x y) (vxx t x y) (vxy t x y)) ->
  (forall t x y : R, D3 vy t x y (vyt t x y) (vyx t x y) (vyy t x y)) ->
  (forall t x y : R, Rabs (u t x y) <= A0) ->
  (forall t x y : R, Rabs (ut t x y) <= At) ->
  (forall t x y : R, Rabs (ux t x y) <= Ax) ->
  (forall t x y : R, Rabs (uy t x y) <= Ay) ->
  (forall t x y : R, Rabs (utt t x y) <= Att) ->
  (forall t x y : R, Rabs (utx t x y) <= Atx) ->
  (forall t x y : R, Rabs (uty t x y) <= Aty) ->
  (forall t x y : R, Rabs (uxt t x y) <= Axt) ->
  (forall t x y : R, Rabs (uxx t x y) <= Axx) ->
  (forall t x y : R, Rabs (uxy t x y) <= Axy) ->
  (forall t x y : R, Rabs (uyt t x y) <= Ayt) ->
  (forall t x y : R, Rabs (uyx t x y) <= Ayx) ->
  (forall t x y : R, Rabs (uyy t x y) <= Ayy) ->
  (forall t x y : R, Rabs (v t x y) <= B0) ->
  (forall t x y : R, Rabs (vt t x y) <= Bt) ->
  (forall t x y : R, Rabs (vx t x y) <= Bx) ->
  (forall t x y : R, Rabs (vy t x y) <= By) ->
  (forall t x y : R, Rabs (vtt t x y) <= Btt) ->
  (forall t x y : R, Rabs (vtx t x y) <= Btx) ->
  (forall t x y : R, Rabs (vty t x y) <= Bty) ->
  (forall t x y : R, Rabs (vxt t x y) <= Bxt) ->
  (forall t x y : R, Rabs (vxx t x y) <= Bxx) ->
  (forall t x y : R, Rabs (vxy t x y) <= Bxy) ->
  (forall t x y : R, Rabs (vyt t x y) <= Byt) ->
  (forall t x y : R, Rabs (vyx t x y) <= Byx) ->
  (forall t x y : R, Rabs (vyy t x y) <= Byy) ->
  forall (sol : R -> pt) (h t0 T : R),
  0 < h ->
  (forall t : R,
   t0 <= t <= t0 + T -> is_derive (fun r : R_AbsRing => fst (sol r)) t (u t (fst (sol t)) (snd (sol t)))) ->
  (forall t : R,
   t0 <= t <= t0 + T -> is_derive (fun r : R_AbsRing => snd (sol r)) t (v t (fst (sol t)) (snd (sol t)))) ->
  forall n : nat,
  INR n * h = T ->
  norm2 (psub (one_step_iter2 (Phi_RK2_2d (field2 u v) h h h) h h h t0 n (sol t0)) (sol (t0 + T))) <=
  exp (T * Lip_RK2 h (L_2d Ax Ay Bx By)) * T *
  C_RK2_2d A0 At Ax Ay B0 Bt Bx By Att Atx Aty Axt Axx Axy Ayt Ayx Ayy Btt Btx Bty Bxt Bxx Bxy Byt Byx Byy *
  h ^ 2.
Proof. exact RK2_converges_general_2d. Qed.
Print Assumptions C01_RK2_converges_general_2d.

Theorem C01_RK2_converges_general_2d_metric :
  forall
    (u ut ux uy utt utx uty uxt uxx uxy uyt uyx uyy v vt vx vy vtt vtx vty vxt vxx vxy vyt vyx
     vyy : R -> R -> R -> R)
    (A0 At Ax Ay Att Atx Aty Axt Axx Axy Ayt Ayx Ayy B0 Bt Bx By Btt Btx Bty Bxt Bxx Bxy Byt Byx Byy : R),
  (forall t x y : R, D3 u t x y (ut t x y) (ux t x y) (uy t x y)) ->
  (forall t x y : R, D3 ut t x y (utt t x y) (utx t x y) (uty t x y)) ->
  (forall t x y : R, D3 ux t x y (uxt t x y) (uxx t x y) (uxy t x y)) ->
  (forall t x y : R, D3 uy t x y (uyt t x y) (uyx t x y) (uyy t x y)) ->
  (forall t x y : R, D3 v t x y (vt t x y) (vx t x y) (vy t x y)) ->
  (forall t x y : R, D3 vt t x y (vtt t x y) (vtx t x y) (vty t x y)) ->
  (forall t x y : R, D3 vx t x y (vxt t x y) (vxx t x y) (vxy t x y)) ->
  (forall t x y : R, D3 vy t x y (vyt t x y) (vyx t x y) (vyy t x y)) ->
  (forall t x y : R, Rabs (u t x y) <= A0) ->
  (forall t x y : R, Rabs (ut t x y) <= At) ->
  (forall t x y : R, Rabs (ux t x y) <= Ax) ->
  (forall t x y : R, Rabs (uy t x y) <= Ay) ->
  (forall t x y : R, Rabs (utt t x y) <= Att) ->
  (forall t x y : R, Rabs (utx t x y) <= Atx) ->
  (forall t x y : R, Rabs (uty t x y) <= Aty) ->
  (forall t x y : R, Rabs (uxt t x y) <= Axt) ->
  (forall t x y : R, Rabs (uxx t x y) <= Axx) ->
  (forall t x y : R, Rabs (uxy t x y) <= Axy) ->
  (forall t x y : R, Rabs (uyt t x y) <= Ayt) ->
  (forall t x y : R, Rabs (uyx t x y) <= Ayx) ->
  (forall t x y : R, Rabs (uyy t x y) <= Ayy) ->
  (forall t x y : R, Rabs (v t x y) <= B0) ->
  (forall t x y : R, Rabs (vt t x y) <= Bt) ->
  (forall t x y : R, Rabs (vx t x y) <= Bx) ->
  (forall t x y : R, Rabs (vy t x y) <= By) ->
  (forall t x y : R, Rabs (vtt t x y) <= Btt) ->
  (forall t x y : R, Rabs (vtx t x y) <= Btx) ->
  (forall t x y : R, Rabs (vty t x y) <= Bty) ->
  (forall t x y : R, Rabs (vxt t x y) <= Bxt) ->
  (forall t x y : R, Rabs (vxx t x y) <= Bxx) ->
  (forall t x y : R, Rabs (vxy t x y) <= Bxy) ->
  (forall t x y : R, Rabs (vyt t x y) <= Byt) ->
  (forall t x y : R, Rabs (vyx t x y) <= Byx) ->
  (forall t x y : R, Rabs (vyy t x y) <= Byy) ->
  forall (sol : R -> pt) (hx hy ht t0 T : R),
  0 < hx ->
  0 < hy ->
  0 < ht ->
  (forall t : R,
   t0 <= t <= t0 + T ->
   is_derive (fun r : R_AbsRing => fst (sol r)) t (hx / ht * u t (fst (sol t)) (snd (sol t)))) ->
  (forall t : R,
   t0 <= t <= t0 + T ->
   is_derive (fun r : R_AbsRing => snd (sol r)) t (hy / ht * v t (fst (sol t)) (snd (sol t)))) ->
  forall n : nat,
  INR n * ht = T ->
  norm2 (psub (one_step_iter2 (Phi_RK2_2d (field2 u v) hx hy ht) hx hy ht t0 n (sol t0)) (sol (t0 + T))) <=
  exp (T * (Rmax hx hy / ht * Lip_RK2 (Rmax hx hy) (L_2d Ax Ay Bx By))) * T *
  C_RK2_2d_metric (hx / ht) (hy / ht) A0 At Ax Ay B0 Bt Bx By Att Atx Aty Axt Axx Axy Ayt Ayx Ayy Btt Btx Bty
    Bxt Bxx Bxy Byt Byx Byy * ht ^ 2.
Proof. exact RK2_converges_general_2d_metric. Qed.
Print Assumptions C01_RK2_converges_general_2d_metric.

Theorem C01_model_RK2_converges_general_2d :
  forall
    (u ut ux uy utt utx uty uxt uxx uxy uyt uyx uyy v vt vx vy vtt vtx vty vxt vxx vxy vyt vyx
     vyy : R -> R -> R -> R)
    (A0 At Ax Ay Att Atx Aty Axt Axx Axy Ayt Ayx Ayy B0 Bt Bx By Btt Btx Bty Bxt Bxx Bxy Byt Byx Byy : R),
  (forall t x y : R, D3 u t x y (ut t x y) (ux t x y) (uy t x y)) ->
  (forall t x y : R, D3 ut t x y (utt t x y) (utx t x y) (uty t x y)) ->
  (forall t x y : R, D3 ux t x y (uxt t x y) (uxx t x y) (uxy t x y)) ->
  (forall t x y : R, D3 uy t x y (uyt t x y) (uyx t x y) (uyy t x y)) ->
  (forall t x y : R, D3 v t x y (vt t x y) (vx t x y) (vy t x y)) ->
  (forall t x y : R, D3 vt t x y (vtt t x y) (vtx t x y) (vty t x y)) ->
  (forall t x y : R, D3 vx t x y (vxt t x y) (vxx t x y) (vxy t x y)) ->
  (forall t x y : R, D3 vy t x y (vyt t x y) (vyx t x y) (vyy t x y)) ->
  (forall t x y : R, Rabs (u t x y) <= A0) ->
  (forall t x y : R, Rabs (ut t x y) <= At) ->
  (forall t x y : R, Rabs (ux t x y) <= Ax) ->
  (forall t x y : R, Rabs (uy t x y) <= Ay) ->
  (forall t x y : R, Rabs (utt t x y) <= Att) ->
  (forall t x y : R, Rabs (utx t x y) <= Atx) ->
  (forall t x y : R, Rabs (uty t x y) <= Aty) ->
  (forall t x y : R, Rabs (uxt t x y) <= Axt) ->
  (forall t x y : R, Rabs (uxx t x y) <= Axx) ->
  (forall t x y : R, Rabs (uxy t x y) <= Axy) ->
  (forall t x y : R, Rabs (uyt t x y) <= Ayt) ->
  (forall t x y : R, Rabs (uyx t x y) <= Ayx) ->
  (forall t x y : R, Rabs (uyy t x y) <= Ayy) ->
  (forall t x y : R, Rabs (v t x y) <= B0) ->
  (forall t x y : R, Rabs (vt t x y) <= Bt) ->
  (forall t x y : R, Rabs (vx t x y) <= Bx) ->
  (forall t x y : R, Rabs (vy t x y) <= By) ->
  (forall t x y : R, Rabs (vtt t x y) <= Btt) ->
  (forall t x y : R, Rabs (vtx t x y) <= Btx) ->
  (forall t x y : R, Rabs (vty t x y) <= Bty) ->
  (forall t x y : R, Rabs (vxt t x y) <= Bxt) ->
  (forall t x y : R, Rabs (vxx t x y) <= Bxx) ->
  (forall t x y : R, Rabs (vxy t x y) <= Bxy) ->
  (forall t x y : R, Rabs (vyt t x y) <= Byt) ->
  (forall t x y : R, Rabs (vyx t x y) <= Byx) ->
  (forall t x y : R, Rabs (vyy t x y) <= Byy) ->
  forall (vel : Q -> Q -> Q -> Q * Q) (dtdx dtdy x0 y0 : Q) (sol : R -> pt) (ht t0 T : R) (n : nat),
  0 < Q2R dtdx ->
  0 < Q2R dtdy ->
  0 < ht ->
  INR n * ht = T ->
  (forall (k : nat) (s x y : Q), Q2R (fst (vel s x y)) = u (t0 + INR k * ht + Q2R s * ht) (Q2R x) (Q2R y)) ->
  (forall (k : nat) (s x y : Q), Q2R (snd (vel s x y)) = v (t0 + INR k * ht + Q2R s * ht) (Q2R x) (Q2R y)) ->
  (Q2R x0, Q2R y0) = sol t0 ->
  (forall t : R,
   t0 <= t <= t0 + T ->
   is_derive (fun r : R_AbsRing => fst (sol r)) t (Q2R dtdx / ht * u t (fst (sol t)) (snd (sol t)))) ->
  (forall t : R,
   t0 <= t <= t0 + T ->
   is_derive (fun r : R_AbsRing => snd (sol r)) t (Q2R dtdy / ht * v t (fst (sol t)) (snd (sol t)))) ->
  norm2 (psub (Q2R2 (ConvergenceProofs.rk_iter vel dtdx dtdy tab_RK2 n x0 y0)) (sol (t0 + T))) <=
  exp (T * (Rmax (Q2R dtdx) (Q2R dtdy) / ht * Lip_RK2 (Rmax (Q2R dtdx) (Q2R dtdy)) (L_2d Ax Ay Bx By))) * T *
  C_RK2_2d_metric (Q2R dtdx / ht) (Q2R dtdy / ht) A0 At Ax Ay B0 Bt Bx By Att Atx Aty Axt Axx Axy Ayt Ayx Ayy
    Btt Btx Bty Bxt Bxx Bxy Byt Byx Byy * ht ^ 2.
Proof. exact model_RK2_converges_general_2d. Qed.
Print Assumptions C01_model_RK2_converges_general_2d.

Theorem C01_RK2_2d_example_coupled :
  forall (n : nat) (h T : R),
  0 < h ->
  INR n * h = T ->
  norm2
    (psub (one_step_iter2 (Phi_RK2_2d (field2 ex_u ex_v) h h h) h h h 0 n (PI / 4, - (PI / 4)))
       (sin T + atan (exp (2 * T)), sin T - atan (exp (2 * T)))) <=
  exp (T * Lip_RK2 h 2) * T * (53 / 8) * h ^ 2.
Proof. exact RK2_2d_example_coupled. Qed.
Print Assumptions C01_RK2_2d_example_coupled.

End T10.

(** T11 — RK4 in TWO dimensions, COMPLETE: for coupled, time-dependent, non-linear fields u(t,x,y), v(t,x,y) whose
    partial derivatives up to total order 4 exist (Frechet sense, families U i j l = d_t^i d_x^j d_y^l u) and are
    bounded, the local truncation bound C h^5 is DERIVED (one polynomial identity for the order conditions of
    systems, Taylor along segments for all orders, a structural Faa-di-Bruno ladder for the solution's derivatives)
    and fed into the 2-D Lax-type theorem: order 4 with no truncation hypothesis, with separate metric factors, and
    for the rational model's 2-D step; closed example with explicit solution.  With T7-T10 this closes the
    convergence clause of C01 for all three schemes in one and two dimensions; what remains a hypothesis is the
    existence of the exact solution (given, not constructed) and global bounds on the derivatives. *)
From Ladim Require Import Proofs.RK4Truncation2DProofs.
Section T11.
Local Open Scope R_scope.
Theorem C01_RK4_local_truncation_2d :
  forall (U V : ffam) (B0 B1 B2 B3 B4 : R),
  smooth4 U ->
  smooth4 V ->
  bounded4 (nBd B0 B1 B2 B3 B4) U ->
  bounded4 (nBd B0 B1 B2 B3 B4) V ->
  forall (sol : R -> pt) (h t0 T : R),
  0 < h ->
  (forall t : R,
   t0 <= t <= t0 + T ->
   is_derive (fun r : R_AbsRing => fst (sol r)) t (U 0%nat 0%nat 0%nat t (fst (sol t)) (snd (sol t)))) ->
  (forall t : R,
   t0 <= t <= t0 + T ->
   is_derive (fun r : R_AbsRing => snd (sol r)) t (V 0%nat 0%nat 0%nat t (fst (sol t)) (snd (sol t)))) ->
  forall s : R,
  t0 <= s ->
  s + h <= t0 + T ->
  norm2
    (psub (psub (sol (s + h)) (sol s))
       (pscale2 h h (Phi_RK4_2d (field2 (U 0%nat 0%nat 0%nat) (V 0%nat 0%nat 0%nat)) h h h s (sol s)))) <=
  C_RK4_2d B0 B1 B2 B3 B4 * h ^ 5.
Proof. exact RK4_local_truncation_2d. Qed.
Print Assumptions C01_RK4_local_truncation_2d.

Theorem C01_RK4_converges_general_2d :
  forall (U V : ffam) (B0 B1 B2 B3 B4 : R),
  smooth4 U ->
  smooth4 V ->
  bounded4 (nBd B0 B1 B2 B3 B4) U ->
  bounded4 (nBd B0 B1 B2 B3 B4) V ->
  forall (sol : R -> pt) (h t0 T : R),
  0 < h ->
  (forall t : R,
   t0 <= t <= t0 + T ->
   is_derive (fun r : R_AbsRing => fst (sol r)) t (U 0%nat 0%nat 0%nat t (fst (sol t)) (snd (sol t)))) ->
  (forall t : R,
   t0 <= t <= t0 + T ->
   is_derive (fun r : R_AbsRing => snd (sol r)) t (V 0%nat 0%nat 0%nat t (fst (sol t)) (snd (sol t)))) ->
  forall n : nat,
  INR n * h = T ->
  norm2
    (psub
       (one_step_iter2 (Phi_RK4_2d (field2 (U 0%nat 0%nat 0%nat) (V 0%nat 0%nat 0%nat)) h h h) h h h t0 n
          (sol t0)) (sol (t0 + T))) <=
  exp (T * Lip_RK4 h (L_2d B1 B1 B1 B1)) * T * C_RK4_2d B0 B1 B2 B3 B4 * h ^ 4.
Proof. exact RK4_converges_general_2d. Qed.
Print Assumptions C01_RK4_converges_general_2d.

Theorem C01_RK4_converges_general_2d_metric :
  forall (U V : ffam) (B0 B1 B2 B3 B4 : R),
  smooth4 U ->
  smooth4 V ->
  bounded4 (nBd B0 B1 B2 B3 B4) U ->
  bounded4 (nBd B0 B1 B2 B3 B4) V ->
  forall (sol : R -> pt) (hx hy ht t0 T : R),
  0 < hx ->
  0 < hy ->
  0 < ht ->
  (forall t : R,
   t0 <= t <= t0 + T ->
   is_derive (fun r : R_AbsRing => fst (sol r)) t
     (hx / ht * U 0%nat 0%nat 0%nat t (fst (sol t)) (snd (sol t)))) ->
  (forall t : R,
   t0 <= t <= t0 + T ->
   is_derive (fun r : R_AbsRing => snd (sol r)) t
     (hy / ht * V 0%nat 0%nat 0%nat t (fst (sol t)) (snd (sol t)))) ->
  forall n : nat,
  INR n * ht = T ->
  norm2
    (psub
       (one_step_iter2 (Phi_RK4_2d (field2 (U 0%nat 0%nat 0%nat) (V 0%nat 0%nat 0%nat)) hx hy ht) hx hy ht t0
          n (sol t0)) (sol (t0 + T))) <=
  exp (T * (Rmax hx hy / ht * Lip_RK4 (Rmax hx hy) (L_2d B1 B1 B1 B1))) * T *
  C_RK4_2d_metric (hx / ht) (hy / ht) B0 B1 B2 B3 B4 * ht ^ 4.
Proof. exact RK4_converges_general_2d_metric. Qed.
Print Assumptions C01_RK4_converges_general_2d_metric.

Theorem C01_model_RK4_converges_general_2d :
  forall (U V : ffam) (B0 B1 B2 B3 B4 : R),
  smooth4 U ->
  smooth4 V ->
  bounded4 (nBd B0 B1 B2 B3 B4) U ->
  bounded4 (nBd B0 B1 B2 B3 B4) V ->
  forall (vel : Q -> Q -> Q -> Q * Q) (dtdx dtdy x0 y0 : Q) (sol : R -> pt) (ht t0 T : R) (n : nat),
  0 < Q2R dtdx ->
  0 < Q2R dtdy ->
  0 < ht ->
  INR n * ht = T ->
  (forall (k : nat) (s x y : Q),
   Q2R (fst (vel s x y)) = U 0%nat 0%nat 0%nat (t0 + INR k * ht + Q2R s * ht) (Q2R x) (Q2R y)) ->
  (forall (k : nat) (s x y : Q),
   Q2R (snd (vel s x y)) = V 0%nat 0%nat 0%nat (t0 + INR k * ht + Q2R s * ht) (Q2R x) (Q2R y)) ->
  (Q2R x0, Q2R y0) = sol t0 ->
  (forall t : R,
   t0 <= t <= t0 + T ->
   is_derive (fun r : R_AbsRing => fst (sol r)) t
     (Q2R dtdx / ht * U 0%nat 0%nat 0%nat t (fst (sol t)) (snd (sol t)))) ->
  (forall t : R,
   t0 <= t <= t0 + T ->
   is_derive (fun r : R_AbsRing => snd (sol r)) t
     (Q2R dtdy / ht * V 0%nat 0%nat 0%nat t (fst (sol t)) (snd (sol t)))) ->
  norm2 (psub (Q2R2 (ConvergenceProofs.rk_iter vel dtdx dtdy tab_RK4 n x0 y0)) (sol (t0 + T))) <=
  exp (T * (Rmax (Q2R dtdx) (Q2R dtdy) / ht * Lip_RK4 (Rmax (Q2R dtdx) (Q2R dtdy)) (L_2d B1 B1 B1 B1))) * T *
  C_RK4_2d_metric (Q2R dtdx / ht) (Q2R dtdy / ht) B0 B1 B2 B3 B4 * ht ^ 4.
Proof. exact model_RK4_converges_general_2d. Qed.
Print Assumptions C01_model_RK4_converges_general_2d.

Theorem C01_RK4_2d_example_coupled :
  forall (n : nat) (h T : R),
  0 < h ->
  INR n * h = T ->
  norm2
    (psub (one_step_iter2 (Phi_RK4_2d (field2 ex_u ex_v) h h h) h h h 0 n (PI / 4, - (PI / 4)))
       (sin T + atan (exp (2 * T)), sin T - atan (exp (2 * T)))) <=
  exp (T * Lip_RK4 h 2) * T * (14599 / 192) * h ^ 4.
Proof. exact RK4_2d_example_coupled. Qed.
Print Assumptions C01_RK4_2d_example_coupled.

End T11.

(** T12 — the FLOATING-POINT step.  Model/TrackerFloat.v is an executable model of the tracker's horizontal step over
    Coq's primitive binary64 floats with the code's own operation order: RKstep (x + frac*u*dtdx with the precomputed
    quotient dtdx = dt/dx), clip by numba's min/max (first argument kept on ties / NaN), RK4avg ((u1 + 2u2 + 2u3 + u4)/6),
    the final move x + u*dt/dx (multiply, THEN divide), the accumulation 0 + u; tied to the compiled code bit for bit by
    Corr/C01F.v on every run, stage positions included.  Proved with Flocq: the model is the IEEE-754 computation; the
    final position and every stage position are within an explicit rounding bound of the exact Runge-Kutta step with the
    same stage velocities (u64 = 2^-53: u64|x| + 4 u64|u dt/dx| + eta-terms for the move, u64|x| + 9 u64 M|dt/dx| + ...
    for RK4); clip is exact (one of its arguments, inside [lo, hi], the identity inside the box: the no-clip case of the
    rational model carries over); zero velocity leaves the position's value unchanged; the RK4 average of four equal
    velocities is off by at most ONE ulp (and not exact in general: 0.1 comes back one ulp smaller).  Depends on Coq's
    primitive floats and their stdlib specification in addition to the real-number axioms. *)
From Coq Require Import ZArith Reals List.
From Coq Require Floats.
From Flocq Require Import Core BinarySingleNaN.
From Flocq Require IEEE754.PrimFloat IEEE754.Binary IEEE754.Bits.
From Ladim Require Import Model.TrilinearFloat Proofs.TrilinearFloatProofs Model.TrackerFloat Proofs.TrackerFloatProofs Proofs.C01FSound.
Import Flocq.IEEE754.PrimFloat.
Section T12.
Local Open Scope R_scope.
Theorem C01_rk4_f_is_IEEE :
  forall x dt dx lo hi u1 u2 u3 u4 : pfloat,
  P2 (rk4_f x dt dx lo hi u1 u2 u3 u4) =
  rk4_B (Prim2B x) (Prim2B dt) (Prim2B dx) (Prim2B lo) (Prim2B hi) (Prim2B u1) (Prim2B u2) 
    (Prim2B u3) (Prim2B u4).
Proof. exact rk4_f_is_IEEE. Qed.
Print Assumptions C01_rk4_f_is_IEEE.

Theorem C01_final_f_error :
  forall x u dt dx : pfloat,
  fb x 1000 ->
  fb u 102 ->
  fb dt 100 ->
  dxb dx ->
  fin (final_f x u dt dx) /\
  Rabs (FR (final_f x u dt dx) - (FR x + FR u * FR dt / FR dx)) <= move_bound (FR x) (FR u) (FR dt) (FR dx).
Proof. exact final_f_error. Qed.
Print Assumptions C01_final_f_error.

Theorem C01_stage_f_error :
  forall x frac u dt dx lo hi : pfloat,
  fb x 1000 ->
  fb frac 0 ->
  fb u 100 ->
  fb dt 100 ->
  dxb dx ->
  fin lo ->
  fin hi ->
  let s := stage_f x frac u (dtdx_f dt dx) lo hi in
  fin s /\
  Rabs (FR s - clip_R (FR x + FR frac * FR u * (FR dt / FR dx)) (FR lo) (FR hi)) <=
  stage_bound (FR x) (FR frac) (FR u) (FR dt) (FR dx) /\
  (FR lo <= FR hi -> FR lo <= FR s <= FR hi) /\
  (FR lo <= FR (rkstep_f x frac u (dtdx_f dt dx)) <= FR hi -> s = rkstep_f x frac u (dtdx_f dt dx)).
Proof. exact stage_f_error. Qed.
Print Assumptions C01_stage_f_error.

Theorem C01_rk4avg_f_error :
  forall (u1 u2 u3 u4 : pfloat) (M : R),
  fb u1 100 ->
  fb u2 100 ->
  fb u3 100 ->
  fb u4 100 ->
  Rabs (FR u1) <= M ->
  Rabs (FR u2) <= M ->
  Rabs (FR u3) <= M ->
  Rabs (FR u4) <= M ->
  fin (rk4avg_f u1 u2 u3 u4) /\
  Rabs (FR (rk4avg_f u1 u2 u3 u4) - rk4avg_R (FR u1) (FR u2) (FR u3) (FR u4)) <= c4 * M + eta.
Proof. exact rk4avg_f_error. Qed.
Print Assumptions C01_rk4avg_f_error.

Theorem C01_rk4_final_error :
  forall (x dt dx u1 u2 u3 u4 : pfloat) (M : R),
  fb x 1000 ->
  fb dt 100 ->
  dxb dx ->
  fb u1 100 ->
  fb u2 100 ->
  fb u3 100 ->
  fb u4 100 ->
  Rabs (FR u1) <= M ->
  Rabs (FR u2) <= M ->
  Rabs (FR u3) <= M ->
  Rabs (FR u4) <= M ->
  let r := final_f x (rk4avg_f u1 u2 u3 u4) dt dx in
  fin r /\
  Rabs (FR r - (FR x + rk4avg_R (FR u1) (FR u2) (FR u3) (FR u4) * FR dt / FR dx)) <=
  rk4_bound (FR x) M (FR dt) (FR dx).
Proof. exact rk4_final_error. Qed.
Print Assumptions C01_rk4_final_error.

Theorem C01_clip_f_in_range :
  forall x lo hi : pfloat,
  fin x -> fin lo -> fin hi -> FR lo <= FR hi -> fin (clip_f x lo hi) /\ FR lo <= FR (clip_f x lo hi) <= FR hi.
Proof. exact clip_f_in_range. Qed.
Print Assumptions C01_clip_f_in_range.

Theorem C01_clip_f_id :
  forall x lo hi : pfloat, fin x -> fin lo -> fin hi -> FR lo <= FR x <= FR hi -> clip_f x lo hi = x.
Proof. exact clip_f_id. Qed.
Print Assumptions C01_clip_f_id.

Theorem C01_final_f_zero_velocity_value :
  forall x u dt dx : pfloat,
  is_zero_f u ->
  fin x -> fin dt -> fin dx -> FR dx <> 0 -> fin (final_f x u dt dx) /\ FR (final_f x u dt dx) = FR x.
Proof. exact final_f_zero_velocity_value. Qed.
Print Assumptions C01_final_f_zero_velocity_value.

Theorem C01_rk4avg_f_equal_ulp :
  forall u : pfloat,
  fb u 100 ->
  bpow radix2 (-1022) <= Rabs (FR u) -> Rabs (FR (rk4avg_f u u u u) - FR u) <= ulp radix2 fexp64 (FR u).
Proof. exact rk4avg_f_equal_ulp. Qed.
Print Assumptions C01_rk4avg_f_equal_ulp.

Theorem C01_rk4_f_checked :
  forall x dt dx lo hi u1 u2 u3 u4 : pfloat,
  step_ok x dt dx lo hi (u1 :: u2 :: u3 :: u4 :: nil) = true ->
  let r := rk4_f x dt dx lo hi u1 u2 u3 u4 in
  let stage_ok :=
    fun (s : pfloat) (f u : R) =>
    fin s /\
    Rabs (FR s - clip_R (FR x + f * u * (FR dt / FR dx)) (FR lo) (FR hi)) <=
    stage_bound (FR x) f u (FR dt) (FR dx) /\ (FR lo <= FR hi -> FR lo <= FR s <= FR hi) in
  exists x1 x2 x3 : pfloat,
    fst r = x1 :: x2 :: x3 :: nil /\
    stage_ok x1 (/ 2) (FR u1) /\
    stage_ok x2 (/ 2) (FR u2) /\
    stage_ok x3 1 (FR u3) /\
    fin (snd r) /\
    Rabs (FR (snd r) - (FR x + rk4avg_R (FR u1) (FR u2) (FR u3) (FR u4) * FR dt / FR dx)) <=
    rk4_bound (FR x) (maxabs4 (FR u1) (FR u2) (FR u3) (FR u4)) (FR dt) (FR dx).
Proof. exact rk4_f_checked. Qed.
Print Assumptions C01_rk4_f_checked.

Theorem C01_check_case_sound_rk4 :
  forall xb dtb dxb lob hib u1b u2b u3b u4b p1b p2b p3b fb : Z,
  C01F.check_case
    (2%Z :: xb :: dtb :: dxb :: lob :: hib :: u1b :: u2b :: u3b :: u4b :: p1b :: p2b :: p3b :: fb :: nil) =
  true ->
  let x := float_of_bits xb in
  let dt := float_of_bits dtb in
  let dx := float_of_bits dxb in
  let lo := float_of_bits lob in
  let hi := float_of_bits hib in
  let u1 := float_of_bits u1b in
  let u2 := float_of_bits u2b in
  let u3 := float_of_bits u3b in
  let u4 := float_of_bits u4b in
  let a1 := float_of_bits p1b in
  let a2 := float_of_bits p2b in
  let a3 := float_of_bits p3b in
  let observed := float_of_bits fb in
  let stage_ok :=
    fun (s : pfloat) (f u : R) =>
    fin s /\
    Rabs (FR s - clip_R (FR x + f * u * (FR dt / FR dx)) (FR lo) (FR hi)) <=
    stage_bound (FR x) f u (FR dt) (FR dx) /\ (FR lo <= FR hi -> FR lo <= FR s <= FR hi) in
  (a1 :: a2 :: a3 :: nil, observed) = rk4_f x dt dx lo hi u1 u2 u3 u4 /\
  stage_ok a1 (/ 2) (FR u1) /\
  stage_ok a2 (/ 2) (FR u2) /\
  stage_ok a3 1 (FR u3) /\
  fin observed /\
  Rabs (FR observed - (FR x + rk4avg_R (FR u1) (FR u2) (FR u3) (FR u4) * FR dt / FR dx)) <=
  rk4_bound (FR x) (maxabs4 (FR u1) (FR u2) (FR u3) (FR u4)) (FR dt) (FR dx).
Proof. exact check_case_sound_rk4. Qed.
Print Assumptions C01_check_case_sound_rk4.

End T12.
