(** C04 — Release accounting: each scheduled row yields exactly mult particles on time. *)
From Coq Require Import ZArith List Bool.
From Ladim Require Import Base.Num Model.Time Model.Release Proofs.ReleaseProofs.
Import ListNotations.
Open Scope Z_scope.

(** T1 (discrete release).  For EVERY table whose in-window part is in simulation order
    (non-decreasing times forward, non-increasing reversed — equal times are then contiguous)
    with times on the model time grid, every window, every mult >= 0 ([nat]), any number of rows
    per time and any other column values: if start-up is not refused, then running
    [timer.update(); release.update()] for steps 0 .. N-1 (any N) never raises StopIteration,
    appends at step k exactly [released_at t tab k] = the rows in the window (start inclusive,
    stop exclusive, mirrored when reversed) whose time has step k, in file order, each repeated
    mult times with all its values — hence nothing for rows outside the window and nothing at
    other steps — and leaves the cursor at the number of distinct in-window release times
    strictly before step N.  The order hypothesis is forced: the cursor is consumed blindly
    (see [C04_unsorted_refuted]). *)
Theorem C04_release_schedule_correct : forall t tab D groups steps,
  0 < dt t -> table_ok t (filter_time (in_window t) tab) = true ->
  rel_init t None false tab = RelOk D groups steps ->
  forall N, run_upto groups steps N =
    Some ({| idx := times_before (in_window t) t tab (Z.of_nat N) |},
          map (fun k => released_at t tab (Z.of_nat k)) (seq 0 N)).
Proof. intros t tab D g s H Ok I N. exact (release_schedule t false tab D g s H Ok I N). Qed.
Print Assumptions C04_release_schedule_correct.

(** the hypothesis may be put on the whole file: a sorted on-grid table stays so under the
    window filter (and under any other selection of rows by time) *)
Theorem C04_sorted_table_suffices : forall t p tab,
  table_ok t tab = true -> table_ok t (filter_time p tab) = true.
Proof. exact table_ok_filter. Qed.
Print Assumptions C04_sorted_table_suffices.

(** lon/lat files: the same statement about the table with converted positions (the conversion
    changes values only; T1 holds for every table) *)
Theorem C04_release_schedule_lonlat : forall ll t tab D groups steps,
  0 < dt t -> table_ok t (filter_time (in_window t) (clean_position ll tab)) = true ->
  rel_init t None false (clean_position ll tab) = RelOk D groups steps ->
  forall N, run_upto groups steps N =
    Some ({| idx := times_before (in_window t) t (clean_position ll tab) (Z.of_nat N) |},
          map (fun k => released_at t (clean_position ll tab) (Z.of_nat k)) (seq 0 N)).
Proof. intros ll t tab. exact (C04_release_schedule_correct t (clean_position ll tab)). Qed.
Print Assumptions C04_release_schedule_lonlat.

(** warm-start variant (both directions): as T1 with the start time itself excluded *)
Theorem C04_release_schedule_warm : forall t tab D groups steps,
  0 < dt t -> table_ok t (filter_time (in_window_warm t) tab) = true ->
  rel_init t None true tab = RelOk D groups steps ->
  forall N, run_upto groups steps N =
    Some ({| idx := times_before (in_window_warm t) t tab (Z.of_nat N) |},
          map (fun k => released_at_warm t tab (Z.of_nat k)) (seq 0 N)).
Proof. intros t tab D g s H Ok I N. exact (release_schedule t true tab D g s H Ok I N). Qed.
Print Assumptions C04_release_schedule_warm.

(** start-up refusals (SystemExit): a cold start is refused exactly when no row lies in the
    window; a warm start exactly when no row lies before the stop time *)
Theorem C04_refusal_cold : forall t tab,
  rel_init t None false tab = RelExit <-> filter_time (in_window t) tab = [].
Proof. exact refusal_cold. Qed.
Print Assumptions C04_refusal_cold.
Theorem C04_refusal_warm : forall t tab,
  rel_init t None true tab = RelExit <-> filter_time (before_stop t) tab = [].
Proof. exact refusal_warm. Qed.
Print Assumptions C04_refusal_warm.

(** "on time": the step of an in-window on-grid row lies in 0 .. nsteps, and below nsteps (so the
    main loop reaches it) when dt divides the duration *)
Theorem C04_window_steps_are_run : forall t x,
  0 < dt t -> in_window t x = true -> on_grid t x = true ->
  0 <= time2step t x <= nsteps t /\ ((dt t | stop t - start t) -> time2step t x < nsteps t).
Proof. exact window_step_range. Qed.
Print Assumptions C04_window_steps_are_run.

(** T2 (continuous release, cold or warm start, both directions).  Hypotheses [cont_ok]:
    frequency > 0 and a multiple of dt; the rows before the stop time are in simulation order,
    the first file time is on the model time grid and all file times are on the frequency grid
    anchored at the first file time.  Then at step k: if the time of step k is a tick
    (first_file_time + j*freq before the stop time; minus and after when reversed) inside the
    window, exactly the row set of the latest file time at or before the tick (at or after when
    reversed) is appended, re-stamped with the tick, in file order, each row mult times —
    rows with mult = 0 included in "the row set" (they switch the release off); otherwise
    nothing is appended.  The cursor counts the distinct release times of the discretized
    table before step N. *)
Theorem C04_continuous_schedule_correct : forall t freq warm tab D groups steps,
  0 < dt t -> cont_ok t freq tab = true ->
  rel_init t (Some freq) warm tab = RelOk D groups steps ->
  forall N, run_upto groups steps N =
    Some ({| idx := length (filter (fun x => time2step t x <? Z.of_nat N) (uniq (map rt D))) |},
          map (fun k => cont_released_at t freq warm tab (Z.of_nat k)) (seq 0 N)).
Proof. exact continuous_schedule. Qed.
Print Assumptions C04_continuous_schedule_correct.
Theorem C04_continuous_refusal : forall t freq warm tab,
  filter_time (before_stop t) tab = [] -> rel_init t (Some freq) warm tab = RelExit.
Proof. exact refusal_cont_nothing. Qed.
Print Assumptions C04_continuous_refusal.

(** T3: particles enter in file-row order, the mult copies of a row adjacent: for two scheduled
    rows r1 before r2 in the file with the same step, what is appended at that step is
    (rows before r1) ++ mult1 copies of r1 ++ (rows between) ++ mult2 copies of r2 ++ (rows after) *)
Theorem C04_file_row_order : forall t a r1 b r2 c n,
  in_window t (rt r1) = true -> time2step t (rt r1) = n ->
  in_window t (rt r2) = true -> time2step t (rt r2) = n ->
  released_at t (a ++ r1 :: b ++ r2 :: c) n =
  released_at t a n ++ repeat r1 (rmult r1) ++ released_at t b n ++ repeat r2 (rmult r2)
    ++ released_at t c n.
Proof. intros t. exact (file_row_order (in_window t) t). Qed.
Print Assumptions C04_file_row_order.
Theorem C04_released_at_concat : forall t a b n,
  released_at t (a ++ b) n = released_at t a n ++ released_at t b n.
Proof. intros t. exact (released_by_app (in_window t) t). Qed.
Print Assumptions C04_released_at_concat.

(** * Examples *)
Definition tk_f := {| start := 1000; stop := 1050; dt := 10; ref := 0; rev := false |}.
Definition tk_r := {| start := 1050; stop := 1000; dt := 10; ref := 0; rev := true |}.
Definition R (x : Z) (m : nat) (v : Z) : row := {| rt := x; rmult := m; rvals := [v] |}.

(** non-vacuity of T1: rows before start, at start (two of them), mult 0, mult 2, at stop *)
Example C04_ex_forward :
  let tab := [R 990 1 1; R 1000 2 2; R 1000 1 3; R 1020 0 4; R 1030 2 5; R 1050 1 6] in
  table_ok tk_f (filter_time (in_window tk_f) tab) = true /\
  exists D g s, rel_init tk_f None false tab = RelOk D g s /\
    run_upto g s 5 = Some ({| idx := 3 |},
      [[R 1000 2 2; R 1000 2 2; R 1000 1 3]; []; []; [R 1030 2 5; R 1030 2 5]; []]).
Proof. split; [reflexivity|]. eexists _, _, _. split; [reflexivity|]. vm_compute. reflexivity. Qed.
Example C04_ex_reversed :
  let tab := [R 1060 1 1; R 1050 1 2; R 1030 2 3; R 1030 1 4; R 1000 1 5] in
  table_ok tk_r (filter_time (in_window tk_r) tab) = true /\
  exists D g s, rel_init tk_r None false tab = RelOk D g s /\
    run_upto g s 5 = Some ({| idx := 2 |}, [[R 1050 1 2]; []; [R 1030 2 3; R 1030 2 3; R 1030 1 4]; []; []]).
Proof. split; [reflexivity|]. eexists _, _, _. split; [reflexivity|]. vm_compute. reflexivity. Qed.
Example C04_ex_warm_reversed :
  let tab := [R 1050 1 2; R 1030 2 3] in
  table_ok tk_r (filter_time (in_window_warm tk_r) tab) = true /\
  exists D g s, rel_init tk_r None true tab = RelOk D g s /\
    run_upto g s 3 = Some ({| idx := 1 |}, [[]; []; [R 1030 2 3; R 1030 2 3]]).
Proof. split; [reflexivity|]. eexists _, _, _. split; [reflexivity|]. vm_compute. reflexivity. Qed.

(** the order hypothesis cannot be dropped: with the file rows of 1020 before those of 1010 the
    model (as the code) releases the 1020 row at the step of 1010 and vice versa, which is NOT
    what the property asks for *)
Example C04_unsorted_refuted :
  let tab := [R 1020 1 7; R 1010 1 8] in
  table_ok tk_f (filter_time (in_window tk_f) tab) = false /\
  exists D g s, rel_init tk_f None false tab = RelOk D g s /\
    run_upto g s 3 = Some ({| idx := 2 |}, [[]; [R 1020 1 7]; [R 1010 1 8]]) /\
    map (fun k => released_at tk_f tab (Z.of_nat k)) (seq 0 3) = [[]; [R 1010 1 8]; [R 1020 1 7]].
Proof. split; [reflexivity|]. eexists _, _, _. split; [reflexivity|]. vm_compute. split; reflexivity. Qed.

(** non-vacuity of T2: frequency 2 dt, first file time before the start, a mult-0 row set that
    switches the release off from 1020 on, on again at 1040 *)
Example C04_ex_continuous :
  let tab := [R 980 1 1; R 980 2 2; R 1020 0 3; R 1040 1 4; R 1060 1 5] in
  cont_ok tk_f 20 tab = true /\
  exists D g s, rel_init tk_f (Some 20) false tab = RelOk D g s /\
    run_upto g s 5 = Some ({| idx := 3 |},
      [[R 1000 1 1; R 1000 2 2; R 1000 2 2]; []; []; []; [R 1040 1 4]]).
Proof. split; [reflexivity|]. eexists _, _, _. split; [reflexivity|]. vm_compute. reflexivity. Qed.
Example C04_ex_continuous_reversed :
  let tab := [R 1070 1 1; R 1050 2 2; R 1030 1 3] in
  cont_ok tk_r 10 tab = true /\
  exists D g s, rel_init tk_r (Some 10) false tab = RelOk D g s /\
    run_upto g s 5 = Some ({| idx := 5 |},
      [[R 1050 2 2; R 1050 2 2]; [R 1040 2 2; R 1040 2 2]; [R 1030 1 3]; [R 1020 1 3]; [R 1010 1 3]]).
Proof. split; [reflexivity|]. eexists _, _, _. split; [reflexivity|]. vm_compute. reflexivity. Qed.
