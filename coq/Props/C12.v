(** C12 — Vertical grid: s-levels ordered inside the water column, depth lookup consistent.
    Property theorems only; each closed by [exact] of a lemma from Proofs/VGridProofs.v (exact
    rationals, closed under the global context) or Proofs/VStretchProofs.v (Coq's axiomatised reals). *)
From Coq Require Import ZArith QArith Reals List Bool Lra.
From Ladim Require Import Base.Num Model.VGrid Model.VStretch Proofs.VGridProofs Proofs.VStretchProofs.
Import ListNotations.
Open Scope Z_scope.

(** T1 (sdepth_ordered), rho-levels: for ANY stretching array strictly increasing within [-1,0], h > 0,
    hc >= 0 (and hc <= h for Vtransform 1), any number of levels: the level depths increase strictly from
    bottom to surface and lie within [-h, 0].  Vtransform 1 and 2. *)
Theorem C12_sdepth_ordered_rho : forall vt hc h C,
  vparams_ok vt hc h = true -> increasing C = true -> within (-(1)) 0 C = true ->
  increasing (sdepth vt Rho hc h C) = true /\ within (- h) 0 (sdepth vt Rho hc h C) = true.
Proof. exact sdepth_ordered_rho_lemma. Qed.
Print Assumptions C12_sdepth_ordered_rho.

(** T1, w-levels: the same ordering ... *)
Theorem C12_sdepth_ordered_w : forall vt hc h C,
  vparams_ok vt hc h = true -> increasing C = true -> within (-(1)) 0 C = true ->
  increasing (sdepth vt W hc h C) = true /\ within (- h) 0 (sdepth vt W hc h C) = true.
Proof. exact sdepth_ordered_w_lemma. Qed.
Print Assumptions C12_sdepth_ordered_w.

(** ... and w-levels start at -h and end at 0 when the stretching array starts at -1 and ends at 0 *)
Theorem C12_sdepth_w_ends : forall vt hc h C,
  vparams_ok vt hc h = true -> (headQ C == -(1))%Q -> (lastQ C == 0)%Q ->
  (headQ (sdepth vt W hc h C) == - h)%Q /\ (lastQ (sdepth vt W hc h C) == 0)%Q.
Proof. exact sdepth_w_ends_lemma. Qed.
Print Assumptions C12_sdepth_w_ends.

(** T1, interleaving: z_w[k] < z_r[k] < z_w[k+1] for all k whenever the stretching arrays interleave
    (Cs_w[k] < Cs_r[k] < Cs_w[k+1], which forces len Cs_w = len Cs_r + 1); the rho and w abscissae
    S of the code interleave by themselves (part of the proof). *)
Theorem C12_sdepth_interleaved : forall vt hc h Cw Cr,
  vparams_ok vt hc h = true -> interleaved Cw Cr = true ->
  interleaved (sdepth vt W hc h Cw) (sdepth vt Rho hc h Cr) = true.
Proof. exact sdepth_interleaved_lemma. Qed.
Print Assumptions C12_sdepth_interleaved.

(** T2 (stretch_monotone): each of the three stretching curves (Vstretching 1, 2, 4) is strictly
    increasing in s on [-1, 0] with C(-1) = -1 and C(0) = 0, for theta_s > 0 and theta_b in [0,1]
    (Vstretching 1) resp. theta_b > 0 (Vstretching 2 and 4).  Over R: depends on the standard
    library's real-number axioms (listed by Print Assumptions). *)
Theorem C12_stretch_monotone : forall vs ts tb, stretch_params vs ts tb ->
  strictly_increasing_on (Cs vs ts tb) (-1) 0 /\ Cs vs ts tb (-1) = (-1)%R /\ Cs vs ts tb 0 = 0%R.
Proof. exact stretch_monotone_lemma. Qed.
Print Assumptions C12_stretch_monotone.

(** T2, sampled at the abscissae of [s_stretch] (exact arithmetic) the curves give arrays that satisfy the
    hypotheses T1 places on C: the w array runs from -1 to 0, rho and w values interleave strictly
    (so both arrays increase strictly) and everything lies in [-1, 0].  Any N >= 1. *)
Theorem C12_stretch_samples : forall vs ts tb N, stretch_params vs ts tb -> 0 < N ->
  let Cw k := Cs vs ts tb (Sr_w N k) in
  let Cr k := Cs vs ts tb (Sr_rho N k) in
  Cw 0 = (-1)%R /\ Cw N = 0%R /\
  (forall k, 0 <= k < N -> (Cw k < Cr k)%R /\ (Cr k < Cw (k + 1)%Z)%R) /\
  (forall k, 0 <= k <= N -> (-1 <= Cw k <= 0)%R) /\
  (forall k, 0 <= k < N -> (-1 < Cr k < 0)%R).
Proof. exact stretch_samples_lemma. Qed.
Print Assumptions C12_stretch_samples.

(** T3 (z2s_bounds): for a strictly increasing column of N >= 2 levels and ANY particle depth
    (above the surface, below the bottom, exactly on a level): 1 <= K <= N-1 and 0 <= A <= 1 *)
Theorem C12_z2s_bounds : forall zr Zp, increasing zr = true -> 2 <= Z.of_nat (length zr) ->
  let (K, A) := z2s_kernel zr Zp in
  1 <= K <= Z.of_nat (length zr) - 1 /\ (0 <= A <= 1)%Q.
Proof. intros zr Zp _. exact (z2s_bounds_lemma zr Zp). Qed.
Print Assumptions C12_z2s_bounds.

(** T4 (z2s_clamped_depth): A*z[K-1] + (1-A)*z[K] == clamp(-Z, z[0], z[N-1]) *)
Theorem C12_z2s_clamped_depth : forall zr Zp, increasing zr = true -> 2 <= Z.of_nat (length zr) ->
  (weighted_depth zr (z2s_kernel zr Zp) == clamped_depth zr Zp)%Q.
Proof. exact z2s_clamped_depth_lemma. Qed.
Print Assumptions C12_z2s_clamped_depth.

(** T4, inside the range of the levels the index pair brackets the particle depth *)
Theorem C12_z2s_bracket : forall zr Zp, increasing zr = true -> 2 <= Z.of_nat (length zr) ->
  (headQ zr < - Zp <= lastQ zr)%Q ->
  let (K, A) := z2s_kernel zr Zp in (nthQ zr (K - 1) < - Zp <= nthQ zr K)%Q.
Proof. intros zr Zp _. exact (z2s_bracket_lemma zr Zp). Qed.
Print Assumptions C12_z2s_bracket.

(** T3/T4 for [z2s]: the column used is the one of the nearest rho-point (round half to even) *)
Theorem C12_z2s_nearest_column : forall imax cols X Y Zp,
  let zr := column imax cols (qround Y) (qround X) in
  increasing zr = true -> 2 <= Z.of_nat (length zr) ->
  (weighted_depth zr (z2s imax cols X Y Zp) == clamped_depth zr Zp)%Q.
Proof. intros imax cols X Y Zp. exact (z2s_clamped_depth_lemma _ Zp). Qed.
Print Assumptions C12_z2s_nearest_column.

(** searchsorted_left is numpy's side='left' insertion point on strictly increasing arrays:
    the unique i with a[j] < v for j < i and v <= a[i] *)
Theorem C12_searchsorted_is_insertion_point : forall a v i, increasing a = true ->
  0 <= i <= Z.of_nat (length a) ->
  (forall j, Z.of_nat j < i -> (nth j a 0 < v)%Q) ->
  (i < Z.of_nat (length a) -> (v <= nth (Z.to_nat i) a 0)%Q) ->
  searchsorted_left a v = i.
Proof. exact ss_unique. Qed.
Print Assumptions C12_searchsorted_is_insertion_point.

(** * non-vacuity: concrete instances of the hypotheses, and what the model computes *)
Definition exCr : list Q := [-(7#8); -(1#2); -(1#8)]%Q.
Definition exCw : list Q := [-(1); -(3#4); -(1#4); 0]%Q.
Example C12_ex_hyps :
  vparams_ok 1 10 100 = true /\ vparams_ok 2 250 100 = true /\ vparams_ok 1 250 100 = false /\
  increasing exCr = true /\ within (-(1)) 0 exCr = true /\ increasing exCw = true /\
  interleaved exCw exCr = true /\ Qeq_bool (headQ exCw) (-(1)) = true /\ Qeq_bool (lastQ exCw) 0 = true.
Proof. vm_compute. repeat split. Qed.
Example C12_ex_sdepth :
  map Qred (sdepth 1 Rho 10 100 exCr) = [-(1045#12); -(50); -(155#12)]%Q /\
  map Qred (sdepth 1 W 10 100 exCw) = [-(100); -(445#6); -(155#6); 0]%Q /\
  map Qred (sdepth 2 W 250 100 exCw) = [-(100); -(1450#21); -(650#21); 0]%Q /\
  interleaved (sdepth 2 W 250 100 exCw) (sdepth 2 Rho 250 100 exCr) = true.
Proof. vm_compute. repeat split. Qed.
(** lookup: inside (between levels 1 and 2), exactly on a level, above the top level, below the bottom *)
Example C12_ex_z2s :
  let zr := [-(80); -(50); -(10)]%Q in
  let same (p : Z * Q) (K : Z) (A : Q) := (fst p =? K) && Qeq_bool (snd p) A in
  same (z2s_kernel zr 20) 2 (1#4)%Q = true /\ same (z2s_kernel zr 50) 1 0%Q = true /\
  same (z2s_kernel zr 5) 2 0%Q = true /\ same (z2s_kernel zr 95) 1 1%Q = true /\
  same (z2s_kernel zr (-(3))%Q) 2 0%Q = true /\
  Qeq_bool (weighted_depth zr (z2s_kernel zr 20)) (-(20))%Q = true /\
  Qeq_bool (clamped_depth zr 95) (-(80))%Q = true.
Proof. vm_compute. repeat split. Qed.
(** KNOWN EDGE (N = 1, outside T3/T4): with a single level the lookup returns K = 1 (below / on the level:
    level index K = 1 does not exist) or K = 0 (above the level: K-1 = -1); cf. C17 *)
Example C12_ex_single_level :
  z2s_kernel [-(5)]%Q 10 = (1, 1%Q) /\ z2s_kernel [-(5)]%Q 5 = (1, 1%Q) /\ z2s_kernel [-(5)]%Q 3 = (0, 0%Q).
Proof. vm_compute. repeat split. Qed.
(** a parameter set satisfying T2's hypothesis for each curve *)
Example C12_ex_stretch_params :
  stretch_params 1 5 (4/10) /\ stretch_params 2 7 (1/10) /\ stretch_params 4 7 2.
Proof.
  unfold stretch_params. split; [|split].
  - split; [lra|]. left. split; [reflexivity|lra].
  - split; [lra|]. right. split; [left; reflexivity|lra].
  - split; [lra|]. right. split; [right; reflexivity|lra].
Qed.

(** TF — the level search in BINARY64, exactly.  Model/VerticalFloat.v models z2s_kernel over Coq's primitive floats
    (numba's binary search, the weight (zr[k] + z) / (zr[k] - zr[k-1])), tied to the compiled kernel bit for bit by
    Corr/VertF.v.  For N >= 2 finite non-decreasing levels of magnitude <= 2^1022 and any finite depth: 1 <= K <= N-1 and
    0 <= A <= 1 hold EXACTLY in floats (monotone rounding; the difference of two distinct floats is never rounded to 0),
    and the interpolated level depth is within 12 u64 M + 3 eta of the depth clamped to the column. *)
From Coq Require Import ZArith Reals List.
From Coq Require Floats.
From Flocq Require Import Core BinarySingleNaN.
From Flocq Require IEEE754.PrimFloat IEEE754.Binary IEEE754.Bits.
From Ladim Require Import Model.TrilinearFloat Proofs.TrilinearFloatProofs Model.VerticalFloat Proofs.VerticalFloatProofs Proofs.VertFSound.
Import Flocq.IEEE754.PrimFloat.
Section TF.
Local Open Scope R_scope.
Theorem C12_searchsorted_left_spec :
  forall (l : list pfloat) (v : pfloat),
  finl l ->
  incr l ->
  fin v ->
  let k := searchsorted_left l v in
  (k <= length l)%nat /\
  (forall i : nat, (i < k)%nat -> FR (nth i l PrimFloat.nan) < FR v) /\
  ((k < length l)%nat -> FR v <= FR (nth k l PrimFloat.nan)).
Proof. exact searchsorted_left_spec. Qed.
Print Assumptions C12_searchsorted_left_spec.

Theorem C12_z2s_f_bounds :
  forall (zr : list pfloat) (z : pfloat),
  (2 <= length zr)%nat ->
  finl zr ->
  levb zr ->
  incr zr ->
  fin z ->
  let K := fst (z2s_f zr z) in
  let A := snd (z2s_f zr z) in (1 <= K <= Z.of_nat (length zr) - 1)%Z /\ fin A /\ 0 <= FR A <= 1.
Proof. exact z2s_f_bounds. Qed.
Print Assumptions C12_z2s_f_bounds.

Theorem C12_z2s_weight_error :
  forall a b z A : R,
  fmt a ->
  fmt b ->
  fmt z ->
  a < - z <= b ->
  A = rnd (rnd (b + z) / rnd (b - a)) -> Rabs (A * a + (1 - A) * b - - z) <= (4 * u64 + eta) * (b - a).
Proof. exact z2s_weight_error. Qed.
Print Assumptions C12_z2s_weight_error.

Theorem C12_z2s_depth_error :
  forall (zr : list pfloat) (z : pfloat) (M : R),
  (2 <= length zr)%nat ->
  finl zr ->
  incr zr ->
  fin z ->
  (forall i : nat, (i < length zr)%nat -> Rabs (FR (nth i zr PrimFloat.nan)) <= M) ->
  M <= bpow radix2 1000 ->
  let r := z2s_depth_f zr (z2s_f zr z) in
  fin r /\
  Rabs (FR r - clampR (FR (nth 0 zr PrimFloat.nan)) (FR (nth (length zr - 1) zr PrimFloat.nan)) (- FR z)) <=
  12 * u64 * M + 3 * eta.
Proof. exact z2s_depth_error. Qed.
Print Assumptions C12_z2s_depth_error.

End TF.
