(** C05 — Particle identity: pids dense, ordered, never reused, following the particle. *)
From Coq Require Import ZArith List Bool.
From Ladim Require Import Base.Num Model.Sim Proofs.SimPidProofs Model.State Proofs.StateProofs.
Import ListNotations.
Open Scope Z_scope.

(** T1: through ANY sequence of append / kill / compactify / in-place update / item assignment
    (item assignment length-preserving) from the empty state: pids strictly increasing and
    pid[k] >= k ([incr_from 0]), every pid < npid, all instance columns as long as pid, every
    particle column of length npid. *)
Theorem C05_state_invariant : forall ni np idf pdf ops,
  length idf = ni -> length pdf = np ->
  wf_run (empty_state ni np idf pdf) ops = true -> Inv (run (empty_state ni np idf pdf) ops).
Proof. intros ni np idf pdf ops H1 H2 W. exact (run_inv ops _ (empty_inv ni np idf pdf H1 H2) W). Qed.
Print Assumptions C05_state_invariant.

(** what [incr_from 0] says about positions: pid[k] >= k, and strictly increasing *)
Theorem C05_pid_ge_index : forall l k x, incr_from 0 l -> nth_opt l k = Some x -> 0 + Z.of_nat k <= x.
Proof. intros l k x. exact (incr_from_nth l 0 k x). Qed.
Print Assumptions C05_pid_ge_index.
Theorem C05_pid_strictly_increasing : forall l i j x y, incr_from 0 l -> (i < j)%nat ->
  nth_opt l i = Some x -> nth_opt l j = Some y -> x < y.
Proof. intros l i j x y. exact (incr_from_strict l 0 i j x y). Qed.
Print Assumptions C05_pid_strictly_increasing.

(** T2: removal drops exactly the dead, keeps order, and every survivor keeps its own values *)
Theorem C05_compactify_drops_exactly_dead : forall s, Inv s ->
  pid (step s Compactify) = fmask (alive_mask s) (pid s).
Proof. exact compactify_pids. Qed.
Print Assumptions C05_compactify_drops_exactly_dead.
Theorem C05_compactify_keeps_values : forall s c p, Inv s -> (c < length (inst s))%nat ->
  ival (step s Compactify) c p = if is_alive s p then ival s c p else None.
Proof. exact compactify_lookup. Qed.
Print Assumptions C05_compactify_keeps_values.
(** time-independent per-particle values are untouched by deaths, removal and instance updates *)
Theorem C05_particle_values_untouched : forall s o,
  (match o with Kill _ | Compactify | SetInst _ _ | Poke _ _ _ | AppendInvalid => True | _ => False end) ->
  pvar (step s o) = pvar s /\ npid (step s o) = npid s.
Proof. exact pvar_untouched. Qed.
Print Assumptions C05_particle_values_untouched.
(** append: fresh identifiers npid .. npid+n-1 in argument order; all existing bindings kept *)
Theorem C05_append_fresh_pids : forall s ia pa n,
  bsize (map2 resolve ia (idef s) ++ map2 resolve pa (pdef s)) = Some n ->
  pid (step s (Append ia pa)) = pid s ++ zrange_aux (npid s) n /\
  npid (step s (Append ia pa)) = npid s + Z.of_nat n.
Proof. exact append_pids. Qed.
Print Assumptions C05_append_fresh_pids.
Theorem C05_append_keeps_instances : forall s ia pa c p, Inv s -> op_wf s (Append ia pa) = true ->
  (c < length (inst s))%nat -> ival s c p <> None -> ival (step s (Append ia pa)) c p = ival s c p.
Proof. exact append_keeps. Qed.
Print Assumptions C05_append_keeps_instances.
Theorem C05_append_keeps_particle_values : forall s ia pa c p, Inv s -> op_wf s (Append ia pa) = true ->
  (c < length (pvar s))%nat -> 0 <= p < npid s -> pval (step s (Append ia pa)) c p = pval s c p.
Proof. exact append_keeps_pvar. Qed.
Print Assumptions C05_append_keeps_particle_values.

(** T3: never reused — the identifiers handed out by any operation sequence are
    npid0, npid0+1, ..., npid_final-1, each exactly once, in release order *)
Theorem C05_pid_never_reused : forall ops s, issued s ops = zrange (npid s) (npid (run s ops)).
Proof. exact issued_dense. Qed.
Print Assumptions C05_pid_never_reused.

(** T4: the snapshot an output record takes (state after removal of the dead) has strictly
    increasing pids with pid[k] >= k *)
Theorem C05_record_pids_sorted : forall ni np idf pdf ops,
  length idf = ni -> length pdf = np -> wf_run (empty_state ni np idf pdf) ops = true ->
  incr_from 0 (pid (step (run (empty_state ni np idf pdf) ops) Compactify)).
Proof.
  intros ni np idf pdf ops H1 H2 W.
  exact (proj1 (proj2 (step_inv _ Compactify (run_inv ops _ (empty_inv ni np idf pdf H1 H2) W) eq_refl))).
Qed.
Print Assumptions C05_record_pids_sorted.

(** T4 through the real step protocol (Model/Sim.v: compactify, release, forcing, output, move, IBM):
    in EVERY output record of ANY run — any release schedule, any physics, any deaths — the identifiers
    are strictly increasing and pid[k] >= k *)
Theorem C05_every_record_pids_sorted : forall (V C : Type) release_at forcef cachef trackf ibmf due N,
  Forall (fun r => incr_from 0 (map (fun x => fst (fst x)) (Sim.rrows r)))
         (Sim.recs (Sim.cold_run V C release_at forcef cachef trackf ibmf due N)).
Proof. exact record_pids_sorted. Qed.
Print Assumptions C05_every_record_pids_sorted.

(** non-vacuity: a concrete history (append 3, kill the middle one, compactify, append 2) *)
Example C05_ex :
  let s0 := empty_state 2 1 [1; 0] [7] in
  let ops := [Append [None; Some (Ar [10; 20; 30])] [None]; Kill [false; true; false]; Compactify;
              Append [None; Some (Sc 5)] [Some (Ar [8; 9])]] in
  wf_run s0 ops = true /\ pid (run s0 ops) = [0; 2; 3; 4] /\ npid (run s0 ops) = 5 /\
  inst (run s0 ops) = [[1; 1; 1; 1]; [10; 30; 5; 5]] /\ pvar (run s0 ops) = [[7; 7; 7; 8; 9]] /\
  issued s0 ops = [0; 1; 2; 3; 4].
Proof. vm_compute. repeat split. Qed.
