(** C08 — Restart transparency: a warm start continues as if the run never stopped.

    Scope of the theorem: the orchestration (Model.__init__ warm branch, Model.update, main.py loop,
    record bookkeeping) over abstract per-particle physics; hypotheses = the property's own: every state
    variable is restored from the record without loss (the record IS the state), forcing-derived variables
    are overwritten each step ([forcef] idempotent), the pid counter is restored (KNOWN FINDING when the
    restart file cannot provide it).  Diffusion off = the physics is a function. *)
From Coq Require Import ZArith List Bool.
From Ladim Require Import Base.Num Model.Output Proofs.OutputProofs Model.Sim Proofs.SimProofs Proofs.SimRestartProofs Proofs.RestartCountProofs Proofs.OutputWarmProofs.
Import ListNotations.
Open Scope Z_scope.

(** T1: stop after the record of ANY step r with a record due (0 <= r < N), restart from that record:
    the records of the restarted run are exactly those the uninterrupted run writes after step r (same
    particle sets, identifiers, values, newly released particles), the final states coincide, and the
    restarted run does not fail *)
Theorem C08_warm_equals_cold_suffix : forall (V C : Type) release_at forcef cachef trackf ibmf due,
  (forall n v, forcef n (forcef n v) = forcef n v) ->
  forall N r, 0 <= r < N -> due r = true ->
  let before := fold_left (sim_step V C release_at forcef cachef trackf ibmf due) (zrange 0 r) (sim_init V C) in
  let rec_r := snapshot V r (after_release V C release_at forcef before false r) in
  let np := npid before + Z.of_nat (length (release_at r)) in
  let cold := cold_run V C release_at forcef cachef trackf ibmf due N in
  let warm := warm_run V C release_at forcef cachef trackf ibmf due rec_r np N in
  recs cold = recs before ++ [rec_r] ++ recs warm /\ parts cold = parts warm /\ npid cold = npid warm /\
  crashed warm = false.
Proof. exact warm_equals_cold_suffix. Qed.
Print Assumptions C08_warm_equals_cold_suffix.

(** the catch-up step of Model.__init__ re-creates the state after step r exactly *)
Theorem C08_catch_up_step : forall (V C : Type) release_at forcef cachef trackf ibmf due,
  (forall n v, forcef n (forcef n v) = forcef n v) ->
  forall (s : sim V C) n, crashed s = false ->
  let rec_n := snapshot V n (after_release V C release_at forcef s false n) in
  let np := npid s + Z.of_nat (length (release_at n)) in
  let w := sim_step_gen V C release_at forcef cachef trackf ibmf due false true (restore V C rec_n np) n in
  parts w = parts (sim_step V C release_at forcef cachef trackf ibmf due s n) /\
  npid w = npid (sim_step V C release_at forcef cachef trackf ibmf due s n) /\ recs w = [] /\ crashed w = false.
Proof. exact catchup. Qed.
Print Assumptions C08_catch_up_step.

(** the number of records a restarted run writes: its loop covers steps 1 .. N'-1 (N' steps left), so
    ceil(N'/p) - 1 records are due — the count Output uses with skip_initial *)
Theorem C08_warm_record_count : forall n p, 0 < n -> 0 < p ->
  Z.of_nat (length (filter (fun k => k mod p =? 0) (zrange 1 n))) = cdiv n p - 1.
Proof. exact warm_record_count. Qed.
Print Assumptions C08_warm_record_count.

(** the output module of the restarted run (skip_initial, loop over steps 1 .. N-1): never writes to a closed
    file, closes every file, writes exactly the records of the steps k*p with 1 <= k*p < N, and its last
    file is finished (particle variables written) whenever it holds a record *)
Theorem C08_warm_output_machine : forall (R P : Type) (snap : Z -> R) (pvs : Z -> P) nsteps p numrec,
  1 <= nsteps -> 1 <= p -> 0 <= numrec -> (numrec = 0 -> cdiv nsteps p <= 999999) ->
  let s := out_run_warm R P snap pvs nsteps p numrec in
  Output.err s = false /\
  Forall (fun f : Output.file R P => Output.closed f = true) (Output.files s) /\
  Output.all_records s = map snap (filter (fun k => k mod p =? 0) (zrange 1 nsteps)) /\
  (1 < cdiv nsteps p -> Output.pv (Output.cur s) <> None).
Proof. exact warm_records_written. Qed.
Print Assumptions C08_warm_output_machine.

(** T1 CLOSED, about whole set-ups (Model/Setup.v, Model/SetupWarm.v).  The uninterrupted run is compiled
    by the component machines from the clock, the forcing files and the release table.  The RESTARTED
    simulation has its own clock starting at the restart time (steps counted from there), constructs the
    forcing module afresh from the same files (new step tables, pre-step interpolation towards the next frame
    — C03's machine started in the middle of a bracket, in the middle of a file, forward or reversed),
    constructs the releaser with warm = true from the same table (in the set-up's release mode [s_cont]:
    discrete, or continuous — discretize() from the first file time again, ticks up to the restart time
    dropped), and restores the particles and the pid
    counter from the record of step r.  For every well-formed set-up and every restart step r at which a
    record is due: the uninterrupted run's records are [before ++ rec_r :: rest], and the restarted run, with
    its record steps relabelled by +r, did not fail, holds the same particles (row, pid, liveness, values up to
    == on the rationals) and wrote the same records as [rest].
    The physics of the set-up includes LAND cells along the particle line ([s_land]): u-faces next to land
    masked to zero, moves onto land cancelled, death outside the valid interval (stated in Props/C09.v).
    The ADVECTION SCHEME of the tracker is inside the set-up model ([s_adv]: EF, RK2 = midpoint, RK4 = classical,
    with Forcing.velocity's fractional-step sampling u + f dU at f = 0, 1/2, 1/2, 1 and the masked-face
    interpolation at every stage position): the theorem covers the three schemes — the
    forcing module constructed afresh at the restart time interpolates to the same flow at every stage fraction of
    every later step.  Well-formedness ([setup_ok])
    includes [no_clip]: no frame moves a particle by more than 98/100 (RK2) / 49/100 (RK4) of a cell per step, so
    that the clip of the stage positions in tracker.py — not modelled — is the identity ([C14_stages_never_clipped]
    in Props/C14.v); set-ups with a faster flow under RK2 / RK4 are EXCLUDED. *)
From Coq Require Import QArith.
Open Scope Z_scope.
From Ladim Require Import Model.Time Model.Setup Model.SetupWarm Proofs.SimRelProofs Proofs.SimShiftProofs Proofs.SetupProofs Proofs.SetupRestartProofs.
Theorem C08_closed_restart : forall s r,
  setup_ok s = true -> dir_ok (s_tk s) = true -> 0 <= r < s_nsteps s -> 0 < s_period s -> s_due s r = true ->
  let step := sim_step pv Z (m_release s) (m_force s) s_cache (m_track s) (ibm s) (s_due s) in
  let before := fold_left step (zrange 0 r) (sim_init pv Z) in
  let rec_r := snapshot pv r (after_release pv Z (m_release s) (m_force s) before false r) in
  let np := npid before + Z.of_nat (length (m_release s r)) in
  let rest := warm_run pv Z (m_release s) (m_force s) s_cache (m_track s) (ibm s) (s_due s) rec_r np (s_nsteps s) in
  let restarted := m_warm_run (warm_setup s r) (relabel_rec pv (- r) rec_r) np in
  recs (m_run s) = recs before ++ [rec_r] ++ recs rest /\
  srel pv pv Z pv_eq (relabel pv Z r restarted) rest.
Proof. exact restart_transparent. Qed.
Print Assumptions C08_closed_restart.

(** non-vacuity: the reversed two-file set-up of Model/Setup.v restarted after its record of step 2 *)
Example C08_closed_ex :
  let s := ex_setup in let r := 2 in
  let step := sim_step pv Z (m_release s) (m_force s) s_cache (m_track s) (ibm s) (s_due s) in
  let before := fold_left step (zrange 0 r) (sim_init pv Z) in
  let rec_r := snapshot pv r (after_release pv Z (m_release s) (m_force s) before false r) in
  let np := npid before + Z.of_nat (length (m_release s r)) in
  let restarted := m_warm_run (warm_setup s r) (relabel_rec pv (- r) rec_r) np in
  setup_ok s = true /\ dir_ok (s_tk s) = true /\ s_due s r = true /\ s_nsteps s = 6 /\ np = 3 /\
  s_tk (warm_setup s r) = {| start := 2400; stop := 0; dt := 600; ref := 0; rev := true |} /\
  show_run restarted = [(2, [(0, 0, (21 # 8)%Q, 4, 20%Q); (1, 1, (45 # 8)%Q, 2, 20%Q); (2, 1, (45 # 8)%Q, 2, 20%Q)])] /\
  show_run (relabel pv Z r restarted) = skipn 2 (show_run (m_run s)).
Proof. vm_compute. repeat split. Qed.

(** non-vacuity, LAND: [ex_setup_land] (land in cell 4, output at every step) restarted after its record of step
    1 — the restarted run cancels the second move of the particle at x = 5 as the uninterrupted run does, then
    moves it through the masked flow *)
Example C08_closed_land_ex :
  let s := ex_setup_land in let r := 1 in
  let step := sim_step pv Z (m_release s) (m_force s) s_cache (m_track s) (ibm s) (s_due s) in
  let before := fold_left step (zrange 0 r) (sim_init pv Z) in
  let rec_r := snapshot pv r (after_release pv Z (m_release s) (m_force s) before false r) in
  let np := npid before + Z.of_nat (length (m_release s r)) in
  let restarted := m_warm_run (warm_setup s r) (relabel_rec pv (- r) rec_r) np in
  s_land (warm_setup s r) = [4] /\ setup_ok s = true /\ dir_ok (s_tk s) = true /\ s_due s r = true /\ s_nsteps s = 6 /\ np = 1 /\
  map (fun x : rec pv => (rstep x, map (fun y : Z * Z * pv => Qred (vx (snd y))) (rrows x))) (recs restarted) =
    [(1, [5%Q; 6%Q; 6%Q]); (2, [(73 # 16)%Q; (89 # 16)%Q; (89 # 16)%Q]);
     (3, [(579 # 128)%Q; (21 # 4)%Q; (21 # 4)%Q]); (4, [(4623 # 1024)%Q; (327 # 64)%Q; (327 # 64)%Q])] /\
  show_run (relabel pv Z r restarted) = skipn 2 (show_run (m_run s)).
Proof. vm_compute. repeat split. Qed.

(** non-vacuity, continuous release: [ex_setup_cont] (release every 1200 s) restarted after its record of
    step 2 — the warm releaser skips the tick at the restart time (already released) and releases the rows
    of file time 2400 at its own step 2 *)
Example C08_closed_cont_ex :
  let s := ex_setup_cont in let r := 2 in
  let step := sim_step pv Z (m_release s) (m_force s) s_cache (m_track s) (ibm s) (s_due s) in
  let before := fold_left step (zrange 0 r) (sim_init pv Z) in
  let rec_r := snapshot pv r (after_release pv Z (m_release s) (m_force s) before false r) in
  let np := npid before + Z.of_nat (length (m_release s r)) in
  let restarted := m_warm_run (warm_setup s r) (relabel_rec pv (- r) rec_r) np in
  s_cont s = Some 1200 /\ setup_ok s = true /\ dir_ok (s_tk s) = true /\ s_due s r = true /\ s_nsteps s = 6 /\ np = 2 /\
  s_tk (warm_setup s r) = {| start := 1200; stop := 3600; dt := 600; ref := 0; rev := false |} /\
  map (fun x : rec pv => (rstep x, length (rrows x))) (recs restarted) = [(2, 5%nat)] /\
  show_run (relabel pv Z r restarted) = skipn 2 (show_run (m_run s)).
Proof. vm_compute. repeat split. Qed.

(** non-vacuity, RK2 / RK4: [ex_setup_rk2] (RK2) restarted after its record of step 2, and [ex_setup_land_rk4] (RK4,
    land in cell 4: stage positions matter, non-dyadic positions) restarted after its record of step 1: the
    restarted runs, relabelled, write the records of the uninterrupted runs *)
Example C08_closed_rk_ex :
  let s := ex_setup_rk2 in let r := 2 in
  let step := sim_step pv Z (m_release s) (m_force s) s_cache (m_track s) (ibm s) (s_due s) in
  let before := fold_left step (zrange 0 r) (sim_init pv Z) in
  let rec_r := snapshot pv r (after_release pv Z (m_release s) (m_force s) before false r) in
  let np := npid before + Z.of_nat (length (m_release s r)) in
  let restarted := m_warm_run (warm_setup s r) (relabel_rec pv (- r) rec_r) np in
  let s' := ex_setup_land_rk4 in let r' := 1 in
  let step' := sim_step pv Z (m_release s') (m_force s') s_cache (m_track s') (ibm s') (s_due s') in
  let before' := fold_left step' (zrange 0 r') (sim_init pv Z) in
  let rec_r' := snapshot pv r' (after_release pv Z (m_release s') (m_force s') before' false r') in
  let np' := npid before' + Z.of_nat (length (m_release s' r')) in
  let restarted' := m_warm_run (warm_setup s' r') (relabel_rec pv (- r') rec_r') np' in
  s_adv (warm_setup s r) = 1 /\ setup_ok s = true /\ dir_ok (s_tk s) = true /\ s_due s r = true /\ s_nsteps s = 6 /\
  show_run restarted = [(2, [(0, 0, 3%Q, 4, 20%Q); (1, 1, (91 # 16)%Q, 2, 20%Q); (2, 1, (91 # 16)%Q, 2, 20%Q)])] /\
  show_run (relabel pv Z r restarted) = skipn 2 (show_run (m_run s)) /\
  s_adv (warm_setup s' r') = 2 /\ setup_ok s' = true /\ dir_ok (s_tk s') = true /\ s_due s' r' = true /\ s_nsteps s' = 6 /\
  length (recs restarted') = 4%nat /\
  show_run (relabel pv Z r' restarted') = skipn 2 (show_run (m_run s')).
Proof. vm_compute. repeat split. Qed.

(** non-vacuity: the executable instance used by the correspondence (Corr/SimInst.v) satisfies the
    hypothesis of T1, so T1 applies to every scenario the correspondence runs *)
From Ladim Require Import Corr.SimInst.
Theorem C08_instance_forcing_idempotent : forall s n v, i_force s n (i_force s n v) = i_force s n v.
Proof. intros s n v. reflexivity. Qed.
Print Assumptions C08_instance_forcing_idempotent.
