(** C03 — Forcing in time: linear between bracketing frames for any frame/file layout.
    Property theorems only; each closed by [exact] of a lemma from Proofs/ForcingTimeProofs.v.

    Vocabulary (Model/ForcingTime.v).  [raw] is the list of frames (model step, file, index in file) in
    the order forcing_steps enumerates them (ANY order, ANY assignment of frames to files and indices);
    [D] is the disk: (file, index) -> (u value, scalar value).  The hypotheses are decidable:
      nodupb (map fstep raw)  no two frames on the same model step (frames on the time grid; strictly
                              increasing in time = strictly in/decreasing in step, forward/reversed);
      readable raw D          every frame exists on the disk at its (file, index);
      covers raw n            a frame at or before step 0 and a frame after step n (the window is covered;
                              spacing 1, starts exactly on a frame and reversed runs are all included);
      0 <= n                  the model step (any run length).
    Time reversal: steps are numbered by the model (time2step negates), the machine is the same, the sign
    is flipped in velocity / force_particles ([rv]).  [state_at T D hs n] is the machine state after
    Forcing.__init__ and the updates for steps 0..n; [None] would be an exception. *)
From Coq Require Import ZArith QArith List Bool Sorted.
From Ladim Require Import Base.Num Model.Time Model.ForcingTime Proofs.ForcingTimeProofs.
Import ListNotations.
Open Scope Z_scope.

(** T1 (clause "at every model step the velocity field in force equals the linear interpolation between
    the two frames that bracket the model time; the frame itself when they coincide"): fields["u"] at
    step n is the interpolation at n, and variables["u"] is that value with the reversal sign. *)
Theorem C03_forcing_refines_lerp : forall raw D hs rv n,
  nodupb (map fstep raw) = true -> readable raw D = true -> covers raw n = true -> 0 <= n ->
  exists st v, state_at (mk_tables raw) D hs n = Some st /\
    lerp_spec (upts raw D) (inject_Z n) = Some v /\ (u st == v)%Q /\
    (particle_u rv st == if rv then - v else v)%Q.
Proof. exact forcing_refines_lerp. Qed.
Print Assumptions C03_forcing_refines_lerp.

(** T2 (clause "a velocity requested a fraction of a step ahead equals the same interpolation evaluated
    at that later time"): for f = 0 and for 1/1000 <= f <= 1 (the schemes use 0, 1/2, 1). *)
Theorem C03_fractional_velocity : forall raw D hs rv n f,
  nodupb (map fstep raw) = true -> readable raw D = true -> covers raw n = true -> 0 <= n ->
  (f == 0 \/ 1 # 1000 <= f)%Q -> (f <= 1)%Q ->
  exists st v, state_at (mk_tables raw) D hs n = Some st /\
    lerp_spec (upts raw D) (inject_Z n + f) = Some v /\
    (velocity_frac rv st f == if rv then - v else v)%Q.
Proof. exact fractional_velocity. Qed.
Print Assumptions C03_fractional_velocity.

(** T2, remaining range 0 <= f < 1/1000: the code takes the branch [fractional_step < 0.001] and returns
    the field at the step itself, i.e. the interpolation at n, which is f * dU short of the
    interpolation at n + f (dU = slope of the bracket per step). *)
Theorem C03_fractional_small : forall raw D hs rv n f,
  nodupb (map fstep raw) = true -> readable raw D = true -> covers raw n = true -> 0 <= n ->
  (0 <= f)%Q -> (f < 1 # 1000)%Q ->
  exists st v0 vf, state_at (mk_tables raw) D hs n = Some st /\
    lerp_spec (upts raw D) (inject_Z n) = Some v0 /\
    lerp_spec (upts raw D) (inject_Z n + f) = Some vf /\
    (velocity_frac rv st f == if rv then - v0 else v0)%Q /\
    (vf - v0 == f * dU st)%Q.
Proof. exact fractional_small. Qed.
Print Assumptions C03_fractional_small.

(** the general fact behind T2: u + f dU is the interpolation at n + f for every 0 <= f <= 1 *)
Theorem C03_fractional_general : forall raw D hs n f,
  nodupb (map fstep raw) = true -> readable raw D = true -> covers raw n = true -> 0 <= n ->
  (0 <= f <= 1)%Q ->
  exists st v, state_at (mk_tables raw) D hs n = Some st /\
    lerp_spec (upts raw D) (inject_Z n + f) = Some v /\ (v == u st + f * dU st)%Q.
Proof. exact fractional_general. Qed.
Print Assumptions C03_fractional_general.

(** T3 (clause "scalar forcing equals the latest frame at or before the model time"; in step numbering
    this is "at or after" in time for a reversed run): [sval raw D s] is the scalar stored at the
    (file, index) of the frame with step s, i.e. read from the file that contains it. *)
Theorem C03_scalar_latest : forall raw D n,
  nodupb (map fstep raw) = true -> readable raw D = true -> covers raw n = true -> 0 <= n ->
  exists st v, state_at (mk_tables raw) D true n = Some st /\
    latest_spec (spts raw D) n = Some v /\ (scal st == v)%Q.
Proof. exact scalar_latest. Qed.
Print Assumptions C03_scalar_latest.

(** T4 (clause "however they are split over files"): every read made so far (velocity and scalar, [rlog])
    hit the file and the index that the tables give for the requested step, and the file left open is
    the one holding the frame after step n. *)
Theorem C03_reads_from_right_file : forall raw D hs n,
  nodupb (map fstep raw) = true -> readable raw D = true -> covers raw n = true -> 0 <= n ->
  exists st pre a b post, state_at (mk_tables raw) D hs n = Some st /\
    steps (mk_tables raw) = pre ++ a :: b :: post /\ a <= n < b /\
    open_file st = Some (file_of raw b) /\ log_ok raw (rlog st).
Proof. exact reads_from_right_file. Qed.
Print Assumptions C03_reads_from_right_file.

(** The specification functions mean what they say on a sorted frame list: between consecutive frames
    a, b the value is [lerp], and the latest frame at or before n is a. *)
Theorem C03_lerp_spec_is_interpolation : forall (f : Z -> Q) pre a b post x,
  StronglySorted Z.lt (pre ++ a :: b :: post) -> (inject_Z a <= x <= inject_Z b)%Q ->
  exists v, lerp_spec (map (fun s => (s, f s)) (pre ++ a :: b :: post)) x = Some v /\
            (v == lerp (inject_Z a) (f a) (inject_Z b) (f b) x)%Q.
Proof. exact lerp_spec_at. Qed.
Print Assumptions C03_lerp_spec_is_interpolation.
Theorem C03_latest_spec_is_latest : forall (f : Z -> Q) pre a b post n,
  StronglySorted Z.lt (pre ++ a :: b :: post) -> a <= n < b ->
  latest_spec (map (fun s => (s, f s)) (pre ++ a :: b :: post)) n = Some (f a).
Proof. exact latest_spec_at. Qed.
Print Assumptions C03_latest_spec_is_latest.
(** interpolation in step space = interpolation in time (time = t0 + k * step, k = +dt or -dt) *)
Theorem C03_step_space_is_time_space : forall (A B fa fb x t0 k : Q), (A < B)%Q -> ~ (k == 0)%Q ->
  (lerp (t0 + k * A) fa (t0 + k * B) fb (t0 + k * x) == lerp A fa B fb x)%Q.
Proof. exact lerp_affine. Qed.
Print Assumptions C03_step_space_is_time_space.

(** Physical layouts (clause "however the frames are spaced, however they are split over files"): files
    given as lists of records (time, u, scalar), scanned as forcing_steps does with time2step of
    Model/Time.v.  Frames on the time grid at pairwise different times — any spacing, any number of
    files, any block sizes incl. one frame per file, forward or reversed clock — satisfy the two
    layout hypotheses of T1-T4 (what is left is [covers]). *)
Theorem C03_layout_hypotheses : forall t files, 0 < dt t ->
  on_grid t files = true -> nodupb (layout_times files) = true ->
  nodupb (map fstep (scan t files)) = true /\ readable (scan t files) (disk_of files) = true.
Proof. intros t files H1 H2 H3; exact (conj (layout_nodup t files H1 H2 H3) (layout_readable t files)). Qed.
Print Assumptions C03_layout_hypotheses.

(** * Non-vacuity: concrete layouts satisfying the hypotheses, and what the machine does on them *)
Definition obs (rv : bool) (o : option fstate) : option (Q * Q * Q * Q * option Z) :=
  match o with
  | Some st => Some (Qred (velocity_frac rv st 0), Qred (velocity_frac rv st (1 # 2)%Q),
                     Qred (velocity_frac rv st 1), Qred (scal st), open_file st)
  | None => None
  end.

Definition rc (time a b : Z) : record := (time, inject_Z a, inject_Z b).

(** first read straddles two files; frames at steps -3, -1 (file 0) and 1, 5 (file 1) *)
Definition ex_files1 : list (list record) :=
  [[rc 0 1 10; rc 1200 3 20]; [rc 2400 7 30; rc 4800 15 40]].
Definition ex_t1 : tk := {| start := 1800; stop := 4800; dt := 600; ref := 0; rev := false |}.
Example C03_ex_hypotheses :
  let raw := scan ex_t1 ex_files1 in
  map fstep raw = [-3; -1; 1; 5] /\ on_grid ex_t1 ex_files1 = true /\
  nodupb (layout_times ex_files1) = true /\ nodupb (map fstep raw) = true /\
  readable raw (disk_of ex_files1) = true /\ covers raw 4 = true.
Proof. vm_compute. repeat split. Qed.
Example C03_ex_forward :
  map (fun n => obs false (state_at (mk_tables (scan ex_t1 ex_files1)) (disk_of ex_files1) true n)) [0; 1; 4]
  = [Some (5, 6, 7, 20, Some 1%Z); Some (7, 8, 9, 30, Some 1%Z); Some (13, 14, 15, 30, Some 1%Z)]%Q.
Proof. vm_compute. reflexivity. Qed.

(** reversed run over two files, start exactly on the last frame; steps 0, 2 (file 1), 4, 6 (file 0) *)
Definition ex_files2 : list (list record) :=
  [[rc 0 1 10; rc 1200 3 20]; [rc 2400 7 30; rc 3600 15 40]].
Definition ex_t2 : tk := {| start := 3600; stop := 0; dt := 600; ref := 0; rev := true |}.
Example C03_ex_reversed_hypotheses :
  let raw := scan ex_t2 ex_files2 in
  map fstep raw = [6; 4; 2; 0] /\ steps (mk_tables raw) = [0; 2; 4; 6] /\
  nodupb (map fstep raw) = true /\ readable raw (disk_of ex_files2) = true /\ covers raw 5 = true.
Proof. vm_compute. repeat split. Qed.
Example C03_ex_reversed :
  map (fun n => obs true (state_at (mk_tables (scan ex_t2 ex_files2)) (disk_of ex_files2) true n)) [0; 2; 5]
  = [Some (-(15), -(13), -(11), 40, Some 1%Z); Some (-(7), -(6), -(5), 30, Some 0%Z);
     Some (-(2), -(3 # 2), -(1), 20, Some 0%Z)]%Q.
Proof. vm_compute. reflexivity. Qed.

(** frame spacing = dt (every step is a frame step), one frame per step *)
Definition ex_files3 : list (list record) :=
  [[rc 0 1 10; rc 600 2 20; rc 1200 4 30; rc 1800 8 40; rc 2400 16 50]].
Definition ex_t3 : tk := {| start := 0; stop := 2400; dt := 600; ref := 0; rev := false |}.
Example C03_ex_spacing_one :
  covers (scan ex_t3 ex_files3) 3 = true /\
  map (fun n => obs false (state_at (mk_tables (scan ex_t3 ex_files3)) (disk_of ex_files3) true n)) [0; 1; 3]
  = [Some (1, 3 # 2, 2, 10, Some 0%Z); Some (2, 3, 4, 20, Some 0%Z); Some (8, 12, 16, 40, Some 0%Z)]%Q.
Proof. vm_compute. split; reflexivity. Qed.

(** * The update before the repairs (commit f121242), run from the present __init__ *)
(** (a) spacing = dt: u_new was never refreshed, the field froze at the first frame (4 expected at step 2) *)
Example C03_spacing_one_old_defect :
  obs false (after_updates_old (mk_tables (scan ex_t3 ex_files3)) (disk_of ex_files3) true 3)
  = Some (1, 1, 1, 30, Some 0%Z)%Q.
Proof. vm_compute. reflexivity. Qed.
(** (b) at a frame step dU was still the slope of the previous interval: frames 0, 2, 10 at steps 0, 2, 6;
    at step 2 the interpolation at 2 + 1/2 is 3, the old update gave 5/2 *)
Definition ex_files4 : list (list record) :=
  [[rc 0 0 10; rc 1200 2 20; rc 3600 10 30]].
Example C03_slope_change_old_defect :
  obs false (after_updates_old (mk_tables (scan ex_t3 ex_files4)) (disk_of ex_files4) true 3)
  = Some (2, 5 # 2, 3, 20, Some 0%Z)%Q /\
  obs false (after_updates (mk_tables (scan ex_t3 ex_files4)) (disk_of ex_files4) true 3)
  = Some (2, 3, 4, 20, Some 0%Z)%Q.
Proof. vm_compute. split; reflexivity. Qed.
