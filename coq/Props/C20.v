(** C20 — Impossible set-ups are refused before the simulation starts.
    Property theorems only; each closed by [exact] of a lemma from Proofs/StartupProofs.v.
    Model: Model/Startup.v ([startup] = configure, then the modules state, time, grid, forcing,
    release, tracker, ibm, output in the construction order of Model.__init__; [main_run] = the
    time loop entered only after all of them exist).  Cold start, configuration version 2. *)
From Coq Require Import ZArith List Bool.
From Ladim Require Import Base.Num Model.Time Model.Release Model.Startup Proofs.ReleaseProofs
  Proofs.StartupProofs.
Import ListNotations.
Open Scope Z_scope.

(** T1 refuses_impossible.  Every fault of the property's list, as a decidable predicate on the
    set-up, makes the start-up end in a refusal, whatever else the set-up contains (so also for any
    combination of faults):
    forcing that does not cover [min_time, max_time] (no frame at all included); frames not
    strictly increasing over the concatenated file list (swapped or duplicated, inside a file or
    across a file boundary); missing start, stop or dt (dt = 0); stop on the wrong side of start
    for the direction flag; no release instant in the window [start, stop) (mirrored when
    reversed; continuous release: no tick first + k*frequency in it); release file without position
    columns or with a row lacking its position value; grid, forcing or release file missing (or
    no name for it); a mandatory section (time, forcing, release, tracker, output) missing; one of
    time, forcing, release, output given without content; illegal subgrid; unusable
    configuration file. *)
Theorem C20_refuses_impossible : forall s,
  fault_coverage s = true \/ fault_frame_order s = true \/ fault_missing_time s = true \/
  fault_direction s = true \/ fault_no_release s = true \/ fault_no_position s = true \/
  fault_missing_file s = true \/ fault_missing_section s = true \/ fault_empty_section s = true \/
  fault_subgrid s = true \/ fault_config_file s = true ->
  exists st, startup s = Refused st.
Proof. exact fault_list_refused. Qed.
Print Assumptions C20_refuses_impossible.

(** the same, contrapositive: a set-up that is started has none of the faults *)
Theorem C20_started_only_without_fault : forall s, startup s = Started -> any_fault s = false.
Proof. exact started_no_fault. Qed.
Print Assumptions C20_started_only_without_fault.

(** where the refusal happens and why: the first failing step in the construction order *)
Theorem C20_refusal_stage : forall s st, startup s = Refused st ->
  match st with
  | StConfig => configure s = false
  | StTime => configure s = true /\ time_stage s = None
  | StGrid => configure s = true /\ time_stage s <> None /\ grid_stage s = None
  | StForcing => exists t, configure s = true /\ time_stage s = Some t /\ grid_stage s <> None /\
                           forcing_stage s t = None
  | StRelease => exists t, configure s = true /\ time_stage s = Some t /\ grid_stage s <> None /\
                           forcing_stage s t <> None /\ release_stage s t = false
  | StOutput => exists t, configure s = true /\ time_stage s = Some t /\ grid_stage s <> None /\
                          forcing_stage s t <> None /\ release_stage s t = true /\ output_stage s t = None
  | StState | StTracker | StIbm => False
  end.
Proof. exact refused_stage. Qed.
Print Assumptions C20_refusal_stage.

(** readings of the fault predicates in plain arithmetic *)
Theorem C20_no_release_means : forall s a b,
  t_start s = Some a -> t_stop s = Some b -> rel_cont s = None ->
  (fault_no_release s = true <->
   forall x, In x (rel_times s) -> ~ (if t_rev s then b < x <= a else a <= x < b)).
Proof. exact fault_no_release_discrete. Qed.
Print Assumptions C20_no_release_means.
Theorem C20_frame_order_means : forall l, strictly_increasing l = true <-> allpairs Z.lt l.
Proof. exact fault_frame_order_spec. Qed.
Print Assumptions C20_frame_order_means.
Theorem C20_subgrid_means : forall s i0 i1 j0 j1, subgrid s = Some (i0, i1, j0, j1) ->
  0 <= i0 -> 0 <= i1 -> 0 <= j0 -> 0 <= j1 ->
  (fault_subgrid s = false <-> 1 <= i0 < i1 /\ i1 <= imax0 s - 1 /\ 1 <= j0 < j1 /\ j1 <= jmax0 s - 1).
Proof. exact fault_subgrid_plain. Qed.
Print Assumptions C20_subgrid_means.
(** the release stage refuses exactly when no release instant is in the window (discrete and
    continuous, any frequency; uses C04's refusal_cold for the discrete case) *)
Theorem C20_release_refusal_exact : forall t cont times,
  rel_ok t cont times = existsb (in_window t) (release_instants t cont times).
Proof. exact rel_ok_iff. Qed.
Print Assumptions C20_release_refusal_exact.

(** T2 accepts_valid.  A set-up with none of the faults is started, provided it is well formed in
    the respects the fault list does not mention: dt > 0, forcing.filename given, a module name in
    the grid or the forcing section, frequency > 0 for a continuous release, the three mandatory
    arguments of the output module.  (So T1 is not vacuous and the model is not "refuse all".) *)
Theorem C20_accepts_valid : forall s, any_fault s = false -> well_formed s = true -> startup s = Started.
Proof. exact no_fault_started. Qed.
Print Assumptions C20_accepts_valid.
(** part of it, about the forcing alone: frames covering a non-empty window always contain the
    pre-step frame and a frame after it (the lookups steps.index(prestep), stepdiff[i], steps[i+1]
    of Forcing.__init__ cannot fail), for every dt > 0, frame spacing and direction *)
Theorem C20_covering_forcing_has_prestep : forall t frames,
  0 < dt t -> (if rev t then stop t < start t else start t < stop t) ->
  covers t frames = true -> prestep_ok (sort (map (time2step t) frames)) = true.
Proof. exact prestep_frames. Qed.
Print Assumptions C20_covering_forcing_has_prestep.

(** T3 no_record_before_refusal.  Whatever refuses: the output module — the only writer of records,
    constructed last — is not among the constructed modules, the time loop is not entered (zero
    update() calls) and zero records are written. *)
Theorem C20_no_record_before_refusal : forall s st, startup s = Refused st ->
  e_output (snd (startup_env s)) = None /\ r_outcome (main_run s) = Refused st /\
  r_updates (main_run s) = 0 /\ r_records (main_run s) = 0.
Proof. exact refused_no_record. Qed.
Print Assumptions C20_no_record_before_refusal.
(** "the only writer": without the output module no list of steps produces a record *)
Theorem C20_no_output_module_no_record : forall e steps,
  e_output e = None -> zsum (map (output_update e) steps) = 0.
Proof. exact no_output_no_record. Qed.
Print Assumptions C20_no_output_module_no_record.
(** the refusal comes from configure, time, grid, forcing, release or output — never from state,
    tracker, ibm — and from a stage BEFORE the output module whenever the output section has its three
    mandatory arguments.  (Without them Output.__init__ itself refuses — TypeError at the call,
    before its body creates the file —: see [C20_output_stage_refuted].) *)
Theorem C20_refusal_stage_range : forall s st, startup s = Refused st ->
  st = StConfig \/ st = StTime \/ st = StGrid \/ st = StForcing \/ st = StRelease \/ st = StOutput.
Proof. exact refused_stage_range. Qed.
Print Assumptions C20_refusal_stage_range.
Theorem C20_refusal_before_output_stage : forall s st,
  sec_output s = SecPresent -> out_filename s = true -> out_ivars s = true -> out_period s <> None ->
  startup s = Refused st -> st <> StOutput.
Proof. exact refused_before_output. Qed.
Print Assumptions C20_refusal_before_output_stage.

(** * Examples *)
Definition ex_fwd : setup :=
  {| cf := CfOk; sec_time := SecPresent; sec_forcing := SecPresent; sec_release := SecPresent;
     sec_tracker := SecPresent; sec_output := SecPresent;
     grid_module := true; grid_filename := false; forcing_module := true; forcing_filename := true;
     t_start := Some 1000; t_stop := Some 1600; t_dt := 100; t_ref := None; t_rev := false;
     grid_file := false; imax0 := 8; jmax0 := 6; subgrid := Some (1, -1, 1, -1);
     forcing_files := [[900; 1100]; [1300; 1500; 1700]];
     rel_key := true; rel_name_empty := false; rel_file := true; rel_poscols := true; rel_rowpos := true;
     rel_times := [900; 1000; 1300; 1600]; rel_cont := None;
     out_filename := true; out_period := Some 200; out_ivars := true |}.
(** reversed, single file, continuous release every 200 s from a row before the start *)
Definition ex_rev : setup :=
  {| cf := CfOk; sec_time := SecPresent; sec_forcing := SecPresent; sec_release := SecPresent;
     sec_tracker := SecPresent; sec_output := SecPresent;
     grid_module := true; grid_filename := true; forcing_module := false; forcing_filename := true;
     t_start := Some 1600; t_stop := Some 1000; t_dt := 100; t_ref := Some 0; t_rev := true;
     grid_file := true; imax0 := 8; jmax0 := 6; subgrid := None;
     forcing_files := [[1000; 1300; 1600]];
     rel_key := true; rel_name_empty := false; rel_file := true; rel_poscols := true; rel_rowpos := true;
     rel_times := [2000]; rel_cont := Some 200;
     out_filename := true; out_period := Some 100; out_ivars := true |}.

(** non-vacuity of T2 (and of the model): both are valid and started; 6 steps, records at the steps
    0, 2, 4 (forward, period 2 dt) resp. every step *)
Example C20_ex_valid_forward :
  any_fault ex_fwd = false /\ well_formed ex_fwd = true /\ startup ex_fwd = Started /\
  r_updates (main_run ex_fwd) = 6 /\ r_records (main_run ex_fwd) = 3.
Proof. vm_compute. repeat split. Qed.
Example C20_ex_valid_reversed :
  any_fault ex_rev = false /\ well_formed ex_rev = true /\ startup ex_rev = Started /\
  r_updates (main_run ex_rev) = 6 /\ r_records (main_run ex_rev) = 6.
Proof. vm_compute. repeat split. Qed.

Definition with_files (s : setup) (f : list (list Z)) : setup :=
  {| cf := cf s; sec_time := sec_time s; sec_forcing := sec_forcing s; sec_release := sec_release s;
     sec_tracker := sec_tracker s; sec_output := sec_output s; grid_module := grid_module s;
     grid_filename := grid_filename s; forcing_module := forcing_module s; forcing_filename := forcing_filename s;
     t_start := t_start s; t_stop := t_stop s; t_dt := t_dt s; t_ref := t_ref s; t_rev := t_rev s;
     grid_file := grid_file s; imax0 := imax0 s; jmax0 := jmax0 s; subgrid := subgrid s;
     forcing_files := f;
     rel_key := rel_key s; rel_name_empty := rel_name_empty s; rel_file := rel_file s;
     rel_poscols := rel_poscols s; rel_rowpos := rel_rowpos s; rel_times := rel_times s; rel_cont := rel_cont s;
     out_filename := out_filename s; out_period := out_period s; out_ivars := out_ivars s |}.
Definition with_release (s : setup) (times : list Z) (cont : option Z) (rowpos : bool) : setup :=
  {| cf := cf s; sec_time := sec_time s; sec_forcing := sec_forcing s; sec_release := sec_release s;
     sec_tracker := sec_tracker s; sec_output := sec_output s; grid_module := grid_module s;
     grid_filename := grid_filename s; forcing_module := forcing_module s; forcing_filename := forcing_filename s;
     t_start := t_start s; t_stop := t_stop s; t_dt := t_dt s; t_ref := t_ref s; t_rev := t_rev s;
     grid_file := grid_file s; imax0 := imax0 s; jmax0 := jmax0 s; subgrid := subgrid s;
     forcing_files := forcing_files s;
     rel_key := rel_key s; rel_name_empty := rel_name_empty s; rel_file := rel_file s;
     rel_poscols := rel_poscols s; rel_rowpos := rowpos; rel_times := times; rel_cont := cont;
     out_filename := out_filename s; out_period := out_period s; out_ivars := out_ivars s |}.
Definition with_time (s : setup) (a b : option Z) (d : Z) (rv : bool) : setup :=
  {| cf := cf s; sec_time := sec_time s; sec_forcing := sec_forcing s; sec_release := sec_release s;
     sec_tracker := sec_tracker s; sec_output := sec_output s; grid_module := grid_module s;
     grid_filename := grid_filename s; forcing_module := forcing_module s; forcing_filename := forcing_filename s;
     t_start := a; t_stop := b; t_dt := d; t_ref := t_ref s; t_rev := rv;
     grid_file := grid_file s; imax0 := imax0 s; jmax0 := jmax0 s; subgrid := subgrid s;
     forcing_files := forcing_files s;
     rel_key := rel_key s; rel_name_empty := rel_name_empty s; rel_file := rel_file s;
     rel_poscols := rel_poscols s; rel_rowpos := rel_rowpos s; rel_times := rel_times s; rel_cont := rel_cont s;
     out_filename := out_filename s; out_period := out_period s; out_ivars := out_ivars s |}.
Definition with_sections (s : setup) (st sf sr str so : sec) (sub : option (Z * Z * Z * Z)) (ofn : bool) : setup :=
  {| cf := cf s; sec_time := st; sec_forcing := sf; sec_release := sr;
     sec_tracker := str; sec_output := so; grid_module := grid_module s;
     grid_filename := grid_filename s; forcing_module := forcing_module s; forcing_filename := forcing_filename s;
     t_start := t_start s; t_stop := t_stop s; t_dt := t_dt s; t_ref := t_ref s; t_rev := t_rev s;
     grid_file := grid_file s; imax0 := imax0 s; jmax0 := jmax0 s; subgrid := sub;
     forcing_files := forcing_files s;
     rel_key := rel_key s; rel_name_empty := rel_name_empty s; rel_file := rel_file s;
     rel_poscols := rel_poscols s; rel_rowpos := rel_rowpos s; rel_times := rel_times s; rel_cont := rel_cont s;
     out_filename := ofn; out_period := out_period s; out_ivars := out_ivars s |}.

(** single faults in the valid set-ups, with the refusing stage *)
Example C20_ex_forcing_faults :
  (* first frame one step after the start; last frame one step before the stop *)
  startup (with_files ex_fwd [[1100]; [1300; 1500; 1700]]) = Refused StForcing /\
  startup (with_files ex_fwd [[900; 1100]; [1300; 1500]]) = Refused StForcing /\
  (* reversed run whose forcing does not reach back to the stop time, although it covers the start *)
  startup (with_files ex_rev [[1100; 1300; 1600; 1900]]) = Refused StForcing /\
  (* swapped across the file boundary; duplicated across the file boundary; no file; no frame *)
  startup (with_files ex_fwd [[900; 1300]; [1100; 1500; 1700]]) = Refused StForcing /\
  startup (with_files ex_fwd [[900; 1100]; [1100; 1500; 1700]]) = Refused StForcing /\
  startup (with_files ex_rev []) = Refused StForcing /\
  startup (with_files ex_rev [[]]) = Refused StForcing /\
  (* without grid.filename the grid file is the first forcing file: the grid refuses first *)
  startup (with_files ex_fwd []) = Refused StGrid /\
  (* tight but valid: first frame exactly at the minimum, last exactly at the maximum time *)
  startup (with_files ex_fwd [[1000; 1300]; [1600]]) = Started.
Proof. vm_compute. repeat split. Qed.
Example C20_ex_time_faults :
  startup (with_time ex_fwd None (Some 1600) 100 false) = Refused StTime /\
  startup (with_time ex_fwd (Some 1000) None 100 false) = Refused StTime /\
  startup (with_time ex_fwd (Some 1000) (Some 1600) 0 false) = Refused StTime /\
  startup (with_time ex_fwd (Some 1000) (Some 1600) 100 true) = Refused StTime /\
  startup (with_time ex_rev (Some 1600) (Some 1000) 100 false) = Refused StTime /\
  startup (with_time ex_rev (Some 1600) (Some 1600) 100 true) = Refused StTime.
Proof. vm_compute. repeat split. Qed.
Example C20_ex_release_faults :
  (* all rows before the start; at or after the stop; only exactly at the stop (stop-exclusive) *)
  startup (with_release ex_fwd [800; 900] None true) = Refused StRelease /\
  startup (with_release ex_fwd [1600; 1700] None true) = Refused StRelease /\
  startup (with_release ex_fwd [1600] None true) = Refused StRelease /\
  startup (with_release ex_rev [1000] None true) = Refused StRelease /\
  startup (with_release ex_rev [1700] None true) = Refused StRelease /\
  (* continuous: first row at/after the stop; ticks 2000, 1800 only (frequency 200... 1600 is a tick:
     valid), frequency 700: ticks 2000, 1300 -> valid; frequency 1100: tick 2000 only -> refused *)
  startup (with_release ex_rev [900] (Some 200) true) = Refused StRelease /\
  startup (with_release ex_rev [2000] (Some 700) true) = Started /\
  startup (with_release ex_rev [2000] (Some 1100) true) = Refused StRelease /\
  (* boundaries that are valid: exactly at the start; one step before the stop *)
  startup (with_release ex_fwd [1000] None true) = Started /\
  startup (with_release ex_fwd [1500] None true) = Started /\
  startup (with_release ex_rev [1100] None true) = Started /\
  (* a row without its position value (refused since /repo dcd1274; accepted before) *)
  startup (with_release ex_fwd [1000; 1300] None false) = Refused StRelease.
Proof. vm_compute. repeat split. Qed.
Example C20_ex_section_and_grid_faults :
  startup (with_sections ex_fwd SecMissing SecPresent SecPresent SecPresent SecPresent None true) = Refused StConfig /\
  startup (with_sections ex_fwd SecPresent SecMissing SecPresent SecPresent SecPresent None true) = Refused StConfig /\
  startup (with_sections ex_fwd SecPresent SecPresent SecMissing SecPresent SecPresent None true) = Refused StConfig /\
  startup (with_sections ex_fwd SecPresent SecPresent SecPresent SecMissing SecPresent None true) = Refused StConfig /\
  startup (with_sections ex_fwd SecPresent SecPresent SecPresent SecPresent SecMissing None true) = Refused StConfig /\
  startup (with_sections ex_fwd SecNull SecPresent SecPresent SecPresent SecPresent None true) = Refused StTime /\
  startup (with_sections ex_fwd SecPresent SecPresent SecNull SecPresent SecPresent None true) = Refused StRelease /\
  startup (with_sections ex_fwd SecPresent SecPresent SecPresent SecPresent SecNull None true) = Refused StOutput /\
  (* subgrid: i0 >= i1; beyond the grid; 0; negative beyond the grid; legal negative *)
  startup (with_sections ex_fwd SecPresent SecPresent SecPresent SecPresent SecPresent (Some (4, 4, 1, 5)) true) = Refused StGrid /\
  startup (with_sections ex_fwd SecPresent SecPresent SecPresent SecPresent SecPresent (Some (1, 8, 1, 5)) true) = Refused StGrid /\
  startup (with_sections ex_fwd SecPresent SecPresent SecPresent SecPresent SecPresent (Some (0, 7, 1, 5)) true) = Refused StGrid /\
  startup (with_sections ex_fwd SecPresent SecPresent SecPresent SecPresent SecPresent (Some (-11, 7, 1, 5)) true) = Refused StGrid /\
  startup (with_sections ex_fwd SecPresent SecPresent SecPresent SecPresent SecPresent (Some (-7, -1, -4, -1)) true) = Started.
Proof. vm_compute. repeat split. Qed.

(** where the code is more lenient or later than one might expect (all observed on the real code) *)
(** the literal "the refusing stage is never the output module" does not hold: without
    output.filename the refusal IS the call of Output.__init__ (TypeError before its body runs; no
    file, no record — T3 above still holds) *)
Example C20_output_stage_refuted :
  let s := with_sections ex_fwd SecPresent SecPresent SecPresent SecPresent SecPresent None false in
  startup s = Refused StOutput /\ r_records (main_run s) = 0 /\ r_updates (main_run s) = 0.
Proof. vm_compute. repeat split. Qed.
(** a tracker section without content is NOT refused (empty tracker = no advection): "mandatory
    section given without content" is a fault for time, forcing, release, output only *)
Example C20_empty_tracker_accepted :
  startup (with_sections ex_fwd SecPresent SecPresent SecPresent SecNull SecPresent None true) = Started.
Proof. vm_compute. reflexivity. Qed.
(** with grid.module and grid.filename given, configure does not look at the forcing section: its
    absence surfaces when Model.__init__ reaches the forcing module (uncaught KeyError), after
    state, time and grid were built — still before the loop *)
Example C20_missing_forcing_section_late :
  startup (with_sections ex_rev SecPresent SecMissing SecPresent SecPresent SecPresent None true) = Refused StForcing.
Proof. vm_compute. reflexivity. Qed.
(** forward run with stop = start passes the direction check of the timekeeper (it is refused by
    the release stage: the window is empty) *)
Example C20_start_eq_stop_forward :
  startup (with_time (with_files ex_fwd [[900; 1100]]) (Some 1000) (Some 1000) 100 false) = Refused StRelease /\
  (* ... unless the forcing has a single frame exactly there: then the forcing stage fails first *)
  startup (with_time (with_files ex_fwd [[1000]]) (Some 1000) (Some 1000) 100 false) = Refused StForcing.
Proof. vm_compute. repeat split. Qed.
