(** C09 — Particles stay in the water inside the domain; the dead stay dead. *)
From Coq Require Import ZArith QArith List Bool.
From Ladim Require Import Base.Num Model.Sim Proofs.SimInvProofs Model.Tracker Proofs.TrackerProofs.
Import ListNotations.
Open Scope Q_scope.

(** T1: for ANY candidate position whatsoever (any velocity field, any diffusion draw, any scheme;
    [None] = NaN/inf) one move keeps "alive => inside the valid region and in a sea cell" *)
Theorem C09_move_preserves_valid : forall g p c, valid g p -> valid g (move g p c).
Proof. exact move_preserves_valid. Qed.
Print Assumptions C09_move_preserves_valid.

(** T2: a particle is dead after the move iff it was dead or its candidate is outside / not finite *)
Theorem C09_killed_iff_candidate_outside : forall g p c,
  alive (move g p c) = alive p && match c with Some (x, y) => ingrid g x y | None => false end.
Proof. exact move_alive. Qed.
Print Assumptions C09_killed_iff_candidate_outside.

(** T3: a move onto land is cancelled: position unchanged, still alive *)
Theorem C09_land_move_cancelled : forall g p x y,
  ingrid g x y = true -> atsea g x y = false ->
  px (move g p (Some (x, y))) = px p /\ py (move g p (Some (x, y))) = py p /\
  alive (move g p (Some (x, y))) = alive p.
Proof. exact move_land_cancelled. Qed.
Print Assumptions C09_land_move_cancelled.

(** T4: inactive particles are not moved horizontally *)
Theorem C09_inactive_not_moved : forall g p c, active p = false ->
  px (move g p c) = px p /\ py (move g p c) = py p.
Proof. exact move_inactive_not_moved. Qed.
Print Assumptions C09_inactive_not_moved.

(** an active particle whose candidate is in open water inside the grid does move there *)
Theorem C09_moves_to_candidate : forall g p x y,
  active p = true -> ingrid g x y = true -> atsea g x y = true ->
  px (move g p (Some (x, y))) = x /\ py (move g p (Some (x, y))) = y.
Proof. exact move_moves_to_candidate. Qed.
Print Assumptions C09_moves_to_candidate.

(** T5: no dead particle becomes alive again; after the removal of the dead at the start of the next
    step every living particle descends from a particle that was alive (or newly released) *)
Theorem C09_dead_stay_dead : forall g p c, alive (move g p c) = true -> alive p = true.
Proof. exact move_dead_stay_dead. Qed.
Print Assumptions C09_dead_stay_dead.
Theorem C09_alive_descends_from_alive : forall g ps cs q, In q (move_all g ps cs) -> alive q = true ->
  exists p c, In p ps /\ q = move g p c /\ alive p = true.
Proof. exact move_all_alive_from. Qed.
Print Assumptions C09_alive_descends_from_alive.

(** T6: trajectory invariant — any number of steps, any candidates, any releases in sea cells of the
    valid region: every living particle is inside the valid region, in a sea cell (at a finite position) *)
Theorem C09_trajectory_invariant : forall g steps ps,
  Forall (valid g) ps -> Forall (fun s => Forall (valid g) (released s)) steps ->
  Forall (valid g) (track g ps steps).
Proof. intros g steps ps. exact (track_valid g steps ps). Qed.
Print Assumptions C09_trajectory_invariant.

(** living particles index the mask / depth / metric arrays strictly inside: 1 <= I <= imax-2 *)
Theorem C09_valid_cell_in_array : forall g x y, ingrid g x y = true ->
  (1 <= cellI g x <= (gi1 g - gi0 g) - 2 /\ 1 <= cellJ g y <= (gj1 g - gj0 g) - 2)%Z.
Proof. exact ingrid_cell_bounds. Qed.
Print Assumptions C09_valid_cell_in_array.

(** T6 at system level: through the real step protocol (compactify, release, forcing, output, move, IBM —
    Model/Sim.v), with the tracker's move fed by ARBITRARY candidates, any release schedule into sea cells
    of the valid region, any forcing-derived variables and any IBM that does not move particles
    horizontally: every particle of every output record is inside the valid region in a sea cell *)
Theorem C09_every_record_in_water : forall (g : grid) (C : Type) cand release_at forcef cachef ibmf due N,
  (forall n x, In x (release_at n) -> wet g (snd x)) ->
  (forall n v, wet g v -> wet g (forcef n v)) ->
  (forall n v v', wet g v -> ibmf n v = (v', true) -> wet g v') ->
  Forall (fun r => Forall (fun x => wet g (snd x)) (Sim.rrows r))
         (Sim.recs (Sim.cold_run (Q * Q * bool) C release_at forcef cachef (track_inst g C cand) ibmf due N)).
Proof.
  intros g C cand release_at forcef cachef ibmf due N Hrel Hforce Hibm.
  exact (cold_records_satisfy (Q * Q * bool) C release_at forcef cachef (track_inst g C cand) ibmf due (wet g)
           Hrel Hforce (track_inst_wet g C cand) Hibm N).
Qed.
Print Assumptions C09_every_record_in_water.

(** non-vacuity: a 6x5 subgrid with an island; one particle pushed onto the island (cancelled),
    one out of the grid (killed), one NaN (killed), one moved *)
Example C09_ex :
  let g := {| gi0 := 1; gi1 := 7; gj0 := 1; gj1 := 6;
              gM := [[1;1;1;1;1;1]; [1;1;1;1;1;1]; [1;1;0;1;1;1]; [1;1;1;1;1;1]; [1;1;1;1;1;1]]%Z;
              gH := []; gDX := [] |} in
  let p := {| px := 2; py := 3; alive := true; active := true |} in
  valid g p /\
  move g p (Some (3, 3)) = p /\
  alive (move g p (Some (1 # 4, 3))) = false /\ alive (move g p None) = false /\
  px (move g p (Some (2 + (1#4), 3))) = 2 + (1#4).
Proof. split; [intros _; split; reflexivity|]. vm_compute. repeat split. Qed.

(** * The same rules in the CLOSED RUN MODEL of whole set-ups (Model/Setup.v; closed theorems C08 / C10 / C14;
    tied to ladim.main by Corr/SetupRun.v): one horizontal line with land cells [s_land]; the cell of a position
    is its round-half-even as in [cellI]; the u-faces next to a land cell are masked to zero and the particle
    feels the linear interpolation between its two faces (ROMS.Forcing._read_velocity, sample3DUV). *)
From Ladim Require Model.Setup Proofs.SetupProofs.
(** the candidate: x + (velocity of the set-up's advection scheme at x) * dt/dx, for the flow u given as a
    function of the fractional step; under EF ([s_adv] = 0) that is x + (flow felt at x) * dt/dx, the flow in
    force being u(0) * factor(depth class) *)
Theorem C09_setup_candidate : forall s u v c,
  SetupProofs.cand s u v c == Setup.vx v + Setup.adv s u c (Setup.vx v) * Setup.s_dtdx s.
Proof. exact SetupProofs.cand_value. Qed.
Print Assumptions C09_setup_candidate.
Theorem C09_setup_candidate_EF : forall s u v c, Setup.s_adv s = 0%Z ->
  SetupProofs.cand s u v c == Setup.vx v + Setup.felt s (u 0 * Setup.cfac s c) (Setup.vx v) * Setup.s_dtdx s.
Proof. intros s u v c E. rewrite SetupProofs.cand_value, (SetupProofs.adv_EF s u c _ E). reflexivity. Qed.
Print Assumptions C09_setup_candidate_EF.
(** killed exactly when the candidate leaves the valid interval; the value is kept *)
Theorem C09_setup_killed_iff_candidate_outside : forall s u v c,
  snd (Setup.move s u v c) = SetupProofs.inside s (SetupProofs.cand s u v c) /\
  (SetupProofs.inside s (SetupProofs.cand s u v c) = false -> Setup.move s u v c = (v, false)).
Proof. intros s u v c. split; [apply SetupProofs.move_alive_iff|apply SetupProofs.move_outside]. Qed.
Print Assumptions C09_setup_killed_iff_candidate_outside.
(** a move onto land is cancelled: the particle stays where it is, alive *)
Theorem C09_setup_land_move_cancelled : forall s u v c,
  SetupProofs.inside s (SetupProofs.cand s u v c) = true ->
  Setup.is_land s (qround (SetupProofs.cand s u v c)) = true -> Setup.move s u v c = (v, true).
Proof. exact SetupProofs.move_onto_land. Qed.
Print Assumptions C09_setup_land_move_cancelled.
(** otherwise the particle moves to the candidate *)
Theorem C09_setup_moves_to_candidate : forall s u v c,
  SetupProofs.inside s (SetupProofs.cand s u v c) = true ->
  Setup.is_land s (qround (SetupProofs.cand s u v c)) = false ->
  Setup.move s u v c =
    ({| Setup.vx := SetupProofs.cand s u v c; Setup.vcls := Setup.vcls v; Setup.vage := Setup.vage v;
        Setup.vtemp := Setup.vtemp v |}, true).
Proof. exact SetupProofs.move_at_sea. Qed.
Print Assumptions C09_setup_moves_to_candidate.
(** the flow felt: the whole flow where the three cells around the two faces are sea (in particular without
    land), nothing when the cell between the two faces is land *)
Theorem C09_setup_felt_flow : forall s U x, let k := qfloor (x - (1 # 2)) in
  (Setup.is_land s k = false -> Setup.is_land s (k + 1) = false -> Setup.is_land s (k + 2) = false ->
   Setup.felt s U x == U) /\
  (Setup.s_land s = [] -> Setup.felt s U x == U) /\
  (Setup.is_land s (k + 1) = true -> Setup.felt s U x == 0).
Proof.
  intros s U x k. split; [apply SetupProofs.felt_open|].
  split; [apply SetupProofs.felt_no_land|apply SetupProofs.felt_in_land].
Qed.
Print Assumptions C09_setup_felt_flow.
(** T6 for the closed run model: every particle of every record of the set-up's run is inside the valid
    interval in a sea cell, when the particles are released there *)
Theorem C09_setup_every_record_in_water : forall s,
  (forall n x, In x (Setup.m_release s n) -> SetupProofs.wet s (snd x)) ->
  Forall (fun r => Forall (fun x => SetupProofs.wet s (snd x)) (Sim.rrows r)) (Sim.recs (Setup.m_run s)).
Proof. exact SetupProofs.setup_records_in_water. Qed.
Print Assumptions C09_setup_every_record_in_water.
