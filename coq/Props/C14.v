(** C14 — Particles are independent; runs are reproducible and time-shift invariant.

    Partial clause (stated, not provable in this family): "repeating a run reproduces the output exactly"
    is trivially true of a Gallina function and says nothing about the interpreter (hash-seed dependent
    iteration over sets, unseeded generators): that part is exercised by the correspondence only
    (same scenario under different PYTHONHASHSEED, files compared). *)
From Coq Require Import ZArith QArith List Bool Permutation.
From Ladim Require Import Base.Num Model.Time Model.Sim Proofs.SimProofs Proofs.SimIndepProofs Proofs.SimPermProofs Proofs.SymmetryProofs.
From Ladim Require Import Model.Setup Proofs.SimRelProofs Proofs.SetupProofs Proofs.SetupSymProofs.
From Ladim Require Model.Tracker.
Import ListNotations.
Open Scope Z_scope.

(** the invariant the independence rests on: whatever the history, the per-particle arrays cached by
    Forcing.update are aligned with the particle list when Tracker.update and the IBM consume them, so
    one step acts on each particle through ITS OWN cache entry and never fails on a shape mismatch *)
Theorem C14_forcing_cache_aligned : forall (V C : Type) release_at forcef cachef trackf ibmf due do_out skip (s : sim V C) n,
  crashed s = false ->
  sim_step_gen V C release_at forcef cachef trackf ibmf due do_out skip s n =
  {| parts := map (moved V C cachef trackf ibmf n) (after_release V C release_at forcef s skip n);
     npid := npid s + Z.of_nat (length (if skip then [] else release_at n));
     cache := map (fun p => cachef n (pval p)) (after_release V C release_at forcef s skip n);
     recs := if do_out && due n then recs s ++ [snapshot V n (after_release V C release_at forcef s skip n)] else recs s;
     crashed := false |}.
Proof. exact step_spec. Qed.
Print Assumptions C14_forcing_cache_aligned.

(** T1: for ANY sub-table of the release table ([keep] on rows), any physics, any number of steps: the
    run of the sub-table equals the run of the full table with the other particles dropped — same values,
    same liveness, same records for every kept row (pids renumbered).  Adding rows is the same statement
    read from right to left; other particles dying is covered because liveness is part of the physics. *)
Theorem C14_particlewise : forall (V C : Type) release_at forcef cachef trackf ibmf due keep N,
  let r1 := cold_run V C release_at forcef cachef trackf ibmf due N in
  let r2 := cold_run V C (release_sub V release_at keep) forcef cachef trackf ibmf due N in
  view V (parts r2) = kfilter V keep (view V (parts r1)) /\
  map (rview V) (recs r2) = map (rkeep V keep) (map (rview V) (recs r1)).
Proof. exact particlewise_cold. Qed.
Print Assumptions C14_particlewise.

(** T1, reordering: if at every step the release rows are a PERMUTATION of the other set-up's rows, then at
    every moment the two runs hold the same particles with the same values and liveness up to order (and
    renumbering), and every record holds the same (row, values) entries up to order *)
Theorem C14_reordering_rows : forall (V C : Type) release_at release_at' forcef cachef trackf ibmf due,
  (forall n, Permutation (release_at n) (release_at' n)) -> forall N,
  let r1 := cold_run V C release_at forcef cachef trackf ibmf due N in
  let r2 := cold_run V C release_at' forcef cachef trackf ibmf due N in
  Permutation (view V (parts r1)) (view V (parts r2)) /\
  Forall2 (@Permutation _) (map (rrows_tv V) (recs r1)) (map (rrows_tv V) (recs r2)).
Proof. intros V C ra ra' ff cf tf bf du H N. exact (reorder_cold V C ra ra' ff cf tf bf du H N). Qed.
Print Assumptions C14_reordering_rows.

(** T2: shifting every time of the set-up by d (a whole number of steps or not) leaves the step of every
    time, the time of every step (up to d) and the number of steps unchanged: the shifted set-up compiles
    to the same step-indexed environment, and a run depends on the set-up only through that environment *)
Theorem C14_shift_invariance_steps : forall t d x n,
  time2step (shift_tk t d) (x + d) = time2step t x /\ step2time (shift_tk t d) n = step2time t n + d /\
  nsteps (shift_tk t d) = nsteps t.
Proof. intros t d x n. exact (conj (time2step_shift t d x) (conj (step2time_shift t d n) (nsteps_shift t d))). Qed.
Print Assumptions C14_shift_invariance_steps.
Theorem C14_lerp_shift : forall a fa b fb x d, (~ b - a == 0 -> lerp (a + d) fa (b + d) fb (x + d) == lerp a fa b fb x)%Q.
Proof. exact lerp_shift. Qed.
Print Assumptions C14_lerp_shift.
Theorem C14_run_depends_on_environment_only : forall (V C : Type) rel rel' ff ff' cf cf' tf tf' bf bf' du du',
  (forall n, rel n = rel' n) -> (forall n v, ff n v = ff' n v) -> (forall n v, cf n v = cf' n v) ->
  (forall n v c, tf n v c = tf' n v c) -> (forall n v, bf n v = bf' n v) -> (forall n, du n = du' n) ->
  forall N, cold_run V C rel ff cf tf bf du N = cold_run V C rel' ff' cf' tf' bf' du' N.
Proof. exact cold_run_ext. Qed.
Print Assumptions C14_run_depends_on_environment_only.

(** T2 CLOSED, about whole set-ups (Model/Setup.v: clock, forcing files with frames at arbitrary times,
    release table, output period, physics constants; the run is compiled by the component MACHINES of
    ForcingTime.v / Release.v / Time.v): shift EVERY time of a well-formed set-up by any d seconds — start,
    stop, reference, every frame of every forcing file, every release row.  The shifted set-up is well-formed
    and its run equals the original run particle for particle and record for record.
    [srel pv pv Z pv_eq r1 r2] (Proofs/SimRelProofs.v) says: neither run crashed; after the last step both hold
    the same particles in the same order — same release row (tag), same pid, same liveness, values equal up
    to == on the rationals (position, depth class, age, scalar) —; the same number of particles was released;
    and the two runs wrote the same number of records, each at the same step with the same (pid, row, values).
    The releaser of the set-up works in either mode ([s_cont]): discrete release of the table rows at their
    times, or continuous release (discretize() on the frequency grid; tables satisfying C04's [cont_ok]).
    The physics of the set-up includes LAND cells along the particle line ([s_land]): u-faces next to land
    masked to zero, moves onto land cancelled, death outside the valid interval (stated in Props/C09.v).
    The ADVECTION SCHEME of the tracker is inside the set-up model ([s_adv]: EF, RK2 = midpoint, RK4 = classical,
    with Forcing.velocity's fractional-step sampling u + f dU at f = 0, 1/2, 1/2, 1 and the masked-face
    interpolation at every stage position): the theorem covers the three schemes.  Well-formedness ([setup_ok])
    includes [no_clip]: no frame moves a particle by more than 98/100 (RK2) / 49/100 (RK4) of a cell per step, so
    that the clip of the stage positions in tracker.py — not modelled — is the identity ([C14_stages_never_clipped]
    in Props/C14.v); set-ups with a faster flow under RK2 / RK4 are EXCLUDED. *)
Theorem C14_closed_shift : forall s d, setup_ok s = true ->
  setup_ok (shift_setup s d) = true /\ srel pv pv Z pv_eq (m_run s) (m_run (shift_setup s d)).
Proof. exact shift_invariance. Qed.
Print Assumptions C14_closed_shift.

(** the machines compute the specification: for every well-formed set-up the run equals the run in which
    particles enter at the steps of their release times (C04's schedule), feel the linear interpolation of
    the frames (C03) with the reversal sign — under RK2 / RK4 the stage at fractional step f of step n feels the
    interpolation at the point n + f of the step axis (C03's [fractional_velocity]) —, and carry the latest scalar
    frame; in continuous-release mode
    particles enter at every tick of the frequency grid inside the window, with the row set of the latest
    file time (C04's [cont_released_at]) *)
Theorem C14_run_refines_spec : forall s, setup_ok s = true -> srel pv pv Z pv_eq (m_run s) (sp_run s).
Proof. exact run_refines_spec. Qed.
Print Assumptions C14_run_refines_spec.

Example C14_closed_ex :
  setup_ok ex_setup = true /\ setup_ok (shift_setup ex_setup 777) = true /\
  show_run (m_run (shift_setup ex_setup 777)) = show_run (m_run ex_setup) /\
  show_run (sp_run ex_setup) = show_run (m_run ex_setup) /\
  show_run (m_run ex_setup) =
    [(0, [(0, 0, 5%Q, 0, 40%Q)]); (2, [(0, 0, (27 # 8)%Q, 2, 30%Q); (1, 1, 6%Q, 0, 30%Q); (2, 1, 6%Q, 0, 30%Q)]);
     (4, [(0, 0, (21 # 8)%Q, 4, 20%Q); (1, 1, (45 # 8)%Q, 2, 20%Q); (2, 1, (45 # 8)%Q, 2, 20%Q)])].
Proof. vm_compute. repeat split. Qed.

(** non-vacuity, LAND: [ex_setup_land] of Model/Setup.v has land in cell 4.  The particle released at x = 5 feels
    half the flow (one of its two u-faces is masked); its first two moves would end in the land cell and are
    CANCELLED, the third is made and the particle creeps towards the masked face; without the land the same
    particle feels the whole flow, moves at once and leaves the valid interval in its third move *)
Definition xs_of (r : sim pv Z) : list (Z * list Q) :=
  map (fun x : rec pv => (rstep x, map (fun y : Z * Z * pv => Qred (vx (snd y))) (rrows x))) (recs r).
Definition no_land (s : setup) : setup :=
  {| s_tk := s_tk s; s_files := s_files s; s_tab := s_tab s; s_cont := s_cont s; s_period := s_period s;
     s_dtdx := s_dtdx s; s_lo := s_lo s; s_hi := s_hi s; s_life := s_life s; s_cfac := s_cfac s; s_land := [];
     s_adv := s_adv s |}.
Example C14_closed_land_ex :
  s_land ex_setup_land = [4] /\ setup_ok ex_setup_land = true /\ setup_ok (shift_setup ex_setup_land 777) = true /\
  show_run (m_run (shift_setup ex_setup_land 777)) = show_run (m_run ex_setup_land) /\
  show_run (sp_run ex_setup_land) = show_run (m_run ex_setup_land) /\
  m_u ex_setup_land 0 = (-15)%Q /\
  Qred (felt ex_setup_land (-15) 5) = (-15 # 2)%Q /\ Qred (felt ex_setup_land (-15) 6) = (-15)%Q /\
  move ex_setup_land (fun _ => (-15)%Q) {| vx := 5; vcls := 0; vage := 0; vtemp := 0 |} 0 =
    ({| vx := 5; vcls := 0; vage := 0; vtemp := 0 |}, true) /\
  xs_of (m_run ex_setup_land) =
    [(0, [5%Q]); (1, [5%Q]); (2, [5%Q; 6%Q; 6%Q]); (3, [(73 # 16)%Q; (89 # 16)%Q; (89 # 16)%Q]);
     (4, [(579 # 128)%Q; (21 # 4)%Q; (21 # 4)%Q]); (5, [(4623 # 1024)%Q; (327 # 64)%Q; (327 # 64)%Q])] /\
  xs_of (m_run (no_land ex_setup_land)) =
    [(0, [5%Q]); (1, [(25 # 8)%Q]); (2, [(7 # 4)%Q; 6%Q; 6%Q]); (3, [(89 # 16)%Q; (89 # 16)%Q]);
     (4, [(21 # 4)%Q; (21 # 4)%Q]); (5, [(81 # 16)%Q; (81 # 16)%Q])].
Proof. vm_compute. repeat split. Qed.

(** non-vacuity, continuous release: the forward set-up [ex_setup_cont] of Model/Setup.v releases every 1200 s on
    a 600 s clock: the row of file time 0 enters at steps 0 and 2 (forward fill), the rows of file time 2400
    at step 4 (tags of the particles in the three records) *)
Example C14_closed_cont_ex :
  s_cont ex_setup_cont = Some 1200 /\ setup_ok ex_setup_cont = true /\ setup_ok (shift_setup ex_setup_cont 777) = true /\
  show_run (m_run (shift_setup ex_setup_cont 777)) = show_run (m_run ex_setup_cont) /\
  show_run (sp_run ex_setup_cont) = show_run (m_run ex_setup_cont) /\
  map (fun r : rec pv => (rstep r, map (fun y : Z * Z * pv => snd (fst y)) (rrows r))) (recs (m_run ex_setup_cont)) =
    [(0, [0]); (2, [0; 0]); (4, [0; 0; 1; 1; 2])].
Proof. vm_compute. repeat split. Qed.

(** * the advection scheme inside the set-up model *)
(** the clip of tracker.py, which Model/Setup.v leaves out, never acts in a well-formed set-up: at every step of
    the run every stage position of a particle inside the valid interval is a fixed point of the clip into
    [xmin + 0.01, xmax - 0.01] = [lo - 49/100, hi + 49/100] (this is what [no_clip] in [setup_ok] buys) *)
Theorem C14_stages_never_clipped : forall s n v c,
  setup_ok s = true -> 0 <= n < s_nsteps s -> inside s (vx v) = true ->
  Forall (fun X => (Tracker.clipq (s_lo s - (49 # 100)) (s_hi s + (49 # 100)) X == X)%Q)
         (stage_points s (m_uf s n) c (vx v)).
Proof. exact stages_not_clipped. Qed.
Print Assumptions C14_stages_never_clipped.
(** the machine's flow at the fractional steps the schemes sample is the interpolation of the frames at n + f *)
Theorem C14_fractional_flow : forall s n f, setup_ok s = true -> 0 <= n < s_nsteps s -> frac_ok f ->
  (m_uf s n f == sp_uf s n f)%Q.
Proof. intros s n f Hok. apply m_uf_spec. apply setup_ok_facts. exact Hok. Qed.
Print Assumptions C14_fractional_flow.
(** the velocity of the set-up's scheme is the velocity of the tracker model's scheme (Model/Tracker.v: RK2 / RK4
    WITH the clip; tied to tracker.py by the correspondences of C01 and C09) along the particle line, for the
    velocity oracle "flow felt at the stage position at the stage fraction", whenever the stage positions lie in
    the clip box — which [C14_stages_never_clipped]'s lemma [stages_in_box] gives at every step of a run *)
Theorem C14_scheme_is_tracker_RK2 : forall s uf c x y dtdy ylo yhi,
  Forall (in_box s) (stage_points s uf c x) -> s_adv s = 1 ->
  (adv s uf c x == fst (Tracker.RK2 (vel1 s uf c) (s_dtdx s) dtdy (s_lo s - (49 # 100)) (s_hi s + (49 # 100)) ylo yhi x y))%Q.
Proof. exact adv_is_tracker_RK2. Qed.
Print Assumptions C14_scheme_is_tracker_RK2.
Theorem C14_scheme_is_tracker_RK4 : forall s uf c x y dtdy ylo yhi,
  Forall (in_box s) (stage_points s uf c x) -> s_adv s = 2 ->
  (adv s uf c x == fst (Tracker.RK4 (vel1 s uf c) (s_dtdx s) dtdy (s_lo s - (49 # 100)) (s_hi s + (49 # 100)) ylo yhi x y))%Q.
Proof. exact adv_is_tracker_RK4. Qed.
Print Assumptions C14_scheme_is_tracker_RK4.
Theorem C14_stages_in_box : forall s n v c,
  setup_ok s = true -> 0 <= n < s_nsteps s -> inside s (vx v) = true ->
  Forall (in_box s) (stage_points s (m_uf s n) c (vx v)).
Proof. exact stages_in_box. Qed.
Print Assumptions C14_stages_in_box.

(** non-vacuity, RK2 / RK4: [ex_setup_rk2] = [ex_setup] (reversed clock; flow -15, -13, -11 at the fractions 0, 1/2,
    1 of step 0) under RK2, [ex_setup_rk4] = the same on the grid dt/dx = 1/32 under RK4: both are well-formed, so are
    their shifted images, the shifted runs and the specification runs equal the runs, and the particles move
    otherwise than under EF (positions in the three records; without land RK4 and RK2 coincide — uniform flow,
    linear in time within a step); the flow of [ex_setup] is too fast for RK4 on its own grid: [no_clip] fails *)
Example C14_closed_rk_ex :
  s_adv ex_setup_rk2 = 1 /\ s_adv ex_setup_rk4 = 2 /\ setup_ok ex_setup_rk2 = true /\ setup_ok ex_setup_rk4 = true /\
  setup_ok (shift_setup ex_setup_rk2 777) = true /\ setup_ok (shift_setup ex_setup_rk4 777) = true /\
  show_run (m_run (shift_setup ex_setup_rk2 777)) = show_run (m_run ex_setup_rk2) /\
  show_run (m_run (shift_setup ex_setup_rk4 777)) = show_run (m_run ex_setup_rk4) /\
  show_run (sp_run ex_setup_rk2) = show_run (m_run ex_setup_rk2) /\
  show_run (sp_run ex_setup_rk4) = show_run (m_run ex_setup_rk4) /\
  map Qred [m_uf ex_setup_rk2 0 0; m_uf ex_setup_rk2 0 (1 # 2); m_uf ex_setup_rk2 0 1] = [(-15)%Q; (-13)%Q; (-11)%Q] /\
  xs_of (m_run ex_setup_rk2) = [(0, [5%Q]); (2, [(29 # 8)%Q; 6%Q; 6%Q]); (4, [3%Q; (91 # 16)%Q; (91 # 16)%Q])] /\
  xs_of (m_run (with_adv ex_setup_rk2 0)) = [(0, [5%Q]); (2, [(27 # 8)%Q; 6%Q; 6%Q]); (4, [(21 # 8)%Q; (45 # 8)%Q; (45 # 8)%Q])] /\
  xs_of (m_run ex_setup_rk4) = [(0, [5%Q]); (2, [(69 # 16)%Q; 6%Q; 6%Q]); (4, [4%Q; (187 # 32)%Q; (187 # 32)%Q])] /\
  xs_of (m_run (with_adv ex_setup_rk4 1)) = xs_of (m_run ex_setup_rk4) /\
  xs_of (m_run (with_adv ex_setup_rk4 0)) = [(0, [5%Q]); (2, [(67 # 16)%Q; 6%Q; 6%Q]); (4, [(61 # 16)%Q; (93 # 16)%Q; (93 # 16)%Q])] /\
  no_clip (with_adv ex_setup 2) = false /\ setup_ok (with_adv ex_setup 2) = false.
Proof. vm_compute. repeat split. Qed.

(** non-vacuity, RK2 / RK4 next to LAND: [ex_setup_land_rk2] (dt/dx = 1/16) and [ex_setup_land_rk4] (dt/dx = 1/32) have
    land in cell 4; the particle released at x = 5 sits between the masked face and an open face, so the flow it
    feels changes with the STAGE position: the three schemes give three different trajectories on the same
    set-up (positions of that particle in the first three records), RK4's division by 6 leaves the dyadic
    rationals; shift invariance and the refinement of the specification hold as for every well-formed set-up *)
Example C14_closed_rk_land_ex :
  setup_ok ex_setup_land_rk2 = true /\ setup_ok ex_setup_land_rk4 = true /\
  setup_ok (shift_setup ex_setup_land_rk2 777) = true /\ setup_ok (shift_setup ex_setup_land_rk4 777) = true /\
  show_run (m_run (shift_setup ex_setup_land_rk2 777)) = show_run (m_run ex_setup_land_rk2) /\
  show_run (m_run (shift_setup ex_setup_land_rk4 777)) = show_run (m_run ex_setup_land_rk4) /\
  show_run (sp_run ex_setup_land_rk2) = show_run (m_run ex_setup_land_rk2) /\
  show_run (sp_run ex_setup_land_rk4) = show_run (m_run ex_setup_land_rk4) /\
  map (fun r => map (firstn 1) (map snd (firstn 3 (xs_of (m_run r)))))
      [ex_setup_land_rk4; with_adv ex_setup_land_rk4 1; with_adv ex_setup_land_rk4 0] =
    [[[5%Q]; [(243257965 # 50331648)%Q]; [(2006116605294515 # 422212465065984)%Q]];
     [[5%Q]; [(19843 # 4096)%Q]; [(39965417 # 8388608)%Q]];
     [[5%Q]; [(305 # 64)%Q]; [(9573 # 2048)%Q]]] /\
  map (firstn 1) (map snd (firstn 3 (xs_of (m_run ex_setup_land_rk2)))) = [[5%Q]; [(4899 # 1024)%Q]; [(2453289 # 524288)%Q]] /\
  map (firstn 1) (map snd (firstn 3 (xs_of (m_run (with_adv ex_setup_land_rk2 0))))) = [[5%Q]; [(145 # 32)%Q]; [(2309 # 512)%Q]].
Proof. vm_compute. repeat split. Qed.
