(** C13 — Clock arithmetic: steps/times convert consistently; period spellings agree.
    Property theorems only; each closed by [exact] of a lemma from Proofs/TimeProofs.v. *)
From Coq Require Import ZArith QArith List Bool String Ascii.
From Ladim Require Import Base.Num Model.Time Proofs.TimeProofs.
Open Scope Z_scope.

(** T1: at step n (after n+1 updates of the clock) the clock reads start + n*dt, start - n*dt reversed *)
Theorem C13_clock_at_step : forall t n, 0 <= n ->
  let c := clock_after t (Z.to_nat (n + 1)) in
  cstep c = n /\ ctime c = (if rev t then start t - n * dt t else start t + n * dt t).
Proof. exact clock_at_step. Qed.
Print Assumptions C13_clock_at_step.

(** T2: number of steps = floor(|stop - start| / dt) *)
Theorem C13_nsteps_floor : forall t, 0 < dt t ->
  nsteps t * dt t <= Z.abs (stop t - start t) < (nsteps t + 1) * dt t.
Proof. exact nsteps_floor. Qed.
Print Assumptions C13_nsteps_floor.

(** T3: mutual inverses on step boundaries, all step numbers incl. negative, both directions *)
Theorem C13_time2step_step2time : forall t n, 0 < dt t -> time2step t (step2time t n) = n.
Proof. exact time2step_step2time. Qed.
Print Assumptions C13_time2step_step2time.
Theorem C13_step2time_time2step : forall t x, 0 < dt t -> (x - start t) mod dt t = 0 ->
  step2time t (time2step t x) = x.
Proof. exact step2time_time2step. Qed.
Print Assumptions C13_step2time_time2step.

(** T4: CF time value = offset from the reference time in the unit; running clock agrees *)
Theorem C13_nctime_clock : forall t n u, 0 <= n ->
  nctime t (clock_after t (Z.to_nat (n + 1))) u = step2nctime t n u.
Proof. exact nctime_clock. Qed.
Print Assumptions C13_nctime_clock.
Theorem C13_nctime_seconds : forall t n,
  (step2nctime t n 0 == inject_Z (step2time t n - ref t))%Q.
Proof. exact step2nctime_seconds. Qed.
Print Assumptions C13_nctime_seconds.

(** constructor: missing start/stop/dt and wrong direction are refused (used by C20 too) *)
Theorem C13_init_refuses_missing : forall d r rv e s,
  tk_init None e d r rv = InitExit /\ tk_init s None d r rv = InitExit /\ tk_init s e 0 r rv = InitExit.
Proof. exact tk_init_refuses_missing. Qed.
Print Assumptions C13_init_refuses_missing.
Theorem C13_init_refuses_direction : forall s e d r rv,
  (rv = true /\ s <= e) \/ (rv = false /\ e < s) -> tk_init (Some s) (Some e) d r rv = InitExit.
Proof. exact tk_init_refuses_direction. Qed.
Print Assumptions C13_init_refuses_direction.

(** T5: all accepted spellings denote the same number of seconds *)
Theorem C13_period_spellings : forall n,
  normalize_period (PInt n) = Some n /\ normalize_period (PDelta n) = Some n /\
  normalize_period (PList n "s") = Some n /\
  normalize_period (PList n "m") = Some (n * 60) /\
  normalize_period (PList n "h") = Some (n * 3600).
Proof. exact period_spellings. Qed.
Print Assumptions C13_period_spellings.

(** T6: an ISO string is accepted iff it is PT followed by optional <digits>H, <digits>M, <digits>S
    in this order with at least one present; its value is 3600 h + 60 m + s; all others rejected *)
Theorem C13_iso_recogniser_exact : forall s v,
  parse_iso s = Some v <->
  exists oh om os, wf_part oh = true /\ wf_part om = true /\ wf_part os = true /\
    some_present oh om os = true /\ s = render_iso oh om os /\
    v = 3600 * part_value oh + 60 * part_value om + part_value os.
Proof. exact iso_recogniser_exact_lemma. Qed.
Print Assumptions C13_iso_recogniser_exact.

(** non-vacuity: concrete instances *)
Example C13_ex_clock :
  let t := {| start := 1000; stop := 400; dt := 200; ref := 0; rev := true |} in
  ctime (clock_after t 3) = 600 /\ nsteps t = 3 /\ time2step t 600 = 2.
Proof. vm_compute. repeat split. Qed.
Example C13_ex_iso : parse_iso "PT1H30M" = Some 5400 /\ parse_iso "PT90M" = Some 5400
  /\ parse_iso "PT" = None /\ parse_iso "PT5S3M" = None /\ parse_iso "P1D" = None.
Proof. vm_compute. repeat split. Qed.
