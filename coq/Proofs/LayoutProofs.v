(** Sparse (ragged) and dense file layout, particle variables (C06) *)
From Coq Require Import ZArith List Bool Lia.
From Ladim Require Import Base.Num Model.State Model.Output Proofs.StateProofs.
Import ListNotations.
Open Scope Z_scope.

Lemma write_at_end {A} (arr vals : list A) : write_at (length arr) vals arr = arr ++ vals.
Proof.
  induction arr as [|x arr IH]; cbn [length write_at app].
  - rewrite skipn_nil, app_nil_r. reflexivity.
  - f_equal. exact IH.
Qed.

Lemma nth_map2l {A B C} (f : A -> B -> C) d1 d2 d : forall l1 l2 i,
  (i < length l1)%nat -> length l1 = length l2 -> nth i (map2l f l1 l2) d = f (nth i l1 d1) (nth i l2 d2).
Proof.
  induction l1 as [|x l1 IH]; intros [|y l2] i H L; cbn in *; try lia.
  destruct i as [|i]; [reflexivity|]. apply IH; lia.
Qed.
Lemma length_map2l {A B C} (f : A -> B -> C) : forall l1 l2, length l1 = length l2 -> length (map2l f l1 l2) = length l1.
Proof. induction l1 as [|x l1 IH]; intros [|y l2] L; cbn in *; try lia. f_equal. apply IH. lia. Qed.

Lemma nth_map_lt {A B} (g : A -> B) : forall l i d' d, (i < length l)%nat -> nth i (map g l) d' = g (nth i l d).
Proof. induction l as [|x l IH]; intros [|i] d' d H; cbn in *; try lia; try reflexivity. apply IH. lia. Qed.

Definition wf_snap (nvars : nat) (r : snapshot) : Prop :=
  length (cols r) = nvars /\ Forall (fun c => Z.of_nat (length c) = snap_count r) (cols r).
Definition proj (i : nat) (rs : list snapshot) : list (list Z) := map (fun r => nth i (cols r) []) rs.

Lemma sparse_fold nvars rs : forall f lic,
  Forall (wf_snap nvars) rs -> length (flat f) = nvars -> 0 <= lic ->
  Forall (fun arr => length arr = Z.to_nat lic) (flat f) ->
  let res := fold_left (fun acc r => sparse_write (fst acc) (snd acc) r) rs (f, lic) in
  counts (fst res) = counts f ++ map snap_count rs /\
  stimes (fst res) = stimes f ++ map stime rs /\
  snd res = lic + zsum (map snap_count rs) /\
  length (flat (fst res)) = nvars /\
  forall i, (i < nvars)%nat -> nth i (flat (fst res)) [] = nth i (flat f) [] ++ concat (proj i rs).
Proof.
  induction rs as [|r rs IH]; intros f lic W Lf L0 La; cbn [fold_left map proj zsum concat].
  - cbn. rewrite !app_nil_r, Z.add_0_r. repeat split; try assumption. intros i Hi. rewrite app_nil_r. reflexivity.
  - inversion W as [|? ? [Wl Wc] W']; subst.
    assert (0 <= snap_count r) as C0 by (unfold snap_count; lia).
    set (f1 := fst (sparse_write f lic r)). set (lic1 := snd (sparse_write f lic r)).
    assert (forall i, (i < length (cols r))%nat ->
              nth i (flat f1) [] = nth i (flat f) [] ++ nth i (cols r) []) as STEP.
    { intros i Hi. unfold f1, sparse_write. cbn [fst flat].
      rewrite (nth_map2l _ [] [] []) by lia.
      rewrite Forall_forall in La. rewrite <- (La (nth i (flat f) [])) by (apply nth_In; lia).
      apply write_at_end. }
    assert (length (flat f1) = length (cols r)) as L1.
    { unfold f1, sparse_write. cbn [fst flat]. rewrite length_map2l; lia. }
    assert (length (flat f1) = length (flat f)) as T1 by lia.
    assert (0 <= lic1) as T2.
    { unfold lic1, sparse_write. cbn [snd]. lia. }
    specialize (IH f1 lic1 W' T1 T2).
    assert (Forall (fun arr => length arr = Z.to_nat lic1) (flat f1)) as La1.
    { apply Forall_forall. intros arr Hin. apply (In_nth _ _ []) in Hin as (i & Hi & <-).
      assert (i < length (flat f))%nat as Hi2 by lia. assert (i < length (cols r))%nat as Hi3 by lia.
      rewrite STEP by lia. rewrite app_length.
      rewrite Forall_forall in La, Wc. rewrite (La _ (nth_In (flat f) [] Hi2)).
      specialize (Wc _ (nth_In (cols r) [] Hi3)).
      unfold lic1, sparse_write. cbn [snd]. lia. }
    specialize (IH La1). cbv zeta in IH. destruct IH as (I1 & I2 & I3 & I4 & I5).
    change (fold_left (fun acc r0 => sparse_write (fst acc) (snd acc) r0) rs (sparse_write (fst (f, lic)) (snd (f, lic)) r))
      with (fold_left (fun acc r0 => sparse_write (fst acc) (snd acc) r0) rs (f1, lic1)).
    repeat split.
    + rewrite I1. unfold f1, sparse_write. cbn. rewrite <- app_assoc. reflexivity.
    + rewrite I2. unfold f1, sparse_write. cbn. rewrite <- app_assoc. reflexivity.
    + rewrite I3. unfold lic1, sparse_write. cbn. lia.
    + exact I4.
    + intros i Hi. rewrite I5 by exact Hi. rewrite STEP by lia. cbn [proj map concat]. rewrite <- app_assoc. reflexivity.
Qed.

(** slicing a concatenation at the cumulative lengths returns the k-th piece *)
Lemma slice_concat (ls : list (list Z)) : forall k,
  (k < length ls)%nat ->
  firstn (length (nth k ls [])) (skipn (length (concat (firstn k ls))) (concat ls)) = nth k ls [].
Proof.
  induction ls as [|l ls IH]; intros k H; cbn in H; [lia|].
  destruct k as [|k]; cbn [firstn concat nth length skipn].
  - rewrite firstn_app, Nat.sub_diag, firstn_all. cbn. rewrite app_nil_r. reflexivity.
  - rewrite app_length, skipn_app. rewrite skipn_all2 by lia.
    replace (length l + length (concat (firstn k ls)) - length l)%nat with (length (concat (firstn k ls))) by lia.
    cbn [app]. apply IH. lia.
Qed.
Lemma zsum_lengths (ls : list (list Z)) : zsum (map (fun c => Z.of_nat (length c)) ls) = Z.of_nat (length (concat ls)).
Proof. induction ls as [|l ls IH]; cbn; [reflexivity|]. rewrite app_length, Nat2Z.inj_add, IH. reflexivity. Qed.

(** C06-T1: the k-th record retrieved as the documentation prescribes is the k-th snapshot *)
Theorem sparse_record_faithful nvars rs k i :
  Forall (wf_snap nvars) rs -> (k < length rs)%nat -> (i < nvars)%nat ->
  let f := fst (sparse_run nvars rs) in
  nth i (retrieve f k) [] = nth i (cols (nth k rs {| stime := 0; cols := [] |})) [] /\
  nth k (stimes f) 0 = stime (nth k rs {| stime := 0; cols := [] |}) /\
  counts f = map snap_count rs /\
  Forall (fun arr => Z.of_nat (length arr) = zsum (counts f)) (flat f).
Proof.
  intros W Hk Hi f.
  pose proof (sparse_fold nvars rs {| counts := []; flat := repeat [] nvars; stimes := [] |} 0 W
                ltac:(cbn; apply repeat_length) ltac:(lia)
                ltac:(cbn; apply Forall_forall; intros a Ha; apply repeat_spec in Ha; subst; reflexivity)) as S.
  cbv zeta in S. fold (sparse_run nvars rs) in S. fold f in S. cbn [counts stimes flat app] in S.
  destruct S as (S1 & S2 & S3 & S4 & S5).
  assert (forall j, (j < nvars)%nat -> nth j (flat f) [] = concat (proj j rs)) as FL.
  { intros j Hj. rewrite S5 by exact Hj. destruct (nth_in_or_default j (repeat (@nil Z) nvars) []) as [Hin|E].
    - apply repeat_spec in Hin. rewrite Hin. reflexivity.
    - rewrite E. reflexivity. }
  (* column lengths = counts *)
  assert (forall j, (j < nvars)%nat -> map (fun c => Z.of_nat (length c)) (proj j rs) = map snap_count rs) as CL.
  { intros j Hj. unfold proj. rewrite map_map. apply map_ext_in. intros r Hr.
    rewrite Forall_forall in W. destruct (W r Hr) as [Wl Wc]. rewrite Forall_forall in Wc.
    apply Wc. apply nth_In. lia. }
  repeat split.
  - unfold retrieve. rewrite (nth_map_lt _ (flat f) i [] []) by (rewrite S4; exact Hi).
    rewrite FL by exact Hi. rewrite S1. rewrite <- (CL i Hi).
    rewrite firstn_map, zsum_lengths, Nat2Z.id.
    rewrite (nth_map_lt _ (proj i rs) k 0 []) by (unfold proj; rewrite map_length; exact Hk). rewrite Nat2Z.id.
    rewrite slice_concat by (unfold proj; rewrite map_length; exact Hk).
    unfold proj. rewrite (nth_map_lt (fun r => nth i (cols r) []) rs k [] {| stime := 0; cols := [] |}) by exact Hk. reflexivity.
  - rewrite S2. rewrite (nth_map_lt stime rs k 0 {| stime := 0; cols := [] |}) by exact Hk. reflexivity.
  - exact S1.
  - apply Forall_forall. intros arr Hin. apply (In_nth _ _ []) in Hin as (j & Hj & <-).
    rewrite S4 in Hj. rewrite FL by exact Hj. rewrite S1, <- (CL j Hj). symmetry. apply zsum_lengths.
Qed.

(** C06-T3: dense layout — the row of a record has the particle's value at index pid iff the particle
    is present and alive, the fill value (None) otherwise *)
Lemma dense_get_combine keys : forall (vals : list Z) p, length keys = length vals ->
  dense_get (combine keys vals) p = find_by keys vals p.
Proof.
  induction keys as [|x keys IH]; intros [|v vals] p L; cbn in *; try reflexivity; try discriminate.
  destruct (x =? p); [reflexivity|]. apply IH. lia.
Qed.
Theorem dense_record_faithful s c p : State.Inv s -> (c < length (inst s))%nat ->
  dense_get (dense_write (pid s) (alive_mask s) (nth c (inst s) [])) p =
  if is_alive s p then ival s c p else None.
Proof.
  intros I Hc. unfold dense_write. destruct I as (Hn & Hi & Hb & Hl & Hp & _).
  assert (length (nth c (inst s) []) = length (pid s)) as Lc.
  { rewrite Forall_forall in Hl. apply Hl. apply nth_In. exact Hc. }
  assert (length (alive_mask s) = length (pid s)) as Lm.
  { unfold alive_mask. rewrite map_length. destruct (inst s) as [|a r]; [cbn in Hc; lia|]. inversion Hl; subst. assumption. }
  rewrite dense_get_combine by (apply length_fmask_eq; symmetry; exact Lc).
  erewrite find_by_fmask; [|symmetry; exact Lc|symmetry; exact Lm|exact Hi].
  unfold is_alive, ival. destruct (find_by (pid s) (alive_mask s) p) as [[|]|]; reflexivity.
Qed.

(** C06-T2: when a file is finished the particle variables are written for indices 0 .. npid-1:
    index pid holds the value of particle pid for EVERY particle released so far *)
Theorem particle_vars_at_pid s c p : State.Inv s -> (c < length (pvar s))%nat -> 0 <= p < npid s ->
  znth_opt (nth c (write_pvars s) []) p = pval s c p /\ pval s c p <> None.
Proof.
  intros (Hn & Hi & Hb & Hl & Hp & _) Hc Hpp. unfold write_pvars, pval.
  assert (Z.of_nat (length (nth c (pvar s) [])) = npid s) as L.
  { rewrite Forall_forall in Hp. apply Hp. apply nth_In. exact Hc. }
  rewrite (nth_map_lt _ (pvar s) c [] []) by exact Hc.
  rewrite firstn_all2 by lia. split; [reflexivity|].
  unfold znth_opt. destruct (p <? 0) eqn:E; [apply Z.ltb_lt in E; lia|].
  assert (forall (l : list Z) n, (n < length l)%nat -> nth_opt l n <> None) as G.
  { induction l as [|x l IH]; intros [|n] H; cbn in *; try lia; try discriminate. apply IH. lia. }
  apply G. lia.
Qed.
