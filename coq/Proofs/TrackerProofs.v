(** Proofs about Model/Tracker.v: C09 (valid region / land / dead), C15 (reflection), C01 (schemes) *)
From Coq Require Import ZArith QArith List Bool Lia Lqa.
From Ladim Require Import Base.Num Model.Tracker.
Import ListNotations.
Open Scope Q_scope.

(** * C09 *)
Lemma move_alive g p c :
  alive (move g p c) = alive p && match c with Some (x, y) => ingrid g x y | None => false end.
Proof. unfold move. destruct c as [[x y]|]; [destruct (active p && ingrid g x y)|]; reflexivity. Qed.

Lemma move_dead_stay_dead g p c : alive (move g p c) = true -> alive p = true.
Proof. rewrite move_alive. intro H. apply andb_true_iff in H. tauto. Qed.

Lemma move_inactive_not_moved g p c : active p = false ->
  px (move g p c) = px p /\ py (move g p c) = py p.
Proof.
  intro H. unfold move. rewrite H. cbn [andb].
  destruct c as [[x y]|]; cbn; destruct (negb (atsea g (px p) (py p))); split; reflexivity.
Qed.

Lemma move_land_cancelled g p x y :
  ingrid g x y = true -> atsea g x y = false ->
  px (move g p (Some (x, y))) = px p /\ py (move g p (Some (x, y))) = py p /\
  alive (move g p (Some (x, y))) = alive p.
Proof.
  intros I S. unfold move. rewrite I, !andb_true_r.
  destruct (active p); cbn.
  - rewrite S. cbn. repeat split.
  - destruct (negb (atsea g (px p) (py p))); repeat split.
Qed.

Lemma move_preserves_valid g p c : valid g p -> valid g (move g p c).
Proof.
  intros V A. pose proof (move_dead_stay_dead _ _ _ A) as Ap. destruct (V Ap) as [VI VS].
  rewrite move_alive, Ap in A. cbn [andb] in A.
  destruct c as [[x y]|]; [|discriminate].
  unfold move. rewrite A, !andb_true_r.
  destruct (active p); cbn.
  - destruct (atsea g x y) eqn:S; cbn; [split; assumption|split; assumption].
  - rewrite VS. cbn. split; assumption.
Qed.

Lemma move_moves_to_candidate g p x y :
  active p = true -> ingrid g x y = true -> atsea g x y = true ->
  px (move g p (Some (x, y))) = x /\ py (move g p (Some (x, y))) = y.
Proof. intros A I S. unfold move. rewrite A, I. cbn. rewrite S. cbn. split; reflexivity. Qed.

Lemma move_all_valid g ps : forall cs, Forall (valid g) ps -> Forall (valid g) (move_all g ps cs).
Proof.
  induction ps as [|p ps IH]; intros [|c cs] H; cbn; try constructor.
  - inversion H; subst. apply move_preserves_valid. assumption.
  - inversion H; subst. apply IH. assumption.
Qed.
Lemma Forall_filter {A} (P : A -> Prop) f (l : list A) : Forall P l -> Forall P (filter f l).
Proof.
  induction l as [|x l IH]; intro H; cbn; [constructor|]. inversion H; subst.
  destruct (f x); [constructor; [assumption|]|]; apply IH; assumption.
Qed.
Lemma track_valid g steps : forall ps,
  Forall (valid g) ps -> Forall (fun s => Forall (valid g) (released s)) steps ->
  Forall (valid g) (track g ps steps).
Proof.
  induction steps as [|s steps IH]; intros ps H R; cbn; [exact H|].
  inversion R; subst. apply IH; [|assumption].
  unfold track_step. apply move_all_valid. apply Forall_app. split; [apply Forall_filter; exact H|assumption].
Qed.

(** the dead stay dead through a whole step incl. removal: every particle alive after the step
    is the image of a particle that was alive before (or newly released) *)
Lemma move_all_alive_from g ps : forall cs q, In q (move_all g ps cs) -> alive q = true ->
  exists p c, In p ps /\ q = move g p c /\ alive p = true.
Proof.
  induction ps as [|p ps IH]; intros [|c cs] q H A; cbn in H; try contradiction.
  destruct H as [<-|H].
  - exists p, c. split; [left; reflexivity|]. split; [reflexivity|]. eapply move_dead_stay_dead; exact A.
  - destruct (IH cs q H A) as (p' & c' & Hin & E & Ap). exists p', c'. split; [right; exact Hin|]. tauto.
Qed.

(** valid positions index the mask inside the array: 1 <= I <= imax-2 (so no out-of-range or
    negative index is ever used by atsea/depth/metric for a living particle) *)
Lemma ingrid_cell_bounds g x y : ingrid g x y = true ->
  (1 <= cellI g x <= (gi1 g - gi0 g) - 2 /\ 1 <= cellJ g y <= (gj1 g - gj0 g) - 2)%Z.
Proof.
  unfold ingrid, cellI, cellJ, gxmin, gxmax, gymin, gymax. intro H.
  apply andb_true_iff in H as [H H4]. apply andb_true_iff in H as [H H3]. apply andb_true_iff in H as [H1 H2].
  apply Qlt_bool_true in H1, H2, H3, H4.
  pose proof (qround_spec x) as [Rx1 Rx2]. pose proof (qround_spec y) as [Ry1 Ry2].
  assert (inject_Z (gi0 g) < inject_Z (qround x)) as A1 by lra.
  assert (inject_Z (qround x) < inject_Z (gi1 g - 1)) as A2 by lra.
  assert (inject_Z (gj0 g) < inject_Z (qround y)) as A3 by lra.
  assert (inject_Z (qround y) < inject_Z (gj1 g - 1)) as A4 by lra.
  rewrite <- Zlt_Qlt in A1, A2, A3, A4. lia.
Qed.

(** * C15 *)
Lemma reflect_in_column h z d : 0 < h -> 0 <= z <= h -> - h < d < h -> 0 <= reflect h z d <= h.
Proof.
  intros Hh [Z0 Z1] [D0 D1]. unfold reflect.
  destruct (Qlt_bool (z + d) 0) eqn:E1.
  - apply Qlt_bool_true in E1. destruct (Qlt_bool h (- (z + d))) eqn:E2.
    + apply Qlt_bool_true in E2. lra.
    + apply Qlt_bool_false in E2. lra.
  - apply Qlt_bool_false in E1. destruct (Qlt_bool h (z + d)) eqn:E2.
    + apply Qlt_bool_true in E2. lra.
    + apply Qlt_bool_false in E2. lra.
Qed.
Lemma vertical_in_column h dt z wd wa : 0 < h -> 0 <= z <= h ->
  - h < (match wd with Some w => w * dt | None => 0 end) + (match wa with Some w => w * dt | None => 0 end) < h ->
  0 <= vertical h dt z wd wa <= h.
Proof.
  intros Hh Hz Hd. unfold vertical. destruct wd, wa; try (apply reflect_in_column; assumption). exact Hz.
Qed.
Lemma vertical_off_identity h dt z : vertical h dt z None None = z.
Proof. reflexivity. Qed.
(** no reflection needed: the depth moves by exactly the diffusive plus advective displacement *)
Lemma vertical_displacement h z d : 0 <= z + d <= h -> reflect h z d == z + d.
Proof.
  intros [A B]. unfold reflect.
  destruct (Qlt_bool (z + d) 0) eqn:E1; [apply Qlt_bool_true in E1; lra|].
  destruct (Qlt_bool h (z + d)) eqn:E2; [apply Qlt_bool_true in E2; lra|reflexivity].
Qed.
Lemma reflect_surface h z d : - h <= z + d < 0 -> reflect h z d == - (z + d).
Proof.
  intros [A B]. unfold reflect.
  assert (Qlt_bool (z + d) 0 = true) as -> by (apply Qlt_bool_true; exact B).
  destruct (Qlt_bool h (- (z + d))) eqn:E2; [apply Qlt_bool_true in E2; lra|reflexivity].
Qed.
Lemma reflect_bottom h z d : h < z + d -> 0 <= z + d -> reflect h z d == 2 * h - (z + d).
Proof.
  intros A B. unfold reflect.
  destruct (Qlt_bool (z + d) 0) eqn:E1; [apply Qlt_bool_true in E1; lra|].
  assert (Qlt_bool h (z + d) = true) as -> by (apply Qlt_bool_true; exact A). reflexivity.
Qed.

(** * C01 *)
Definition peq (a b : Q * Q) : Prop := fst a == fst b /\ snd a == snd b.
Definition in_box (xlo xhi ylo yhi : Q) (p : Q * Q) : Prop :=
  xlo <= fst p <= xhi /\ ylo <= snd p <= yhi.

Lemma clipq_id lo hi x : lo <= x <= hi -> clipq lo hi x == x.
Proof.
  intros [A B]. unfold clipq, Qmax', Qmin'.
  destruct (Qle_bool x hi) eqn:E1.
  - destruct (Qle_bool x lo) eqn:E2; [apply Qle_bool_true in E2; lra|reflexivity].
  - apply Qle_bool_false in E1. lra.
Qed.
Lemma clipq_range lo hi x : lo <= hi -> lo <= clipq lo hi x <= hi.
Proof.
  intro H. unfold clipq. destruct (Qmax'_spec (Qmin' x hi) lo) as (A & B & C).
  destruct (Qmin'_spec x hi) as (D & E & F). split; [exact B|].
  destruct C as [C|C]; rewrite C; [exact E|exact H].
Qed.
Lemma clip2_id xlo xhi ylo yhi p : in_box xlo xhi ylo yhi p -> peq (clip2 xlo xhi ylo yhi p) p.
Proof. intros [A B]. unfold clip2, peq. cbn. split; apply clipq_id; assumption. Qed.
(** whatever the stage position, the clipped position lies in the box: the velocity is never
    sampled outside [xmin+0.01, xmax-0.01] x [ymin+0.01, ymax-0.01] *)
Lemma clip2_in_box xlo xhi ylo yhi p : xlo <= xhi -> ylo <= yhi -> in_box xlo xhi ylo yhi (clip2 xlo xhi ylo yhi p).
Proof. intros A B. unfold clip2, in_box. cbn. split; apply clipq_range; assumption. Qed.

Section Schemes.
  Variable vel : Q -> Q -> Q -> Q * Q.
  Hypothesis vel_proper : forall c x x' y y', x == x' -> y == y' -> peq (vel c x y) (vel c x' y').
  Variables dtdx dtdy xlo xhi ylo yhi : Q.
  Notation clip := (clip2 xlo xhi ylo yhi).
  Notation box := (in_box xlo xhi ylo yhi).

  (** pre-clip stage positions of the schemes as the model computes them *)
  Definition rk2_stage1 (x y : Q) : Q * Q := let '(u, v) := vel 0 x y in rkstep dtdx dtdy x y u v (1#2).
  Definition rk4_stage1 := rk2_stage1.
  Definition rk4_stage2 (x y : Q) : Q * Q :=
    let '(x1, y1) := clip (rk4_stage1 x y) in let '(u, v) := vel (1#2) x1 y1 in rkstep dtdx dtdy x y u v (1#2).
  Definition rk4_stage3 (x y : Q) : Q * Q :=
    let '(x2, y2) := clip (rk4_stage2 x y) in let '(u, v) := vel (1#2) x2 y2 in rkstep dtdx dtdy x y u v 1.

  Lemma ef_is_tableau x y :
    peq (candidate dtdx dtdy (EF vel) x y) (rk_generic vel dtdx dtdy tab_EF x y).
  Proof.
    unfold candidate, EF, rk_generic. cbn [tab_EF tc ta tb stages dot app].
    pose proof (vel_proper 0 x (x + 0) y (y + 0) ltac:(lra) ltac:(lra)) as [A B].
    destruct (vel 0 x y) as [u v]. destruct (vel 0 (x + 0) (y + 0)) as [u' v'].
    cbn [fst snd dot] in *. split; cbn [fst snd]; [rewrite A|rewrite B]; ring.
  Qed.

  Lemma rk2_is_tableau x y : box (rk2_stage1 x y) ->
    peq (candidate dtdx dtdy (RK2 vel dtdx dtdy xlo xhi ylo yhi) x y) (rk_generic vel dtdx dtdy tab_RK2 x y).
  Proof.
    unfold candidate, RK2, rk_generic, rk2_stage1. cbn [tab_RK2 tc ta tb stages dot app]. intro B1.
    pose proof (vel_proper 0 x (x + 0) y (y + 0) ltac:(lra) ltac:(lra)) as [A1 A2].
    destruct (vel 0 x y) as [u1 v1]. destruct (vel 0 (x + 0) (y + 0)) as [u1' v1'].
    cbn [fst snd] in A1, A2.
    pose proof (clip2_id _ _ _ _ _ B1) as [C1 C2].
    destruct (clip (rkstep dtdx dtdy x y u1 v1 (1 # 2))) as [x1 y1]. unfold rkstep in C1, C2. cbn [fst snd] in C1, C2.
    assert (x1 == x + ((1 # 2) * (u1' * dtdx) + 0)) as P1 by (rewrite C1, A1; ring).
    assert (y1 == y + ((1 # 2) * (v1' * dtdy) + 0)) as P2 by (rewrite C2, A2; ring).
    pose proof (vel_proper (1#2) _ _ _ _ P1 P2) as [D1 D2].
    destruct (vel (1#2) x1 y1) as [u2 v2].
    destruct (vel (1 # 2) (x + ((1 # 2) * (u1' * dtdx) + 0)) (y + ((1 # 2) * (v1' * dtdy) + 0))) as [u2' v2'].
    cbn [fst snd dot] in *. split; cbn [fst snd]; [rewrite D1|rewrite D2]; ring.
  Qed.

  Lemma rk4_is_tableau x y : box (rk4_stage1 x y) -> box (rk4_stage2 x y) -> box (rk4_stage3 x y) ->
    peq (candidate dtdx dtdy (RK4 vel dtdx dtdy xlo xhi ylo yhi) x y) (rk_generic vel dtdx dtdy tab_RK4 x y).
  Proof.
    unfold candidate, RK4, rk_generic, rk4_stage3, rk4_stage2, rk4_stage1, rk2_stage1.
    cbn [tab_RK4 tc ta tb stages dot app]. intros B1 B2 B3.
    pose proof (vel_proper 0 x (x + 0) y (y + 0) ltac:(lra) ltac:(lra)) as [A1 A2].
    destruct (vel 0 x y) as [u1 v1]. destruct (vel 0 (x + 0) (y + 0)) as [u1' v1'].
    cbn [fst snd] in A1, A2.
    pose proof (clip2_id _ _ _ _ _ B1) as [C1 C2].
    destruct (clip (rkstep dtdx dtdy x y u1 v1 (1 # 2))) as [x1 y1]. unfold rkstep in C1, C2. cbn [fst snd] in C1, C2.
    assert (x1 == x + ((1 # 2) * (u1' * dtdx) + 0)) as P1 by (rewrite C1, A1; ring).
    assert (y1 == y + ((1 # 2) * (v1' * dtdy) + 0)) as P2 by (rewrite C2, A2; ring).
    pose proof (vel_proper (1#2) _ _ _ _ P1 P2) as [D1 D2].
    destruct (vel (1#2) x1 y1) as [u2 v2].
    destruct (vel (1 # 2) (x + ((1 # 2) * (u1' * dtdx) + 0)) (y + ((1 # 2) * (v1' * dtdy) + 0))) as [u2' v2'].
    cbn [fst snd] in D1, D2.
    pose proof (clip2_id _ _ _ _ _ B2) as [E1 E2].
    destruct (clip (rkstep dtdx dtdy x y u2 v2 (1 # 2))) as [x2 y2]. unfold rkstep in E1, E2. cbn [fst snd] in E1, E2.
    assert (x2 == x + (0 * (u1' * dtdx) + ((1 # 2) * (u2' * dtdx) + 0))) as Q1 by (rewrite E1, D1; ring).
    assert (y2 == y + (0 * (v1' * dtdy) + ((1 # 2) * (v2' * dtdy) + 0))) as Q2 by (rewrite E2, D2; ring).
    pose proof (vel_proper (1#2) _ _ _ _ Q1 Q2) as [F1 F2].
    destruct (vel (1#2) x2 y2) as [u3 v3].
    destruct (vel (1 # 2) (x + (0 * (u1' * dtdx) + ((1 # 2) * (u2' * dtdx) + 0)))
                (y + (0 * (v1' * dtdy) + ((1 # 2) * (v2' * dtdy) + 0)))) as [u3' v3'].
    cbn [fst snd] in F1, F2.
    pose proof (clip2_id _ _ _ _ _ B3) as [G1 G2].
    destruct (clip (rkstep dtdx dtdy x y u3 v3 1)) as [x3 y3]. unfold rkstep in G1, G2. cbn [fst snd] in G1, G2.
    assert (x3 == x + (0 * (u1' * dtdx) + (0 * (u2' * dtdx) + (1 * (u3' * dtdx) + 0)))) as R1 by (rewrite G1, F1; ring).
    assert (y3 == y + (0 * (v1' * dtdy) + (0 * (v2' * dtdy) + (1 * (v3' * dtdy) + 0)))) as R2 by (rewrite G2, F2; ring).
    pose proof (vel_proper 1 _ _ _ _ R1 R2) as [H1 H2].
    destruct (vel 1 x3 y3) as [u4 v4].
    destruct (vel 1 (x + (0 * (u1' * dtdx) + (0 * (u2' * dtdx) + (1 * (u3' * dtdx) + 0))))
                (y + (0 * (v1' * dtdy) + (0 * (v2' * dtdy) + (1 * (v3' * dtdy) + 0))))) as [u4' v4'].
    cbn [fst snd dot] in *. unfold rk4avg. split; cbn [fst snd].
    - rewrite A1, D1, F1, H1. field.
    - rewrite A2, D2, F2, H2. field.
  Qed.
End Schemes.
