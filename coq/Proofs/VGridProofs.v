(** Proofs about Model/VGrid.v (exact rationals). *)
From Coq Require Import ZArith QArith Qabs List Bool Lia Lqa.
From Ladim Require Import Base.Num Model.VGrid.
Import ListNotations.
Open Scope Z_scope.

(** * list predicates *)
Lemma increasing_cons a b r :
  increasing (a :: b :: r) = true <-> (a < b)%Q /\ increasing (b :: r) = true.
Proof.
  cbn [increasing]. rewrite andb_true_iff, Qlt_bool_true. reflexivity.
Qed.

Lemma increasing_tail a r : increasing (a :: r) = true -> increasing r = true.
Proof. destruct r as [|b r]; [reflexivity|]. intro H. apply increasing_cons in H. tauto. Qed.

(** head is below every later element *)
Lemma increasing_head_lt : forall r a j, increasing (a :: r) = true -> (j < length r)%nat ->
  (a < nth j r 0)%Q.
Proof.
  induction r as [|b r IH]; intros a j H L; [cbn in L; lia|].
  apply increasing_cons in H. destruct H as [Hab Hr].
  destruct j as [|j]; [exact Hab|]. cbn [nth]. cbn [length] in L.
  apply Qlt_trans with b; [exact Hab|]. apply IH; [exact Hr|lia].
Qed.

Lemma increasing_nth : forall l i j, increasing l = true -> (i < j)%nat -> (j < length l)%nat ->
  (nth i l 0 < nth j l 0)%Q.
Proof.
  induction l as [|a l IH]; intros i j H Hij Hj; [cbn in Hj; lia|].
  destruct j as [|j]; [lia|]. cbn [length] in Hj.
  destruct i as [|i].
  - cbn [nth]. apply increasing_head_lt; [exact H|lia].
  - cbn [nth]. apply IH; [apply increasing_tail in H; exact H|lia|lia].
Qed.

Lemma increasing_nth_le l i j : increasing l = true -> (i <= j)%nat -> (j < length l)%nat ->
  (nth i l 0 <= nth j l 0)%Q.
Proof.
  intros H Hij Hj. destruct (Nat.eq_dec i j) as [->|Hne]; [apply Qle_refl|].
  apply Qlt_le_weak. apply increasing_nth; [exact H|lia|exact Hj].
Qed.

Lemma headQ_nth l : headQ l = nth 0 l 0%Q.
Proof. destruct l; reflexivity. Qed.
Lemma lastQ_nth : forall l, lastQ l = nth (length l - 1) l 0%Q.
Proof.
  unfold lastQ. induction l as [|a l IH]; [reflexivity|].
  destruct l as [|b l]; [reflexivity|].
  change (last (a :: b :: l) 0%Q) with (last (b :: l) 0%Q). rewrite IH.
  cbn [length]. replace (S (S (length l)) - 1)%nat with (S (S (length l) - 1)) by lia.
  reflexivity.
Qed.

Lemma within_forall lo hi l : within lo hi l = true <-> Forall (fun x => lo <= x <= hi)%Q l.
Proof.
  unfold within. rewrite forallb_forall, Forall_forall.
  split; intros H x Hx; specialize (H x Hx).
  - apply andb_true_iff in H. destruct H as [A B]. apply Qle_bool_true in A, B. tauto.
  - apply andb_true_iff. split; apply Qle_bool_true; tauto.
Qed.

(** * searchsorted (side = 'left') *)
Lemma ss_range : forall a v, 0 <= searchsorted_left a v <= Z.of_nat (length a).
Proof.
  induction a as [|x a IH]; intro v; cbn [searchsorted_left length]; [lia|].
  specialize (IH v). destruct (Qlt_bool x v); lia.
Qed.

(** all elements before the returned index are < v *)
Lemma ss_below : forall a v i, (Z.of_nat i < searchsorted_left a v) -> (nth i a 0 < v)%Q.
Proof.
  induction a as [|x a IH]; intros v i H; cbn [searchsorted_left] in H; [lia|].
  destruct (Qlt_bool x v) eqn:E; [|lia].
  destruct i as [|i]; [apply Qlt_bool_true; exact E|].
  cbn [nth]. apply IH. lia.
Qed.

(** the element at the returned index (if any) is >= v *)
Lemma ss_at : forall a v, searchsorted_left a v < Z.of_nat (length a) ->
  (v <= nth (Z.to_nat (searchsorted_left a v)) a 0)%Q.
Proof.
  induction a as [|x a IH]; intros v H; cbn [searchsorted_left length] in *; [lia|].
  destruct (Qlt_bool x v) eqn:E.
  - pose proof (ss_range a v) as R.
    replace (Z.to_nat (1 + searchsorted_left a v)) with (S (Z.to_nat (searchsorted_left a v))) by lia.
    cbn [nth]. apply IH. lia.
  - cbn [Z.to_nat nth]. apply Qlt_bool_false. exact E.
Qed.

(** on a strictly increasing array the result is the unique insertion point of numpy's definition:
    a[i-1] < v <= a[i] *)
Lemma ss_unique a v i : increasing a = true -> 0 <= i <= Z.of_nat (length a) ->
  (forall j, (Z.of_nat j < i) -> (nth j a 0 < v)%Q) ->
  (i < Z.of_nat (length a) -> (v <= nth (Z.to_nat i) a 0)%Q) ->
  searchsorted_left a v = i.
Proof.
  intros Hinc Hi Hlo Hhi.
  pose proof (ss_range a v) as R.
  destruct (Z.lt_trichotomy (searchsorted_left a v) i) as [L|[E|G]]; [|exact E|].
  - exfalso. assert (searchsorted_left a v < Z.of_nat (length a)) as L2 by lia.
    pose proof (ss_at a v L2) as A.
    specialize (Hlo (Z.to_nat (searchsorted_left a v)) ltac:(lia)). lra.
  - exfalso. specialize (Hhi ltac:(lia)).
    pose proof (ss_below a v (Z.to_nat i) ltac:(lia)) as B. lra.
Qed.

(** * z2s_kernel *)
Section Z2S.
Variable zr : list Q.
Variable Zp : Q.
Hypothesis Hinc : increasing zr = true.
Hypothesis HN : 2 <= Z.of_nat (length zr).

Lemma z2s_bounds_lemma :
  let (K, A) := z2s_kernel zr Zp in
  1 <= K <= Z.of_nat (length zr) - 1 /\ (0 <= A <= 1)%Q.
Proof.
  unfold z2s_kernel.
  pose proof (ss_range zr (- Zp)%Q) as R.
  set (k := searchsorted_left zr (- Zp)%Q) in *.
  destruct (k =? Z.of_nat (length zr)) eqn:E1.
  - apply Z.eqb_eq in E1. split; [lia|lra].
  - apply Z.eqb_neq in E1. destruct (0 <? k) eqn:E2.
    + apply Z.ltb_lt in E2. split; [lia|].
      pose proof (ss_at zr (- Zp)%Q ltac:(fold k; lia)) as Hat. fold k in Hat.
      pose proof (ss_below zr (- Zp)%Q (Z.to_nat (k - 1)) ltac:(fold k; lia)) as Hbe.
      unfold nthQ.
      set (zk := nth (Z.to_nat k) zr 0%Q) in *.
      set (zk1 := nth (Z.to_nat (k - 1)) zr 0%Q) in *.
      assert (0 < zk - zk1)%Q as Hd by lra.
      split.
      * apply Qle_shift_div_l; [exact Hd|]. lra.
      * apply Qle_shift_div_r; [exact Hd|]. lra.
    + split; [lia|lra].
Qed.

Lemma z2s_clamped_depth_lemma :
  (weighted_depth zr (z2s_kernel zr Zp) == clamped_depth zr Zp)%Q.
Proof.
  unfold z2s_kernel, clamped_depth.
  pose proof (ss_range zr (- Zp)%Q) as R.
  set (k := searchsorted_left zr (- Zp)%Q) in *.
  rewrite headQ_nth, lastQ_nth.
  set (n := length zr) in *.
  assert (nth 0 zr 0 <= nth (n - 1) zr 0)%Q as Hends
    by (apply increasing_nth_le; [exact Hinc|lia|fold n; lia]).
  destruct (k =? Z.of_nat n) eqn:E1.
  - apply Z.eqb_eq in E1. unfold weighted_depth, nthQ.
    replace (Z.to_nat (k - 1)) with (n - 1)%nat by lia.
    pose proof (ss_below zr (- Zp)%Q (n - 1)%nat ltac:(fold k; lia)) as Hbe.
    unfold clamp, Qmin', Qmax'.
    destruct (Qle_bool (- Zp) (nth (n - 1) zr 0%Q)) eqn:F1; [apply Qle_bool_true in F1; lra|].
    destruct (Qle_bool (nth 0 zr 0%Q) (nth (n - 1) zr 0%Q)) eqn:F2; [lra|].
    apply Qle_bool_false in F2. lra.
  - apply Z.eqb_neq in E1. destruct (0 <? k) eqn:E2.
    + apply Z.ltb_lt in E2.
      pose proof (ss_at zr (- Zp)%Q ltac:(fold k; fold n; lia)) as Hat. fold k in Hat.
      pose proof (ss_below zr (- Zp)%Q (Z.to_nat (k - 1)) ltac:(fold k; lia)) as Hbe.
      assert (nth 0 zr 0 <= nth (Z.to_nat (k - 1)) zr 0)%Q as Hlo
        by (apply increasing_nth_le; [exact Hinc|lia|fold n; lia]).
      assert (nth (Z.to_nat k) zr 0 <= nth (n - 1) zr 0)%Q as Hhi
        by (apply increasing_nth_le; [exact Hinc|lia|fold n; lia]).
      unfold weighted_depth, nthQ.
      set (zk := nth (Z.to_nat k) zr 0%Q) in *.
      set (zk1 := nth (Z.to_nat (k - 1)) zr 0%Q) in *.
      rewrite clamp_id by lra.
      field. lra.
    + assert (k = 0) as K0 by (apply Z.ltb_ge in E2; lia).
      pose proof (ss_at zr (- Zp)%Q ltac:(fold k; fold n; lia)) as Hat. fold k in Hat.
      rewrite K0 in Hat. cbn [Z.to_nat] in Hat.
      unfold weighted_depth, nthQ. cbn [Z.sub Z.to_nat Z.add Z.opp Z.pos_sub].
      unfold clamp, Qmin', Qmax'.
      destruct (Qle_bool (- Zp) (nth (n - 1) zr 0%Q)) eqn:F1; [|apply Qle_bool_false in F1; lra].
      destruct (Qle_bool (nth 0 zr 0%Q) (- Zp)) eqn:F2; [apply Qle_bool_true in F2; lra|].
      lra.
Qed.

(** which branch: inside the range the lookup brackets the depth *)
Lemma z2s_bracket_lemma :
  (headQ zr < - Zp <= lastQ zr)%Q ->
  let (K, A) := z2s_kernel zr Zp in
  (nthQ zr (K - 1) < - Zp <= nthQ zr K)%Q.
Proof.
  rewrite headQ_nth, lastQ_nth. intros [Hlo Hhi].
  unfold z2s_kernel.
  pose proof (ss_range zr (- Zp)%Q) as R.
  set (k := searchsorted_left zr (- Zp)%Q) in *.
  set (n := length zr) in *.
  destruct (k =? Z.of_nat n) eqn:E1.
  - apply Z.eqb_eq in E1.
    pose proof (ss_below zr (- Zp)%Q (n - 1)%nat ltac:(fold k; lia)) as Hbe. lra.
  - apply Z.eqb_neq in E1. destruct (0 <? k) eqn:E2.
    + apply Z.ltb_lt in E2.
      pose proof (ss_at zr (- Zp)%Q ltac:(fold k; fold n; lia)) as Hat. fold k in Hat.
      pose proof (ss_below zr (- Zp)%Q (Z.to_nat (k - 1)) ltac:(fold k; lia)) as Hbe.
      unfold nthQ. split; [exact Hbe|exact Hat].
    + assert (k = 0) as K0 by (apply Z.ltb_ge in E2; lia).
      pose proof (ss_at zr (- Zp)%Q ltac:(fold k; fold n; lia)) as Hat. fold k in Hat.
      rewrite K0 in Hat. cbn [Z.to_nat] in Hat. lra.
Qed.
End Z2S.

(** * abscissae *)
Lemma injZ_pos n : 0 < n -> (0 < inject_Z n)%Q.
Proof. intro H. change 0%Q with (inject_Z 0). rewrite <- Zlt_Qlt. exact H. Qed.
Lemma injZ_succ k : (inject_Z (k + 1) == inject_Z k + 1)%Q.
Proof. rewrite inject_Z_plus. reflexivity. Qed.

(** x/d < y/d for d > 0 *)
Lemma Qdiv_lt_pos x y d : (0 < d)%Q -> (x < y)%Q -> (x / d < y / d)%Q.
Proof.
  intros Hd H. unfold Qdiv. apply Qmult_lt_compat_r; [apply Qinv_lt_0_compat; exact Hd|exact H].
Qed.
Lemma Qdiv_le_pos x y d : (0 < d)%Q -> (x <= y)%Q -> (x / d <= y / d)%Q.
Proof.
  intros Hd H. unfold Qdiv. apply Qmult_le_compat_r; [exact H|].
  apply Qlt_le_weak, Qinv_lt_0_compat; exact Hd.
Qed.

Lemma S_rho_lt N k : 0 < N -> (S_rho N k < S_rho N (k + 1))%Q.
Proof.
  intro HN. unfold S_rho. pose proof (injZ_pos N HN) as P.
  assert ((1#2) + inject_Z k < (1#2) + inject_Z (k + 1))%Q as H by (rewrite injZ_succ; lra).
  pose proof (Qdiv_lt_pos _ _ _ P H). lra.
Qed.
Lemma S_rho_range N k : 0 <= k < N -> (-(1) < S_rho N k < 0)%Q.
Proof.
  intros [Hk HN]. unfold S_rho. pose proof (injZ_pos N ltac:(lia)) as P.
  assert (0 <= inject_Z k)%Q as K0 by (change 0%Q with (inject_Z 0); rewrite <- Zle_Qle; lia).
  assert (inject_Z k + 1 <= inject_Z N)%Q as K1
    by (rewrite <- injZ_succ; rewrite <- Zle_Qle; lia).
  assert (0 < ((1#2) + inject_Z k) / inject_Z N)%Q as A.
  { apply Qlt_shift_div_l; [exact P|]. lra. }
  assert (((1#2) + inject_Z k) / inject_Z N < 1)%Q as B.
  { apply Qlt_shift_div_r; [exact P|]. lra. }
  lra.
Qed.
Lemma S_w_lt N k : 1 < N -> (S_w N k < S_w N (k + 1))%Q.
Proof.
  intro HN. unfold S_w. pose proof (injZ_pos (N - 1) ltac:(lia)) as P.
  assert (inject_Z k < inject_Z (k + 1))%Q as H by (rewrite injZ_succ; lra).
  pose proof (Qdiv_lt_pos _ _ _ P H). lra.
Qed.
Lemma S_w_range N k : 0 <= k <= N - 1 -> (-(1) <= S_w N k <= 0)%Q.
Proof.
  intros [Hk HN]. unfold S_w.
  destruct (Z.eq_dec N 1) as [->|Hne].
  - assert (k = 0) as -> by lia. change (inject_Z 0) with 0%Q. unfold Qdiv. lra.
  - pose proof (injZ_pos (N - 1) ltac:(lia)) as P.
    assert (0 <= inject_Z k)%Q as K0 by (change 0%Q with (inject_Z 0); rewrite <- Zle_Qle; lia).
    assert (inject_Z k <= inject_Z (N - 1))%Q as K1 by (rewrite <- Zle_Qle; lia).
    assert (0 <= inject_Z k / inject_Z (N - 1))%Q as A.
    { apply Qle_shift_div_l; [exact P|]. lra. }
    assert (inject_Z k / inject_Z (N - 1) <= 1)%Q as B.
    { apply Qle_shift_div_r; [exact P|]. lra. }
    lra.
Qed.
Lemma S_w_first N : (S_w N 0 == -(1))%Q.
Proof. unfold S_w. change (inject_Z 0) with 0%Q. unfold Qdiv. lra. Qed.
Lemma S_w_last N : 1 < N -> (S_w N (N - 1) == 0)%Q.
Proof.
  intro HN. unfold S_w. pose proof (injZ_pos (N - 1) ltac:(lia)) as P. field. lra.
Qed.
(** the rho abscissae of an N-level grid lie strictly between the w abscissae of its N+1 interfaces *)
Lemma S_interleave N k : 0 < N -> (S_w (N + 1) k < S_rho N k < S_w (N + 1) (k + 1))%Q.
Proof.
  intro HN. unfold S_w, S_rho. replace (N + 1 - 1) with N by lia.
  pose proof (injZ_pos N HN) as P.
  assert (inject_Z k < (1#2) + inject_Z k)%Q as H1 by lra.
  assert ((1#2) + inject_Z k < inject_Z (k + 1))%Q as H2 by (rewrite injZ_succ; lra).
  pose proof (Qdiv_lt_pos _ _ _ P H1). pose proof (Qdiv_lt_pos _ _ _ P H2). lra.
Qed.

(** * the level formula *)
Lemma vparams_ok_spec vt hc h : vparams_ok vt hc h = true ->
  (0 < h)%Q /\ (0 <= hc)%Q /\ ((vt = 1 /\ (hc <= h)%Q) \/ vt = 2).
Proof.
  unfold vparams_ok. rewrite !andb_true_iff. intros [[A B] C].
  apply Qlt_bool_true in A. apply Qle_bool_true in B.
  split; [exact A|]. split; [exact B|].
  destruct (vt =? 1) eqn:E.
  - left. apply Z.eqb_eq in E. apply Qle_bool_true in C. tauto.
  - right. apply Z.eqb_eq in C. exact C.
Qed.

Lemma zlevel2_alt hc h s c : (0 < h)%Q -> (0 <= hc)%Q ->
  (zlevel2 hc h s c == h * (hc * s + c * h) / (h + hc))%Q.
Proof. intros Hh Hc. unfold zlevel2. field. split; lra. Qed.

(** strictly increasing jointly in (s, c) *)
Lemma zlevel_mono vt hc h s1 c1 s2 c2 : vparams_ok vt hc h = true ->
  (s1 < s2)%Q -> (c1 < c2)%Q -> (zlevel vt hc h s1 c1 < zlevel vt hc h s2 c2)%Q.
Proof.
  intros Hp Hs Hc. apply vparams_ok_spec in Hp. destruct Hp as (Hh & Hhc & [[-> Hle]| ->]).
  - change (zlevel 1) with zlevel1. unfold zlevel1.
    assert (0 <= hc * (s2 - s1))%Q as A by (apply Qmult_le_0_compat; lra).
    assert (0 <= (h - hc) * (c2 - c1))%Q as B by (apply Qmult_le_0_compat; lra).
    destruct (Qlt_le_dec 0 hc) as [P|P].
    + assert (0 < hc * (s2 - s1))%Q as A' by (apply Qmult_lt_0_compat; lra). lra.
    + assert (0 < (h - hc) * (c2 - c1))%Q as B' by (apply Qmult_lt_0_compat; lra). lra.
  - change (zlevel 2) with zlevel2. rewrite !zlevel2_alt by assumption.
    apply Qdiv_lt_pos; [lra|].
    assert (0 <= h * hc * (s2 - s1))%Q as A.
    { apply Qmult_le_0_compat; [apply Qmult_le_0_compat|]; lra. }
    assert (0 < h * h * (c2 - c1))%Q as B.
    { apply Qmult_lt_0_compat; [apply Qmult_lt_0_compat|]; lra. }
    lra.
Qed.

Lemma zlevel_range vt hc h s c : vparams_ok vt hc h = true ->
  (-(1) <= s <= 0)%Q -> (-(1) <= c <= 0)%Q -> (- h <= zlevel vt hc h s c <= 0)%Q.
Proof.
  intros Hp [Hs1 Hs2] [Hc1 Hc2]. apply vparams_ok_spec in Hp.
  destruct Hp as (Hh & Hhc & [[-> Hle]| ->]).
  - change (zlevel 1) with zlevel1. unfold zlevel1.
    assert (0 <= hc * (s + 1))%Q as A by (apply Qmult_le_0_compat; lra).
    assert (0 <= (h - hc) * (c + 1))%Q as B by (apply Qmult_le_0_compat; lra).
    assert (0 <= hc * (- s))%Q as A' by (apply Qmult_le_0_compat; lra).
    assert (0 <= (h - hc) * (- c))%Q as B' by (apply Qmult_le_0_compat; lra).
    lra.
  - change (zlevel 2) with zlevel2. rewrite zlevel2_alt by assumption.
    assert (0 <= h * hc * (s + 1))%Q as A.
    { apply Qmult_le_0_compat; [apply Qmult_le_0_compat|]; lra. }
    assert (0 <= h * h * (c + 1))%Q as B.
    { apply Qmult_le_0_compat; [apply Qmult_le_0_compat|]; lra. }
    assert (0 <= h * hc * (- s))%Q as A'.
    { apply Qmult_le_0_compat; [apply Qmult_le_0_compat|]; lra. }
    assert (0 <= h * h * (- c))%Q as B'.
    { apply Qmult_le_0_compat; [apply Qmult_le_0_compat|]; lra. }
    split.
    + apply Qle_shift_div_l; [lra|]. lra.
    + apply Qle_shift_div_r; [lra|]. lra.
Qed.

Lemma zlevel_bottom vt hc h s c : vparams_ok vt hc h = true ->
  (s == -(1))%Q -> (c == -(1))%Q -> (zlevel vt hc h s c == - h)%Q.
Proof.
  intros Hp Hs Hc. apply vparams_ok_spec in Hp. destruct Hp as (Hh & Hhc & [[-> Hle]| ->]).
  - change (zlevel 1) with zlevel1. unfold zlevel1. rewrite Hs, Hc. lra.
  - change (zlevel 2) with zlevel2. unfold zlevel2. rewrite Hs, Hc. field. split; lra.
Qed.
Lemma zlevel_top vt hc h s c : vparams_ok vt hc h = true ->
  (s == 0)%Q -> (c == 0)%Q -> (zlevel vt hc h s c == 0)%Q.
Proof.
  intros Hp Hs Hc. apply vparams_ok_spec in Hp. destruct Hp as (Hh & Hhc & [[-> Hle]| ->]).
  - change (zlevel 1) with zlevel1. unfold zlevel1. rewrite Hs, Hc. lra.
  - change (zlevel 2) with zlevel2. unfold zlevel2. rewrite Hs, Hc. field. split; lra.
Qed.

(** * the walk along C *)
Section Walk.
Variable f : Q -> Q -> Q.
Hypothesis f_mono : forall s1 c1 s2 c2, (s1 < s2)%Q -> (c1 < c2)%Q -> (f s1 c1 < f s2 c2)%Q.

Lemma aux_length sf : forall C k, length (sdepth_aux f sf k C) = length C.
Proof. induction C as [|c r IH]; intro k; cbn [sdepth_aux length]; [reflexivity|]. f_equal. apply IH. Qed.

Lemma aux_increasing sf : (forall k : Z, (sf k < sf (k + 1)%Z)%Q) ->
  forall C k, increasing C = true -> increasing (sdepth_aux f sf k C) = true.
Proof.
  intros Hsf. induction C as [|a C IH]; intros k H; [reflexivity|].
  destruct C as [|b C]; [reflexivity|].
  apply increasing_cons in H. destruct H as [Hab Hr].
  cbn [sdepth_aux]. apply increasing_cons. split.
  - apply f_mono; [apply Hsf|exact Hab].
  - apply (IH (k + 1) Hr).
Qed.

Lemma aux_within sf lo hi :
  (forall s c, (-(1) <= s <= 0)%Q -> (-(1) <= c <= 0)%Q -> (lo <= f s c <= hi)%Q) ->
  forall C k, (forall j, k <= j < k + Z.of_nat (length C) -> (-(1) <= sf j <= 0)%Q) ->
  within (-(1)) 0 C = true -> within lo hi (sdepth_aux f sf k C) = true.
Proof.
  intros Hf. induction C as [|a C IH]; intros k Hsf H; [reflexivity|].
  rewrite within_forall in H. inversion H as [|x l Ha Hl]; subst.
  rewrite within_forall. cbn [sdepth_aux]. constructor.
  - apply Hf; [apply Hsf; cbn [length]; lia|exact Ha].
  - rewrite <- within_forall. apply IH.
    + intros j Hj. apply Hsf. cbn [length]. lia.
    + rewrite within_forall. exact Hl.
Qed.

Lemma aux_interleaved sw sr : (forall k : Z, (sw k < sr k)%Q /\ (sr k < sw (k + 1)%Z)%Q) ->
  forall Cw Cr k, interleaved Cw Cr = true ->
  interleaved (sdepth_aux f sw k Cw) (sdepth_aux f sr k Cr) = true.
Proof.
  intros Hs. induction Cw as [|w0 Cw IH]; intros Cr k H; [discriminate H|].
  destruct Cw as [|w1 Cw].
  - destruct Cr; [reflexivity|discriminate H].
  - destruct Cr as [|r0 Cr]; [discriminate H|].
    cbn [interleaved] in H. rewrite !andb_true_iff in H. destruct H as [[A B] C].
    apply Qlt_bool_true in A, B.
    specialize (IH Cr (k + 1) C).
    cbn [sdepth_aux interleaved] in *. rewrite !andb_true_iff. split; [split|].
    + apply Qlt_bool_true. apply f_mono; [apply Hs|exact A].
    + apply Qlt_bool_true. apply f_mono; [apply Hs|exact B].
    + exact IH.
Qed.

Lemma aux_head sf k C : C <> [] -> headQ (sdepth_aux f sf k C) = f (sf k) (headQ C).
Proof. destruct C; [congruence|reflexivity]. Qed.
Lemma aux_last sf : forall C k, C <> [] ->
  lastQ (sdepth_aux f sf k C) = f (sf (k + Z.of_nat (length C) - 1)) (lastQ C).
Proof.
  unfold lastQ. induction C as [|a C IH]; intros k H; [congruence|].
  destruct C as [|b C].
  - cbn [sdepth_aux last length]. replace (k + Z.of_nat 1 - 1) with k by lia. reflexivity.
  - change (last (sdepth_aux f sf k (a :: b :: C)) 0%Q)
      with (last (sdepth_aux f sf (k + 1) (b :: C)) 0%Q).
    rewrite IH by congruence.
    change (last (a :: b :: C) 0%Q) with (last (b :: C) 0%Q).
    f_equal. f_equal. cbn [length]. lia.
Qed.
End Walk.

Lemma interleaved_length : forall w r, interleaved w r = true -> length w = S (length r).
Proof.
  induction w as [|w0 w IH]; intros r H; [discriminate H|].
  destruct w as [|w1 w].
  - destruct r; [reflexivity|discriminate H].
  - destruct r as [|r0 r]; [discriminate H|].
    cbn [interleaved] in H. rewrite !andb_true_iff in H. destruct H as [_ C].
    cbn [length]. f_equal. apply (IH r C).
Qed.

(** * T1 *)
Lemma sdepth_length vt st hc h C : length (sdepth vt st hc h C) = length C.
Proof. unfold sdepth. apply aux_length. Qed.

Lemma sdepth_ordered_rho_lemma vt hc h C :
  vparams_ok vt hc h = true -> increasing C = true -> within (-(1)) 0 C = true ->
  increasing (sdepth vt Rho hc h C) = true /\ within (- h) 0 (sdepth vt Rho hc h C) = true.
Proof.
  intros Hp Hi Hw. unfold sdepth. set (N := Z.of_nat (length C)). split.
  - destruct C as [|a C]; [reflexivity|].
    apply aux_increasing; [intros; apply zlevel_mono; assumption| |exact Hi].
    intro k. cbn [S_at]. apply S_rho_lt. subst N. cbn [length]. lia.
  - apply aux_within; [intros; apply zlevel_range; assumption| |exact Hw].
    intros j Hj. cbn [S_at]. pose proof (S_rho_range N j ltac:(subst N; lia)). lra.
Qed.

Lemma sdepth_ordered_w_lemma vt hc h C :
  vparams_ok vt hc h = true -> increasing C = true -> within (-(1)) 0 C = true ->
  increasing (sdepth vt W hc h C) = true /\ within (- h) 0 (sdepth vt W hc h C) = true.
Proof.
  intros Hp Hi Hw. unfold sdepth. set (N := Z.of_nat (length C)). split.
  - destruct C as [|a [|b C]]; [reflexivity|reflexivity|].
    apply aux_increasing; [intros; apply zlevel_mono; assumption| |exact Hi].
    intro k. cbn [S_at]. apply S_w_lt. subst N. cbn [length]. lia.
  - apply aux_within; [intros; apply zlevel_range; assumption| |exact Hw].
    intros j Hj. cbn [S_at]. apply S_w_range. subst N. lia.
Qed.

Lemma sdepth_w_ends_lemma vt hc h C :
  vparams_ok vt hc h = true -> (headQ C == -(1))%Q -> (lastQ C == 0)%Q ->
  (headQ (sdepth vt W hc h C) == - h)%Q /\ (lastQ (sdepth vt W hc h C) == 0)%Q.
Proof.
  intros Hp H0 H1. unfold sdepth.
  destruct C as [|a [|b C]].
  - exfalso. cbn in H0. lra.
  - exfalso. cbn in H0, H1. lra.
  - set (L := a :: b :: C) in *. set (N := Z.of_nat (length L)).
    assert (L <> []) as Hne by (subst L; congruence).
    assert (1 < N) as HN by (subst N L; cbn [length]; lia).
    rewrite aux_head, aux_last by exact Hne. split.
    + apply zlevel_bottom; [exact Hp| |exact H0]. cbn [S_at]. apply S_w_first.
    + apply zlevel_top; [exact Hp| |exact H1]. cbn [S_at].
      replace (0 + Z.of_nat (length L) - 1) with (N - 1) by (subst N; lia).
      apply S_w_last. exact HN.
Qed.

Lemma sdepth_interleaved_lemma vt hc h Cw Cr :
  vparams_ok vt hc h = true -> interleaved Cw Cr = true ->
  interleaved (sdepth vt W hc h Cw) (sdepth vt Rho hc h Cr) = true.
Proof.
  intros Hp Hi. unfold sdepth.
  pose proof (interleaved_length _ _ Hi) as HL. rewrite HL.
  destruct Cr as [|r0 Cr].
  - destruct Cw as [|w0 [|w1 Cw]]; try discriminate. reflexivity.
  - set (N := Z.of_nat (length (r0 :: Cr))).
    assert (0 < N) as HN by (subst N; cbn [length]; lia).
    replace (Z.of_nat (S (length (r0 :: Cr)))) with (N + 1) by (subst N; lia).
    apply aux_interleaved; [intros; apply zlevel_mono; assumption| |exact Hi].
    intro k. cbn [S_at]. apply S_interleave. exact HN.
Qed.
