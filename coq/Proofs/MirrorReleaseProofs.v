(** C10: the release schedule of a time-reversed set-up equals that of the forward set-up over the
    mirrored time axis with mirrored release times (discrete release, cold or warm). *)
From Coq Require Import ZArith List Bool Lia.
From Ladim Require Import Base.Num Model.Time Model.Release Proofs.SymmetryProofs.
Import ListNotations.
Open Scope Z_scope.

Definition mirror_row (t : tk) (r : row) : row := {| rt := mirror_time t (rt r); rmult := rmult r; rvals := rvals r |}.

Lemma filter_time_mirror t (p q : Z -> bool) tab :
  (forall x, q (mirror_time t x) = p x) ->
  filter_time q (map (mirror_row t) tab) = map (mirror_row t) (filter_time p tab).
Proof.
  intro H. unfold filter_time. induction tab as [|r tab IH]; cbn [map filter]; [reflexivity|].
  cbn [mirror_row rt]. rewrite H. destruct (p (rt r)); cbn [map]; rewrite IH; reflexivity.
Qed.

Lemma before_stop_mirror t x : before_stop (mirror_tk t) (mirror_time t x) = before_stop t x.
Proof.
  unfold before_stop, mirror_tk, mirror_time. cbn [rev stop start]. destruct (rev t); cbn [negb].
  - destruct (stop t <? x) eqn:E; [apply Z.ltb_lt in E; apply Z.ltb_lt; lia|apply Z.ltb_ge in E; apply Z.ltb_ge; lia].
  - destruct (x <? stop t) eqn:E; [apply Z.ltb_lt in E; apply Z.ltb_lt; lia|apply Z.ltb_ge in E; apply Z.ltb_ge; lia].
Qed.
Lemma from_start_mirror t x : from_start (mirror_tk t) (mirror_time t x) = from_start t x.
Proof.
  unfold from_start, mirror_tk, mirror_time. cbn [rev stop start]. destruct (rev t); cbn [negb].
  - destruct (x <=? start t) eqn:E; [apply Z.leb_le in E; apply Z.leb_le; lia|apply Z.leb_gt in E; apply Z.leb_gt; lia].
  - destruct (start t <=? x) eqn:E; [apply Z.leb_le in E; apply Z.leb_le; lia|apply Z.leb_gt in E; apply Z.leb_gt; lia].
Qed.
Lemma after_start_mirror t x : after_start (mirror_tk t) (mirror_time t x) = after_start t x.
Proof.
  unfold after_start, mirror_tk, mirror_time. cbn [rev stop start]. destruct (rev t); cbn [negb].
  - destruct (x <? start t) eqn:E; [apply Z.ltb_lt in E; apply Z.ltb_lt; lia|apply Z.ltb_ge in E; apply Z.ltb_ge; lia].
  - destruct (start t <? x) eqn:E; [apply Z.ltb_lt in E; apply Z.ltb_lt; lia|apply Z.ltb_ge in E; apply Z.ltb_ge; lia].
Qed.

Lemma map_rt_mirror t tab : map rt (map (mirror_row t) tab) = map (mirror_time t) (map rt tab).
Proof. rewrite !map_map. reflexivity. Qed.

Lemma uniq_mirror t l : uniq (map (mirror_time t) l) = map (mirror_time t) (uniq l).
Proof.
  induction l as [|x l IH]; cbn [map uniq]; [reflexivity|]. f_equal. rewrite IH.
  generalize (uniq l). intro u. induction u as [|y u IHu]; cbn [map filter]; [reflexivity|].
  assert ((mirror_time t y =? mirror_time t x) = (y =? x)) as E.
  { unfold mirror_time. destruct (y =? x) eqn:F; [apply Z.eqb_eq in F; apply Z.eqb_eq; lia|apply Z.eqb_neq in F; apply Z.eqb_neq; lia]. }
  rewrite E. destruct (negb (y =? x)); cbn [map]; rewrite IHu; reflexivity.
Qed.

Lemma rows_at_mirror t x tab : rows_at (mirror_time t x) (map (mirror_row t) tab) = map (mirror_row t) (rows_at x tab).
Proof.
  unfold rows_at. apply filter_time_mirror. intro y. unfold mirror_time.
  destruct (x =? y) eqn:F; [apply Z.eqb_eq in F; apply Z.eqb_eq; lia|apply Z.eqb_neq in F; apply Z.eqb_neq; lia].
Qed.

Lemma group_by_time_mirror t tab :
  group_by_time (map (mirror_row t) tab) = map (map (mirror_row t)) (group_by_time tab).
Proof.
  unfold group_by_time. rewrite map_rt_mirror, uniq_mirror, !map_map. apply map_ext. intro x. apply rows_at_mirror.
Qed.

Definition mirror_res (t : tk) (r : init_res) : init_res :=
  match r with
  | RelExit => RelExit
  | RelOk tab groups steps => RelOk (map (mirror_row t) tab) (map (map (mirror_row t)) groups) steps
  end.

Definition finish_init (t : tk) (warm : bool) (d4 : list row) : init_res :=
  match d4, warm with
  | [], false => RelExit
  | _, _ => RelOk d4 (group_by_time d4) (map (time2step t) (uniq (map rt d4)))
  end.
Lemma finish_init_nonempty t warm l : l <> [] ->
  finish_init t warm l = RelOk l (group_by_time l) (map (time2step t) (uniq (map rt l))).
Proof. intro H. unfold finish_init. destruct l as [|r l]; [contradiction|]. destruct warm; reflexivity. Qed.
Lemma finish_init_mirror t warm d4 :
  finish_init (mirror_tk t) warm (map (mirror_row t) d4) = mirror_res t (finish_init t warm d4).
Proof.
  assert (map (time2step (mirror_tk t)) (uniq (map rt (map (mirror_row t) d4))) = map (time2step t) (uniq (map rt d4))) as S.
  { rewrite map_rt_mirror, uniq_mirror, map_map. apply map_ext. intro x. apply time2step_mirror. }
  destruct d4 as [|r d4].
  - destruct warm; reflexivity.
  - rewrite (finish_init_nonempty (mirror_tk t)) by (cbn [map]; discriminate).
    rewrite (finish_init_nonempty t) by discriminate.
    cbn [mirror_res]. rewrite group_by_time_mirror, S. reflexivity.
Qed.
Lemma rel_init_unfold t warm tab :
  rel_init t None warm tab =
  match filter_time (before_stop t) tab with
  | [] => RelExit
  | d1 => let d3 := filter_time (from_start t) d1 in
          finish_init t warm (if warm then filter_time (after_start t) d3 else d3)
  end.
Proof. unfold rel_init, finish_init. destruct (filter_time (before_stop t) tab); reflexivity. Qed.

(** start-up of the releaser: the mirrored forward set-up is refused iff the reversed one is, keeps the
    mirrored rows in the same groups, and — the point — computes the SAME list of release steps *)
Theorem rel_init_mirror t warm tab :
  rel_init (mirror_tk t) None warm (map (mirror_row t) tab) = mirror_res t (rel_init t None warm tab).
Proof.
  rewrite !rel_init_unfold.
  rewrite (filter_time_mirror t (before_stop t) (before_stop (mirror_tk t))) by (intro; apply before_stop_mirror).
  destruct (filter_time (before_stop t) tab) as [|r0 d1]; [reflexivity|].
  change (map (mirror_row t) (r0 :: d1)) with (mirror_row t r0 :: map (mirror_row t) d1).
  lazy beta iota zeta. change (mirror_row t r0 :: map (mirror_row t) d1) with (map (mirror_row t) (r0 :: d1)).
  rewrite (filter_time_mirror t (from_start t) (from_start (mirror_tk t))) by (intro; apply from_start_mirror).
  destruct warm.
  - rewrite (filter_time_mirror t (after_start t) (after_start (mirror_tk t))) by (intro; apply after_start_mirror).
    apply finish_init_mirror.
  - apply finish_init_mirror.
Qed.
